#!/bin/bash
# tools/run_all_wt.sh <worktree> [tier] [PID...] : every claimed check against a scratch worktree (never /repo); used to see that
# behaviour-preserving rewrites of the code raise no alarm.  VERIF_ESC=1 keeps the fingerprint escalation on.
cd "$(dirname "$0")/.." || exit 2
WT=$1; TIER=${2:-quick}; shift 2
IDS="$@"; [ -z "$IDS" ] && IDS=$(python3 -c "import json;print(' '.join(c['property_id'] for c in json.load(open('MANIFEST.json'))['checks']))")
for P in $IDS; do
  if [ "${VERIF_ESC:-0}" = 1 ]; then E=0; else E=1; fi
  OUT=$(VERIF_REPO=$WT VERIF_NO_FINGERPRINT_ESCALATION=$E VERIF_EVIDENCE_DIR=/tmp/_wt_evidence VERIF_REPLAY_DIR=/tmp/_wt_replays ./check $P --tier $TIER 2>&1); RC=$?
  echo "$P rc=$RC $(echo "$OUT" | tail -1)"
  [ $RC -ne 0 ] && echo "$OUT" | grep -E "VIOLATION|Error|error" | head -5
done
