#!/bin/bash
# tools/try_mutation.sh <worktree> <PID> <name> [extra PIDs to run]
# 1. confirm the demo passes on the clean scratch worktree and fails with patch.diff applied
# 2. store patch/demo/meta under seeded/<name>/
# 3. apply the patch to /repo, run the check(s), undo it straight afterwards
WT=$1; PID=$2; NAME=$3; shift 3
set -u
cd "$WT" || exit 2
cp patch.diff /tmp/_patch.diff
git checkout -q -- dnplab
PYTHONPATH=$WT /venv/bin/python demo.py >/tmp/_demo_without.log 2>&1; WO=$?
git apply /tmp/_patch.diff || { echo "patch.diff does not apply in worktree"; exit 2; }
PYTHONPATH=$WT /venv/bin/python demo.py >/tmp/_demo_with.log 2>&1; W=$?
echo "demo with patch: exit $W ; without: exit $WO"
mkdir -p /verif/seeded/$NAME
cp /tmp/_patch.diff /verif/seeded/$NAME/patch.diff; cp demo.py /verif/seeded/$NAME/demo.py
[ -f meta.json ] && cp meta.json /verif/seeded/$NAME/meta.json
cd /verif
git -C /repo apply /verif/seeded/$NAME/patch.diff || { echo "patch does not apply to /repo"; exit 2; }
for P in $PID "$@"; do
  VERIF_NO_FINGERPRINT_ESCALATION=1 VERIF_EVIDENCE_DIR=/tmp/_seeded_evidence VERIF_REPLAY_DIR=/tmp/_seeded_replays ./check $P > /tmp/_check_$P.log 2>&1; echo "check $P exit $? : $(grep -E 'VIOLATION|KNOWN' /tmp/_check_$P.log | head -3)"
done
git -C /repo checkout -- . ; git -C /repo status --short | head -3
