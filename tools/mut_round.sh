#!/bin/bash
# tools/mut_round.sh <suffix> <PID>... : one scratch worktree per property under /tmp and the task text for a sub-agent (in /tmp/task_<PID><suffix>.txt)
cd "$(dirname "$0")/.." || exit 2
SUF=$1; shift
for P in "$@"; do
  WT=/tmp/mut_${P}${SUF}
  git -C /repo worktree add --detach -q $WT HEAD || exit 2
  python3 - "$P" <<'PY' > /tmp/prop_$P.json
import json, sys
for l in open('/verif/properties.jsonl'):
    d = json.loads(l)
    if d['id'] == sys.argv[1]:
        print(json.dumps(d, indent=1))
PY
  cp /tmp/prop_$P.json $WT/property.json
  HINT=$(python3 - "$P" <<'PY'
import json, glob, sys
ws = []
for f in sorted(glob.glob('/verif/seeded/%s-*/meta.json' % sys.argv[1])):
    try: ws.append(json.load(open(f))['what'])
    except Exception: pass
print("Changes of the following kinds are ALREADY COVERED by earlier volunteers, so find a DIFFERENT one (another function, another code path, another kind of mistake): " + " | ".join(ws))
PY
)
  python3 tools/mut_prompt.py $WT $WT/property.json "$HINT" > /tmp/task_${P}${SUF}.txt
  echo "$WT /tmp/task_${P}${SUF}.txt"
done
