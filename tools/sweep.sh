#!/bin/bash
# tools/sweep.sh <tier> <seed...> : run every claimed check for each seed; print non-zero exits
cd "$(dirname "$0")/.." || exit 2
TIER=$1; shift
(cd lean && lake build DnpModel DnpProofs >/dev/null 2>&1)
IDS=$(python3 -c "import json;print(' '.join(c['property_id'] for c in json.load(open('MANIFEST.json'))['checks']))")
for S in "$@"; do for P in $IDS; do
  OUT=$(VERIF_SEED=$S ./check $P --tier $TIER 2>&1); RC=$?
  echo "seed=$S $P rc=$RC $(echo "$OUT" | tail -1)"
  [ $RC -ne 0 ] && echo "$OUT" | grep -E "VIOLATION|Error|error" | head -5
done; done
