#!/venv/bin/python
"""developer helper: run a property module's correspondence + oracles without the Lean stage"""
import sys, os, json, importlib, time
from collections import Counter
sys.path.insert(0, os.path.join(os.path.dirname(os.path.dirname(os.path.abspath(__file__))), "harness"))
pid = sys.argv[1]; tier = sys.argv[2] if len(sys.argv) > 2 else "quick"; seed = int(sys.argv[3]) if len(sys.argv) > 3 else 0
mod = importlib.import_module("props." + pid)
t0 = time.time()
r = mod.run(tier=tier, seed=seed)
print(pid, "evals", r["evaluations"], "nontrivial", r["distinct_nontrivial"], "mismatches", len(r["mismatches"]),
      "impl_failures", [f["key"] for f in r["impl_failures"]], "%.1fs" % (time.time() - t0))
c = Counter()
for m in r["mismatches"]:
    c[(str(m["ops"][-1].get("op", m["ops"][-1].get("kit", "?"))) + "." + str(m["ops"][-1].get("f", "")), tuple(m["diffs"])[:3])] += 1
for k, v in c.most_common(15):
    print("  ", v, k)
print("  outcomes", r["distribution"].get("outcomes"))
json.dump({"mismatches": r["mismatches"][:20], "impl_failures": r["impl_failures"][:20]}, open("/tmp/dev_%s.json" % pid, "w"), default=str)
