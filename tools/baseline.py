#!/usr/bin/env python3
"""Runs /repo's pinned test suite (guard off) and compares with /root/.vp/BASELINE.json's stable_pass."""
import json, os, subprocess, sys, tempfile, xml.etree.ElementTree as ET
base = json.load(open("/root/.vp/BASELINE.json"))
with tempfile.TemporaryDirectory() as td:
    x = os.path.join(td, "j.xml")
    env = dict(os.environ); env.pop("DNPLAB_VERIF", None)
    subprocess.run(["/venv/bin/python", "-m", "pytest", "-ra", "-q", "-p", "no:cacheprovider", "--timeout=900",
                    "--continue-on-collection-errors", "--junitxml=" + x], cwd="/repo", env=env,
                   stdout=subprocess.DEVNULL, stderr=subprocess.DEVNULL)
    passed = set()
    for tc in ET.parse(x).getroot().iter("testcase"):
        if not any(c.tag in ("failure", "error", "skipped") for c in tc):
            passed.add(tc.get("classname") + "::" + tc.get("name"))
missing = [t for t in base["stable_pass"] if t not in passed]
print("baseline: %d/%d stable tests pass" % (len(base["stable_pass"]) - len(missing), len(base["stable_pass"])))
for m in missing:
    print("  MISSING", m)
sys.exit(1 if missing else 0)
