#!/bin/bash
# tools/run_seeded.sh [name...] : apply each seeded patch to /repo, run its property's quick check, undo; writes seeded/RESULTS.md
cd "$(dirname "$0")/.." || exit 2
NAMES="$@"; [ -z "$NAMES" ] && NAMES=$(ls seeded | grep -v RESULTS)
echo "| seeded change | property | check exit | verdict line |" > /tmp/_res.md; echo "|---|---|---|---|" >> /tmp/_res.md
for N in $NAMES; do
  P=${N%%-*}
  git -C /repo apply "$PWD/seeded/$N/patch.diff" 2>/dev/null || { echo "| $N | $P | - | patch does not apply to the current /repo |" >> /tmp/_res.md; continue; }
  OUT=$(VERIF_NO_FINGERPRINT_ESCALATION=1 VERIF_EVIDENCE_DIR=/tmp/_seeded_evidence VERIF_REPLAY_DIR=/tmp/_seeded_replays ./check $P 2>&1); RC=$?
  git -C /repo checkout -- .
  V=$(echo "$OUT" | grep -E "VIOLATION" | head -1 | sed 's|/verif/||')
  echo "| $N | $P | $RC | ${V:-none} |" >> /tmp/_res.md
  echo "$N rc=$RC ${V:-none}"
done
cp /tmp/_res.md seeded/RESULTS.md
