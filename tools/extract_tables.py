#!/usr/bin/env python3
"""Regenerates lean/DnpModel/Generated/*.lean from /repo's current source (idempotent:
a file is rewritten only when its content changes, so lake rebuilds only then)."""
import ast, os, sys, configparser, json

VERIF = os.path.dirname(os.path.dirname(os.path.abspath(__file__)))
REPO = os.environ.get("VERIF_REPO", "/repo")
GEN = os.path.join(VERIF, "lean", "DnpModel", "Generated")


def write_if_changed(path, text):
    os.makedirs(os.path.dirname(path), exist_ok=True)
    if os.path.exists(path) and open(path).read() == text:
        return
    with open(path, "w") as fh:
        fh.write(text)


def lean_str(s):
    return '"' + s.replace("\\", "\\\\").replace('"', '\\"') + '"'


def main():
    gens = []
    for name in sorted(globals()):
        if name.startswith("gen_"):
            gens.append(globals()[name])
    for g in gens:
        fname, text = g()
        write_if_changed(os.path.join(GEN, fname), text)
    return 0


if __name__ == "__main__":
    sys.exit(main())
