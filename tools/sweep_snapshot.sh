#!/bin/bash
# tools/sweep_snapshot.sh <tier> <seed...> : run the sweep from a snapshot copy of /verif (so that work can go on here);
# /repo is still read live — do not modify it while this runs.  Output: /tmp/verif_snap_sweep.log
SNAP=/tmp/verif_snap
rm -rf $SNAP; mkdir -p $SNAP
rsync -a --exclude .git --exclude replays /verif/ $SNAP/
cd $SNAP && mkdir -p replays && tools/sweep.sh "$@" > /tmp/verif_snap_sweep.log 2>&1
