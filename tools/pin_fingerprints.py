#!/usr/bin/env python3
"""Pins, per property, a fingerprint of every anchored source file of /repo (sha256 of the token stream, so comments and
layout do not count; raw bytes for non-Python files) into fingerprints.json.  A check run that finds a different
fingerprint escalates its exploration to the thorough budget (the model was validated against another text) — that is
not a violation by itself.  Re-pin after every accepted change of /repo:  python3 tools/pin_fingerprints.py"""
import ast, glob, hashlib, json, os, sys

VERIF = os.path.dirname(os.path.dirname(os.path.abspath(__file__)))


def file_fp(path):
    raw = open(path, "rb").read()
    if path.endswith(".py"):
        # token stream without comments / blank lines / layout: the same under every Python version
        import io, tokenize
        try:
            toks = []
            for t in tokenize.generate_tokens(io.StringIO(raw.decode("utf-8", "replace")).readline):
                if t.type in (tokenize.COMMENT, tokenize.NL, tokenize.NEWLINE, tokenize.ENCODING, tokenize.ENDMARKER):
                    continue
                toks.append("<I>" if t.type == tokenize.INDENT else "<D>" if t.type == tokenize.DEDENT else t.string)
            return hashlib.sha256("\x00".join(toks).encode()).hexdigest()[:20]
        except (tokenize.TokenError, IndentationError):
            pass
    return hashlib.sha256(raw).hexdigest()[:20]


def fingerprints(repo, pid=None):
    out = {}
    for line in open(os.path.join(VERIF, "properties.jsonl")):
        p = json.loads(line)
        if pid and p["id"] != pid:
            continue
        fp = {}
        for pat in p["anchors"].get("files", []):
            for f in sorted(glob.glob(os.path.join(repo, pat))):
                fp[os.path.relpath(f, repo)] = file_fp(f)
        out[p["id"]] = fp
    return out


if __name__ == "__main__":
    repo = os.environ.get("VERIF_REPO", "/repo")
    json.dump(fingerprints(repo), open(os.path.join(VERIF, "fingerprints.json"), "w"), indent=1, sort_keys=True)
    print("pinned", os.path.join(VERIF, "fingerprints.json"))
