#!/usr/bin/env python3
"""Pins, per property, a fingerprint of every anchored source file of /repo (sha256 of the source lines without blank and comment-only lines; raw bytes for non-Python files) into fingerprints.json.  A check run that finds a different
fingerprint escalates its exploration to the thorough budget (the model was validated against another text) — that is
not a violation by itself.  Re-pin after every accepted change of /repo:  python3 tools/pin_fingerprints.py"""
import ast, glob, hashlib, json, os, sys

VERIF = os.path.dirname(os.path.dirname(os.path.abspath(__file__)))


def file_fp(path):
    raw = open(path, "rb").read()
    if path.endswith(".py"):
        # lines without blank lines, comment-only lines and trailing blanks: the same under every Python version
        lines = []
        for ln in raw.decode("utf-8", "replace").splitlines():
            t = ln.rstrip()
            if not t or t.lstrip().startswith("#"):
                continue
            lines.append(t)
        return hashlib.sha256("\n".join(lines).encode()).hexdigest()[:20]
    return hashlib.sha256(raw).hexdigest()[:20]


def fingerprints(repo, pid=None):
    out = {}
    for line in open(os.path.join(VERIF, "properties.jsonl")):
        p = json.loads(line)
        if pid and p["id"] != pid:
            continue
        fp = {}
        for pat in p["anchors"].get("files", []):
            for f in sorted(glob.glob(os.path.join(repo, pat))):
                fp[os.path.relpath(f, repo)] = file_fp(f)
        out[p["id"]] = fp
    return out


if __name__ == "__main__":
    repo = os.environ.get("VERIF_REPO", "/repo")
    json.dump(fingerprints(repo), open(os.path.join(VERIF, "fingerprints.json"), "w"), indent=1, sort_keys=True)
    print("pinned", os.path.join(VERIF, "fingerprints.json"))
