#!/bin/bash
# tools/try_mutation_wt.sh <worktree> <PID> [extra PIDs] : like try_mutation.sh, but /repo is never touched — the checks run
# against the scratch worktree (VERIF_REPO), so /repo stays usable for other runs meanwhile.
# 1. demo passes on the clean worktree and fails with patch.diff applied   2. stored under seeded/<PID>-<name>/
# 3. the property's quick check (and any extra ones) against the worktree with the patch applied
WT=$1; PID=$2; shift 2
set -u
cd "$WT" || exit 2
NAME=$PID-$(python3 -c "import json;print(json.load(open('meta.json'))['name'])") || exit 2
cp patch.diff /tmp/_patch_$PID.diff
git checkout -q -- dnplab
PYTHONPATH=$WT /venv/bin/python demo.py >/tmp/_demo_without_$PID.log 2>&1; WO=$?
git apply /tmp/_patch_$PID.diff || { echo "$NAME: patch.diff does not apply in worktree"; exit 2; }
PYTHONPATH=$WT /venv/bin/python demo.py >/tmp/_demo_with_$PID.log 2>&1; W=$?
T=$(cd $WT && PYTHONPATH=$WT /venv/bin/python -m pytest -q -p no:cacheprovider -p no:hypothesispytest unittests 2>&1 | tail -1)
echo "$NAME: demo with patch: exit $W ; without: exit $WO ; pytest: $T"
mkdir -p /verif/seeded/$NAME
cp /tmp/_patch_$PID.diff /verif/seeded/$NAME/patch.diff; cp demo.py meta.json /verif/seeded/$NAME/
cd /verif
for P in $PID "$@"; do
  VERIF_REPO=$WT VERIF_NO_FINGERPRINT_ESCALATION=1 VERIF_EVIDENCE_DIR=/tmp/_seeded_evidence VERIF_REPLAY_DIR=/tmp/_seeded_replays ./check $P > /tmp/_check_${PID}_$P.log 2>&1
  echo "$NAME: check $P exit $? : $(grep -E 'VIOLATION|KNOWN' /tmp/_check_${PID}_$P.log | head -3)"
done
