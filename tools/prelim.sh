#!/bin/bash
# tools/prelim.sh <worktree> <PID> [seed] : run the property's harness module (no Lean stage) against a scratch worktree
cd "$(dirname "$0")/.." || exit 2
VERIF_REPO=$1 PYTHONPATH=$1 tools/dev_run.py $2 quick ${3:-0} 2>&1 | grep -E "mismatches|impl_fail|Error|Traceback" | cut -c1-500
