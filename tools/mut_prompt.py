import sys
TEMPLATE = open(__import__('os').path.join(__import__('os').path.dirname(__import__('os').path.abspath(__file__)), 'mut_prompt_template.txt')).read()
wt, prop, hint = sys.argv[1], sys.argv[2], sys.argv[3]
print(TEMPLATE.replace('{WT}', wt).replace('{PROP}', prop).replace('{HINT}', hint))
