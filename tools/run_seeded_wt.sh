#!/bin/bash
# tools/run_seeded_wt.sh [name...] : like run_seeded.sh, but /repo is never touched — each patch is applied in ONE scratch worktree
# of /repo's HEAD and the check runs against it (VERIF_REPO); the generated Lean tables are left alone (VERIF_SKIP_EXTRACT), so the
# sweep can run next to regular checks.  Writes seeded/RESULTS.md.
cd "$(dirname "$0")/.." || exit 2
NAMES="$@"; [ -z "$NAMES" ] && NAMES=$(ls seeded | grep -v RESULTS)
WT=/tmp/_seeded_wt_$$; git -C /repo worktree remove --force $WT 2>/dev/null; git -C /repo worktree add --detach -q $WT HEAD || exit 2
OUTF=/tmp/_res_wt_$$.md
echo "| seeded change | property | check exit | verdict line |" > $OUTF; echo "|---|---|---|---|" >> $OUTF
for N in $NAMES; do
  P=${N%%-*}
  git -C $WT apply "$PWD/seeded/$N/patch.diff" 2>/dev/null || { echo "| $N | $P | - | patch does not apply to the current /repo |" >> $OUTF; echo "$N does-not-apply"; continue; }
  OUT=$(VERIF_REPO=$WT VERIF_SKIP_EXTRACT=1 VERIF_NO_FINGERPRINT_ESCALATION=1 VERIF_EVIDENCE_DIR=/tmp/_seeded_evidence VERIF_REPLAY_DIR=/tmp/_seeded_replays ./check $P 2>&1); RC=$?
  git -C $WT checkout -q -- . ; git -C $WT clean -fdq
  V=$(echo "$OUT" | grep -E "VIOLATION" | head -1 | sed 's|/tmp/_seeded_replays/|replays/|')
  echo "| $N | $P | $RC | ${V:-none} |" >> $OUTF
  echo "$N rc=$RC ${V:-none}"
done
cp $OUTF ${VERIF_RESULTS_OUT:-seeded/RESULTS.md}
git -C /repo worktree remove --force $WT
