#!/usr/bin/env python3
"""Writes MANIFEST.json from the table below (single source of truth for the claimed checks)."""
import json, os
VERIF = os.path.dirname(os.path.dirname(os.path.abspath(__file__)))
LN = ("Lean 4.33.0 kernel, axioms limited to propext/Classical.choice/Quot.sound (audited by #print axioms on every "
      "run); NumPy/h5py/struct primitives are modelled by their index-level specification (L0, trusted, compared "
      "against the real library in the correspondence run); the hand-written L1 model is tied to /repo by the "
      "correspondence run of this check; floating-point rounding is outside every theorem")
CLAIMS = {
 "C01": ("theorems: every operation of the public alphabet preserves Data.Consistent (any rank/extent/argument); tie: random histories + per-op enumeration through real code and Lean `step`, consistency oracle on every object after every step", "5 C01"),
 "C02": ("theorems: reorder/sort_dims are by-name permutations (value at every label kept, coords kept), unfold∘fold = id for every rank and position; tie: differential run with self-describing values + label-dictionary oracle", "5 C02"),
 "C03": ("theorems: frame and raise-frame of the workspace model for all 32 operations and all histories (specification the code is compared to); tie: whole-store deep snapshots before/after every real call, shared-state identity checks", "5 C03"),
 "C04": ("theorems: binop_spec (element-wise by NAME for every pair of dim lists, broadcasting), succeeds iff shared coords agree, permutation invariance, scalar/array variants; tie: enumerated dim-list pairs through real code and model + order-free oracle", "5 C04"),
 "C05": ("theorems: int/float/range selector logic (argmin is first minimiser; range = non-empty contiguous run between nearest positions), read=write by shared conversion, pinned defect refuted on a witness; tie: enumerated selectors x axis kinds + specification oracle", "5 C05"),
 "C06": ("theorem: for every binary layout `header ++ rows(prefix ++ points ++ padding)` read into an axis-transposed array, decode(encode a) = a for every rank, extent, point width, prefix/padding and transposition (hence no sample dropped, duplicated, padded or moved); the per-format layouts are instances; tie: the LEAN ENCODER produces the binary section of synthetic Prospa / VnmrJ / TopSpin / TNMR files, the real importers read them back sample-exactly (values, dims, axes), every shipped sample imports consistently, two-encoding comparison. Partial: text-header parsers differential only; Delta/BES3T/WinEPR/SpecMan/RS2D/CSV through shipped samples only", "5 C06"),
 "C07": ("theorems over an abstract HDF5 tree: every storable attribute value round-trips (None through the alias, lists/tuples/arrays as one class), attribute dictionaries keep their mapping, the history comes back entry by entry IN ORDER for any length (induction; '%i:%s' then split(':',1) returns the name), load(save x) = x field by field; tie: real files written by the real code are dumped through h5py and compared with the model's tree, loaded objects with the model's, plus the property itself on every case and on every shipped sample that imports", "5 C07"),
 "C08": ("theorems: the bracket theorem (unfold -> per-column function -> fold acts on each by-name trace, any rank / position), the same for the axis-index mechanism and named reductions, equality of the two mechanisms, permutation equivariance as a corollary, pinned interp refuted on a witness; tie: every registry function x dim position through real code and model + f(permute x)=permute(f x) and single-trace oracles", "5 C08"),
 "C09": ("theorems (any field with a primitive N-th root of unity): the model's per-trace transform is the DFT sum, linearity, orthogonality, an on-grid tone peaks at its own bin only, idft(dft x) = x, ifftshift∘fftshift = id for every length (and fftshift twice is not, odd N), the shifted axis coordinate of bin b is ≡ b/(N dt) mod 1/dt for even and odd N, renaming; tie: Lean DFT model vs numpy.fft (twiddles as parameter), exact axis over Q, direct O(n^2) DFT / tone / round-trip oracles for every length of the tier", "5 C09"),
 "C10": ("theorems: ufunc on own operand values with labels kept, reduction by name/position removes exactly that dim and is f of each trace, full reduction returns the scalar; tie: registry x arrangements x axes through real NumPy dispatch and model", "5 C10"),
 "C12": ("theorems (any field): trapezoid rule linear in the data, last cumulative point = definite integral, integrate = per-trace trapezoid with the dimension removed, enhancement reference = 1 and gain invariance; tie: exact Q / Q[i] comparison incl. region lists + hand-written trapezoid, linearity, gain oracles", "5 C12"),
 "C13": ("theorems over C (Mathlib): |z·cis| = |z|, cis adds, inverse, p0 360-periodic, the angle reduction is the identity on (-360,360), exp(-i pi/2 r) = (-i)^r, placement of the factor per trace via the bracket theorem; pinned sign defect refuted; tie: closed-form factor table vs real phase(), algebraic-law oracles, autophase magnitude/replay/reference-slice oracle. Partial: that the optimiser finds the right phase is not a theorem", "5 C13"),
 "C14": ("theorems: id - P annihilates polynomials, is idempotent and linear for ANY linear fit map P that reproduces sampled polynomials (numpy.polyfit's assumed specification, hypotheses not axioms); normalize: largest magnitude exactly 1, positive factor, idempotent; the model's numpy.interp returns the node value at every node (interp on own coordinates = identity) and the straight line between nodes; left_shift = slice n:; ndalign only rolls and keeps the first trace; tie: exact model for normalize/interp/left_shift/ndalign, per-trace table for the fit, algebraic-law oracles. Partial: polyfit S1/S2 assumed; shift-equivariance on the implementation only (known finding for lags beyond n/2)", "5 C14"),
 "C15": ("theorems: apodize multiplies every element by the window value at its own position along dim (same window for every trace), unknown kinds rejected over the window table REGENERATED from the source, over R: exponential closed form, first point 1 and never increasing for exponential/gaussian/hann/hamming; tie: the same generic Lean formulas evaluated in Float vs dnplab.math.window, apodize correspondence, window oracles", "5 C15"),
 "C16": ("theorems by kernel evaluation over tables REGENERATED from load.py and dnplab.cfg: every format autodetect can return is dispatched (or is mat), recognition by extension / directory content, rejection of everything else over the whole abstract domain (22 ext x dir x 2^6 listings), scale factor of every prefix x unit string, the configured frequency key/unit of every NMR format equals the importer's own Hz convention, sections <-> dispatch; over R: dBm<->W are inverse, container independent; tie: exhaustive autodetect on real paths, every config key through the real code, shipped samples (autodetected = explicit, frequency = nmr_frequency), multi-path load, conversions on all container types", "5 C16"),
 "C18": ("theorems: popt_labels (per-trace parameter p of the trace at labels r lands at (popt=p, r) under dims popt :: remaining dims with their coordinates, any rank / position; via the bracket theorem), over R: Gaussian area = integral argument, Gaussian and Lorentzian symmetric about x0, the Lorentzian derivative variant is its derivative (HasDerivAt); tie: fit()['popt'] vs the model fed the solver's own outputs, recovery / fitted-curve / label oracle for all eight shipped models, Float evaluation of the lineshape formulas vs dnplab.math.lineshape, numeric area / Voigt limits / derivative oracles. Partial: curve_fit recovery and every wofz (Voigt) clause are oracle-only", "5 C18"),
 "C19": ("theorems about the strict reader of the same layout model: every truncation is refused, trailing bytes are refused unless the format has a trailer, an accepted byte string has exactly the declared size (so a header perturbation that changes the declared total is refused), accepted arrays have the declared shape, filler bytes are irrelevant; tie: fault enumeration (truncation classes, trailing bytes, every single-field extent perturbation) on synthetic files of four formats, the real importer must raise / warn / agree with the intact import label for label. Partial: a lax but correct importer is accepted by the oracle only; three TopSpin findings recorded", "5 C19"),
 "C17": ("theorems about the model of the repaired save_h5: refusal without overwrite leaves the destination untouched, ANY fault (an unstorable value at any position) leaves the destination exactly as it was, success holds the complete tree; pinned truncate-then-write refuted on a witness; tie: fault enumeration over every injection position x previous file x overwrite, outcome classes compared with the model and with the property", "5 C17"),
 "C11": ("theorems: every stamping step appends, pipeline_prefix by induction over any pipeline, input untouched (frame); tie: pipelines on objects with 0-12 pre-existing entries + history oracle", "5 C11"),
}
NOT_YET = {}
ALL = ["C%02d" % i for i in range(1, 21)]
def main():
    checks = []
    for pid in ALL:
        if pid not in CLAIMS:
            continue
        text, ref = CLAIMS[pid]
        checks.append({
            "property_id": pid, "quick_cmd": "./check %s --tier quick" % pid, "thorough_cmd": "./check %s --tier thorough" % pid,
            "evidence_file": "evidence/%s.json" % pid, "replay_cmd_template": "./check %s --replay {path}" % pid,
            "engine": "lean4-proof+correspondence",
            "level_claimed": {"category": "proof", "text": text, "design_ref": "DESIGN.md section " + ref},
            "level_note": LN, "technique": "Lean 4 machine-checked proof about an executable model + model/implementation correspondence check"})
    na = [{"property_id": p, "reason": NOT_YET.get(p, "check not built yet in this session (work in progress; Lean proof technique applies, see DESIGN.md section 5)")}
          for p in ALL if p not in CLAIMS]
    m = {"version": 1,
         "setup_cmd": "python3 tools/extract_tables.py && cd lean && lake build DnpModel DnpProofs",
         "hooks": {"guard": "DNPLAB_VERIF", "enable": "no source hooks are needed; every observation point is a public return value, exception, warning or file; checks export DNPLAB_VERIF=1 for uniformity",
                   "baseline_off_cmd": "cd /repo && /venv/bin/python -m pytest -ra -q -p no:cacheprovider --timeout=900 --continue-on-collection-errors",
                   "source_commits": [], "add_only": True},
         "engines": [{"name": "lean4-proof+correspondence", "path": "lean/ harness/ check", "serves_properties": sorted(CLAIMS),
                      "kind_free_text": "Lean 4 theorems over a hand-written executable model (lean/DnpModel, lean/DnpProofs) + JSON-lines differential correspondence with the real code (harness/, lean/Driver.lean)"}],
         "checks": checks, "not_applicable": na,
         "notes": "See DESIGN.md. known_findings.json lists recorded and fixed defects."}
    json.dump(m, open(os.path.join(VERIF, "MANIFEST.json"), "w"), indent=1)
if __name__ == "__main__":
    main()
