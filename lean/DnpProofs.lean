import DnpProofs.Lemmas.Arr
import DnpProofs.Lemmas.Perm
