import DnpProofs.Props.C01
import DnpProofs.Props.C02
import DnpProofs.Props.C03
import DnpProofs.Props.C04
import DnpProofs.Props.C05
import DnpProofs.Props.C10
import DnpProofs.Props.C11
