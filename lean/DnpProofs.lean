import DnpProofs.Lemmas.Arr
import DnpProofs.Lemmas.Perm
import DnpProofs.Lemmas.Relabel
import DnpProofs.Lemmas.Sort
import DnpProofs.Props.C02
