import DnpProofs.Lemmas.Bracket
import DnpProofs.Lemmas.Consistent2
import DnpModel.Proc.Funcs
set_option linter.unusedSectionVars false
/-! Every processing function of the model returns a consistent object for a consistent input (C01's side condition for
    `proc` steps), whatever the external numerics (window values, phase tables, optimiser tables, twiddles) are. -/
namespace Dnp
open Np
namespace Data
variable {κ α : Type} [Inhabited α] [Inhabited κ]

/-- the unfold … fold bracket keeps consistency (it raises on unfolded objects, on a `fold_index` dimension and on an
    unknown dimension) -/
theorem bracket_consistent (arange : Nat → List κ) {d r : Data κ α} {dim : String} (h : Nat → List α → List α) (n' : Nat)
    (newCoord : Option (List κ)) (hd : d.Consistent)
    (hnc : ∀ c, newCoord = some c → c.length = n') (hn : newCoord = none → n' = d.ext dim)
    (hr : d.bracket arange dim h n' newCoord = .ok r) : r.Consistent := by
  by_cases hf : d.unf = none
  · by_cases hfi : "fold_index" ∈ d.dims
    · exfalso
      unfold bracket Data.unfold at hr
      simp [folded, hf, hfi, bind, Except.bind] at hr
    · by_cases hdim : dim ∈ d.dims
      · exact (bracket_spec arange h n' newCoord hd hf hdim hfi hnc hn hr).2.1
      · exfalso
        unfold bracket Data.unfold Data.reorder at hr
        simp [folded, hf, hfi, hdim, bind, Except.bind] at hr
  · exfalso
    unfold bracket Data.unfold at hr
    have : ¬ d.folded = true := by
      unfold folded; cases hu : d.unf with
      | none => exact absurd hu hf
      | some _ => simp
    simp [this, bind, Except.bind] at hr

theorem scaleAlong_consistent (mul : α → α → α) {d r : Data κ α} {dim : String} {w : List α} (hd : d.Consistent)
    (hr : d.scaleAlong mul dim w = .ok r) : r.Consistent := by
  unfold scaleAlong at hr
  split at hr
  · cases hr
  · split at hr
    · cases hr
    · simp only [Except.ok.injEq] at hr
      subst hr
      exact consistent_of_same_labels hd _ rfl (Arr.ofFn_WF _ _)

variable (A : Arith κ α)

theorem phase_consistent (arange : Nat → List κ) {d r : Data κ α} {dim : String} (cis : Nat → Nat → α) (hd : d.Consistent)
    (hr : d.phase A arange dim cis = .ok r) : r.Consistent := by
  unfold Data.phase at hr
  simp only [bind, Except.bind] at hr
  split at hr
  · cases hr
  · rename_i q hq
    simp only [Except.ok.injEq] at hr
    subst hr
    exact addHist_consistent (bracket_consistent arange _ _ none hd (by simp) (by simp) hq) _ _

theorem autophase_consistent (arange : Nat → List κ) {d r : Data κ α} {dim : String} (cis : Nat → Nat → α)
    (hd : d.Consistent) (hr : d.autophase A arange dim cis = .ok r) : r.Consistent := by
  unfold Data.autophase at hr
  simp only [bind, Except.bind] at hr
  split at hr
  · cases hr
  · rename_i q hq
    simp only [Except.ok.injEq] at hr
    subst hr
    exact addHist_consistent (bracket_consistent arange _ _ none hd (by simp) (by simp) hq) _ _

theorem interp_consistent (arange : Nat → List κ) {d r : Data κ α} {dim : String} (newc : List κ) (hd : d.Consistent)
    (hr : d.interp A arange dim newc = .ok r) : r.Consistent := by
  unfold Data.interp at hr
  simp only [bind, Except.bind] at hr
  split at hr
  · cases hr
  · rename_i q hq
    simp only [Except.ok.injEq] at hr
    subst hr
    exact addHist_consistent (bracket_consistent arange _ _ (some newc) hd (by simp) (by simp) hq) _ _

theorem traceLocal_consistent [BEq α] (arange : Nat → List κ) {d r : Data κ α} {dim : String}
    (tbl : List (List α × List α)) (n' : Nat) (nc : Option (List κ)) (name : String) (keys : List String)
    (hd : d.Consistent) (hnc : ∀ c, nc = some c → c.length = n') (hn : nc = none → n' = d.ext dim)
    (hr : d.traceLocal arange dim tbl n' nc name keys = .ok r) : r.Consistent := by
  unfold Data.traceLocal at hr
  simp only [bind, Except.bind] at hr
  split at hr
  · cases hr
  · rename_i q hq
    simp only [Except.ok.injEq] at hr
    subst hr
    exact addHist_consistent (bracket_consistent arange _ _ nc hd hnc hn hq) _ _

theorem normalize_consistent (arange : Nat → List κ) {d r : Data κ α} (dim : Option String) (hd : d.Consistent)
    (hr : d.normalize A arange dim = .ok r) : r.Consistent := by
  unfold Data.normalize at hr
  cases dim with
  | none =>
    simp only [Except.ok.injEq] at hr
    subst hr
    exact addHist_consistent (scalarOp_consistent hd _) _ _
  | some dm =>
    simp only at hr
    split at hr
    · cases hr
    · simp only [bind, Except.bind] at hr
      split at hr
      · cases hr
      · rename_i q hq
        simp only [Except.ok.injEq] at hr
        subst hr
        exact addHist_consistent (bracket_consistent arange _ _ none hd (by simp) (by simp) hq) _ _

theorem apodize_consistent (valid : List String) {d r : Data κ α} {dim kind : String} (keys : List String) (w : List α)
    (hd : d.Consistent) (hr : d.apodize A valid dim kind keys w = .ok r) : r.Consistent := by
  unfold Data.apodize at hr
  split at hr
  · cases hr
  · split at hr
    · cases hr
    · simp only [bind, Except.bind] at hr
      split at hr
      · cases hr
      · rename_i q hq
        simp only [Except.ok.injEq] at hr
        subst hr
        exact addHist_consistent (scaleAlong_consistent _ hd hq) _ _

theorem phaseCycle_consistent {d r : Data κ α} {dim : String} (rp : List Nat) (negIpow : Nat → α) (hd : d.Consistent)
    (hr : d.phaseCycle A dim rp negIpow = .ok r) : r.Consistent := by
  unfold Data.phaseCycle at hr
  split at hr
  · cases hr
  · split at hr
    · cases hr
    · split at hr
      · cases hr
      · simp only [bind, Except.bind] at hr
        split at hr
        · cases hr
        · rename_i q hq
          simp only [Except.ok.injEq] at hr
          subst hr
          exact addHist_consistent (scaleAlong_consistent _ hd hq) _ _

theorem integrateAll_consistent {d r : Data κ α} {dim : String} (hd : d.Consistent)
    (hr : integrateAll A d dim = .ok r) : r.Consistent := by
  unfold integrateAll at hr
  simp only [bind, Except.bind] at hr
  split at hr
  · cases hr
  · rename_i q hq
    simp only [Except.ok.injEq] at hr
    subst hr
    exact addHist_consistent (reduceDim_consistent _ (d := { d with attrs := dictSet d.attrs "experiment_type" "'integrals'" }) hd hq) _ _

theorem leftShift_consistent (dist : κ → κ → κ) {d r : Data κ α} {dim : String} (n : Int) (hd : d.Consistent)
    (hr : d.leftShift A dist dim n = .ok r) : r.Consistent := by
  unfold Data.leftShift at hr
  simp only [bind, Except.bind] at hr
  split at hr
  · cases hr
  · rename_i q hq
    simp only [Except.ok.injEq] at hr
    subst hr
    exact addHist_consistent (getitem_consistent _ _ hd hq) _ _

theorem reference_consistent {d r : Data κ α} {dim : String} (shift : κ) (hd : d.Consistent)
    (hr : d.reference A dim shift = .ok r) : r.Consistent := by
  unfold Data.reference at hr
  split at hr
  · cases hr
  · simp only [Except.ok.injEq] at hr
    subst hr
    have hc : ({ d with coords := setAt d.coords (d.index dim) ((d.coord dim).map (fun c => A.ksub c shift)) } : Data κ α).Consistent := by
      refine ⟨hd.1, by simp [hd.2.1], ?_, hd.2.2.2⟩
      simp only
      rw [hd.2.2.1]
      exact (setAt_map_same List.length d.coords (d.index dim) _ [] (fun _ => by simp [coord])).symm
    exact addHist_consistent hc _ _

theorem cumulativeIntegrate_consistent {d r : Data κ α} {dim : String} (hd : d.Consistent)
    (hr : d.cumulativeIntegrate A dim = .ok r) : r.Consistent := by
  unfold Data.cumulativeIntegrate at hr
  simp only [bind, Except.bind] at hr
  split at hr
  · cases hr
  · rename_i q hq
    simp only [Except.ok.injEq] at hr
    subst hr
    refine addHist_consistent ?_ _ _
    unfold mapAlong at hq
    split at hq
    · cases hq
    · rename_i hdm
      have hdm : dim ∈ d.dims := by simpa using hdm
      simp only [Except.ok.injEq] at hq
      subst hq
      refine consistent_of_same_labels hd _ ?_ (Arr.ofFn_WF _ _)
      simp only [mapAxis, Arr.ofFn_shape, ext]
      exact setAt_self _ _ _ (by rw [hd.shape_len]; exact index_lt hdm)

/-- values replaced along one axis of new extent n, that axis' coordinate replaced by one of length n, and the axis renamed
    to a name that is new or its own -/
theorem consistent_transform_axis {d : Data κ α} (hd : d.Consistent) {dim newName : String} (hdm : dim ∈ d.dims)
    (hnew : ¬ (newName ≠ dim ∧ newName ∈ d.dims)) (c : List κ) (v : Arr α)
    (hs : v.shape = setAt d.values.shape (d.index dim) c.length) (hw : v.WF) :
    ({ d with values := v, coords := setAt d.coords (d.index dim) c, dims := setAt d.dims (d.index dim) newName } :
      Data κ α).Consistent := by
  have h1 : ({ d with values := v, coords := setAt d.coords (d.index dim) c } : Data κ α).Consistent :=
    consistent_setAxis hd _ c v hs hw
  have hren : ({ d with values := v, coords := setAt d.coords (d.index dim) c } : Data κ α).rename dim newName
      = .ok { d with values := v, coords := setAt d.coords (d.index dim) c, dims := setAt d.dims (d.index dim) newName } := by
    unfold rename
    simp only [hdm, not_true_eq_false, if_false]
    rw [if_neg hnew]
    rfl
  exact rename_consistent h1 hren

theorem fourierTransform_consistent {d r : Data κ α} {dim : String} (zff : Nat) (shift : Bool) (ppm : Option κ)
    (tw : Nat → α) (hd : d.Consistent) (hr : d.fourierTransform A dim zff shift ppm tw = .ok r) : r.Consistent := by
  unfold Data.fourierTransform at hr
  split at hr
  · cases hr
  · rename_i hdm
    have hdm : dim ∈ d.dims := by simpa using hdm
    simp only at hr
    split at hr
    · cases hr
    · split at hr
      · cases hr
      · rename_i hnew
        simp only [Except.ok.injEq] at hr
        subst hr
        refine addHist_consistent (consistent_transform_axis hd hdm hnew _ _ ?_ (Arr.ofFn_WF _ _)) _ _
        cases ppm <;> simp [mapAxis]

theorem inverseFourierTransform_consistent {d r : Data κ α} {dim : String} (zff : Nat) (shift : Bool) (ppm : Option κ)
    (tw : Nat → α) (hd : d.Consistent) (hr : d.inverseFourierTransform A dim zff shift ppm tw = .ok r) :
    r.Consistent := by
  unfold Data.inverseFourierTransform at hr
  split at hr
  · cases hr
  · rename_i hdm
    have hdm : dim ∈ d.dims := by simpa using hdm
    simp only at hr
    split at hr
    · cases hr
    · split at hr
      · cases hr
      · rename_i hnew
        simp only [Except.ok.injEq] at hr
        subst hr
        refine addHist_consistent (consistent_transform_axis hd hdm hnew _ _ ?_ (Arr.ofFn_WF _ _)) _ _
        simp [mapAxis]

theorem average_consistent (mean : List α → α) {d r : Data κ α} (ax : Axis) (hd : d.Consistent)
    (hr : d.average mean ax = .ok r) : r.Consistent := by
  unfold Data.average at hr
  cases hq : d.npReduce "mean" mean ax with
  | error e => rw [hq] at hr; cases hr
  | ok v =>
    rw [hq] at hr
    cases v with
    | inr x => cases hr
    | inl q =>
      simp only [Except.ok.injEq] at hr
      subst hr
      have hqc : q.Consistent := by
        cases ax with
        | none => simp [npReduce] at hq
        | name s =>
          unfold npReduce at hq
          simp only at hq
          split at hq
          · cases hq
          · split at hq
            · simp at hq
            · cases hq2 : d.reduceDim mean s with
              | error e => rw [hq2] at hq; cases hq
              | ok q2 =>
                rw [hq2] at hq
                simp only [Except.map, Except.ok.injEq, Sum.inl.injEq] at hq
                subst hq
                exact addHist_consistent (reduceDim_consistent mean hd hq2) _ _
        | pos i =>
          unfold npReduce at hq
          simp only at hq
          split at hq
          · cases hq
          · split at hq
            · simp at hq
            · cases hq2 : d.reduceDim mean (d.dims.getD (if i < 0 then i + d.dims.length else i).toNat "") with
              | error e => rw [hq2] at hq; cases hq
              | ok q2 =>
                rw [hq2] at hq
                simp only [Except.map, Except.ok.injEq, Sum.inl.injEq] at hq
                subst hq
                exact addHist_consistent (reduceDim_consistent mean hd hq2) _ _
        | tuple items =>
          obtain ⟨_, _, _, _, hc, _⟩ := npReduce_tuple_spec "mean" mean hd hq
          exact hc
      exact addHist_consistent (d := { q with hist := d.hist }) hqc _ _

theorem fitPopt_consistent (arange : Nat → List κ) {d r : Data κ α} {dim : String} (np : Nat) (solve : List α → List α)
    (harange : ∀ n, (arange n).length = n) (hd : d.Consistent) (hr : d.fitPopt arange dim np solve = .ok r) :
    r.Consistent := by
  unfold Data.fitPopt at hr
  split at hr
  · cases hr
  · simp only [bind, Except.bind] at hr
    split at hr
    · cases hr
    · rename_i b hb
      split at hr
      · cases hr
      · rename_i b1 hb1
        split at hr
        · cases hr
        · rename_i b2 hb2
          simp only [Except.ok.injEq] at hr
          subst hr
          have hbc := bracket_consistent arange _ np (some (arange np)) hd (by intro c hc; cases hc; exact harange np) (by simp) hb
          have hb1c := reorder_consistent' hbc hb1
          have hb2c := rename_consistent hb1c hb2
          exact ⟨hb2c.1, hb2c.2.1, hb2c.2.2.1, hb2c.2.2.2⟩

end Data
end Dnp
