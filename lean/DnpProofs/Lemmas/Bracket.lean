import DnpProofs.Lemmas.Consistent
import DnpModel.Proc.Core
set_option linter.unusedSectionVars false
/-! The bracket theorem: unfold(dim) → per-column function → fold() acts on each named trace. -/
namespace Dnp
open Np
namespace Data
variable {κ α : Type} [Inhabited α] [Inhabited κ]

/-- folding an unfolded object whose matrix was replaced -/
theorem fold_replaced (p : Data κ α) (hl : p.coords.length = p.dims.length) (hfi : "fold_index" ∉ p.dims)
    (v : Arr α) (coords' : List (List κ)) (hcl : coords'.length = p.dims.length) (c : List κ)
    (fs : List Nat) (fo : List String) (hsz : size fs = v.data.length) :
    fold { p with values := v, dims := p.dims ++ ["fold_index"], coords := coords' ++ [c], unf := some (fs, fo) }
      = ({ p with values := ⟨fs, v.data⟩, coords := coords', unf := none } : Data κ α).reorder fo := by
  unfold fold
  have hmem : "fold_index" ∈ p.dims ++ ["fold_index"] := by simp
  simp only [hmem, not_true_eq_false, if_false, index, idxOf_append_last hfi, eraseAt_append_length]
  rw [← hcl, eraseAt_append_length]
  simp only [reshapeC, hsz, ne_eq, not_true_eq_false, if_false]

theorem dedup_cons_dim {dims : List String} (hnd : dims.Nodup) (dim : String) :
    dedup ([dim] ++ dims) = dim :: dims.filter (· != dim) := by
  simp only [List.singleton_append, dedup, dedup_of_nodup hnd]

/-- the trace along `dim` does not look at ℓ dim -/
theorem trace_congr (d : Data κ α) (dim : String) (ℓ ℓ' : String → Nat) (h : ∀ x, x ≠ dim → ℓ x = ℓ' x) :
    d.trace dim ℓ = d.trace dim ℓ' := by
  unfold trace getN
  apply List.map_congr_left
  intro i _
  congr 1
  apply List.map_congr_left
  intro x _
  by_cases hx : x = dim
  · simp [hx]
  · simp [hx, h x hx]

/-- **Bracket theorem.**  For a consistent folded object, any position of `dim`, any rank:
    the element of the result at the by-name index ℓ is element `ℓ dim` of `h` applied to the
    1-D trace of the input along `dim` at the other labels of ℓ (`h` also sees the column number). -/
theorem bracket_spec (arange : Nat → List κ) {d r : Data κ α} {dim : String} (h : Nat → List α → List α) (n' : Nat)
    (newCoord : Option (List κ)) (hd : d.Consistent) (hf : d.unf = none) (hdim : dim ∈ d.dims)
    (hfi : "fold_index" ∉ d.dims) (hnc : ∀ c, newCoord = some c → c.length = n') (hn : newCoord = none → n' = d.ext dim)
    (hr : d.bracket arange dim h n' newCoord = .ok r) :
    r.dims = d.dims ∧ r.Consistent ∧
    (∀ nm ∈ d.dims, nm ≠ dim → r.coord nm = d.coord nm) ∧
    r.coord dim = newCoord.getD (d.coord dim) ∧
    ∀ ℓ : String → Nat, (∀ nm ∈ d.dims, nm ≠ dim → ℓ nm < d.ext nm) → ℓ dim < n' →
      r.getN ℓ = (h (ravel ((d.dims.filter (· != dim)).map ℓ) ((d.dims.filter (· != dim)).map d.ext))
                    (d.trace dim ℓ)).getD (ℓ dim) default := by
  -- names
  have hsub : ∀ x ∈ [dim], x ∈ d.dims := by simpa using hdim
  have hp := dedup_append_perm hd.1 hsub
  obtain ⟨hpc, hpcoord, hpget⟩ := permuted_spec hd hp
  have hds : dedup ([dim] ++ d.dims) = dim :: d.dims.filter (· != dim) := dedup_cons_dim hd.1 dim
  set rest := d.dims.filter (· != dim) with hrest
  set p := d.permuted (dedup ([dim] ++ d.dims)) with hpdef
  have hpdims : p.dims = dim :: rest := hds
  have hre : d.reorder [dim] = .ok p := reorder_ok (by simp) hsub
  have hfi' : "fold_index" ∉ p.dims := fun hh => hfi (hp.mem_iff.1 hh)
  have hpu : p.unf = none := hf
  have hdimrest : dim ∉ rest := by simp [hrest]
  have hrestsub : ∀ x ∈ rest, x ∈ d.dims ∧ x ≠ dim := by
    intro x hx; have := List.mem_filter.1 hx; exact ⟨this.1, by simpa using this.2⟩
  -- shape of p: N :: restShape
  have hpshape : p.values.shape = d.ext dim :: rest.map d.ext := by
    have h0 : p.values.shape = (dedup ([dim] ++ d.dims)).map d.ext :=
      transpose_shape_named (fun x hx => hp.mem_iff.1 hx) d.values d.ext hd.shape_named
    rw [hds] at h0; simpa using h0
  have hpl : p.coords.length = p.dims.length := hpc.2.1
  have hpwf : p.values.data.length = d.ext dim * size (rest.map d.ext) := by
    have := hpc.2.2.2; simp only [Arr.WF, hpshape, size] at this; exact this
  set N := d.ext dim with hN
  set M := size (rest.map d.ext) with hM
  -- unfold the bracket
  unfold bracket Data.unfold at hr
  simp only [folded, hf, Option.isNone_none, not_true_eq_false, if_false, hfi, hre, bind, Except.bind,
    Option.map_some] at hr
  have hhead : p.values.shape.headD 0 = N := by rw [hpshape]; rfl
  have htail : size p.values.shape.tail = M := by rw [hpshape]; rfl
  rw [hhead, htail] at hr
  -- the replaced matrix
  set m : Arr α := reshapeC p.values [N, M] with hm
  have hmc : (mapCols h n' m).data.length = n' * M := by
    simp [mapCols, Arr.ofFn, size, hm, reshapeC]
  have hfs : size (setAt p.values.shape 0 n') = (mapCols h n' m).data.length := by
    rw [hmc, hpshape]; simp [setAt, size, hM]
  -- new coords list
  set coords' : List (List κ) := replaceCoord0 newCoord p.coords with hcoords'
  have hcoords'l : coords'.length = p.dims.length := by
    rw [hcoords']; cases newCoord <;> simp [replaceCoord0, hpl]
  have hpne : p.coords ≠ [] := by
    intro e; rw [e, hpdims] at hpl; simp at hpl
  have hcoordseq : replaceCoord0 newCoord (p.coords ++ [arange M]) = coords' ++ [arange M] := by
    rw [hcoords']
    cases newCoord with
    | none => rfl
    | some c =>
      cases hpcs : p.coords with
      | nil => exact absurd hpcs hpne
      | cons x xs => simp [replaceCoord0, setAt]
  rw [hcoordseq] at hr
  have hfold := fold_replaced p hpl hfi' (mapCols h n' m) coords' hcoords'l (arange M)
    (setAt p.values.shape 0 n') d.dims hfs
  -- `hr` is `fold {…} = ok r` for exactly that structure
  have hr' : fold { p with values := mapCols h n' m, dims := p.dims ++ ["fold_index"],
                           coords := coords' ++ [arange M], unf := some (setAt p.values.shape 0 n', d.dims) } = .ok r := hr
  rw [hfold] at hr'
  -- the refolded object q and its consistency
  set q : Data κ α := { p with values := ⟨setAt p.values.shape 0 n', (mapCols h n' m).data⟩, coords := coords', unf := none }
    with hq
  have hqdims : q.dims = dim :: rest := hpdims
  have hqshape : q.values.shape = n' :: rest.map d.ext := by
    show setAt p.values.shape 0 n' = _; rw [hpshape]; rfl
  have hcoord_q : ∀ nm ∈ d.dims, nm ≠ dim → q.coord nm = d.coord nm := by
    intro nm hnm hne
    have hk : q.index nm ≠ 0 := by
      show (List.idxOf nm q.dims) ≠ 0
      rw [hqdims, List.idxOf_cons_ne _ (Ne.symm hne)]; omega
    have : q.coord nm = p.coord nm := by
      show coords'.getD (q.index nm) [] = p.coords.getD (p.index nm) []
      have hidx : q.index nm = p.index nm := rfl
      rw [hcoords', hidx]
      cases newCoord with
      | none => rfl
      | some c => exact setAt_getD_ne _ _ _ _ _ (by rw [← hidx]; exact hk)
    rw [this, hpcoord nm hnm]
  have hcoord_dim : q.coord dim = newCoord.getD (d.coord dim) := by
    have hk : q.index dim = 0 := by
      show List.idxOf dim q.dims = 0; rw [hqdims]; simp
    show coords'.getD (q.index dim) [] = _
    rw [hk, hcoords']
    cases newCoord with
    | none =>
      show p.coords.getD 0 [] = d.coord dim
      have : p.coord dim = p.coords.getD 0 [] := by
        show p.coords.getD (List.idxOf dim p.dims) [] = _; rw [hpdims]; simp
      rw [← this, hpcoord dim hdim]
    | some c =>
      exact setAt_getD_self _ _ _ _ (by rw [hpl, hpdims]; simp)
  have hqc : q.Consistent := by
    refine ⟨hpc.1, hcoords'l, ?_, ?_⟩
    · rw [hqshape, hq]
      show _ = coords'.map List.length
      have hcn : coords' = q.dims.map q.coord :=
        list_by_name hpc.1 coords' [] hcoords'l
      rw [hcn, hqdims]
      simp only [List.map_cons, List.map_map]
      congr 1
      · rw [hcoord_dim]
        cases hnc' : newCoord with
        | none => simp only [Option.getD_none]; rw [hn hnc', ← hd.ext_eq hdim]
        | some c => simp only [Option.getD_some]; exact (hnc c hnc').symm
      · apply List.map_congr_left
        intro x hx
        have := hrestsub x hx
        simp only [Function.comp]
        rw [hcoord_q x this.1 this.2, hd.ext_eq this.1]
    · show (mapCols h n' m).data.length = size (setAt p.values.shape 0 n')
      exact hfs.symm
  -- fold's final reorder is a permutation back to the original names
  have hsub2 : ∀ x ∈ d.dims, x ∈ q.dims := fun x hx => hp.mem_iff.2 hx
  rw [reorder_ok hd.1 hsub2] at hr'
  have hde : dedup (d.dims ++ q.dims) = d.dims :=
    dedup_append_sub hd.1 (fun x hx => hp.mem_iff.1 hx)
  rw [hde] at hr'
  simp only [Except.ok.injEq] at hr'
  subst hr'
  have hperm2 : d.dims.Perm q.dims := hp.symm
  obtain ⟨hrc, hrcoord, hrget⟩ := permuted_spec hqc hperm2
  refine ⟨rfl, hrc, ?_, ?_, ?_⟩
  · intro nm hnm hne
    rw [hrcoord nm (hsub2 nm hnm), hcoord_q nm hnm hne]
  · rw [hrcoord dim (hsub2 dim hdim), hcoord_dim]
  · intro ℓ hℓ hℓd
    have hqext : ∀ nm ∈ q.dims, ℓ nm < q.ext nm := by
      intro nm hnm
      have hnm' : nm ∈ d.dims := hp.mem_iff.1 hnm
      rw [hqc.ext_eq hnm]
      by_cases hne : nm = dim
      · subst hne
        rw [hcoord_dim]
        cases hnc' : newCoord with
        | none => simp only [Option.getD_none]; rw [← hd.ext_eq hdim]; have := hn hnc'; omega
        | some c => simp only [Option.getD_some]; rw [hnc c hnc']; exact hℓd
      · rw [hcoord_q nm hnm' hne, ← hd.ext_eq hnm']; exact hℓ nm hnm' hne
    rw [hrget ℓ hqext]
    -- q.getN ℓ: the flat offset splits into (row, column)
    show (⟨setAt p.values.shape 0 n', (mapCols h n' m).data⟩ : Arr α).get (q.dims.map ℓ) = _
    rw [hqdims]
    simp only [List.map_cons, Arr.get]
    have hshape' : setAt p.values.shape 0 n' = n' :: rest.map d.ext := by rw [hpshape]; rfl
    rw [hshape']
    set col := ravel (rest.map ℓ) (rest.map d.ext) with hcol
    have hcolM : col < M := by
      apply ravel_lt
      rw [InB_map_iff]
      intro x hx
      have := hrestsub x hx
      exact hℓ x this.1 this.2
    have hrav : ravel (ℓ dim :: rest.map ℓ) (n' :: rest.map d.ext) = ravel [ℓ dim, col] [n', M] := by
      simp [ravel, size, hM, hcol]
    rw [hrav]
    have hget : (mapCols h n' m).data.getD (ravel [ℓ dim, col] [n', M]) default
        = (mapCols h n' m).get [ℓ dim, col] := by
      simp [Arr.get, mapCols, hm, reshapeC]
    rw [hget]
    unfold mapCols
    have hm1 : m.shape.getD 1 0 = M := rfl
    rw [hm1, Arr.get_ofFn _ (by simp [InB]; exact ⟨hℓd, hcolM⟩)]
    simp only [List.getD_cons_succ, List.getD_cons_zero]
    congr 2
    -- the column is the by-name trace of d
    unfold Data.col trace
    have hm0 : m.shape.headD 0 = N := rfl
    rw [hm0]
    apply List.map_congr_left
    intro i hi
    have hiN : i < N := by simpa using hi
    have e1 : m.get [i, col] = p.values.get (i :: rest.map ℓ) := by
      simp only [Arr.get, hm, reshapeC, hpshape]
      congr 1
      simp [ravel, size, hM, hcol]
    rw [e1]
    have e2 : (i :: rest.map ℓ) = p.dims.map (fun x => if x = dim then i else ℓ x) := by
      rw [hpdims]
      simp only [List.map_cons, if_true]
      congr 1
      apply List.map_congr_left
      intro x hx
      have : x ≠ dim := (hrestsub x hx).2
      simp [this]
    rw [e2]
    have := hpget (fun x => if x = dim then i else ℓ x) (by
      intro nm hnm
      by_cases hne : nm = dim
      · subst hne; simp; exact hiN
      · simp [hne]; exact hℓ nm hnm hne)
    exact this

end Data
end Dnp
