import DnpProofs.Lemmas.UnfoldFold
import DnpProofs.Lemmas.ListAux
import DnpModel.Reduce
set_option linter.unusedSectionVars false
/-! Consistency (C01) is preserved by the data-level operations. -/
namespace Dnp
open Np
namespace Data
variable {κ α β : Type} [Inhabited α] [Inhabited κ] [Inhabited β]

theorem index_lt {d : Data κ α} {dim : String} (hm : dim ∈ d.dims) : d.index dim < d.dims.length :=
  List.idxOf_lt_length_iff.2 hm

/-- changing only the element values keeps an object consistent -/
theorem consistent_of_same_labels {d : Data κ α} (h : d.Consistent) (v : Arr β) (hs : v.shape = d.values.shape)
    (hw : v.WF) : ({ dims := d.dims, coords := d.coords, values := v, attrs := d.attrs, dattrs := d.dattrs,
                     hist := d.hist, unf := d.unf } : Data κ β).Consistent :=
  ⟨h.1, h.2.1, by rw [hs]; exact h.2.2.1, hw⟩

theorem map_WF {a : Arr α} (h : a.WF) (f : α → β) : (a.map f).WF := by
  simp [Arr.WF, Arr.map] at *; exact h

theorem scalarOp_consistent {d : Data κ α} (h : d.Consistent) (f : α → α) : (d.scalarOp f).Consistent :=
  ⟨h.1, h.2.1, h.2.2.1, map_WF h.2.2.2 f⟩

theorem addHist_consistent {d : Data κ α} (h : d.Consistent) (n : String) (ks : List String) :
    (d.addHist n ks).Consistent := h

theorem npUnary_consistent {d : Data κ α} (h : d.Consistent) (n : String) (f : α → α) :
    (d.npUnary n f).Consistent := scalarOp_consistent h f

theorem rename_consistent {d d' : Data κ α} {dim new : String} (h : d.Consistent)
    (hr : d.rename dim new = .ok d') : d'.Consistent := by
  unfold rename at hr
  split at hr
  · cases hr
  · split at hr
    · cases hr
    · rename_i h1 h2
      simp only [Except.ok.injEq] at hr
      subst hr
      have h1 : dim ∈ d.dims := by simpa using h1
      refine ⟨?_, by simpa using h.2.1, h.2.2.1, h.2.2.2⟩
      -- dims with one name replaced stay duplicate-free
      by_cases hnd : new = dim
      · subst hnd
        have : setAt d.dims (d.index new) new = d.dims := by
          have hk := index_lt h1
          have hk' : List.idxOf new d.dims < d.dims.length := hk
          have e : d.dims.getD (d.index new) "" = new := by
            unfold Data.index
            rw [List.getD_eq_getElem?_getD, List.getElem?_eq_getElem hk']
            simp [List.getElem_idxOf hk']
          have := setAt_self d.dims (d.index new) "" hk
          rwa [e] at this
        simpa [this] using h.1
      · have hnew : new ∉ d.dims := by
          intro hm; exact h2 ⟨hnd, hm⟩
        rw [List.nodup_iff_injective_getElem]
        intro ⟨i, hi⟩ ⟨j, hj⟩ hij
        simp only [setAt_length] at hi hj
        have gi : ∀ t (ht : t < d.dims.length), (setAt d.dims (d.index dim) new)[t]'(by simpa using ht) =
            if t = d.index dim then new else d.dims[t] := by
          intro t ht
          by_cases htk : t = d.index dim
          · have := setAt_getD_self d.dims (d.index dim) new "" (index_lt h1)
            simp only [List.getD, htk] at this ⊢
            simpa [index_lt h1] using this
          · have := setAt_getD_ne d.dims (d.index dim) t new "" htk
            simp only [List.getD] at this
            simpa [ht, htk] using this
        simp only [Fin.mk.injEq]
        have e := hij
        simp only [gi i hi, gi j hj] at e
        by_cases hik : i = d.index dim <;> by_cases hjk : j = d.index dim
        · omega
        · simp only [hik, hjk, if_true, if_false] at e
          exact absurd (e ▸ List.getElem_mem hj) hnew
        · simp only [hik, hjk, if_true, if_false] at e
          exact absurd (e.symm ▸ List.getElem_mem hi) hnew
        · simp only [hik, hjk, if_false] at e
          exact (List.Nodup.getElem_inj_iff h.1).1 e

theorem newDim_consistent {d d' : Data κ α} {dim : String} {c : κ} (h : d.Consistent)
    (hr : d.newDim dim c = .ok d') : d'.Consistent := by
  unfold newDim at hr
  split at hr
  · cases hr
  · rename_i hn
    simp only [Except.ok.injEq] at hr
    subst hr
    refine ⟨?_, by simp [h.2.1], ?_, ?_⟩
    · exact List.nodup_append.2 ⟨h.1, by simp, by
        intro a ha b hb; simp at hb; subst hb; rintro rfl; exact hn ha⟩
    · simp only [expandDims, List.map_append, List.map_cons, List.length_cons, List.length_nil, List.map_nil]
      rw [← h.2.2.1]
      clear hn
      generalize d.values.shape = s
      induction s with
      | nil => rfl
      | cons n s ih => simp [insertAt, ih]
    · simp only [Arr.WF, expandDims]
      rw [h.2.2.2]
      generalize d.values.shape = s
      induction s with
      | nil => simp [insertAt, size]
      | cons n s ih => simp [insertAt, size, ← ih]

/-- reduction along a named dimension: the dim and its coord are removed together -/
theorem reduceDim_consistent {d : Data κ α} {d' : Data κ β} {dim : String} (f : List α → β)
    (h : d.Consistent) (hr : d.reduceDim f dim = .ok d') : d'.Consistent := by
  unfold reduceDim at hr
  split at hr
  · cases hr
  · rename_i hm
    have hm : dim ∈ d.dims := by simpa using hm
    simp only [Except.ok.injEq] at hr
    subst hr
    have hk := index_lt hm
    refine ⟨eraseAt_nodup h.1 _, ?_, ?_, Arr.ofFn_WF _ _⟩
    · rw [eraseAt_length _ _ hk, eraseAt_length _ _ (by rw [h.2.1]; exact hk), h.2.1]
    · simp only [reduceAxis, Arr.ofFn_shape, h.2.2.1, eraseAt_map]

theorem reduceDim_dims {d : Data κ α} {d' : Data κ β} {dim : String} (f : List α → β)
    (hr : d.reduceDim f dim = .ok d') :
    dim ∈ d.dims ∧ d'.dims = eraseAt d.dims (d.index dim) ∧ d'.coords = eraseAt d.coords (d.index dim) ∧
    d'.values = reduceAxis f d.values (d.index dim) ∧ d'.hist = d.hist ∧ d'.attrs = d.attrs := by
  unfold reduceDim at hr
  split at hr
  · cases hr
  · rename_i hm
    simp only [Except.ok.injEq] at hr
    subst hr
    exact ⟨by simpa using hm, rfl, rfl, rfl, rfl, rfl⟩

end Data
end Dnp
