import DnpProofs.Lemmas.Consistent2
import DnpProofs.Lemmas.Along
import DnpProofs.Lemmas.ByName
import DnpProofs.Lemmas.Cut
import DnpProofs.Lemmas.Broadcast
set_option linter.unusedSectionVars false
/-! Value-level specification of the joint reduction over several named dimensions (tuple-valued NumPy axis). -/
namespace Np

/-- row-major offset of a concatenated index -/
theorem ravel_append : ∀ (a s u t : List Nat), a.length = s.length →
    ravel (a ++ u) (s ++ t) = ravel a s * size t + ravel u t
  | [], [], u, t, _ => by simp [ravel]
  | i :: a, n :: s, u, t, h => by
    have ih := ravel_append a s u t (by simpa using h)
    simp only [List.cons_append, ravel, ih, size_append]
    rw [Nat.add_mul, Nat.mul_assoc, Nat.add_assoc]
  | [], _ :: _, _, _, h => by simp at h
  | _ :: _, [], _, _, h => by simp at h

theorem ravel_singleton (i m : Nat) : ravel [i] [m] = i := by simp [ravel, size]

theorem InB_append : ∀ {a s u t : List Nat}, InB a s → InB u t → InB (a ++ u) (s ++ t)
  | [], [], _, _, _, hu => hu
  | _ :: _, _ :: _, _, _, ha, hu => ⟨ha.1, InB_append ha.2 hu⟩
  | [], _ :: _, _, _, ha, _ => absurd ha (by simp [InB])
  | _ :: _, [], _, _, ha, _ => absurd ha (by simp [InB])

end Np

namespace Dnp
open Np
namespace Data
variable {κ α : Type} [Inhabited α] [Inhabited κ]

/-- the label assignment that reads the reduced names off the multi-index `u` and every other name off ℓ -/
def withNames (names : List String) (u : List Nat) (ℓ : String → Nat) : String → Nat :=
  fun x => if x ∈ names then u.getD (names.idxOf x) 0 else ℓ x

theorem map_withNames_keep {names keep : List String} (hk : ∀ x ∈ keep, x ∉ names) (u : List Nat) (ℓ : String → Nat) :
    keep.map (withNames names u ℓ) = keep.map ℓ := by
  apply List.map_congr_left
  intro x hx
  simp [withNames, hk x hx]

theorem map_withNames_names {names : List String} (hn : names.Nodup) (u : List Nat) (hu : u.length = names.length)
    (ℓ : String → Nat) : names.map (withNames names u ℓ) = u := by
  apply List.ext_getElem (by simp [hu])
  intro k h1 h2
  have hk : k < names.length := by simpa using h1
  simp only [List.getElem_map, withNames, List.getElem_mem, if_true, hn.idxOf_getElem k hk]
  simp [List.getD, h2]

/-- joint reduction, read by name: the value at the surviving labels ℓ is `f` of ALL source values whose surviving labels
    are ℓ, enumerated over every combination of positions of the reduced names (row-major in the order given) -/
theorem reduceDims_getN (f : List α → α) {d r : Data κ α} {names : List String} (h : d.Consistent)
    (hn : names.Nodup) (hsub : ∀ x ∈ names, x ∈ d.dims) (hr : d.reduceDims f names = .ok r)
    (ℓ : String → Nat) (hℓ : ∀ nm ∈ d.dims, nm ∉ names → ℓ nm < d.ext nm) :
    r.getN ℓ = f ((List.range (size (names.map d.ext))).map
                  (fun i => d.getN (withNames names (unravel i (names.map d.ext)) ℓ))) := by
  unfold reduceDims at hr
  simp only [bind, Except.bind] at hr
  cases hq : d.reorder (d.dims.filter (fun x => x ∉ names) ++ names) with
  | error e => rw [hq] at hr; cases hr
  | ok d1 =>
    rw [hq] at hr
    simp only [Except.ok.injEq] at hr
    set keep := d.dims.filter (fun x => x ∉ names) with hkeep
    have hknd : keep.Nodup := h.1.filter _
    have hkn : ∀ x ∈ keep, x ∉ names := by
      intro x hx; have := (List.mem_filter.1 hx).2; simpa using this
    have hxnd : (keep ++ names).Nodup := by
      refine List.nodup_append.2 ⟨hknd, hn, ?_⟩
      intro a ha b hb hab; subst hab; exact hkn a ha hb
    have hxperm : (keep ++ names).Perm d.dims := by
      rw [List.perm_ext_iff_of_nodup hxnd h.1]
      intro y
      simp only [List.mem_append, hkeep, List.mem_filter, decide_eq_true_eq]
      constructor
      · rintro (⟨hy, _⟩ | hy)
        · exact hy
        · exact hsub y hy
      · intro hy
        by_cases hyn : y ∈ names
        · exact Or.inr hyn
        · exact Or.inl ⟨hy, hyn⟩
    obtain ⟨hd1, _, _⟩ := reorder_eq_permuted hq
    rw [dedup_append_of_perm hxnd h.1 hxperm] at hd1
    obtain ⟨hc1, hcoord1, hget1⟩ := permuted_spec h hxperm
    rw [← hd1] at hc1 hcoord1 hget1
    have hdims1 : d1.dims = keep ++ names := by rw [hd1]; rfl
    have hext1 : ∀ nm ∈ d.dims, d1.ext nm = d.ext nm := by
      intro nm hnm
      have hnm1 : nm ∈ d1.dims := by rw [hdims1]; exact hxperm.mem_iff.2 hnm
      rw [hc1.ext_eq hnm1, h.ext_eq hnm, hcoord1 nm hnm]
    have hshape1 : d1.values.shape = keep.map d.ext ++ names.map d.ext := by
      rw [hc1.shape_named, hdims1, List.map_append]
      congr 1
      · apply List.map_congr_left; intro x hx; exact hext1 x (List.mem_of_mem_filter hx)
      · apply List.map_congr_left; intro x hx; exact hext1 x (hsub x hx)
    subst hr
    simp only [getN]
    have htake : d1.values.shape.take keep.length = keep.map d.ext := by
      rw [hshape1, List.take_left' (by simp)]
    have hdrop : d1.values.shape.drop keep.length = names.map d.ext := by
      rw [hshape1, List.drop_left' (by simp)]
    rw [htake, hdrop]
    set R := names.map d.ext with hR
    simp only [reduceAxis, reshapeC]
    have hkin : InB (keep.map ℓ) (keep.map d.ext) := (InB_map_iff _ _).2 (fun x hx => hℓ x (List.mem_of_mem_filter hx) (hkn x hx))
    have herase : eraseAt (keep.map d.ext ++ [size R]) keep.length = keep.map d.ext := by
      have := eraseAt_append_singleton (keep.map d.ext) (size R)
      simpa using this
    rw [herase, Arr.get_ofFn _ hkin]
    congr 1
    have hgd : (keep.map d.ext ++ [size R]).getD keep.length 0 = size R := by
      rw [List.getD_eq_getElem?_getD, List.getElem?_append_right (by simp)]
      simp
    rw [hgd]
    apply List.map_congr_left
    intro i hi
    have hi' : i < size R := by simpa using hi
    -- the flattened element i of the reduced block
    have hins : insertAt (keep.map ℓ) keep.length i = keep.map ℓ ++ [i] := by
      have := insertAt_length_eq (keep.map ℓ) i
      simpa using this
    rw [hins]
    simp only [Arr.get]
    rw [ravel_append _ _ _ _ (by simp), ravel_singleton]
    -- the same element addressed with the un-flattened index
    have hu : InB (unravel i R) R := unravel_InB hi'
    have hul : (unravel i R).length = names.length := by rw [hu.length_eq]; simp [hR]
    set ℓ' := withNames names (unravel i R) ℓ with hℓ'
    have hbound : ∀ nm ∈ d.dims, ℓ' nm < d.ext nm := by
      intro nm hnm
      by_cases hmem : nm ∈ names
      · simp only [hℓ', withNames, hmem, if_true]
        have hk : names.idxOf nm < names.length := List.idxOf_lt_length_iff.2 hmem
        have := InB_getD hu (by simpa [hR] using hk)
        simpa [hR, List.getD, hk, List.getElem_idxOf hk] using this
      · simp only [hℓ', withNames, hmem, if_false]
        exact hℓ nm hnm hmem
    have := hget1 ℓ' hbound
    simp only [getN, Arr.get, hdims1, hshape1, List.map_append] at this
    rw [← this, map_withNames_keep hkn, map_withNames_names hn _ hul,
        ravel_append _ _ _ _ (by simp), ravel_unravel hi']
    simp [hR, size]

end Data
end Dnp
