import DnpProofs.Lemmas.Consistent
import DnpProofs.Lemmas.Sort
import DnpModel.Index
import DnpModel.Arith
set_option linter.unusedSectionVars false
/-! Consistency (C01) of the remaining operations of the alphabet: sort, squeeze, split, concatenate,
    indexing, array arithmetic, cumulative sum, concat, direct coordinate writes. -/
namespace Np
variable {γ δ : Type}

theorem argsort_length (le : γ → γ → Bool) (xs : List γ) : (argsort le xs).length = xs.length := by
  simpa using (argsort_perm le xs).length_eq

/-- `setAt` of the mapped list at an in-range position -/
theorem setAt_map_length {l : List (List γ)} {k : Nat} {c : List γ} :
    (setAt l k c).map List.length = setAt (l.map List.length) k c.length := setAt_map _ _ _ _

theorem getD_map_length (l : List (List γ)) (k : Nat) : (l.map List.length).getD k 0 = (l.getD k []).length := by
  simp only [List.getD_eq_getElem?_getD, List.getElem?_map]
  cases l[k]? <;> simp

theorem size_filter_ne_one : ∀ s : List Nat, size (s.filter (· ≠ 1)) = size s
  | [] => rfl
  | n :: s => by
    have ih := size_filter_ne_one s
    by_cases h : n = 1
    · subst h; simpa [size] using ih
    · simp only [List.filter_cons, ne_eq, h, not_false_eq_true, decide_true, if_true, size]
      rw [ih]

/-- a list is the image of its positions -/
theorem eq_map_range_getD (l : List γ) (dflt : γ) : l = (List.range l.length).map (fun k => l.getD k dflt) := by
  apply List.ext_getElem (by simp)
  intro k h1 h2
  simp [List.getD, h1]

/-- picking the positions whose element satisfies `p` and reading them back is `filter p` -/
theorem map_filter_range (l : List γ) (dflt : γ) (p : γ → Bool) :
    ((List.range l.length).filter (fun k => p (l.getD k dflt))).map (fun k => l.getD k dflt) = l.filter p := by
  conv => rhs; rw [eq_map_range_getD l dflt, List.filter_map]
  rfl

/-- writing an element whose image under `f` is unchanged keeps the mapped list -/
theorem setAt_map_same (f : γ → δ) : ∀ (l : List γ) (k : Nat) (x : γ) (dflt : γ),
    (k < l.length → f x = f (l.getD k dflt)) → (setAt l k x).map f = l.map f
  | [], _, _, _, _ => rfl
  | _ :: _, 0, _, _, h => by simp [setAt, h (by simp)]
  | y :: ys, k + 1, x, dflt, h => by
    simp only [setAt, List.map_cons, List.cons.injEq, true_and]
    exact setAt_map_same f ys k x dflt (fun hk => by simpa using h (by simpa using hk))

theorem getD_length_sub_one : ∀ (s : List Nat), s.getD (s.length - 1) 0 = s.getLast?.getD 0
  | [] => rfl
  | [_] => rfl
  | _ :: b :: t => by
    have := getD_length_sub_one (b :: t)
    simp only [List.length_cons, Nat.add_sub_cancel, List.getLast?_cons_cons] at this ⊢
    simpa using this

/-- splitting the last axis n = m·k into (m, k) keeps the number of elements -/
theorem size_split_last : ∀ (s : List Nat) (m k : Nat), s ≠ [] → s.getLast?.getD 0 = m * k →
    size (setAt s (s.length - 1) m ++ [k]) = size s
  | [], _, _, h, _ => absurd rfl h
  | [n], m, k, _, hl => by
    simp only [List.getLast?_singleton, Option.getD_some] at hl
    simp [setAt, size, hl]
  | a :: b :: t, m, k, _, hl => by
    have ih := size_split_last (b :: t) m k (by simp) (by simpa using hl)
    simp only [List.length_cons, Nat.add_sub_cancel] at ih ⊢
    simp only [setAt, List.cons_append, size] at ih ⊢
    rw [ih]

theorem eraseAt_append_singleton : ∀ (l : List γ) (x : γ), eraseAt (l ++ [x]) l.length = l
  | [], _ => rfl
  | y :: ys, x => by simp [eraseAt, eraseAt_append_singleton ys x]

end Np

namespace Dnp
open Np
namespace Data
variable {κ α β : Type} [Inhabited α] [Inhabited κ] [Inhabited β]

theorem coord_length {d : Data κ α} (h : d.Consistent) (dim : String) : (d.coord dim).length = d.ext dim := by
  unfold coord ext
  rw [h.2.2.1, getD_map_length]

/-- replacing the values along one axis together with that axis' coordinate, lengths agreeing -/
theorem consistent_setAxis {d : Data κ α} (h : d.Consistent) (ax : Nat) (c : List κ) (v : Arr β)
    (hs : v.shape = setAt d.values.shape ax c.length) (hw : v.WF) :
    ({ dims := d.dims, coords := setAt d.coords ax c, values := v, attrs := d.attrs, dattrs := d.dattrs,
       hist := d.hist, unf := d.unf } : Data κ β).Consistent :=
  ⟨h.1, by simp [h.2.1], by rw [hs, h.2.2.1, setAt_map_length], hw⟩

theorem sort_consistent (le : κ → κ → Bool) {d d' : Data κ α} {dim : String} (h : d.Consistent)
    (hr : d.sort le dim = .ok d') : d'.Consistent := by
  unfold sort at hr
  split at hr
  · cases hr
  · simp only [Except.ok.injEq] at hr
    subst hr
    exact consistent_setAxis h _ _ _ (by simp [takeAxis, argsort_length]) (Arr.ofFn_WF _ _)

theorem setitemWith_consistent (dist : κ → κ → κ) (lt : κ → κ → Bool) {d d' : Data κ α}
    {sels : List (String × Sel κ)} {newv : List Nat → α} (h : d.Consistent)
    (hr : d.setitemWith dist lt sels newv = .ok d') : d'.Consistent := by
  unfold setitemWith at hr
  split at hr
  · cases hr
  · simp only [Except.ok.injEq] at hr
    subst hr
    exact consistent_of_same_labels h _ rfl (Arr.ofFn_WF _ _)

theorem arrayOp_consistent (f : α → α → α) {d d' : Data κ α} {arr : Arr α} (h : d.Consistent) (ha : arr.WF)
    (hr : d.arrayOp f arr = .ok d') : d'.Consistent := by
  unfold arrayOp at hr
  split at hr
  · cases hr
  · rename_i hs
    simp only [Except.ok.injEq] at hr
    subst hr
    refine consistent_of_same_labels h _ rfl ?_
    have hs : arr.shape = d.values.shape := by simpa using hs
    simp only [Arr.WF, List.length_zipWith]
    rw [ha, hs, h.2.2.2]
    simp

theorem cumulativeSum_consistent (add : α → α → α) {d d' : Data κ α} {dim : String} (h : d.Consistent)
    (hr : d.cumulativeSum add dim = .ok d') : d'.Consistent := by
  unfold cumulativeSum at hr
  split at hr
  · cases hr
  · rename_i hm
    have hm : dim ∈ d.dims := by simpa using hm
    simp only [Except.ok.injEq] at hr
    subst hr
    refine consistent_of_same_labels h _ ?_ (Arr.ofFn_WF _ _)
    simp only [mapAxis, Arr.ofFn_shape, ext]
    have hk : d.index dim < d.values.shape.length := by
      rw [h.2.2.1, List.length_map, h.2.1]; exact index_lt hm
    exact setAt_self _ _ _ hk

theorem squeeze_consistent {d : Data κ α} (h : d.Consistent) : d.squeeze.Consistent := by
  unfold squeeze
  have hlen : d.coords.length = d.dims.length := h.2.1
  refine ⟨?_, by simp, ?_, ?_⟩
  · -- names at distinct kept positions are distinct
    apply List.Nodup.map_on
    · intro a ha b hb hab
      have ha' : a < d.dims.length := by simpa using (List.mem_filter.1 ha).1
      have hb' : b < d.dims.length := by simpa using (List.mem_filter.1 hb).1
      simp only [List.getD_eq_getElem?_getD, List.getElem?_eq_getElem ha', List.getElem?_eq_getElem hb',
        Option.getD_some] at hab
      exact (List.Nodup.getElem_inj_iff h.1).1 hab
    · exact List.Nodup.filter _ List.nodup_range
  · simp only [squeezeAll, h.2.2.1]
    rw [← hlen, map_filter_range d.coords [] (fun c => c.length != 1), List.filter_map]
    congr 1
    apply List.filter_congr
    intro c _
    by_cases hc : c.length = 1 <;> simp [Function.comp, hc]
  · simp only [Arr.WF, squeezeAll, size_filter_ne_one]
    exact h.2.2.2

/-- shape produced by the per-axis cuts of `__getitem__` -/
def cutShape : Nat → List (Option (List Nat)) → List Nat → List Nat
  | _, [], s => s
  | k, none :: ps, s => cutShape (k + 1) ps s
  | k, some p :: ps, s => cutShape (k + 1) ps (setAt s k p.length)

theorem cut_go_shape : ∀ (ps : List (Option (List Nat))) (k : Nat) (v : Arr α),
    (cut.go k ps v).shape = cutShape k ps v.shape ∧ (v.WF → (cut.go k ps v).WF)
  | [], _, _ => ⟨rfl, id⟩
  | none :: ps, k, v => by simpa [cut.go, cutShape] using cut_go_shape ps (k + 1) v
  | some p :: ps, k, v => by
    have := cut_go_shape ps (k + 1) (takeAxis v k p)
    simp only [cut.go, cutShape]
    exact ⟨this.1, fun _ => this.2 (Arr.ofFn_WF _ _)⟩

theorem cutShape_coords : ∀ (ps : List (Option (List Nat))) (pre cs : List (List κ)),
    ps.length = cs.length →
    cutShape pre.length ps ((pre ++ cs).map List.length) =
      (pre ++ List.zipWith (fun (c : List κ) (p : Option (List Nat)) => match p with
                        | none => c
                        | some p => p.map (fun i => c.getD i default)) cs ps).map List.length
  | [], _, cs, h => by
    have : cs = [] := List.length_eq_zero_iff.1 h.symm
    subst this; simp [cutShape]
  | none :: ps, pre, c :: cs, h => by
    have ih := cutShape_coords ps (pre ++ [c]) cs (by simpa using h)
    simp only [List.length_append, List.length_cons, List.length_nil, Nat.zero_add, List.append_assoc,
      List.cons_append, List.nil_append] at ih
    simpa [cutShape] using ih
  | some p :: ps, pre, c :: cs, h => by
    have ih := cutShape_coords ps (pre ++ [p.map (fun i => c.getD i default)]) cs (by simpa using h)
    simp only [List.length_append, List.length_cons, List.length_nil, Nat.zero_add, List.append_assoc,
      List.cons_append, List.nil_append] at ih
    simp only [cutShape, List.zipWith_cons_cons]
    rw [← ih]
    congr 1
    simp only [List.map_append, List.map_cons]
    have : ∀ (a : List Nat) (x y : Nat) (b : List Nat), setAt (a ++ x :: b) a.length y = a ++ y :: b := by
      intro a x y b
      induction a with
      | nil => rfl
      | cons z zs ih => simp [setAt, ih]
    simpa using this (pre.map List.length) c.length p.length (cs.map List.length)

theorem cut_consistent {d : Data κ α} (h : d.Consistent) (pos : List (Option (List Nat)))
    (hp : pos.length = d.dims.length) : (d.cut pos).Consistent := by
  unfold cut
  have hg := cut_go_shape pos 0 d.values
  refine ⟨h.1, by simp [h.2.1, hp], ?_, hg.2 h.2.2.2⟩
  simp only
  rw [hg.1, h.2.2.1]
  have := cutShape_coords (κ := κ) pos [] d.coords (by rw [hp, h.2.1])
  simp only [List.length_nil, List.nil_append] at this
  exact this

theorem getitem_consistent (dist : κ → κ → κ) (lt : κ → κ → Bool) {d d' : Data κ α}
    {sels : List (String × Sel κ)} (h : d.Consistent) (hr : d.getitem dist lt sels = .ok d') :
    d'.Consistent := by
  unfold getitem at hr
  split at hr
  · cases hr
  · split at hr
    · cases hr
    · simp only [Except.ok.injEq] at hr
      subst hr
      exact cut_consistent h _ (by simp)

theorem concat_consistent (arange : Nat → List κ) {ds : List (Data κ α)} {dim : String} {coord : Option (List κ)}
    {r : Data κ α} (hall : ∀ d ∈ ds, d.Consistent) (hc : (coord.getD (arange ds.length)).length = ds.length)
    (hr : Data.concat arange ds dim coord = .ok r) : r.Consistent := by
  unfold Data.concat at hr
  cases ds with
  | nil => cases hr
  | cons d0 rest =>
    simp only at hr
    split at hr
    · cases hr
    · split at hr
      · cases hr
      · rename_i hnm
        simp only [Except.ok.injEq] at hr
        subst hr
        have h0 := hall d0 (by simp)
        refine ⟨?_, by simp [h0.2.1], ?_, Arr.ofFn_WF _ _⟩
        · exact List.nodup_append.2 ⟨h0.1, by simp, by
            intro a ha b hb; simp at hb; subst hb; rintro rfl; exact hnm ha⟩
        · simp only [stackLast, Arr.ofFn_shape, List.map_append, List.map_cons, List.map_nil, h0.2.2.1]
          rw [hc]; simp

theorem setCoord_consistent {d : Data κ α} (h : d.Consistent) (dim : String) (k : Nat) (v : κ) :
    ({ d with coords := setAt d.coords (d.index dim) (setAt (d.coord dim) k v) } : Data κ α).Consistent := by
  refine ⟨h.1, by simp [h.2.1], ?_, h.2.2.2⟩
  simp only
  rw [h.2.2.1]
  exact (setAt_map_same List.length d.coords (d.index dim) _ [] (fun _ => by simp [coord])).symm

/-- a nodup list in front survives `dedup` as a prefix -/
theorem dedup_append_prefix : ∀ {a : List String} (b : List String), a.Nodup → ∃ r, dedup (a ++ b) = a ++ r
  | [], b, _ => ⟨dedup b, rfl⟩
  | x :: a, b, h => by
    obtain ⟨r, hr⟩ := dedup_append_prefix (a := a) b (List.nodup_cons.1 h).2
    refine ⟨r.filter (· != x), ?_⟩
    have hx : x ∉ a := (List.nodup_cons.1 h).1
    simp only [List.cons_append, dedup, hr, List.filter_append, List.cons.injEq, true_and]
    congr 1
    apply List.filter_eq_self.2
    intro y hy
    have : y ≠ x := fun e => hx (e ▸ hy)
    simpa using this

/-- reordering by a complete nodup list of the names gives exactly that order -/
theorem dedup_append_of_perm {x dims : List String} (hx : x.Nodup) (hd : dims.Nodup) (hp : x.Perm dims) :
    dedup (x ++ dims) = x := by
  obtain ⟨r, hr⟩ := dedup_append_prefix dims hx
  have hperm := dedup_append_perm (ds := x) hd (fun y hy => hp.mem_iff.1 hy)
  have hl := hperm.length_eq
  rw [hr, List.length_append, ← hp.length_eq] at hl
  have : r = [] := List.length_eq_zero_iff.1 (by omega)
  rw [hr, this, List.append_nil]

theorem reorder_consistent' {d d' : Data κ α} {ds : List String} (h : d.Consistent)
    (hr : d.reorder ds = .ok d') : d'.Consistent := by
  obtain ⟨rfl, _, hsub⟩ := reorder_eq_permuted hr
  exact (permuted_spec h (dedup_append_perm h.1 hsub)).1

theorem concatenate_consistent {d b d' : Data κ α} {dim : String} (h : d.Consistent) (hb : b.Consistent)
    (hr : d.concatenate b dim = .ok d') : d'.Consistent := by
  unfold concatenate at hr
  split at hr
  · cases hr
  · split at hr
    · cases hr
    · rename_i _ hdm
      have hdm : dim ∈ d.dims := by simpa using hdm
      simp only [bind, Except.bind] at hr
      cases hq : b.reorder d.dims with
      | error e => rw [hq] at hr; cases hr
      | ok b' =>
        rw [hq] at hr
        simp only at hr
        split at hr
        · cases hr
        · simp only [Except.ok.injEq] at hr
          subst hr
          have hb' := reorder_consistent' hb hq
          obtain ⟨hbd, _, _⟩ := reorder_eq_permuted hq
          obtain ⟨r, hpre⟩ := dedup_append_prefix b.dims h.1
          have hbdims : b'.dims = d.dims ++ r := by rw [hbd]; exact hpre
          have hidx : b'.index dim = d.index dim := by
            unfold index; rw [hbdims, List.idxOf_append_of_mem hdm]
          refine consistent_setAxis h _ _ _ ?_ (Arr.ofFn_WF _ _)
          simp only [concatAxis, Arr.ofFn_shape, List.length_append]
          rw [coord_length h, coord_length hb']
          unfold ext
          rw [hidx]

theorem split_consistent {d d' : Data κ α} {dim new : String} {c : List κ} (h : d.Consistent)
    (hr : d.split dim new c = .ok d') : d'.Consistent := by
  unfold split at hr
  split at hr
  · cases hr
  · rename_i hdm
    have hdm : dim ∈ d.dims := by simpa using hdm
    split at hr
    · cases hr
    · rename_i hnew
      split at hr
      · cases hr
      · simp only [bind, Except.bind] at hr
        cases hq : d.reorder (d.dims.filter (· != dim) ++ [dim]) with
        | error e => rw [hq] at hr; cases hr
        | ok d1 =>
          rw [hq] at hr
          simp only at hr
          split at hr
          · cases hr
          · rename_i hmod
            simp only [Except.ok.injEq] at hr
            subst hr
            have h1 := reorder_consistent' h hq
            obtain ⟨hd1, _, hsub⟩ := reorder_eq_permuted hq
            have hperm : d1.dims.Perm d.dims := by rw [hd1]; exact dedup_append_perm h.1 hsub
            have hne : d1.dims ≠ [] := by
              intro he; have := hperm.mem_iff.2 hdm; rw [he] at this; cases this
            have hnew1 : new ∉ d1.dims := fun hm => hnew (hperm.mem_iff.1 hm)
            have hlenpos : 0 < d1.dims.length := List.length_pos_iff.2 hne
            have hshape_ne : d1.values.shape ≠ [] := by
              intro he
              have := h1.shape_len
              rw [he] at this
              simp at this
              omega
            have hmod : d1.values.shape.getLast?.getD 0 % c.length = 0 := by simpa using hmod
            have hmk : d1.values.shape.getLast?.getD 0 = d1.values.shape.getLast?.getD 0 / c.length * c.length :=
              (Nat.div_mul_cancel (Nat.dvd_of_mod_eq_zero hmod)).symm
            refine ⟨?_, by simp [h1.2.1], ?_, ?_⟩
            · exact List.nodup_append.2 ⟨h1.1, by simp, by
                intro a ha b hb; simp at hb; subst hb; rintro rfl; exact hnew1 ha⟩
            · simp only [reshapeC, List.map_append, List.map_cons, List.map_nil, setAt_map_length, List.length_take]
              congr 1
              rw [← h1.2.2.1]
              congr 1
              have hlast : (d1.coords.getD (d1.dims.length - 1) []).length = d1.values.shape.getLast?.getD 0 := by
                rw [← getD_map_length, ← h1.2.2.1, ← h1.shape_len, getD_length_sub_one]
              rw [hlast]
              exact (Nat.min_eq_left (Nat.div_le_self _ _)).symm
            · simp only [Arr.WF, reshapeC]
              rw [h1.2.2.2, ← h1.shape_len]
              exact (size_split_last _ _ _ hshape_ne hmk).symm

/-- joint reduction over several names: exactly those names disappear, the rest keeps its order;
    history, attributes untouched -/
theorem reduceDims_spec (f : List α → α) {d r : Data κ α} {names : List String} (h : d.Consistent)
    (hn : names.Nodup) (hsub : ∀ x ∈ names, x ∈ d.dims) (hr : d.reduceDims f names = .ok r) :
    r.Consistent ∧ r.dims = d.dims.filter (fun x => x ∉ names) ∧ r.hist = d.hist ∧ r.attrs = d.attrs ∧
    r.coords = (d.dims.filter (fun x => x ∉ names)).map d.coord := by
  unfold reduceDims at hr
  simp only [bind, Except.bind] at hr
  cases hq : d.reorder (d.dims.filter (fun x => x ∉ names) ++ names) with
  | error e => rw [hq] at hr; cases hr
  | ok d1 =>
    rw [hq] at hr
    simp only [Except.ok.injEq] at hr
    set keep := d.dims.filter (fun x => x ∉ names) with hkeep
    have hknd : keep.Nodup := h.1.filter _
    have hxnd : (keep ++ names).Nodup := by
      refine List.nodup_append.2 ⟨hknd, hn, ?_⟩
      intro a ha b hb hab
      subst hab
      have := (List.mem_filter.1 ha).2
      simp at this
      exact this hb
    have hxperm : (keep ++ names).Perm d.dims := by
      rw [List.perm_ext_iff_of_nodup hxnd h.1]
      intro y
      simp only [List.mem_append, hkeep, List.mem_filter, decide_eq_true_eq]
      constructor
      · rintro (⟨hy, _⟩ | hy)
        · exact hy
        · exact hsub y hy
      · intro hy
        by_cases hyn : y ∈ names
        · exact Or.inr hyn
        · exact Or.inl ⟨hy, hyn⟩
    obtain ⟨hd1, _, _⟩ := reorder_eq_permuted hq
    rw [dedup_append_of_perm hxnd h.1 hxperm] at hd1
    have hc1 := (permuted_spec h hxperm).1
    rw [← hd1] at hc1
    have hdims1 : d1.dims = keep ++ names := by rw [hd1]; rfl
    have hcoords1 : d1.coords = (keep ++ names).map d.coord := by rw [hd1]; exact permuted_coords _
    have hhist1 : d1.hist = d.hist := by rw [hd1]; rfl
    have hattrs1 : d1.attrs = d.attrs := by rw [hd1]; rfl
    subst hr
    have hlen : keep.length ≤ d1.coords.length := by rw [hcoords1]; simp
    refine ⟨⟨hknd, by simp [List.length_take, Nat.min_eq_left hlen], ?_, Arr.ofFn_WF _ _⟩, rfl, hhist1, hattrs1, ?_⟩
    · simp only [reduceAxis, Arr.ofFn_shape, reshapeC]
      have hk : (d1.values.shape.take keep.length).length = keep.length := by
        rw [List.length_take, hc1.2.2.1, List.length_map]; exact Nat.min_eq_left hlen
      have := eraseAt_append_singleton (d1.values.shape.take keep.length) (size (d1.values.shape.drop keep.length))
      rw [hk] at this
      rw [this, hc1.2.2.1, List.map_take]
    · simp only [hcoords1, List.map_append, List.take_left']
      rw [List.take_left' (by simp)]

theorem resolveItems_mem (dims : List String) : ∀ (items : List AxItem) (names : List String),
    resolveItems dims items = .ok names → ∀ x ∈ names, x ∈ dims
  | [], names, h => by
    simp only [resolveItems, Except.ok.injEq] at h; subst h; simp
  | .nm s :: r, names, h => by
    unfold resolveItems at h
    split at h
    · cases h
    · rename_i hs
      cases hq : resolveItems dims r with
      | error e => rw [hq] at h; cases h
      | ok ns =>
        rw [hq] at h
        simp only [Except.map, Except.ok.injEq] at h
        subst h
        intro x hx
        rcases List.mem_cons.1 hx with rfl | hx
        · simpa using hs
        · exact resolveItems_mem dims r ns hq x hx
  | .ix i :: r, names, h => by
    unfold resolveItems at h
    simp only at h
    split at h
    · cases h
    · rename_i hi
      cases hq : resolveItems dims r with
      | error e => rw [hq] at h; cases h
      | ok ns =>
        rw [hq] at h
        simp only [Except.map, Except.ok.injEq] at h
        subst h
        intro x hx
        rcases List.mem_cons.1 hx with rfl | hx
        · have hk : (if i < 0 then i + (dims.length : Int) else i).toNat < dims.length := by
            split <;> omega
          simp only [List.getD_eq_getElem?_getD, List.getElem?_eq_getElem hk, Option.getD_some]
          exact List.getElem_mem hk
        · exact resolveItems_mem dims r ns hq x hx

/-- the tuple branch of a NumPy reduction: what comes back when it returns an object -/
theorem npReduce_tuple_spec (n : String) (f : List α → α) {d r : Data κ α} {items : List AxItem} (h : d.Consistent)
    (hr : d.npReduce n f (.tuple items) = .ok (.inl r)) :
    ∃ names, resolveItems d.dims items = .ok names ∧ names.Nodup ∧ (∀ x ∈ names, x ∈ d.dims) ∧
      r.Consistent ∧ r.dims = d.dims.filter (fun x => x ∉ names) ∧
      r.coords = (d.dims.filter (fun x => x ∉ names)).map d.coord ∧
      r.hist = d.hist ++ [("numpy." ++ n, ["axis"])] ∧ r.attrs = d.attrs ∧
      ∃ q, d.reduceDims f names = .ok q ∧ r = q.addHist ("numpy." ++ n) ["axis"] := by
  unfold npReduce at hr
  simp only at hr
  split at hr
  · cases hr
  · simp only [bind, Except.bind] at hr
    cases hq : resolveItems d.dims items with
    | error e => rw [hq] at hr; cases hr
    | ok names =>
      rw [hq] at hr
      simp only at hr
      split at hr
      · cases hr
      · rename_i hnd
        have hnd : names.Nodup := by simpa using hnd
        split at hr
        · simp at hr
        · cases hq2 : d.reduceDims f names with
          | error e => rw [hq2] at hr; cases hr
          | ok q =>
            rw [hq2] at hr
            simp only [Except.map, Except.ok.injEq, Sum.inl.injEq] at hr
            subst hr
            have hsub := resolveItems_mem d.dims items names hq
            obtain ⟨hc, hd, hh, ha, hco⟩ := reduceDims_spec f h hnd hsub hq2
            exact ⟨names, rfl, hnd, hsub, addHist_consistent hc _ _, hd, hco, by simp [addHist, hh], ha, q, hq2, rfl⟩

end Data
end Dnp
