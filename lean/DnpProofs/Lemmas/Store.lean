import DnpModel.Store
import Mathlib.Data.List.Basic
set_option linter.unusedSectionVars false
/-! Frame lemmas for the workspace model. -/
namespace Dnp
open Np
namespace Store
variable {κ α : Type}

theorem get?_set_ne : ∀ (s : Store κ α) {i j : Nat} (d : Data κ α), i ≠ j → (s.set j d).get? i = s.get? i
  | [], i, j, d, h => by simp [set, get?, Ne.symm h]
  | (k, e) :: s, i, j, d, h => by
    by_cases hkj : k = j
    · have hki : ¬ k = i := fun e => h (e.symm.trans hkj)
      simp [set, get?, hkj, Ne.symm h]
    · by_cases hki : k = i
      · subst hki; simp [set, get?, h]
      · simp [set, get?, hkj, hki, get?_set_ne s d h]

theorem get?_set_self : ∀ (s : Store κ α) (i : Nat) (d : Data κ α), (s.set i d).get? i = some d
  | [], i, d => by simp [set, get?]
  | (k, e) :: s, i, d => by
    by_cases hki : k = i
    · simp [set, get?, hki]
    · simp [set, get?, hki, get?_set_self s i d]

theorem get?_del_ne : ∀ (s : Store κ α) {i j : Nat}, i ≠ j → (s.del j).get? i = s.get? i
  | [], _, _, _ => rfl
  | (k, e) :: s, i, j, h => by
    by_cases hkj : k = j
    · have hki : ¬ k = i := fun e => h (e.symm.trans hkj)
      simp [del, get?, hkj, get?_del_ne s h, Ne.symm h]
    · by_cases hki : k = i
      · subst hki; simp [del, get?, h]
      · simp [del, get?, hkj, hki, get?_del_ne s h]

end Store

variable {κ α : Type} [Inhabited α] [Inhabited κ]

theorem withObj_frame {s : Store κ α} {i j : Nat} {k : Data κ α → StepOut κ α}
    (h : ∀ d, (k d).store.get? i = s.get? i) : (withObj s j k).store.get? i = s.get? i := by
  unfold withObj
  split
  · exact h _
  · rfl

theorem putResult_frame {s : Store κ α} {i j : Nat} (h : i ≠ j) (r : Except Err (Data κ α)) :
    (putResult s j r).store.get? i = s.get? i := by
  unfold putResult
  split
  · exact Store.get?_set_ne s _ h
  · rfl

theorem withObj_raise {s : Store κ α} {j : Nat} {k : Data κ α → StepOut κ α}
    (h : ∀ d, (k d).err.isSome → (k d).store = s) : (withObj s j k).err.isSome → (withObj s j k).store = s := by
  unfold withObj
  split
  · exact h _
  · intro _; rfl

theorem putResult_raise {s : Store κ α} {j : Nat} (r : Except Err (Data κ α)) :
    (putResult s j r).err.isSome → (putResult s j r).store = s := by
  unfold putResult
  split
  · intro h; simp at h
  · intro _; rfl

end Dnp
