import DnpProofs.Lemmas.Relabel
import DnpModel.Proc.Funcs
set_option linter.unusedSectionVars false
/-! The processing history travels unchanged through the mechanisms processing functions are built from
    (reorder, unfold … fold, the two brackets, mapAlong, scaleAlong, reduceDim, getitem, rename). -/
namespace Dnp
open Np
namespace Data
variable {κ α : Type} [Inhabited α] [Inhabited κ]

theorem reorder_hist {d r : Data κ α} {ds : List String} (h : d.reorder ds = .ok r) : r.hist = d.hist := by
  obtain ⟨rfl, _, _⟩ := reorder_eq_permuted h
  rfl

theorem unfold_hist (arange : Nat → List κ) {d u : Data κ α} {dim : String} (h : d.unfold arange dim = .ok u) :
    u.hist = d.hist := by
  unfold Data.unfold at h
  split at h
  · cases h
  · split at h
    · cases h
    · simp only [bind, Except.bind] at h
      split at h
      · cases h
      · rename_i p hp
        simp only [Except.ok.injEq] at h
        subst h
        exact (reorder_hist hp : p.hist = d.hist)

theorem fold_hist {u r : Data κ α} (h : u.fold = .ok r) : r.hist = u.hist := by
  unfold Data.fold at h
  split at h
  · cases h
  · split at h
    · simp only [Except.ok.injEq] at h; subst h; rfl
    · simp only at h
      split at h
      · cases h
      · exact (reorder_hist h).trans rfl

theorem bracket_hist (arange : Nat → List κ) {d r : Data κ α} {dim : String} (f : Nat → List α → List α) (n' : Nat)
    (nc : Option (List κ)) (h : d.bracket arange dim f n' nc = .ok r) : r.hist = d.hist := by
  unfold bracket at h
  simp only [bind, Except.bind] at h
  split at h
  · cases h
  · rename_i u hu
    rw [fold_hist h]
    exact (unfold_hist arange hu : u.hist = d.hist)

theorem bracketAll_hist (arange : Nat → List κ) {d r : Data κ α} {dim : String} (H : List (List α) → List (List α))
    (h : d.bracketAll arange dim H = .ok r) : r.hist = d.hist := by
  unfold bracketAll at h
  simp only [bind, Except.bind] at h
  split at h
  · cases h
  · rename_i u hu
    rw [fold_hist h]
    exact (unfold_hist arange hu : u.hist = d.hist)

theorem mapAlong_hist {d r : Data κ α} {dim : String} (f : List α → List α) (m : Nat) (nc : Option (List κ))
    (h : d.mapAlong dim f m nc = .ok r) : r.hist = d.hist := by
  unfold mapAlong at h
  split at h
  · cases h
  · simp only [Except.ok.injEq] at h; subst h; rfl

theorem scaleAlong_hist (mul : α → α → α) {d r : Data κ α} {dim : String} (w : List α)
    (h : d.scaleAlong mul dim w = .ok r) : r.hist = d.hist := by
  unfold scaleAlong at h
  split at h
  · cases h
  · split at h
    · cases h
    · simp only [Except.ok.injEq] at h; subst h; rfl

theorem reduceDim_hist {β : Type} [Inhabited β] (f : List α → β) {d : Data κ α} {r : Data κ β} {dim : String}
    (h : d.reduceDim f dim = .ok r) : r.hist = d.hist := by
  unfold reduceDim at h
  split at h
  · cases h
  · simp only [Except.ok.injEq] at h; subst h; rfl

theorem getitem_hist (dist : κ → κ → κ) (lt : κ → κ → Bool) {d r : Data κ α} {sels : List (String × Sel κ)}
    (h : d.getitem dist lt sels = .ok r) : r.hist = d.hist := by
  unfold getitem at h
  split at h
  · cases h
  · split at h
    · cases h
    · simp only [Except.ok.injEq] at h; subst h; rfl

theorem rename_hist {d r : Data κ α} {dim new : String} (h : d.rename dim new = .ok r) : r.hist = d.hist := by
  unfold rename at h
  split at h
  · cases h
  · split at h
    · cases h
    · simp only [Except.ok.injEq] at h; subst h; rfl

end Data
end Dnp
