import Mathlib.Algebra.Polynomial.Roots
import Mathlib.Algebra.Order.BigOperators.Ring.Finset
import Mathlib.Algebra.Module.LinearMap.Defs
import Mathlib.Algebra.Module.Pi
import Mathlib.Tactic.Linarith
import Mathlib.Tactic.FieldSimp
import Mathlib.Tactic.Ring
/-!
# Least-squares polynomial fit: S1 (linear) and S2 (exact on polynomials) FROM the definition

`numpy.polyfit(x[S], y[S], deg)` is documented to return the polynomial of degree ≤ deg that minimises
the squared error on the fitting points.  Everything `remove_background` needs follows from that
contract alone, over any linearly ordered field, as soon as the fitting points carry more than `deg`
distinct abscissae.
-/
namespace Dnp.Lsq
open Polynomial Finset

set_option linter.unusedSectionVars false
variable {K ι : Type} [Field K] [LinearOrder K] [IsStrictOrderedRing K] [DecidableEq ι]

/-- squared error of `q` against `y` on the fitting points `S` -/
def sqErr (x : ι → K) (S : Finset ι) (q : K[X]) (y : ι → K) : K :=
  ∑ i ∈ S, (y i - q.eval (x i)) ^ 2

/-- `q` is a least-squares polynomial of degree ≤ d for `y` on `S` (the contract of `numpy.polyfit`) -/
def IsLsq (x : ι → K) (S : Finset ι) (d : ℕ) (q : K[X]) (y : ι → K) : Prop :=
  q.natDegree ≤ d ∧ ∀ r : K[X], r.natDegree ≤ d → sqErr x S q y ≤ sqErr x S r y

/-- normal equations: the residual is orthogonal to every polynomial of degree ≤ d -/
def Normal (x : ι → K) (S : Finset ι) (d : ℕ) (q : K[X]) (y : ι → K) : Prop :=
  ∀ r : K[X], r.natDegree ≤ d → ∑ i ∈ S, (y i - q.eval (x i)) * r.eval (x i) = 0

theorem natDegree_lin {d : ℕ} {q r : K[X]} (a b : K) (hq : q.natDegree ≤ d) (hr : r.natDegree ≤ d) :
    (C a * q + C b * r).natDegree ≤ d :=
  (natDegree_add_le _ _).trans (max_le ((natDegree_C_mul_le _ _).trans hq) ((natDegree_C_mul_le _ _).trans hr))

/-- a minimiser satisfies the normal equations -/
theorem IsLsq.normal {x : ι → K} {S : Finset ι} {d : ℕ} {q : K[X]} {y : ι → K} (h : IsLsq x S d q y) :
    Normal x S d q y := by
  intro r hr
  set B : K := ∑ i ∈ S, (y i - q.eval (x i)) * r.eval (x i) with hB
  set Cc : K := ∑ i ∈ S, (r.eval (x i)) ^ 2 with hC
  have hC0 : 0 ≤ Cc := Finset.sum_nonneg (fun i _ => sq_nonneg _)
  -- the error of q + t r
  have key : ∀ t : K, 0 ≤ -(2 * t * B) + t ^ 2 * Cc := by
    intro t
    have hdeg : (C (1 : K) * q + C t * r).natDegree ≤ d := natDegree_lin 1 t h.1 hr
    have := h.2 _ hdeg
    have e : sqErr x S (C (1 : K) * q + C t * r) y = sqErr x S q y - 2 * t * B + t ^ 2 * Cc := by
      simp only [sqErr, hB, hC, Finset.mul_sum, ← Finset.sum_sub_distrib, ← Finset.sum_add_distrib]
      apply Finset.sum_congr rfl
      intro i _
      simp only [eval_add, eval_mul, eval_C]
      ring
    rw [e] at this
    linarith
  rcases eq_or_lt_of_le hC0 with h0 | hpos
  · -- all r(x i) vanish on S
    have hz : ∀ i ∈ S, (r.eval (x i)) ^ 2 = 0 :=
      (Finset.sum_eq_zero_iff_of_nonneg (fun i _ => sq_nonneg _)).1 h0.symm
    apply Finset.sum_eq_zero
    intro i hi
    have : r.eval (x i) = 0 := by simpa using hz i hi
    rw [this, mul_zero]
  · have := key (B / Cc)
    have e : -(2 * (B / Cc) * B) + (B / Cc) ^ 2 * Cc = -(B ^ 2 / Cc) := by
      field_simp
      ring
    rw [e] at this
    have h1 : 0 ≤ B ^ 2 / Cc := div_nonneg (sq_nonneg _) hpos.le
    have h2 : B ^ 2 / Cc = 0 := le_antisymm (by linarith) h1
    have h3 : B ^ 2 = 0 := by
      rcases div_eq_zero_iff.1 h2 with h | h
      · exact h
      · exact absurd h hpos.ne'
    exact pow_eq_zero_iff (n := 2) (by norm_num) |>.1 h3

/-- the normal equations characterise the minimisers -/
theorem Normal.isLsq {x : ι → K} {S : Finset ι} {d : ℕ} {q : K[X]} {y : ι → K} (hq : q.natDegree ≤ d)
    (h : Normal x S d q y) : IsLsq x S d q y := by
  refine ⟨hq, fun r hr => ?_⟩
  have hdeg : (q - r).natDegree ≤ d := (natDegree_sub_le _ _).trans (max_le hq hr)
  have hn := h _ hdeg
  have e : sqErr x S r y = sqErr x S q y + 2 * (∑ i ∈ S, (y i - q.eval (x i)) * (q - r).eval (x i))
      + ∑ i ∈ S, ((q - r).eval (x i)) ^ 2 := by
    simp only [sqErr, Finset.mul_sum, ← Finset.sum_add_distrib]
    apply Finset.sum_congr rfl
    intro i _
    simp only [eval_sub]
    ring
  rw [e, hn]
  have : 0 ≤ ∑ i ∈ S, ((q - r).eval (x i)) ^ 2 := Finset.sum_nonneg (fun i _ => sq_nonneg _)
  linarith

/-- the normal equations are linear in the data -/
theorem Normal.lin {x : ι → K} {S : Finset ι} {d : ℕ} {q q' : K[X]} {y z : ι → K} (a b : K)
    (h : Normal x S d q y) (h' : Normal x S d q' z) :
    Normal x S d (C a * q + C b * q') (a • y + b • z) := by
  intro r hr
  have e : ∑ i ∈ S, ((a • y + b • z) i - (C a * q + C b * q').eval (x i)) * r.eval (x i)
      = a * (∑ i ∈ S, (y i - q.eval (x i)) * r.eval (x i)) + b * (∑ i ∈ S, (z i - q'.eval (x i)) * r.eval (x i)) := by
    simp only [Finset.mul_sum, ← Finset.sum_add_distrib]
    apply Finset.sum_congr rfl
    intro i _
    simp only [Pi.add_apply, Pi.smul_apply, smul_eq_mul, eval_add, eval_mul, eval_C]
    ring
  rw [e, h r hr, h' r hr, mul_zero, mul_zero, add_zero]

/-- with more than `d` distinct abscissae among the fitting points the solution is unique -/
theorem Normal.unique {x : ι → K} {S : Finset ι} {d : ℕ} {q q' : K[X]} {y : ι → K}
    (hinj : Set.InjOn x S) (hcard : d < S.card) (hq : q.natDegree ≤ d) (hq' : q'.natDegree ≤ d)
    (h : Normal x S d q y) (h' : Normal x S d q' y) : q = q' := by
  have hdeg : (q' - q).natDegree ≤ d := (natDegree_sub_le _ _).trans (max_le hq' hq)
  have h1 := h _ hdeg
  have h2 := h' _ hdeg
  have hs : ∑ i ∈ S, ((q' - q).eval (x i)) ^ 2 = 0 := by
    have e : ∑ i ∈ S, ((q' - q).eval (x i)) ^ 2
        = (∑ i ∈ S, (y i - q.eval (x i)) * (q' - q).eval (x i)) - ∑ i ∈ S, (y i - q'.eval (x i)) * (q' - q).eval (x i) := by
      rw [← Finset.sum_sub_distrib]
      apply Finset.sum_congr rfl
      intro i _
      simp only [eval_sub]
      ring
    rw [e, h1, h2, sub_zero]
  have hz : ∀ i ∈ S, (q' - q).eval (x i) = 0 := by
    intro i hi
    have := (Finset.sum_eq_zero_iff_of_nonneg (fun i _ => sq_nonneg ((q' - q).eval (x i)))).1 hs i hi
    simpa using this
  have hzero : q' - q = 0 := by
    apply eq_zero_of_natDegree_lt_card_of_eval_eq_zero' (q' - q) (S.image x)
    · intro v hv
      obtain ⟨i, hi, rfl⟩ := Finset.mem_image.1 hv
      exact hz i hi
    · rw [Finset.card_image_of_injOn hinj]
      exact lt_of_le_of_lt hdeg hcard
  exact (sub_eq_zero.1 hzero).symm

end Dnp.Lsq
