import DnpProofs.Lemmas.Slice
import Mathlib.Tactic.Positivity
set_option linter.unusedSectionVars false
/-! Every position a Python slice selects lies on the axis (0 ≤ p < n), for any start / stop / non-zero step. -/
namespace Np

theorem sliceStart_bounds (n : Nat) (start : Option Int) (st : Int) :
    (0 < st → 0 ≤ sliceStart n start st ∧ sliceStart n start st ≤ n) ∧
    (st < 0 → -1 ≤ sliceStart n start st ∧ sliceStart n start st ≤ (n : Int) - 1) := by
  constructor <;> intro h <;> cases start <;> simp only [sliceStart] <;> (repeat' split) <;> omega

theorem sliceStop_bounds (n : Nat) (stop : Option Int) (st : Int) :
    (0 < st → 0 ≤ sliceStop n stop st ∧ sliceStop n stop st ≤ n) ∧
    (st < 0 → -1 ≤ sliceStop n stop st ∧ sliceStop n stop st ≤ (n : Int) - 1) := by
  constructor <;> intro h <;> cases stop <;> simp only [sliceStop] <;> (repeat' split) <;> omega

/-- every selected position is on the axis -/
theorem pySlice_lt (n : Nat) (start stop step : Option Int) (hst : step.getD 1 ≠ 0) :
    ∀ p ∈ pySlice n start stop step, p < n := by
  intro p hp
  unfold pySlice at hp
  simp only [List.mem_map, List.mem_range] at hp
  obtain ⟨k, hk, rfl⟩ := hp
  set st := step.getD 1 with hstdef
  set a := sliceStart n start st
  set b := sliceStop n stop st
  unfold sliceLen at hk
  by_cases hpos : 0 < st
  · have ha := (sliceStart_bounds n start st).1 hpos
    have hb := (sliceStop_bounds n stop st).1 hpos
    rw [if_pos hpos] at hk
    split at hk
    · rename_i hab
      -- k ≤ (b - a - 1) / st, hence a + k*st ≤ b - 1
      have hk' : (k : Int) ≤ (b - a - 1) / st := by
        have : (k : Int) < (b - a - 1) / st + 1 := by
          have h0 : 0 ≤ (b - a - 1) / st := Int.ediv_nonneg (by omega) hpos.le
          have := hk
          omega
        omega
      have hmul : (k : Int) * st ≤ (b - a - 1) / st * st := Int.mul_le_mul_of_nonneg_right hk' hpos.le
      have hdiv : (b - a - 1) / st * st ≤ b - a - 1 := Int.ediv_mul_le _ (by omega)
      have hk0 : 0 ≤ (k : Int) * st := by positivity
      have : a + (k : Int) * st < n := by omega
      omega
    · simp at hk
  · have hneg : st < 0 := by omega
    have ha := (sliceStart_bounds n start st).2 hneg
    have hb := (sliceStop_bounds n stop st).2 hneg
    rw [if_neg hpos, if_pos hneg] at hk
    split at hk
    · have hk0 : (k : Int) * st ≤ 0 := Int.mul_nonpos_of_nonneg_of_nonpos (by positivity) hneg.le
      have : a + (k : Int) * st < n := by omega
      by_cases hnn : 0 ≤ a + (k : Int) * st
      · omega
      · have : (a + (k : Int) * st).toNat = 0 := by omega
        rw [this]
        omega
    · simp at hk

end Np
