import DnpProofs.Lemmas.Arr
import DnpProofs.Lemmas.ListAux
set_option linter.unusedSectionVars false
/-! The trace-at-a-time `mapAxis` computes the array its specification describes. -/
namespace Np
variable {α β : Type}

theorem Arr.ofFn_congr {s : List Nat} {f g : List Nat → β} (h : ∀ idx, InB idx s → f idx = g idx) :
    ofFn s f = ofFn s g := by
  unfold ofFn
  congr 1
  apply List.map_congr_left
  intro k hk
  exact h _ (unravel_InB (by simpa using hk))

theorem eraseAt_setAt {γ : Type} : ∀ (l : List γ) (k : Nat) (x : γ), eraseAt (setAt l k x) k = eraseAt l k
  | [], _, _ => rfl
  | _ :: _, 0, _ => rfl
  | y :: ys, k + 1, x => by simp [setAt, eraseAt, eraseAt_setAt ys k x]

theorem InB_eraseAt : ∀ {idx s : List Nat} (k : Nat), InB idx s → InB (eraseAt idx k) (eraseAt s k)
  | [], [], _, _ => trivial
  | _ :: _, _ :: _, 0, h => h.2
  | _ :: _, _ :: _, k + 1, h => ⟨h.1, InB_eraseAt k h.2⟩
  | [], _ :: _, _, h => absurd h (by simp [InB])
  | _ :: _, [], _, h => absurd h (by simp [InB])

theorem mapAxis_eq_spec [Inhabited α] [Inhabited β] (f : List α → List β) (m : Nat) (a : Arr α) (ax : Nat)
    (hax : ax < a.shape.length) : mapAxis f m a ax = mapAxisSpec f m a ax := by
  unfold mapAxis mapAxisSpec
  apply Arr.ofFn_congr
  intro idx hin
  have hlen : idx.length = a.shape.length := by rw [hin.length_eq]; simp
  have he : InB (eraseAt idx ax) (eraseAt a.shape ax) := by
    have := InB_eraseAt ax hin
    rwa [eraseAt_setAt] at this
  have hlt := ravel_lt he
  congr 1
  rw [Array.getD_eq_getD_getElem?, List.getElem?_toArray, List.getElem?_map]
  unfold Arr.indices
  rw [List.getElem?_map, List.getElem?_range hlt]
  simp only [Option.map_some, Option.getD_some, unravel_ravel he]
  congr 1
  apply List.map_congr_left
  intro i _
  rw [insertAt_eraseAt idx ax i (by rw [hlen]; exact hax)]

end Np
