import DnpModel.Np.Prim
import Mathlib.Data.List.Nodup
set_option linter.unusedSectionVars false
/-! setAt / eraseAt / insertAt facts. -/
namespace Np
variable {γ δ : Type}

@[simp] theorem setAt_length : ∀ (l : List γ) (k : Nat) (x : γ), (setAt l k x).length = l.length
  | [], _, _ => rfl
  | _ :: _, 0, _ => rfl
  | _ :: xs, k + 1, x => by simp [setAt, setAt_length xs k x]

theorem setAt_map (f : γ → δ) : ∀ (l : List γ) (k : Nat) (x : γ), (setAt l k x).map f = setAt (l.map f) k (f x)
  | [], _, _ => rfl
  | _ :: _, 0, _ => rfl
  | _ :: xs, k + 1, x => by simp [setAt, setAt_map f xs k x]

theorem setAt_getD_self : ∀ (l : List γ) (k : Nat) (x dflt : γ), k < l.length → (setAt l k x).getD k dflt = x
  | [], _, _, _, h => by simp at h
  | _ :: _, 0, _, _, _ => rfl
  | _ :: xs, k + 1, x, dflt, h => by
    have := setAt_getD_self xs k x dflt (by simpa using h)
    simpa [setAt] using this

theorem setAt_getD_ne : ∀ (l : List γ) (k j : Nat) (x dflt : γ), j ≠ k → (setAt l k x).getD j dflt = l.getD j dflt
  | [], _, _, _, _, _ => rfl
  | _ :: _, 0, j, _, _, h => by
    cases j with
    | zero => exact absurd rfl h
    | succ j => rfl
  | y :: xs, k + 1, j, x, dflt, h => by
    cases j with
    | zero => rfl
    | succ j =>
      have := setAt_getD_ne xs k j x dflt (by omega)
      simpa [setAt] using this

theorem setAt_self : ∀ (l : List γ) (k : Nat) (dflt : γ), k < l.length → setAt l k (l.getD k dflt) = l
  | [], _, _, h => by simp at h
  | _ :: _, 0, _, _ => rfl
  | y :: xs, k + 1, dflt, h => by
    have := setAt_self xs k dflt (by simpa using h)
    simpa [setAt] using this

theorem eraseAt_length : ∀ (l : List γ) (k : Nat), k < l.length → (eraseAt l k).length = l.length - 1
  | [], _, h => by simp at h
  | _ :: _, 0, _ => by simp [eraseAt]
  | _ :: xs, k + 1, h => by
    have hk : k < xs.length := by simpa using h
    simp [eraseAt, eraseAt_length xs k hk]; omega

theorem eraseAt_map (f : γ → δ) : ∀ (l : List γ) (k : Nat), (eraseAt l k).map f = eraseAt (l.map f) k
  | [], _ => rfl
  | _ :: _, 0 => rfl
  | _ :: xs, k + 1 => by simp [eraseAt, eraseAt_map f xs k]

theorem eraseAt_sublist : ∀ (l : List γ) (k : Nat), (eraseAt l k).Sublist l
  | [], _ => List.Sublist.refl _
  | _ :: _, 0 => List.sublist_cons_self _ _
  | x :: xs, k + 1 => (eraseAt_sublist xs k).cons_cons x

theorem eraseAt_nodup {l : List γ} (h : l.Nodup) (k : Nat) : (eraseAt l k).Nodup :=
  h.sublist (eraseAt_sublist l k)

theorem mem_eraseAt {l : List γ} {x : γ} {k : Nat} (h : x ∈ eraseAt l k) : x ∈ l :=
  (eraseAt_sublist l k).subset h

theorem insertAt_length : ∀ (l : List γ) (k : Nat) (x : γ), (insertAt l k x).length = l.length + 1
  | _, 0, _ => by simp [insertAt]
  | [], _ + 1, _ => by simp [insertAt]
  | _ :: ys, k + 1, x => by simp [insertAt, insertAt_length ys k x]

/-- inserting at position k and erasing it again -/
theorem eraseAt_insertAt : ∀ (l : List γ) (k : Nat) (x : γ), k ≤ l.length → eraseAt (insertAt l k x) k = l
  | _, 0, _, _ => by simp [insertAt, eraseAt]
  | [], k + 1, _, h => by simp at h
  | y :: ys, k + 1, x, h => by
    simp [insertAt, eraseAt, eraseAt_insertAt ys k x (by simpa using h)]

theorem insertAt_eraseAt : ∀ (L : List γ) (k : Nat) (x : γ), k < L.length → insertAt (eraseAt L k) k x = setAt L k x
  | [], _, _, h => by simp at h
  | _ :: xs, 0, _, _ => by cases xs <;> simp [eraseAt, insertAt, setAt]
  | y :: xs, k + 1, x, h => by
    simp [eraseAt, insertAt, setAt, insertAt_eraseAt xs k x (by simpa using h)]

theorem not_mem_eraseAt_idxOf [DecidableEq γ] : ∀ {l : List γ} {x : γ}, l.Nodup → x ∉ eraseAt l (l.idxOf x)
  | [], _, _ => by simp [eraseAt]
  | y :: ys, x, h => by
    by_cases hyx : y = x
    · subst hyx
      simp only [List.idxOf_cons_self, eraseAt]
      exact (List.nodup_cons.1 h).1
    · rw [List.idxOf_cons_ne _ hyx]
      simp only [eraseAt, List.mem_cons, not_or]
      exact ⟨fun e => hyx e.symm, not_mem_eraseAt_idxOf (List.nodup_cons.1 h).2⟩

/-- multi-index bounds through insertAt / eraseAt -/
theorem InB_insertAt : ∀ {idx s : List Nat} {k i : Nat}, k < s.length → InB idx (eraseAt s k) → i < s.getD k 0 →
    InB (insertAt idx k i) s
  | idx, n :: s, 0, i, _, h, hi => by
    simp only [eraseAt] at h
    simp only [insertAt]
    exact ⟨by simpa using hi, h⟩
  | [], n :: s, k + 1, i, hk, h, _ => by
    simp only [eraseAt] at h
    exact absurd h (by simp [InB])
  | j :: idx, n :: s, k + 1, i, hk, h, hi => by
    simp only [eraseAt] at h
    simp only [insertAt]
    exact ⟨h.1, InB_insertAt (by simpa using hk) h.2 (by simpa using hi)⟩
  | _, [], _, _, hk, _, _ => by simp at hk

theorem InB_setAt : ∀ {idx s : List Nat} {k i m : Nat}, InB idx (setAt s k m) → i < s.getD k 0 → InB (setAt idx k i) s
  | [], [], _, _, _, _, _ => trivial
  | j :: idx, n :: s, 0, i, m, h, hi => by
    simp only [setAt] at h ⊢
    exact ⟨by simpa using hi, h.2⟩
  | j :: idx, n :: s, k + 1, i, m, h, hi => by
    simp only [setAt] at h ⊢
    exact ⟨h.1, InB_setAt h.2 (by simpa using hi)⟩
  | [], _ :: _, 0, _, _, h, _ => by simp [setAt, InB] at h
  | [], _ :: _, _ + 1, _, _, h, _ => by simp [setAt, InB] at h
  | _ :: _, [], _, _, _, h, _ => by simp [setAt, InB] at h

end Np
