import DnpProofs.Lemmas.Bracket
import DnpProofs.Lemmas.MapAxis
set_option linter.unusedSectionVars false
/-! Axis-index mechanisms (mapAlong / reduceDim / scaleAlong) read by name. -/
namespace Dnp
open Np
namespace Data
variable {κ α β : Type} [Inhabited α] [Inhabited κ] [Inhabited β]

theorem setAt_map_named {dims : List String} (hnd : dims.Nodup) {dim : String} (hm : dim ∈ dims)
    (ℓ : String → Nat) (i : Nat) :
    setAt (dims.map ℓ) (dims.idxOf dim) i = dims.map (fun x => if x = dim then i else ℓ x) := by
  apply List.ext_getElem (by simp)
  intro k h1 h2
  have hk : k < dims.length := by simpa using h2
  have hidx : dims.idxOf dim < dims.length := List.idxOf_lt_length_iff.2 hm
  by_cases hkd : k = dims.idxOf dim
  · have e : dims[k] = dim := by subst hkd; exact List.getElem_idxOf hidx
    have := setAt_getD_self (dims.map ℓ) (dims.idxOf dim) i 0 (by simpa using hidx)
    simp only [List.getD_eq_getElem?_getD] at this
    subst hkd
    rw [List.getElem?_eq_getElem h1] at this
    simp [e]; simpa using this
  · have hne : dims[k] ≠ dim := by
      intro e; apply hkd
      rw [← hnd.idxOf_getElem k hk, e]
    have := setAt_getD_ne (dims.map ℓ) (dims.idxOf dim) k i 0 hkd
    simp only [List.getD_eq_getElem?_getD] at this
    rw [List.getElem?_eq_getElem h1, List.getElem?_eq_getElem (by simpa using hk)] at this
    simp [hne]; simpa using this

theorem getD_map_named {dims : List String} {dim : String} (hm : dim ∈ dims) (ℓ : String → Nat) :
    (dims.map ℓ).getD (dims.idxOf dim) 0 = ℓ dim := by
  have hidx : dims.idxOf dim < dims.length := List.idxOf_lt_length_iff.2 hm
  simp [List.getD, hidx, List.getElem_idxOf hidx]

/-- NumPy function along the axis of a named dimension = the function on each by-name trace -/
theorem mapAlong_spec {d r : Data κ α} {dim : String} (h : List α → List α) (m : Nat) (nc : Option (List κ))
    (hd : d.Consistent) (hr : d.mapAlong dim h m nc = .ok r) :
    dim ∈ d.dims ∧ r.dims = d.dims ∧
    ∀ ℓ : String → Nat, (∀ nm ∈ d.dims, nm ≠ dim → ℓ nm < d.ext nm) → ℓ dim < m →
      r.getN ℓ = (h (d.trace dim ℓ)).getD (ℓ dim) default := by
  unfold mapAlong at hr
  split at hr
  · cases hr
  · rename_i hm
    have hm : dim ∈ d.dims := by simpa using hm
    simp only [Except.ok.injEq] at hr
    subst hr
    refine ⟨hm, rfl, ?_⟩
    intro ℓ hℓ hℓd
    rw [show (mapAxis h m d.values (d.index dim)) = mapAxisSpec h m d.values (d.index dim) from
          mapAxis_eq_spec h m d.values (d.index dim) (by rw [hd.shape_len]; exact index_lt hm)]
    simp only [getN, mapAxisSpec]
    have hshape : setAt d.values.shape (d.index dim) m = d.dims.map (fun x => if x = dim then m else d.ext x) := by
      rw [hd.shape_named]; exact setAt_map_named hd.1 hm d.ext m
    rw [hshape, Arr.get_ofFn]
    · rw [show (d.dims.map ℓ).getD (d.index dim) 0 = ℓ dim from getD_map_named hm ℓ]
      congr 2
      unfold trace getN
      apply List.map_congr_left
      intro i _
      rw [show d.index dim = d.dims.idxOf dim from rfl, setAt_map_named hd.1 hm ℓ i]
    · rw [InB_map_iff]
      intro x hx
      by_cases hxd : x = dim
      · subst hxd; simpa using hℓd
      · simpa [hxd] using hℓ x hx hxd

/-- reduction along a named dimension, read by name -/
theorem reduceDim_spec {d : Data κ α} {r : Data κ β} {dim : String} (f : List α → β) (hd : d.Consistent)
    (hr : d.reduceDim f dim = .ok r) :
    ∀ ℓ : String → Nat, (∀ nm ∈ d.dims, nm ≠ dim → ℓ nm < d.ext nm) → r.getN ℓ = f (d.trace dim ℓ) := by
  obtain ⟨hm, hdims, _, hv, _, _⟩ := reduceDim_dims f hr
  intro ℓ hℓ
  simp only [getN, hdims, hv, reduceAxis]
  have hk : d.index dim < d.dims.length := index_lt hm
  have hshape : eraseAt d.values.shape (d.index dim) = (eraseAt d.dims (d.index dim)).map d.ext := by
    rw [hd.shape_named, eraseAt_map]
  rw [hshape, Arr.get_ofFn]
  · congr 1
    unfold trace getN
    have hext : d.values.shape.getD (d.index dim) 0 = d.ext dim := rfl
    rw [hext]
    apply List.map_congr_left
    intro i _
    congr 1
    -- inserting i at the position of `dim` into the assignment of the remaining names
    have : insertAt ((eraseAt d.dims (d.index dim)).map ℓ) (d.index dim) i
        = setAt (d.dims.map ℓ) (d.index dim) i := by
      rw [eraseAt_map]
      exact insertAt_eraseAt _ _ _ (by simpa using hk)
    rw [this, show d.index dim = d.dims.idxOf dim from rfl, setAt_map_named hd.1 hm ℓ i]
  · rw [InB_map_iff]
    intro x hx
    have hx' := mem_eraseAt hx
    have hne : x ≠ dim := by
      rintro rfl
      exact not_mem_eraseAt_idxOf hd.1 hx
    exact hℓ x hx' hne

end Data
end Dnp
