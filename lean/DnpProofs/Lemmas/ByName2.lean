import DnpProofs.Lemmas.ByName
set_option linter.unusedSectionVars false
/-! By-name specifications of squeeze and split. -/
namespace Np

/-- positions of a multi-index that survive `squeeze` (extent ≠ 1) -/
def keepIdx : List Nat → List Nat → List Nat
  | i :: idx, n :: s => if n = 1 then keepIdx idx s else i :: keepIdx idx s
  | _, _ => []

/-- dropping axes of extent one (where the index is necessarily 0) does not change the flat offset -/
theorem ravel_squeeze : ∀ (idx s : List Nat), idx.length = s.length → InB idx s →
    ravel (keepIdx idx s) (s.filter (· ≠ 1)) = ravel idx s
  | [], [], _, _ => rfl
  | i :: idx, n :: s, hl, hb => by
    have ih := ravel_squeeze idx s (by simpa using hl) hb.2
    by_cases hn : n = 1
    · subst hn
      have hi : i = 0 := by have := hb.1; omega
      subst hi
      simp only [keepIdx, if_true, ravel, Nat.zero_mul, Nat.zero_add]
      rw [← ih]
      simp [List.filter_cons]
    · simp only [keepIdx, hn, if_false, List.filter_cons, ne_eq, not_false_eq_true, decide_true, if_true, ravel]
      rw [ih]
      have := size_filter_ne_one s
      simp only [ne_eq] at this
      rw [this]
  | [], _ :: _, hl, _ => by simp at hl
  | _ :: _, [], hl, _ => by simp at hl

/-- C-order split of the last axis: (…, a·k + b) of extent m·k is (…, a, b) of extents (m, k) -/
theorem ravel_split_last : ∀ (idx s : List Nat) (a b m k : Nat), idx.length = s.length → b < k →
    ravel (idx ++ [a, b]) (s ++ [m, k]) = ravel (idx ++ [a * k + b]) (s ++ [m * k])
  | [], [], a, b, m, k, _, _ => by simp [ravel, size]
  | i :: idx, n :: s, a, b, m, k, hl, hb => by
    have ih := ravel_split_last idx s a b m k (by simpa using hl) hb
    have hs : ∀ t : List Nat, size (t ++ [m, k]) = size (t ++ [m * k]) := by
      intro t
      induction t with
      | nil => simp [size, Nat.mul_assoc]
      | cons x t iht => simp [size, iht]
    have hs := hs s
    simp only [List.cons_append, ravel, ih, hs]
  | [], _ :: _, _, _, _, _, hl, _ => by simp at hl
  | _ :: _, [], _, _, _, _, hl, _ => by simp at hl

end Np

namespace Np

theorem keep_map (ℓ : String → Nat) : ∀ (names : List String) (lens : List Nat), names.length = lens.length →
    (((List.range names.length).filter (fun k => lens.getD k 0 != 1)).map (fun k => names.getD k "")).map ℓ
      = keepIdx (names.map ℓ) lens
  | [], [], _ => rfl
  | a :: t, n :: s, hl => by
    have ih := keep_map ℓ t s (by simpa using hl)
    have hr : List.range (a :: t).length = 0 :: (List.range t.length).map Nat.succ := by
      simp [List.range_succ_eq_map]
    rw [hr]
    simp only [List.filter_cons, List.getD_cons_zero, List.filter_map, List.map_map, List.map_cons, keepIdx]
    have hrest : List.map (ℓ ∘ fun k => (a :: t).getD k "")
          (List.map Nat.succ (List.filter ((fun k => (n :: s).getD k 0 != 1) ∘ Nat.succ) (List.range t.length)))
        = keepIdx (t.map ℓ) s := by
      rw [← ih, List.map_map, List.map_map]
      rfl
    by_cases hn : n = 1
    · subst hn
      simp only [bne_self_eq_false, Bool.false_eq_true, if_false, if_true]
      exact hrest
    · have : (n != 1) = true := by simpa using hn
      simp only [this, if_true, hn, if_false, List.map_cons, Function.comp, List.getD_cons_zero]
      congr 1
  | [], _ :: _, hl => by simp at hl
  | _ :: _, [], hl => by simp at hl

end Np

namespace Dnp
open Np
namespace Data
variable {κ α : Type} [Inhabited α] [Inhabited κ]

/-- squeeze: the dimensions of extent one disappear together with their coordinates (one position list selects both),
    and every value is found at the same labels as before -/
theorem squeeze_byname {d : Data κ α} (h : d.Consistent) :
    (∃ keep : List Nat, d.squeeze.dims = keep.map (fun k => d.dims.getD k "") ∧
                        d.squeeze.coords = keep.map (fun k => d.coords.getD k [])) ∧
    ∀ ℓ : String → Nat, (∀ nm ∈ d.dims, ℓ nm < d.ext nm) → d.squeeze.getN ℓ = d.getN ℓ := by
  refine ⟨⟨_, rfl, rfl⟩, ?_⟩
  intro ℓ hℓ
  have hin : InB (d.dims.map ℓ) d.values.shape := by rw [h.shape_named]; exact (InB_map_iff _ _).2 hℓ
  have hlen : d.dims.length = d.values.shape.length := h.shape_len.symm
  unfold getN squeeze
  simp only [squeezeAll, Arr.get]
  have hk := keep_map ℓ d.dims d.values.shape hlen
  have hpred : (fun k => (d.coords.getD k []).length != 1) = (fun k => d.values.shape.getD k 0 != 1) := by
    funext k; rw [h.2.2.1, getD_map_length]
  rw [List.map_map] at hk
  rw [hpred, List.map_map]
  have : (List.map (ℓ ∘ fun k => d.dims.getD k "") (List.filter (fun k => d.values.shape.getD k 0 != 1) (List.range d.dims.length)))
      = keepIdx (d.dims.map ℓ) d.values.shape := hk
  rw [this, ravel_squeeze _ _ (by simp [hlen]) hin]

theorem setAt_append_last {γ : Type} : ∀ (l : List γ) (x y : γ), setAt (l ++ [x]) l.length y = l ++ [y]
  | [], _, _ => rfl
  | a :: t, x, y => by simp [setAt, setAt_append_last t x y]

/-- split(dim, new, c) with |c| = k: position a·k + b of `dim` becomes (dim ↦ a, new ↦ b); every other label is untouched;
    `dim` and `new` end up last -/
theorem split_byname {d r : Data κ α} {dim new : String} {c : List κ} (h : d.Consistent)
    (hr : d.split dim new c = .ok r) :
    r.dims = d.dims.filter (· != dim) ++ [dim, new] ∧
    d.ext dim = d.ext dim / c.length * c.length ∧
    ∀ ℓ : String → Nat, (∀ nm ∈ d.dims, nm ≠ dim → ℓ nm < d.ext nm) → ℓ dim < d.ext dim / c.length → ℓ new < c.length →
      r.getN ℓ = d.getN (fun x => if x = dim then ℓ dim * c.length + ℓ new else ℓ x) := by
  unfold split at hr
  split at hr
  · cases hr
  · rename_i hdm
    have hdm : dim ∈ d.dims := by simpa using hdm
    split at hr
    · cases hr
    · rename_i hnew
      split at hr
      · cases hr
      · simp only [bind, Except.bind] at hr
        cases hq : d.reorder (d.dims.filter (· != dim) ++ [dim]) with
        | error e => rw [hq] at hr; cases hr
        | ok d1 =>
          rw [hq] at hr
          simp only at hr
          split at hr
          · cases hr
          · rename_i hmod
            simp only [Except.ok.injEq] at hr
            subst hr
            set rest := d.dims.filter (· != dim) with hrest
            have hrnd : rest.Nodup := h.1.filter _
            have hdr : dim ∉ rest := by simp [hrest]
            have hxnd : (rest ++ [dim]).Nodup := by
              refine List.nodup_append.2 ⟨hrnd, by simp, ?_⟩
              intro a ha b hb hab; simp at hb; subst hb; subst hab; exact hdr ha
            have hxperm : (rest ++ [dim]).Perm d.dims := by
              rw [List.perm_ext_iff_of_nodup hxnd h.1]
              intro y
              simp only [List.mem_append, hrest, List.mem_filter, List.mem_singleton, bne_iff_ne, ne_eq]
              constructor
              · rintro (⟨hy, _⟩ | rfl)
                · exact hy
                · exact hdm
              · intro hy
                by_cases hyd : y = dim
                · exact Or.inr hyd
                · exact Or.inl ⟨hy, hyd⟩
            obtain ⟨hd1, _, _⟩ := reorder_eq_permuted hq
            rw [dedup_append_of_perm hxnd h.1 hxperm] at hd1
            obtain ⟨hc1, hcoord1, hget1⟩ := permuted_spec h hxperm
            rw [← hd1] at hc1 hcoord1 hget1
            have hdims1 : d1.dims = rest ++ [dim] := by rw [hd1]; rfl
            have hext1 : ∀ nm ∈ d.dims, d1.ext nm = d.ext nm := by
              intro nm hnm
              have hnm1 : nm ∈ d1.dims := by rw [hdims1]; exact hxperm.mem_iff.2 hnm
              rw [hc1.ext_eq hnm1, h.ext_eq hnm, hcoord1 nm hnm]
            have hshape1 : d1.values.shape = rest.map d.ext ++ [d.ext dim] := by
              rw [hc1.shape_named, hdims1, List.map_append, List.map_cons, List.map_nil, hext1 dim hdm]
              congr 1
              apply List.map_congr_left
              intro x hx
              exact hext1 x (List.mem_of_mem_filter hx)
            have hlast : d1.values.shape.getLast?.getD 0 = d.ext dim := by rw [hshape1]; simp
            have hmod' : d.ext dim % c.length = 0 := by rw [← hlast]; simpa using hmod
            have hmk : d.ext dim = d.ext dim / c.length * c.length :=
              (Nat.div_mul_cancel (Nat.dvd_of_mod_eq_zero hmod')).symm
            have hax : d1.dims.length - 1 = (rest.map d.ext).length := by rw [hdims1]; simp
            refine ⟨by rw [hdims1]; simp, hmk, ?_⟩
            intro ℓ hℓ ha hb
            simp only [getN, reshapeC, Arr.get]
            rw [hlast, hax, hshape1, setAt_append_last, hdims1]
            simp only [List.map_append, List.map_cons, List.map_nil, List.append_assoc, List.cons_append, List.nil_append]
            rw [ravel_split_last _ _ _ _ _ _ (by simp) hb, ← hmk]
            -- back to the source object, read by name
            have hℓ' : ∀ nm ∈ d.dims, (fun x => if x = dim then ℓ dim * c.length + ℓ new else ℓ x) nm < d.ext nm := by
              intro nm hnm
              by_cases hnd : nm = dim
              · subst hnd
                simp only [if_true]
                calc ℓ nm * c.length + ℓ new < ℓ nm * c.length + c.length := by omega
                  _ = (ℓ nm + 1) * c.length := (Nat.succ_mul _ _).symm
                  _ ≤ d.ext nm / c.length * c.length := Nat.mul_le_mul_right _ ha
                  _ = d.ext nm := hmk.symm
              · simp only [hnd, if_false]; exact hℓ nm hnm hnd
            have := hget1 _ hℓ'
            simp only [getN, Arr.get, hdims1, hshape1, List.map_append, List.map_cons, List.map_nil, if_true] at this
            rw [← this]
            congr 3
            apply List.map_congr_left
            intro x hx
            have : x ≠ dim := fun e => hdr (e ▸ hx)
            simp [this]

end Data
end Dnp
