import DnpProofs.Lemmas.Arr
import DnpModel.Ops
import Mathlib.Data.List.Nodup
import Mathlib.Data.List.Perm.Basic
set_option linter.unusedSectionVars false
/-! Axis permutations reasoned about *by dimension name*. -/
namespace Np
open Arr

theorem idxOf_map_injOn {γ δ : Type} [DecidableEq γ] [DecidableEq δ] (f : γ → δ) :
    ∀ (l : List γ) (x : γ), (∀ y ∈ l, f y = f x → y = x) → (l.map f).idxOf (f x) = l.idxOf x
  | [], _, _ => rfl
  | y :: l, x, h => by
    by_cases hyx : y = x
    · subst hyx; simp
    · have hf : f y ≠ f x := fun e => hyx (h y (by simp) e)
      simp only [List.map_cons, List.idxOf_cons_ne _ hf, List.idxOf_cons_ne _ hyx]
      rw [idxOf_map_injOn f l x (fun z hz => h z (by simp [hz]))]

variable {ν : Type} [DecidableEq ν]

/-- the one fiddly lemma: scattering a by-name assignment through the permutation that a
    list of names induces gives the assignment in the original order -/
theorem scatter_named {dims ds' : List ν} (hnd : dims.Nodup) (hperm : ds'.Perm dims)
    (ℓ : ν → Nat) : scatter (ds'.map dims.idxOf) (ds'.map ℓ) = dims.map ℓ := by
  have hlen : ds'.length = dims.length := hperm.length_eq
  apply List.ext_getElem
  · simp [scatter, hlen]
  · intro j h1 h2
    have hj : j < dims.length := by simpa using h2
    simp only [scatter, List.getElem_map, List.getElem_range, List.length_map]
    have hmem : dims[j] ∈ ds' := hperm.mem_iff.2 (List.getElem_mem hj)
    have e1 : (ds'.map dims.idxOf).idxOf j = ds'.idxOf dims[j] := by
      have := idxOf_map_injOn (fun x => dims.idxOf x) ds' dims[j] (fun y hy e =>
        (List.idxOf_inj (hperm.mem_iff.1 hy)).1 e)
      simpa [hnd.idxOf_getElem j hj] using this
    have hk : ds'.idxOf dims[j] < ds'.length := List.idxOf_lt_length_iff.2 hmem
    rw [e1]
    simp [List.getD, hk, List.getElem_idxOf hk]

theorem gather_named {dims ds' : List ν} (hsub : ∀ x ∈ ds', x ∈ dims) (e : ν → Nat) :
    gather (ds'.map dims.idxOf) (dims.map e) = ds'.map e := by
  simp only [gather, List.map_map]
  apply List.map_congr_left
  intro x hx
  have hk : dims.idxOf x < dims.length := List.idxOf_lt_length_iff.2 (hsub x hx)
  simp [List.getD, hk, List.getElem_idxOf hk]

theorem InB_map_iff {ds : List ν} (ℓ e : ν → Nat) :
    InB (ds.map ℓ) (ds.map e) ↔ ∀ x ∈ ds, ℓ x < e x := by
  induction ds with
  | nil => simp [InB]
  | cons x ds ih => simp [InB, ih]

/-- a shape list read by name -/
theorem shape_by_name {dims : List ν} (hnd : dims.Nodup) (s : List Nat) (hl : s.length = dims.length) :
    s = dims.map (fun nm => s.getD (dims.idxOf nm) 0) := by
  apply List.ext_getElem (by simp [hl])
  intro k h1 h2
  have hk : k < dims.length := by simpa using h2
  simp [hnd.idxOf_getElem k hk, List.getD, h1]

theorem list_by_name {γ : Type} {dims : List ν} (hnd : dims.Nodup) (s : List γ) (dflt : γ)
    (hl : s.length = dims.length) : s = dims.map (fun nm => s.getD (dims.idxOf nm) dflt) := by
  apply List.ext_getElem (by simp [hl])
  intro k h1 h2
  have hk : k < dims.length := by simpa using h2
  simp [hnd.idxOf_getElem k hk, List.getD, h1]

/-- transposing by the permutation induced by a list of names is invisible to by-name lookups -/
theorem transpose_named {α : Type} [Inhabited α] {dims ds' : List ν} (hnd : dims.Nodup)
    (hperm : ds'.Perm dims) (a : Arr α) (e ℓ : ν → Nat) (hs : a.shape = dims.map e)
    (hin : ∀ x ∈ dims, ℓ x < e x) :
    (transpose a (ds'.map dims.idxOf)).get (ds'.map ℓ) = a.get (dims.map ℓ) := by
  unfold transpose
  rw [Arr.get_ofFn, scatter_named hnd hperm]
  rw [hs, gather_named (fun x hx => hperm.mem_iff.1 hx)]
  exact (InB_map_iff ℓ e).2 (fun x hx => hin x (hperm.mem_iff.1 hx))

theorem transpose_shape_named {α : Type} [Inhabited α] {dims ds' : List ν}
    (hsub : ∀ x ∈ ds', x ∈ dims) (a : Arr α) (e : ν → Nat) (hs : a.shape = dims.map e) :
    (transpose a (ds'.map dims.idxOf)).shape = ds'.map e := by
  simp [transpose, hs, gather_named hsub]

end Np
