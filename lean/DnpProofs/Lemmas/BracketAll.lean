import DnpProofs.Lemmas.ProcValid
set_option linter.unusedSectionVars false
/-! `bracketAll` (the whole matrix of columns replaced at once, used by `ndalign`) is an instance of `bracket` whenever
    the replacement keeps the number of columns; consistency of `ndalign` and of region integration follows. -/
namespace Dnp
open Np
namespace Data
variable {κ α : Type} [Inhabited α] [Inhabited κ]

theorem setAt_headD (s : List Nat) : setAt s 0 (s.headD 0) = s := by
  cases s <;> rfl

theorem cols_length (m : Arr α) : (cols m).length = m.shape.getD 1 0 := by
  simp [cols]

/-- what `unfold` records and the number of rows of the unfolded matrix -/
theorem unfold_ok_shape (arange : Nat → List κ) {d u : Data κ α} {dim : String} (hu : d.unfold arange dim = .ok u) :
    ∃ p : Data κ α, d.reorder [dim] = .ok p ∧ u.unf = some (p.values.shape, d.dims) ∧
      u.values.shape = [p.values.shape.headD 0, size p.values.shape.tail] := by
  unfold Data.unfold at hu
  split at hu
  · cases hu
  · split at hu
    · cases hu
    · simp only [bind, Except.bind] at hu
      split at hu
      · cases hu
      · rename_i p hp
        simp only [Except.ok.injEq] at hu
        subst hu
        exact ⟨p, hp, rfl, rfl⟩

theorem bracketAll_eq_bracket (arange : Nat → List κ) (d : Data κ α) (dim : String) (H : List (List α) → List (List α))
    (hH : ∀ cs, (H cs).length = cs.length) {u : Data κ α} (hu : d.unfold arange dim = .ok u) :
    d.bracketAll arange dim H
      = d.bracket arange dim (fun j _ => (H (cols u.values)).getD j []) (u.values.shape.headD 0) none := by
  obtain ⟨p, _, hunf0, hsh⟩ := unfold_ok_shape arange hu
  have hunf : u.unf.map (fun (q : List Nat × List String) => (setAt q.1 0 (u.values.shape.headD 0), q.2)) = u.unf := by
    rw [hunf0, hsh]
    show some (setAt p.values.shape 0 (p.values.shape.headD 0), d.dims) = _
    rw [setAt_headD]
  have hv : mapCols (fun j _ => (H (cols u.values)).getD j []) (u.values.shape.headD 0) u.values
      = ofCols (u.values.shape.headD 0) (H (cols u.values)) := by
    simp only [mapCols, ofCols, hH, cols_length]
  unfold bracketAll bracket
  simp only [hu, bind, Except.bind]
  rw [hv, hunf]
  rfl

theorem bracketAll_consistent (arange : Nat → List κ) {d r : Data κ α} {dim : String} (H : List (List α) → List (List α))
    (hH : ∀ cs, (H cs).length = cs.length) (hd : d.Consistent) (hr : d.bracketAll arange dim H = .ok r) :
    r.Consistent := by
  cases hu : d.unfold arange dim with
  | error e =>
    exfalso
    unfold bracketAll at hr
    simp [hu, bind, Except.bind] at hr
  | ok u =>
    rw [bracketAll_eq_bracket arange d dim H hH hu] at hr
    refine bracket_consistent arange _ _ none hd (by intro c hc; cases hc) ?_ hr
    intro _
    obtain ⟨p, hp, _, hsh⟩ := unfold_ok_shape arange hu
    rw [hsh]
    show p.values.shape.headD 0 = d.ext dim
    by_cases hdim : dim ∈ d.dims
    · have hsub : ∀ x ∈ [dim], x ∈ d.dims := by simpa using hdim
      have hre : d.reorder [dim] = .ok (d.permuted (dedup ([dim] ++ d.dims))) := reorder_ok (by simp) hsub
      rw [hre] at hp
      simp only [Except.ok.injEq] at hp
      subst hp
      have hperm := dedup_append_perm hd.1 hsub
      have h0 : (d.permuted (dedup ([dim] ++ d.dims))).values.shape = (dedup ([dim] ++ d.dims)).map d.ext :=
        transpose_shape_named (fun x hx => hperm.mem_iff.1 hx) d.values d.ext hd.shape_named
      rw [h0, dedup_cons_dim hd.1 dim]
      rfl
    · exfalso
      unfold Data.reorder at hp
      simp [hdim] at hp

variable (A : Arith κ α)

theorem ndalignCols_length (cs : List (List α)) : (ndalignCols A cs).length = cs.length := by
  simp [ndalignCols]

theorem ndalign_consistent (arange : Nat → List κ) {d r : Data κ α} {dim : String} (hd : d.Consistent)
    (hr : d.ndalign A arange dim = .ok r) : r.Consistent := by
  unfold Data.ndalign at hr
  split at hr
  · cases hr
  · simp only [bind, Except.bind] at hr
    split at hr
    · cases hr
    · rename_i q hq
      simp only [Except.ok.injEq] at hr
      subst hr
      exact addHist_consistent (bracketAll_consistent arange _ (ndalignCols_length A) hd hq) _ _

/-- every result of a successful `mapM` over `Except` comes from one of the inputs -/
theorem mapM_except_mem {γ β ε : Type} (g : γ → Except ε β) : ∀ (xs : List γ) (ys : List β),
    xs.mapM g = .ok ys → ∀ y ∈ ys, ∃ x ∈ xs, g x = .ok y
  | [], ys, h => by
    simp only [List.mapM_nil, pure, Except.pure, Except.ok.injEq] at h
    subst h; intro y hy; cases hy
  | x :: xs, ys, h => by
    simp only [List.mapM_cons, bind, Except.bind, pure, Except.pure] at h
    cases hx : g x with
    | error e => rw [hx] at h; cases h
    | ok y0 =>
      rw [hx] at h
      simp only at h
      cases hr : xs.mapM g with
      | error e => rw [hr] at h; cases h
      | ok rest =>
        rw [hr] at h
        simp only [Except.ok.injEq] at h
        subst h
        intro y hy
        rcases List.mem_cons.1 hy with rfl | hy
        · exact ⟨x, by simp, hx⟩
        · obtain ⟨x', hx', hg⟩ := mapM_except_mem g xs rest hr y hy
          exact ⟨x', by simp [hx'], hg⟩

theorem integrateRegions_consistent (arange : Nat → List κ) (dist : κ → κ → κ) (harange : ∀ n, (arange n).length = n)
    {d r : Data κ α} {dim : String} (regions : List (κ × κ)) (hd : d.Consistent)
    (hr : integrateRegions A arange dist d dim regions = .ok r) : r.Consistent := by
  unfold integrateRegions at hr
  simp only [bind, Except.bind] at hr
  split at hr
  · cases hr
  · split at hr
    · cases hr
    · rename_i parts hm
      split at hr
      · cases hr
      · rename_i c hc
        simp only [Except.ok.injEq] at hr
        subst hr
        have hall : ∀ p ∈ parts, p.Consistent := by
          intro p hp
          obtain ⟨reg, _, hg⟩ := mapM_except_mem _ regions parts hm p hp
          split at hg
          · cases hg
          · rename_i sub hs
            have hd1 : ({ d with attrs := dictSet d.attrs "experiment_type" "'integrals'" } : Data κ α).Consistent := hd
            exact integrateAll_consistent A (getitem_consistent dist A.klt hd1 hs) hg
        have hcc := concat_consistent arange hall (by simp [harange]) hc
        exact addHist_consistent (d := { c with hist := d.hist }) hcc _ _

theorem enhancement_consistent {d r : Data κ α} (idx : Int) (realPart : α → α) (hd : d.Consistent)
    (hr : d.enhancement A idx realPart = .ok r) : r.Consistent := by
  unfold Data.enhancement at hr
  split at hr
  · cases hr
  · split at hr
    · cases hr
    · split at hr
      · rename_i hP
        simp only at hr
        split at hr
        · cases hr
        · simp only [Except.ok.injEq] at hr
          subst hr
          refine scalarOp_consistent (addHist_consistent ?_ _ _) _
          have hdm : "Power" ∈ d.dims := by
            cases hdd : d.dims with
            | nil => rw [hdd] at hP; cases hP
            | cons x xs => rw [hdd] at hP; simp at hP; simp [hP]
          have hidx : d.index "Power" = 0 := by
            unfold index
            cases hdd : d.dims with
            | nil => rw [hdd] at hP; cases hP
            | cons x xs => rw [hdd] at hP; simp at hP; simp [hP]
          refine consistent_of_same_labels hd _ ?_ (Arr.ofFn_WF _ _)
          simp only [mapAxis, Arr.ofFn_shape, ext, hidx]
          exact setAt_self _ _ _ (by rw [hd.shape_len, ← hidx]; exact index_lt hdm)
      · split at hr
        · simp only [Except.ok.injEq] at hr
          subst hr
          have hd1 : ({ d with attrs := dictSet d.attrs "experiment_type" "'enhancements_B0'" } : Data κ α).Consistent := hd
          exact scalarOp_consistent (addHist_consistent hd1 _ _) _
        · cases hr

end Data
end Dnp
