import DnpModel.Index
import Mathlib.Data.List.Basic
import Mathlib.Tactic.Ring
import Mathlib.Tactic.Linarith
set_option linter.unusedSectionVars false
/-! CPython slice normalisation on the cases the selector conversion produces. -/
namespace Np

theorem map_range_add (a m : Nat) :
    (List.range m).map (fun (k : Nat) => ((a : Int) + (k : Int) * 1).toNat) = List.range' a m := by
  rw [List.range_eq_range', List.map_eq_iff]
  intro i
  by_cases hi : i < m
  · simp [List.getElem?_range', hi]; omega
  · simp [List.getElem?_range', hi]

/-- slice(a, b) with 0 ≤ a ≤ b ≤ n selects a, a+1, …, b−1 -/
theorem pySlice_some_some {n a b : Nat} (hab : a ≤ b) (hbn : b ≤ n) :
    pySlice n (some (a : Int)) (some (b : Int)) none = List.range' a (b - a) := by
  unfold pySlice
  simp only [Option.getD_none]
  have hs : sliceStart n (some (a : Int)) 1 = a := by
    unfold sliceStart; simp only
    split
    · omega
    · split <;> omega
  have ht : sliceStop n (some (b : Int)) 1 = b := by
    unfold sliceStop; simp only
    split
    · omega
    · split <;> omega
  have hl : sliceLen (a : Int) (b : Int) 1 = b - a := by
    unfold sliceLen
    simp only [Int.one_pos, if_true, Int.ediv_one]
    split <;> omega
  rw [hs, ht, hl, map_range_add]

/-- slice(a, None) with 0 ≤ a ≤ n selects a … n−1 -/
theorem pySlice_some_none {n a : Nat} (han : a ≤ n) :
    pySlice n (some (a : Int)) none none = List.range' a (n - a) := by
  unfold pySlice
  simp only [Option.getD_none]
  have hs : sliceStart n (some (a : Int)) 1 = a := by
    unfold sliceStart; simp only
    split
    · omega
    · split <;> omega
  have ht : sliceStop n none 1 = n := by
    unfold sliceStop; simp
  have hl : sliceLen (a : Int) (n : Int) 1 = n - a := by
    unfold sliceLen
    simp only [Int.one_pos, if_true, Int.ediv_one]
    split <;> omega
  rw [hs, ht, hl, map_range_add]

/-- an in-range integer i (negative from the end) selects exactly that position -/
theorem pySlice_int {n : Nat} {i : Int} (hlo : -(n : Int) ≤ i) (hhi : i < n) :
    (if i ≠ -1 then pySlice n (some i) (some (i + 1)) none else pySlice n (some (-1)) none none)
      = [(if i < 0 then i + n else i).toNat] := by
  by_cases hneg : i < 0
  · by_cases h1 : i = -1
    · subst h1
      simp only [ne_eq, not_true_eq_false, if_false]
      unfold pySlice
      simp only [Option.getD_none]
      have hs : sliceStart n (some (-1)) 1 = (n : Int) - 1 := by
        unfold sliceStart; simp only
        split
        · split <;> omega
        · omega
      have ht : sliceStop n none 1 = n := by unfold sliceStop; simp
      have hl : sliceLen ((n : Int) - 1) (n : Int) 1 = 1 := by
        unfold sliceLen; simp only [Int.one_pos, if_true, Int.ediv_one]; split <;> omega
      rw [hs, ht, hl]
      simp; omega
    · simp only [ne_eq, h1, not_false_eq_true, if_true, hneg]
      unfold pySlice
      simp only [Option.getD_none]
      have hs : sliceStart n (some i) 1 = i + n := by
        unfold sliceStart; simp only
        split
        · split <;> omega
        · omega
      have ht : sliceStop n (some (i + 1)) 1 = i + 1 + n := by
        unfold sliceStop; simp only
        split
        · split <;> omega
        · omega
      have hl : sliceLen (i + n) (i + 1 + n) 1 = 1 := by
        unfold sliceLen; simp only [Int.one_pos, if_true, Int.ediv_one]; split <;> omega
      rw [hs, ht, hl]
      simp
  · have h1 : i ≠ -1 := by omega
    simp only [ne_eq, h1, not_false_eq_true, if_true, hneg, if_false]
    obtain ⟨k, rfl⟩ : ∃ k : Nat, i = k := ⟨i.toNat, by omega⟩
    have := @pySlice_some_some n k (k + 1) (by omega) (by omega)
    simp only [Nat.cast_add, Nat.cast_one] at this
    rw [this]
    simp

end Np
