import DnpProofs.Lemmas.Relabel
set_option linter.unusedSectionVars false
/-! argsort is a permutation of the positions; `sortDims` is a by-name permutation. -/
namespace Np

theorem insertKey_perm {γ : Type} (le : γ → γ → Bool) (p : γ × Nat) :
    ∀ l : List (γ × Nat), (insertKey le p l).Perm (p :: l)
  | [] => List.Perm.refl _
  | q :: qs => by
    unfold insertKey
    split
    · exact List.Perm.refl _
    · exact ((insertKey_perm le p qs).cons q).trans (List.Perm.swap p q qs)

theorem sortKeyed_perm {γ : Type} (le : γ → γ → Bool) : ∀ l : List (γ × Nat), (sortKeyed le l).Perm l
  | [] => List.Perm.refl _
  | p :: ps => (insertKey_perm le p _).trans ((sortKeyed_perm le ps).cons p)

theorem argsort_perm {γ : Type} (le : γ → γ → Bool) (xs : List γ) :
    (argsort le xs).Perm (List.range xs.length) := by
  unfold argsort
  have h := (sortKeyed_perm le (xs.zip (List.range xs.length))).map Prod.snd
  rwa [List.map_snd_zip (by simp)] at h

end Np

namespace Dnp
open Np
namespace Data
variable {κ α : Type} [Inhabited α] [Inhabited κ]

theorem sortedOrder_perm (dims : List String) : (sortedOrder dims).Perm (List.range dims.length) :=
  argsort_perm _ _

/-- the dims after sort_dims, as a list of names -/
def sortedDims (dims : List String) : List String := (sortedOrder dims).map (fun k => dims.getD k "")

theorem sortedDims_perm (dims : List String) : (sortedDims dims).Perm dims := by
  have h := (sortedOrder_perm dims).map (fun k => dims.getD k "")
  refine h.trans (List.Perm.of_eq ?_)
  apply List.ext_getElem (by simp)
  intro k h1 h2
  simp [List.getD, h2]

theorem sortDims_eq_permuted {d : Data κ α} (h : d.Consistent) :
    d.sortDims = d.permuted (sortedDims d.dims) := by
  have hidx : (sortedDims d.dims).map d.dims.idxOf = sortedOrder d.dims := by
    unfold sortedDims
    rw [List.map_map]
    conv => rhs; rw [← List.map_id (sortedOrder d.dims)]
    apply List.map_congr_left
    intro k hk
    have hk' : k < d.dims.length := by
      have := (sortedOrder_perm d.dims).mem_iff.1 hk
      simpa using this
    simp [List.getD, hk', h.1.idxOf_getElem k hk']
  unfold sortDims permuted
  simp only [hidx]
  rfl

end Data
end Dnp
