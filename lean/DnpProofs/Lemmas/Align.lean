import DnpProofs.Lemmas.Broadcast
set_option linter.unusedSectionVars false
/-! `align` + operator = element-wise by dimension NAME (C04). -/
namespace Dnp
open Np
namespace Data
variable {κ α : Type} [Inhabited α] [Inhabited κ]

/-- the shared dims carry coordinate lists that `numpy.allclose` accepts (equal length) -/
def CoordsAgree (close : κ → κ → Bool) (a b : Data κ α) : Prop :=
  ∀ x, x ∈ a.dims → x ∈ b.dims → coordsClose close (a.coord x) (b.coord x) = true

theorem coordsClose_length {close : κ → κ → Bool} {x y : List κ} (h : coordsClose close x y = true) :
    x.length = y.length := by
  unfold coordsClose at h
  simp only [Bool.and_eq_true, beq_iff_eq] at h
  exact h.1

/-- b-only dims, in b's order -/
def restDims (a b : Data κ α) : List String := b.dims.filter (fun x => !a.dims.contains x)

theorem allDims_eq {a b : Data κ α} (ha : a.Consistent) (hb : b.Consistent) :
    dedup (a.dims ++ b.dims) = a.dims ++ restDims a b := by
  rw [dedup_append_left _ ha.1]
  congr 1
  exact dedup_of_nodup (hb.1.filter _)

theorem mem_restDims {a b : Data κ α} {x : String} : x ∈ restDims a b ↔ x ∈ b.dims ∧ x ∉ a.dims := by
  simp [restDims]

theorem newBOrder_perm {a b : Data κ α} (ha : a.Consistent) (hb : b.Consistent) :
    ((a.dims ++ restDims a b).filter (fun x => b.dims.contains x)).Perm b.dims := by
  rw [List.perm_ext_iff_of_nodup]
  · intro x
    simp only [List.mem_filter, List.mem_append, mem_restDims, List.contains_iff_mem, decide_eq_true_eq]
    constructor
    · rintro ⟨_, h⟩; exact h
    · intro h
      by_cases hx : x ∈ a.dims
      · exact ⟨Or.inl hx, h⟩
      · exact ⟨Or.inr ⟨h, hx⟩, h⟩
  · apply List.Nodup.filter
    rw [← allDims_eq ha hb]; exact dedup_nodup _
  · exact hb.1

/-- per-name extent of the broadcast result -/
def extA (a : Data κ α) (x : String) : Nat := if a.dims.contains x then a.ext x else 1

theorem binop_spec (close : κ → κ → Bool) (f : α → α → α) {a b r : Data κ α}
    (ha : a.Consistent) (hb : b.Consistent) (hr : binop close f a b = .ok r) :
    r.dims = a.dims ++ restDims a b ∧ CoordsAgree close a b ∧
    ∀ ℓ : String → Nat, (∀ x ∈ a.dims, ℓ x < a.ext x) → (∀ x ∈ b.dims, ℓ x < b.ext x) →
      r.getN ℓ = f (a.getN ℓ) (b.getN ℓ) := by
  unfold binop align at hr
  simp only [bind, Except.bind] at hr
  split at hr
  · cases hr
  · rename_i v heq
    split at heq
    · cases heq
    · rename_i hc
      simp only [Except.ok.injEq] at heq
      subst heq
      simp only [Except.ok.injEq] at hr
      subst hr
      have hall := allDims_eq ha hb
      -- coordinates agree on shared dims
      have hagree : CoordsAgree close a b := by
        intro x hxa hxb
        by_contra hne
        apply hc
        rw [List.any_eq_true]
        refine ⟨x, ?_, ?_⟩
        · rw [hall]; exact List.mem_append_left _ hxa
        · have hne' : coordsClose close (a.coord x) (b.coord x) = false := by simpa using hne
          simp [hxa, hxb, hne']
      refine ⟨hall, hagree, ?_⟩
      intro ℓ hla hlb
      simp only [getN, hall]
      set D := a.dims ++ restDims a b with hD
      -- shapes of the two aligned value arrays
      have hsa : (reshapeC a.values (D.map (fun x => if a.dims.contains x then a.ext x else 1))).shape
          = D.map (extA a) := rfl
      have hsb : (reshapeC (transpose b.values ((D.filter (fun x => b.dims.contains x)).map b.index))
          (D.map (fun x => if b.dims.contains x then b.ext x else 1))).shape = D.map (extA b) := rfl
      have hext : ∀ x, x ∈ a.dims → x ∈ b.dims → a.ext x = b.ext x := by
        intro x hxa hxb
        rw [ha.ext_eq hxa, hb.ext_eq hxb]
        exact coordsClose_length (hagree x hxa hxb)
      have hmemD : ∀ x ∈ D, x ∈ a.dims ∨ (x ∈ b.dims ∧ x ∉ a.dims) := by
        intro x hx
        rcases List.mem_append.1 hx with h | h
        · exact Or.inl h
        · exact Or.inr (mem_restDims.1 h)
      unfold zipBroadcast
      simp only [hsa, hsb]
      have hshape : List.zipWith (fun na nb => if na = 1 then nb else na) (D.map (extA a)) (D.map (extA b))
          = D.map (fun x => if extA a x = 1 then extA b x else extA a x) := by
        rw [List.zipWith_map_left, List.zipWith_map_right, List.zipWith_self]
      rw [hshape, Arr.get_ofFn]
      · -- index maps
        have hiA : List.zipWith (fun i n => if n = 1 then 0 else i) (D.map ℓ) (D.map (extA a))
            = D.map (fun x => if extA a x = 1 then 0 else ℓ x) := by
          rw [List.zipWith_map_left, List.zipWith_map_right, List.zipWith_self]
        have hiB : List.zipWith (fun i n => if n = 1 then 0 else i) (D.map ℓ) (D.map (extA b))
            = D.map (fun x => if extA b x = 1 then 0 else ℓ x) := by
          rw [List.zipWith_map_left, List.zipWith_map_right, List.zipWith_self]
        rw [hiA, hiB]
        congr 1
        · -- operand a: trailing unit axes
          simp only [Arr.get, reshapeC]
          congr 1
          rw [hD, List.map_append, List.map_append]
          have h1 : (a.dims.map fun x => if extA a x = 1 then 0 else ℓ x) = a.dims.map ℓ := by
            apply List.map_congr_left
            intro x hx
            have : extA a x = a.ext x := by simp [extA, hx]
            rw [this]
            split
            · rename_i h1; have := hla x hx; omega
            · rfl
          have h2 : ((restDims a b).map fun x => if extA a x = 1 then 0 else ℓ x)
              = List.replicate (restDims a b).length 0 := by
            rw [List.eq_replicate_iff]
            refine ⟨by simp, ?_⟩
            intro y hy
            obtain ⟨x, hx, rfl⟩ := List.mem_map.1 hy
            have : x ∉ a.dims := (mem_restDims.1 hx).2
            simp [extA, this]
          have h3 : (a.dims.map (extA a)) = a.dims.map a.ext := by
            apply List.map_congr_left
            intro x hx; simp [extA, hx]
          have h4 : ((restDims a b).map (extA a)) = List.replicate (restDims a b).length 1 := by
            rw [List.eq_replicate_iff]
            refine ⟨by simp, ?_⟩
            intro y hy
            obtain ⟨x, hx, rfl⟩ := List.mem_map.1 hy
            have : x ∉ a.dims := (mem_restDims.1 hx).2
            simp [extA, this]
          rw [h1, h2]
          show ravel _ (List.map (extA a) a.dims ++ List.map (extA a) (restDims a b)) = _
          rw [h3, h4, ravel_append_units _ _ _ (by simp), ha.shape_named]
        · -- operand b: unit axes in between, then the by-name transpose lemma
          set NB := D.filter (fun x => b.dims.contains x) with hNB
          have hperm : NB.Perm b.dims := newBOrder_perm ha hb
          have hdrop := (ravel_drop_units (fun x => if extA b x = 1 then 0 else ℓ x) (extA b)
            (fun x => b.dims.contains x) D (by
              intro x _ hk
              have : x ∉ b.dims := by simpa using hk
              simp [extA, this])).1
          have h1 : (NB.map fun x => if extA b x = 1 then 0 else ℓ x) = NB.map ℓ := by
            apply List.map_congr_left
            intro x hx
            have hxb : x ∈ b.dims := hperm.mem_iff.1 hx
            have : extA b x = b.ext x := by simp [extA, hxb]
            rw [this]
            split
            · have := hlb x hxb; omega
            · rfl
          have h2 : NB.map (extA b) = NB.map b.ext := by
            apply List.map_congr_left
            intro x hx
            have hxb : x ∈ b.dims := hperm.mem_iff.1 hx
            simp [extA, hxb]
          have hts : (transpose b.values (NB.map b.dims.idxOf)).shape = NB.map b.ext :=
            transpose_shape_named (fun x hx => hperm.mem_iff.1 hx) b.values b.ext hb.shape_named
          have key := transpose_named hb.1 hperm b.values b.ext ℓ hb.shape_named hlb
          simp only [Arr.get] at key
          rw [hts] at key
          simp only [Arr.get, reshapeC]
          show (transpose b.values (NB.map b.index)).data.getD
            (ravel (D.map fun x => if extA b x = 1 then 0 else ℓ x) (D.map (extA b))) default = _
          rw [hdrop, h1, h2]
          exact key
      · -- the by-name index is in bounds of the broadcast shape
        rw [InB_map_iff]
        intro x hx
        rcases hmemD x hx with h | ⟨hxb, hxa⟩
        · have e1 : extA a x = a.ext x := by simp [extA, h]
          rw [e1]
          split
          · rename_i h1
            by_cases hxb : x ∈ b.dims
            · have : extA b x = b.ext x := by simp [extA, hxb]
              rw [this]; exact hlb x hxb
            · have : extA b x = 1 := by simp [extA, hxb]
              rw [this]; have := hla x h; omega
          · exact hla x h
        · have e1 : extA a x = 1 := by simp [extA, hxa]
          have e2 : extA b x = b.ext x := by simp [extA, hxb]
          simp [e1, e2, hlb x hxb]

end Data
end Dnp

namespace Dnp
open Np
namespace Data
variable {κ α : Type} [Inhabited α] [Inhabited κ]

/-- the result of `a ∘ b` is consistent, with coordinates taken by name from a, then b -/
theorem binop_consistent (close : κ → κ → Bool) (f : α → α → α) {a b r : Data κ α}
    (ha : a.Consistent) (hb : b.Consistent) (hr : binop close f a b = .ok r) :
    r.Consistent ∧ r.coords = a.coords ++ (restDims a b).map b.coord := by
  obtain ⟨hd, hagree, _⟩ := binop_spec close f ha hb hr
  unfold binop align at hr
  simp only [bind, Except.bind] at hr
  split at hr
  · cases hr
  · rename_i v heq
    split at heq
    · cases heq
    · simp only [Except.ok.injEq] at heq
      subst heq
      simp only [Except.ok.injEq] at hr
      subst hr
      have hall := allDims_eq ha hb
      simp only at hd
      have hrest : (List.filter (fun x => !a.dims.contains x)
          (List.filter (fun x => b.dims.contains x) (dedup (a.dims ++ b.dims)))) = restDims a b := by
        rw [hall, List.filter_filter, List.filter_append]
        have e1 : a.dims.filter (fun x => !a.dims.contains x && b.dims.contains x) = [] := by
          rw [List.filter_eq_nil_iff]; intro x hx; simp [hx]
        have e2 : (restDims a b).filter (fun x => !a.dims.contains x && b.dims.contains x) = restDims a b := by
          rw [List.filter_eq_self]; intro x hx
          have := mem_restDims.1 hx; simp [this.1, this.2]
        rw [e1, e2]; rfl
      have hcoords : a.coords ++ List.map b.coord (List.filter (fun x => !a.dims.contains x)
          (List.filter (fun x => b.dims.contains x) (dedup (a.dims ++ b.dims)))) =
          a.coords ++ (restDims a b).map b.coord := by rw [hrest]
      refine ⟨⟨dedup_nodup _, ?_, ?_, Arr.ofFn_WF _ _⟩, hcoords⟩
      · show (a.coords ++ List.map b.coord (List.filter (fun x => !a.dims.contains x)
          (List.filter (fun x => b.dims.contains x) (dedup (a.dims ++ b.dims))))).length = _
        rw [hcoords, hall]; simp [ha.2.1]
      · show _ = (a.coords ++ List.map b.coord (List.filter (fun x => !a.dims.contains x)
          (List.filter (fun x => b.dims.contains x) (dedup (a.dims ++ b.dims))))).map List.length
        rw [hcoords]
        unfold zipBroadcast
        simp only [Arr.ofFn_shape, reshapeC, hall]
        rw [List.zipWith_map_left, List.zipWith_map_right, List.zipWith_self, List.map_append, List.map_append,
          List.map_map]
        congr 1
        · rw [ha.coords_named, List.map_map]
          apply List.map_congr_left
          intro x hx
          simp only [Function.comp, List.contains_iff_mem, hx, decide_true, if_true]
          split
          · rename_i h1
            by_cases hxb : x ∈ b.dims
            · have h2 : b.ext x = a.ext x := by
                rw [ha.ext_eq hx, hb.ext_eq hxb]; exact (coordsClose_length (hagree x hx hxb)).symm
              simp [hxb, h2, ← ha.ext_eq hx]
            · simp [hxb, ← ha.ext_eq hx, h1]
          · exact ha.ext_eq hx
        · apply List.map_congr_left
          intro x hx
          have := mem_restDims.1 hx
          simp [this.1, this.2, hb.ext_eq this.1]

end Data
end Dnp
