import DnpProofs.Lemmas.Consistent2
set_option linter.unusedSectionVars false
/-! Value-level specification of the per-axis cut of `__getitem__`. -/
namespace Np

/-- InB gives the per-axis bound -/
theorem InB_getD : ∀ {idx s : List Nat} {k : Nat}, InB idx s → k < s.length → idx.getD k 0 < s.getD k 0
  | i :: idx, n :: s, 0, h, _ => by simpa using h.1
  | i :: idx, n :: s, k + 1, h, hk => by
    have := InB_getD (k := k) h.2 (by simpa using hk)
    simpa using this
  | [], [], _, _, hk => by simp at hk
  | [], _ :: _, _, h, _ => by simp [InB] at h
  | _ :: _, [], _, h, _ => by simp [InB] at h

end Np

namespace Dnp
open Np
namespace Data
variable {κ α : Type} [Inhabited α] [Inhabited κ]

/-- the source index a result index of the cut reads: axis k+j is looked up in its own position list, the others kept -/
def cutIdx : Nat → List (Option (List Nat)) → List Nat → List Nat
  | _, [], idx => idx
  | k, none :: ps, idx => cutIdx (k + 1) ps idx
  | k, some p :: ps, idx => setAt (cutIdx (k + 1) ps idx) k (p.getD (idx.getD k 0) 0)

theorem cutIdx_length : ∀ (ps : List (Option (List Nat))) (k : Nat) (idx : List Nat), (cutIdx k ps idx).length = idx.length
  | [], _, _ => rfl
  | none :: ps, k, idx => cutIdx_length ps (k + 1) idx
  | some p :: ps, k, idx => by simp [cutIdx, cutIdx_length ps (k + 1) idx]

/-- axes before k are untouched -/
theorem cutIdx_getD_lt : ∀ (ps : List (Option (List Nat))) (k j : Nat) (idx : List Nat), j < k →
    (cutIdx k ps idx).getD j 0 = idx.getD j 0
  | [], _, _, _, _ => rfl
  | none :: ps, k, j, idx, h => cutIdx_getD_lt ps (k + 1) j idx (by omega)
  | some p :: ps, k, j, idx, h => by
    simp only [cutIdx]
    rw [setAt_getD_ne _ _ _ _ _ (by omega)]
    exact cutIdx_getD_lt ps (k + 1) j idx (by omega)

/-- per axis: position j ≥ k of the source index is the j-th result index looked up in that axis' position list
    (or the result index itself where no selector was given) -/
theorem cutIdx_getD : ∀ (ps : List (Option (List Nat))) (k j : Nat) (idx : List Nat), k ≤ j → j < idx.length →
    (cutIdx k ps idx).getD j 0 =
      match ps.getD (j - k) none with
      | none => idx.getD j 0
      | some p => p.getD (idx.getD j 0) 0
  | [], _, _, _, _, _ => by simp [cutIdx]
  | none :: ps, k, j, idx, hkj, hj => by
    simp only [cutIdx]
    by_cases hjk : j = k
    · subst hjk
      rw [cutIdx_getD_lt ps (j + 1) j idx (by omega)]
      simp
    · have := cutIdx_getD ps (k + 1) j idx (by omega) hj
      rw [this]
      have : j - k = (j - (k + 1)) + 1 := by omega
      rw [this]; simp
  | some p :: ps, k, j, idx, hkj, hj => by
    simp only [cutIdx]
    by_cases hjk : j = k
    · subst hjk
      rw [setAt_getD_self _ _ _ _ (by rw [cutIdx_length]; exact hj)]
      simp
    · rw [setAt_getD_ne _ _ _ _ _ hjk]
      have := cutIdx_getD ps (k + 1) j idx (by omega) hj
      rw [this]
      have : j - k = (j - (k + 1)) + 1 := by omega
      rw [this]; simp

/-- every selected position lies on its axis -/
def CutValid (k : Nat) (ps : List (Option (List Nat))) (s : List Nat) : Prop :=
  ∀ j p, ps.getD j none = some p → ∀ i ∈ p, i < s.getD (k + j) 0

theorem cut_go_get : ∀ (ps : List (Option (List Nat))) (k : Nat) (v : Arr α) (idx : List Nat),
    k + ps.length ≤ v.shape.length → CutValid k ps v.shape → InB idx (cutShape k ps v.shape) →
    InB (cutIdx k ps idx) v.shape ∧ (cut.go k ps v).get idx = v.get (cutIdx k ps idx)
  | [], _, _, _, _, _, hin => ⟨hin, rfl⟩
  | none :: ps, k, v, idx, hlen, hval, hin => by
    have hval' : CutValid (k + 1) ps v.shape := by
      intro j p hj i hi
      have := hval (j + 1) p (by simpa using hj) i hi
      rwa [show k + (j + 1) = k + 1 + j by omega] at this
    exact cut_go_get ps (k + 1) v idx (by simp at hlen; omega) hval' hin
  | some p :: ps, k, v, idx, hlen, hval, hin => by
    have hk : k < v.shape.length := by simp at hlen; omega
    have hval' : CutValid (k + 1) ps (takeAxis v k p).shape := by
      intro j q hj i hi
      have := hval (j + 1) q (by simpa using hj) i hi
      simp only [takeAxis, Arr.ofFn_shape]
      rw [setAt_getD_ne _ _ _ _ _ (by omega)]
      rwa [show k + (j + 1) = k + 1 + j by omega] at this
    have hlen' : k + 1 + ps.length ≤ (takeAxis v k p).shape.length := by
      simp only [takeAxis, Arr.ofFn_shape, setAt_length]; simp at hlen; omega
    obtain ⟨hin', hget⟩ := cut_go_get ps (k + 1) (takeAxis v k p) idx hlen' hval' hin
    simp only [takeAxis, Arr.ofFn_shape] at hin'
    have hidxk : (cutIdx (k + 1) ps idx).getD k 0 = idx.getD k 0 := cutIdx_getD_lt ps (k + 1) k idx (by omega)
    have hlt : idx.getD k 0 < p.length := by
      have := InB_getD hin' (by simpa using hk)
      rw [hidxk, setAt_getD_self _ _ _ _ hk] at this
      exact this
    have hpos : p.getD (idx.getD k 0) 0 < v.shape.getD k 0 := by
      have hmem : p.getD (idx.getD k 0) 0 ∈ p := by
        generalize idx.getD k 0 = m at hlt
        rw [List.getD_eq_getElem?_getD, List.getElem?_eq_getElem hlt, Option.getD_some]
        exact List.getElem_mem hlt
      have := hval 0 p (by simp) _ hmem
      simpa using this
    refine ⟨InB_setAt hin' hpos, ?_⟩
    simp only [cut.go, cutIdx]
    rw [hget]
    simp only [takeAxis]
    rw [Arr.get_ofFn _ hin', hidxk]

/-- `data[dim, selector, …]`: values and coordinates are cut by the SAME per-axis position lists, unselected dimensions
    are untouched, and the element at result index `idx` is the source element at the looked-up index -/
theorem cut_spec {d : Data κ α} (h : d.Consistent) (pos : List (Option (List Nat))) (hp : pos.length = d.dims.length)
    (hval : CutValid 0 pos d.values.shape) :
    (d.cut pos).dims = d.dims ∧
    (d.cut pos).coords = List.zipWith (fun (c : List κ) (p : Option (List Nat)) => match p with
                        | none => c
                        | some p => p.map (fun i => c.getD i default)) d.coords pos ∧
    ∀ idx, InB idx (d.cut pos).values.shape →
      InB (cutIdx 0 pos idx) d.values.shape ∧ (d.cut pos).values.get idx = d.values.get (cutIdx 0 pos idx) := by
  refine ⟨rfl, rfl, ?_⟩
  intro idx hin
  have hs := (cut_go_shape pos 0 d.values).1
  have hin' : InB idx (cutShape 0 pos d.values.shape) := by
    have : (d.cut pos).values.shape = cutShape 0 pos d.values.shape := hs
    rwa [this] at hin
  exact cut_go_get pos 0 d.values idx (by rw [h.shape_len, hp]; omega) hval hin'

end Data
end Dnp
