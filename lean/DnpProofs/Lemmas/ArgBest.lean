import DnpModel.Index
import Mathlib.Order.Basic
import Mathlib.Order.Defs.LinearOrder
import Mathlib.Data.List.Basic
set_option linter.unusedSectionVars false
/-! `argBest` over a linear order is the first index of a minimum (numpy.argmin). -/
namespace Np
variable {γ : Type} [LinearOrder γ]

abbrev ltB : γ → γ → Bool := fun a b => decide (a < b)

theorem argBest_go_spec (dflt : γ) (best : γ) (bi i : Nat) :
    ∀ (ys : List γ),
      (argBest.go ltB best bi i ys = bi ∧ ∀ y ∈ ys, best ≤ y) ∨
      (i ≤ argBest.go ltB best bi i ys ∧ argBest.go ltB best bi i ys - i < ys.length ∧
        ys.getD (argBest.go ltB best bi i ys - i) dflt < best ∧
        (∀ y ∈ ys, ys.getD (argBest.go ltB best bi i ys - i) dflt ≤ y) ∧
        ∀ j, j < argBest.go ltB best bi i ys - i → ys.getD (argBest.go ltB best bi i ys - i) dflt < ys.getD j dflt)
  | [] => by simp [argBest.go]
  | y :: ys => by
    simp only [argBest.go, ltB]
    by_cases hy : y < best
    · simp only [hy, decide_true, if_true]
      rcases argBest_go_spec dflt y i (i + 1) ys with ⟨hk, hall⟩ | ⟨hik, h, hlt, hall, hfirst⟩
      · right
        rw [hk]
        refine ⟨Nat.le_refl _, by simp, by simpa using hy, ?_, ?_⟩
        · intro z hz
          simp only [Nat.sub_self, List.getD_cons_zero]
          rcases List.mem_cons.1 hz with rfl | hz
          · exact le_refl _
          · exact hall z hz
        · intro j hj; omega
      · right
        generalize argBest.go ltB y i (i + 1) ys = k at *
        have hk1 : k - i = (k - (i + 1)) + 1 := by omega
        refine ⟨by omega, by simp; omega, ?_, ?_, ?_⟩
        · rw [hk1, List.getD_cons_succ]; exact lt_trans hlt hy
        · intro z hz
          rw [hk1, List.getD_cons_succ]
          rcases List.mem_cons.1 hz with rfl | hz
          · exact le_of_lt hlt
          · exact hall z hz
        · intro j hj
          rw [hk1, List.getD_cons_succ]
          cases j with
          | zero => simpa using hlt
          | succ j => simpa using hfirst j (by omega)
    · simp only [hy, decide_false, Bool.false_eq_true, if_false]
      have hy' : best ≤ y := not_lt.1 hy
      rcases argBest_go_spec dflt best bi (i + 1) ys with ⟨hk, hall⟩ | ⟨hik, h, hlt, hall, hfirst⟩
      · left
        exact ⟨hk, fun z hz => by
          rcases List.mem_cons.1 hz with rfl | hz
          · exact hy'
          · exact hall z hz⟩
      · right
        generalize argBest.go ltB best bi (i + 1) ys = k at *
        have hk1 : k - i = (k - (i + 1)) + 1 := by omega
        refine ⟨by omega, by simp; omega, ?_, ?_, ?_⟩
        · rw [hk1, List.getD_cons_succ]; exact hlt
        · intro z hz
          rw [hk1, List.getD_cons_succ]
          rcases List.mem_cons.1 hz with rfl | hz
          · exact le_trans (le_of_lt hlt) hy'
          · exact hall z hz
        · intro j hj
          rw [hk1, List.getD_cons_succ]
          cases j with
          | zero => simpa using lt_of_lt_of_le hlt hy'
          | succ j => simpa using hfirst j (by omega)

/-- numpy.argmin: in range, a minimum, and the first one -/
theorem argBest_spec (dflt : γ) (xs : List γ) (hne : xs ≠ []) :
    argBest ltB xs < xs.length ∧
    (∀ y ∈ xs, xs.getD (argBest ltB xs) dflt ≤ y) ∧
    ∀ j, j < argBest ltB xs → xs.getD (argBest ltB xs) dflt < xs.getD j dflt := by
  cases xs with
  | nil => exact absurd rfl hne
  | cons x xs =>
    simp only [argBest]
    rcases argBest_go_spec dflt x 0 1 xs with ⟨hk, hall⟩ | ⟨hik, h, hlt, hall, hfirst⟩
    · rw [hk]
      refine ⟨by simp, ?_, fun j hj => by omega⟩
      intro y hy
      rcases List.mem_cons.1 hy with rfl | hy
      · simp
      · simpa using hall y hy
    · generalize argBest.go ltB x 0 1 xs = k at *
      have hk1 : k = (k - 1) + 1 := by omega
      refine ⟨by simp; omega, ?_, ?_⟩
      · intro y hy
        rw [hk1, List.getD_cons_succ]
        rcases List.mem_cons.1 hy with rfl | hy
        · exact le_of_lt hlt
        · exact hall y hy
      · intro j hj
        rw [hk1, List.getD_cons_succ]
        cases j with
        | zero => simpa using hlt
        | succ j => simpa using hfirst j (by omega)

end Np
