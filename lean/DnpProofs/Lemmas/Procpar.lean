import DnpModel.Io.Procpar
/-! helper lemmas for the VnmrJ parameter-file model (`DnpModel/Io/Procpar.lean`) -/
namespace Dnp.Procpar

theorem unquote_quote (s : String) (h : ∀ c ∈ s.toList, c ≠ '"') : unquote ("\"" ++ s ++ "\"") = s := by
  unfold unquote
  have : ("\"" ++ s ++ "\"").toList = '"' :: (s.toList ++ ['"']) := by
    simp [String.toList_append]
  rw [this]
  have hf : s.toList.filter (fun c => decide (c ≠ '"')) = s.toList := List.filter_eq_self.2 (by simpa using h)
  have : List.filter (fun c => decide (c ≠ '"')) ('"' :: (s.toList ++ ['"'])) = s.toList := by
    rw [List.filter_cons, List.filter_append, hf]; simp
  rw [this]
  simp


/-- strings the writer can carry: no double quote inside -/
def CleanStr (s : String) : Prop := ∀ c ∈ s.toList, c ≠ '"'

/-- well-formed parameter: what a VnmrJ file can hold and the importer reads back unchanged -/
def WFParam : String × PVal → Prop
  | (_, .real _) => True
  | (_, .reals vs) => vs.length ≠ 1
  | (_, .str s) => CleanStr s
  | (_, .strs ss) => 2 ≤ ss.length ∧ ∀ s ∈ ss, CleanStr s

theorem headerOk_headLine (nm : String) (b : Nat) : headerOk (headLine nm b) = true := rfl

theorem lineText_single (t : Tok) : lineText [t] = t.text := by
  simp [lineText]

theorem takeStrs_print (ss : List String) (h : ∀ s ∈ ss, CleanStr s) (rest : List Line) :
    takeStrs ss.length (ss.map (fun x => [quote x]) ++ rest) = (ss, rest) := by
  induction ss with
  | nil => simp [takeStrs]
  | cons s ss ih =>
    simp only [List.length_cons, List.map_cons, List.cons_append, takeStrs]
    rw [ih (fun x hx => h x (List.mem_cons_of_mem _ hx))]
    simp only [lineText_single, quote, Tok.text]
    rw [unquote_quote s (h s (List.mem_cons_self ..))]

theorem parseOne_print (p : String × PVal) (hp : WFParam p) (rest : List Line) :
    ∃ l1 l2 tail, printParam p ++ rest = l1 :: l2 :: tail ∧ parseOne l1 l2 tail = .ok (p.1, p.2, rest) := by
  obtain ⟨nm, v⟩ := p
  cases v with
  | real t =>
    exact ⟨_, _, _, rfl, by simp [parseOne, headerOk, isNum, headLine, Tok.text]⟩
  | reals vs =>
    refine ⟨_, _, _, rfl, ?_⟩
    have hne : vs.length ≠ 1 := hp
    simp [parseOne, headerOk, isNum, headLine, Tok.text, hne]
  | str s =>
    refine ⟨_, _, _, rfl, ?_⟩
    have hs : CleanStr s := hp
    simp [parseOne, headerOk, isNum, headLine, Tok.text, quote, unquote_quote s hs]
  | strs ss =>
    obtain ⟨hlen, hclean⟩ : 2 ≤ ss.length ∧ ∀ s ∈ ss, CleanStr s := hp
    match ss, hlen, hclean with
    | s :: ss, hlen, hclean =>
      refine ⟨_, _, _, rfl, ?_⟩
      have hne : ss ≠ [] := by intro h; subst h; simp at hlen
      have ht := takeStrs_print ss (fun x hx => hclean x (List.mem_cons_of_mem _ hx)) ([Tok.num 0] :: rest)
      have ht' : takeStrs ss.length (List.map (fun x => [Tok.txt ("\"" ++ x ++ "\"")]) ss ++ [Tok.num 0] :: rest)
          = (ss, [Tok.num 0] :: rest) := by simpa [quote] using ht
      simp [parseOne, headerOk, isNum, headLine, Tok.text, quote, hne, ht',
        unquote_quote s (hclean s (List.mem_cons_self ..))]

theorem parseFuel_print : ∀ (ps : List (String × PVal)) (fuel : Nat), (∀ p ∈ ps, WFParam p) → ps.length ≤ fuel →
    parseFuel fuel (print ps) = .ok ps := by
  intro ps
  induction ps with
  | nil => intro fuel _ _; cases fuel <;> simp [print, parseFuel]
  | cons p ps ih =>
    intro fuel hwf hlen
    obtain ⟨f, rfl⟩ : ∃ f, fuel = f + 1 := ⟨fuel - 1, by simp at hlen; omega⟩
    obtain ⟨l1, l2, tail, heq, hone⟩ := parseOne_print p (hwf p (List.mem_cons_self ..)) (print ps)
    have hp : print (p :: ps) = l1 :: l2 :: tail := by simpa [print] using heq
    rw [hp]
    simp only [parseFuel, hone]
    rw [ih f (fun q hq => hwf q (List.mem_cons_of_mem _ hq)) (by simp at hlen; omega)]

theorem print_length_ge (ps : List (String × PVal)) : ps.length ≤ (print ps).length := by
  induction ps with
  | nil => simp [print]
  | cons p ps ih =>
    have : 1 ≤ (printParam p).length := by
      obtain ⟨nm, v⟩ := p
      cases v with
      | real t => simp [printParam]
      | reals vs => simp [printParam]
      | str s => simp [printParam]
      | strs ss => cases ss <;> simp [printParam]
    simp only [print, List.flatMap_cons, List.length_append, List.length_cons] at ih ⊢
    omega

end Dnp.Procpar
