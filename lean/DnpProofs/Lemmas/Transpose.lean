import DnpProofs.Lemmas.Perm
import DnpModel.Io.Layout
set_option linter.unusedSectionVars false
/-! transposing by a permutation and then by its inverse is the identity on arrays -/
namespace Np
open Arr Dnp.Layout

theorem idxOf_range {n k : Nat} (h : k < n) : (List.range n).idxOf k = k := by
  have := (List.nodup_range (n := n)).idxOf_getElem k (by simpa using h)
  simpa using this

theorem map_idxOf_range {p : List Nat} {n : Nat} (hp : p.Perm (List.range n)) :
    p.map (List.range n).idxOf = p := by
  conv_rhs => rw [← List.map_id p]
  apply List.map_congr_left
  intro k hk
  have : k < n := by simpa using hp.mem_iff.1 hk
  simpa using idxOf_range this

/-- scattering through p what was gathered through p -/
theorem scatter_perm {p : List Nat} {n : Nat} (hp : p.Perm (List.range n)) (ℓ : Nat → Nat) :
    scatter p (p.map ℓ) = (List.range n).map ℓ := by
  have := scatter_named (List.nodup_range (n := n)) hp ℓ
  rwa [map_idxOf_range hp] at this

theorem gather_perm {p : List Nat} {n : Nat} (hp : p.Perm (List.range n)) (e : Nat → Nat) :
    gather p ((List.range n).map e) = p.map e := by
  have := gather_named (dims := List.range n) (ds' := p) (fun x hx => hp.mem_iff.1 hx) e
  rwa [map_idxOf_range hp] at this

theorem invPerm_perm {p : List Nat} {n : Nat} (hp : p.Perm (List.range n)) : (invPerm p).Perm (List.range n) := by
  have hl : p.length = n := by simpa using hp.length_eq
  have hnd : p.Nodup := hp.nodup_iff.2 List.nodup_range
  unfold invPerm
  rw [hl]
  rw [List.perm_ext_iff_of_nodup _ List.nodup_range]
  · intro a
    simp only [List.mem_map, List.mem_range]
    constructor
    · rintro ⟨j, hj, rfl⟩
      have : j ∈ p := hp.mem_iff.2 (by simpa using hj)
      have := List.idxOf_lt_length_iff.2 this
      omega
    · intro ha
      have ha' : a < p.length := by omega
      refine ⟨p[a], ?_, hnd.idxOf_getElem a ha'⟩
      have : p[a] ∈ List.range n := hp.mem_iff.1 (List.getElem_mem ha')
      simpa using this
  · rw [List.nodup_map_iff_inj_on List.nodup_range]
    intro x hx y hy hxy
    have hx' : x ∈ p := hp.mem_iff.2 hx
    exact (List.idxOf_inj hx').1 hxy

/-- position of k in the inverse permutation is p[k] -/
theorem idxOf_invPerm {p : List Nat} {n : Nat} (hp : p.Perm (List.range n)) {k : Nat} (hk : k < n) :
    (invPerm p).idxOf k = p.getD k 0 := by
  have hpl : p.length = n := by simpa using hp.length_eq
  have hnd : p.Nodup := hp.nodup_iff.2 List.nodup_range
  have hkp : k < p.length := by omega
  have hpk : p[k] < n := by
    have : p[k] ∈ List.range n := hp.mem_iff.1 (List.getElem_mem hkp)
    simpa using this
  have h := idxOf_map_injOn (fun x => p.idxOf x) (List.range n) p[k] (fun y hy e => by
    have hy' : y ∈ p := hp.mem_iff.2 hy
    exact (List.idxOf_inj hy').1 e)
  simp only [hnd.idxOf_getElem k hkp] at h
  unfold invPerm
  rw [hpl, h, idxOf_range hpk]
  simp [List.getD, hkp]

section
variable {p : List Nat} {n : Nat}

theorem getD_idxOf_self (hp : p.Perm (List.range n)) {k : Nat} (hk : k < n) : p.getD (p.idxOf k) 0 = k := by
  have hm : k ∈ p := hp.mem_iff.2 (by simpa using hk)
  have := List.idxOf_lt_length_iff.2 hm
  simp [List.getD, this, List.getElem_idxOf this]

theorem idxOf_getD_self (hp : p.Perm (List.range n)) {k : Nat} (hk : k < n) : p.idxOf (p.getD k 0) = k := by
  have hpl : p.length = n := by simpa using hp.length_eq
  have hnd : p.Nodup := hp.nodup_iff.2 List.nodup_range
  have hkp : k < p.length := by omega
  simp [List.getD, hkp, hnd.idxOf_getElem k hkp]

theorem getD_lt (hp : p.Perm (List.range n)) {k : Nat} (hk : k < n) : p.getD k 0 < n := by
  have hpl : p.length = n := by simpa using hp.length_eq
  have hkp : k < p.length := by omega
  have : p[k] ∈ List.range n := hp.mem_iff.1 (List.getElem_mem hkp)
  simpa [List.getD, hkp] using this

theorem idxOf_lt (hp : p.Perm (List.range n)) {k : Nat} (hk : k < n) : p.idxOf k < n := by
  have hpl : p.length = n := by simpa using hp.length_eq
  have hm : k ∈ p := hp.mem_iff.2 (by simpa using hk)
  have := List.idxOf_lt_length_iff.2 hm
  omega

theorem getD_invPerm (hp : p.Perm (List.range n)) {k : Nat} (hk : k < n) : (invPerm p).getD k 0 = p.idxOf k := by
  have hpl : p.length = n := by simpa using hp.length_eq
  simp [invPerm, hpl, List.getD, hk]

theorem scatter_eq (hp : p.Perm (List.range n)) (idx : List Nat) :
    scatter p idx = (List.range n).map (fun j => idx.getD (p.idxOf j) 0) := by
  have hpl : p.length = n := by simpa using hp.length_eq
  simp [scatter, hpl]

/-- (B) scatter through p then through its inverse -/
theorem scatter_scatter_inv (hp : p.Perm (List.range n)) (idx : List Nat) (hl : idx.length = n) :
    scatter (invPerm p) (scatter p idx) = idx := by
  have hq := invPerm_perm hp
  rw [scatter_eq hq, scatter_eq hp]
  apply List.ext_getElem (by simp [hl])
  intro k h1 h2
  have hk : k < n := by simpa using h1
  simp only [List.getElem_map, List.getElem_range]
  rw [idxOf_invPerm hp hk]
  have h3 := getD_lt hp hk
  rw [List.getD_eq_getElem?_getD, List.getElem?_map, List.getElem?_range h3]
  simp only [Option.map_some, Option.getD_some]
  rw [idxOf_getD_self hp hk]
  simp [List.getD, h2]

theorem gather_eq (s : List Nat) : gather p s = p.map (fun k => s.getD k 0) := rfl

/-- (A) gather through the inverse then through p -/
theorem gather_gather_inv (hp : p.Perm (List.range n)) (s : List Nat) (hs : s.length = n) :
    gather p (gather (invPerm p) s) = s := by
  have hpl : p.length = n := by simpa using hp.length_eq
  have hndp : p.Nodup := hp.nodup_iff.2 List.nodup_range
  rw [gather_eq, gather_eq]
  have : p.map (fun k => ((invPerm p).map (fun k => s.getD k 0)).getD k 0) = p.map (fun k => s.getD (p.idxOf k) 0) := by
    apply List.map_congr_left
    intro k hk
    have hkn : k < n := by simpa using hp.mem_iff.1 hk
    have hql : (invPerm p).length = n := by simp [invPerm, hpl]
    rw [List.getD_eq_getElem?_getD, List.getElem?_map, List.getElem?_eq_getElem (by omega)]
    simp only [Option.map_some, Option.getD_some]
    have := getD_invPerm hp hkn
    simp only [List.getD, List.getElem?_eq_getElem (show k < (invPerm p).length by omega), Option.getD_some] at this
    rw [this]
  rw [this]
  exact (list_by_name hndp s 0 (by omega)).symm

/-- (A') gather through p then through the inverse -/
theorem gather_inv_gather (hp : p.Perm (List.range n)) (s : List Nat) (hs : s.length = n) :
    gather (invPerm p) (gather p s) = s := by
  have hpl : p.length = n := by simpa using hp.length_eq
  rw [gather_eq, gather_eq]
  unfold invPerm
  rw [hpl, List.map_map]
  apply List.ext_getElem (by simp [hs])
  intro k h1 h2
  have hk : k < n := by simpa using h1
  simp only [List.getElem_map, List.getElem_range, Function.comp]
  have h3 := idxOf_lt hp hk
  rw [List.getD_eq_getElem?_getD, List.getElem?_map, List.getElem?_eq_getElem (by omega : p.idxOf k < p.length)]
  simp only [Option.map_some, Option.getD_some]
  have hg := getD_idxOf_self hp hk
  simp only [List.getD, List.getElem?_eq_getElem (by omega : p.idxOf k < p.length), Option.getD_some] at hg
  rw [hg]
  simp [List.getD, h2]

theorem InB_scatter (hp : p.Perm (List.range n)) (s idx : List Nat) (hs : s.length = n)
    (h : InB idx (gather p s)) : InB (scatter p idx) s := by
  have hpl : p.length = n := by simpa using hp.length_eq
  rw [InB_iff] at h ⊢
  obtain ⟨h1, h2⟩ := h
  have hil : idx.length = n := by rw [h1, gather_eq]; simp [hpl]
  refine ⟨by rw [scatter_eq hp]; simp [hs], ?_⟩
  intro k hk
  rw [scatter_eq hp] at hk ⊢
  have hkn : k < n := by simpa using hk
  rw [List.getD_eq_getElem?_getD, List.getElem?_map, List.getElem?_range hkn]
  simp only [Option.map_some, Option.getD_some]
  have h3 := idxOf_lt hp hkn
  have := h2 (p.idxOf k) (by omega)
  rw [gather_eq, List.getD_eq_getElem?_getD (l := p.map _), List.getElem?_map,
    List.getElem?_eq_getElem (by omega : p.idxOf k < p.length)] at this
  simp only [Option.map_some, Option.getD_some] at this
  have hg := getD_idxOf_self hp hkn
  simp only [List.getD, List.getElem?_eq_getElem (by omega : p.idxOf k < p.length), Option.getD_some] at hg
  rwa [hg] at this
end

/-- transposing back and forth is the identity -/
theorem transpose_invPerm {α : Type} [Inhabited α] (a : Arr α) (p : List Nat) (ha : a.WF)
    (hp : p.Perm (List.range a.shape.length)) :
    transpose (transpose a (invPerm p)) p = a := by
  have hq := invPerm_perm hp
  have hshape : (transpose (transpose a (invPerm p)) p).shape = a.shape :=
    gather_gather_inv hp a.shape rfl
  apply Arr.ext_get hshape (Arr.ofFn_WF _ _) ha
  intro idx hin
  have hql : (invPerm p).length = a.shape.length := by simpa using hq.length_eq
  have hs1 : (transpose a (invPerm p)).shape.length = a.shape.length := by
    show (gather (invPerm p) a.shape).length = _
    simp [gather, hql]
  have hin1 : InB idx (gather p (transpose a (invPerm p)).shape) := hin
  have hidx : idx.length = a.shape.length := by
    rw [hin.length_eq, hshape]
  unfold transpose at hin1 ⊢
  rw [Arr.get_ofFn _ hin1]
  have hin2 : InB (scatter p idx) (gather (invPerm p) a.shape) :=
    InB_scatter hp _ idx (by simp [gather, hql]) hin1
  rw [Arr.get_ofFn _ hin2, scatter_scatter_inv hp idx hidx]

end Np
