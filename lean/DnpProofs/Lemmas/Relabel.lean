import DnpProofs.Lemmas.Perm
set_option linter.unusedSectionVars false
/-! Data-level consequences of the by-name permutation lemmas. -/
namespace Dnp
open Np
namespace Data
variable {κ α : Type} [Inhabited α] [Inhabited κ]

theorem Consistent.shape_len {d : Data κ α} (h : d.Consistent) : d.values.shape.length = d.dims.length := by
  rw [h.2.2.1, List.length_map, h.2.1]

/-- the shape read by name -/
theorem Consistent.shape_named {d : Data κ α} (h : d.Consistent) :
    d.values.shape = d.dims.map d.ext :=
  shape_by_name h.1 _ h.shape_len

theorem Consistent.coords_named {d : Data κ α} (h : d.Consistent) :
    d.coords = d.dims.map d.coord := by
  apply List.ext_getElem (by simp [h.2.1])
  intro k h1 h2
  have hk : k < d.dims.length := by simpa using h2
  simp [Data.coord, Data.index, h.1.idxOf_getElem k hk, List.getD, h1]

theorem Consistent.ext_eq {d : Data κ α} (h : d.Consistent) {nm : String} (hm : nm ∈ d.dims) :
    d.ext nm = (d.coord nm).length := by
  have hk : d.dims.idxOf nm < d.dims.length := List.idxOf_lt_length_iff.2 hm
  have hk' : d.dims.idxOf nm < d.coords.length := by rw [h.2.1]; exact hk
  simp [Data.ext, Data.coord, Data.index, h.2.2.1, List.getD, hk']

/-- the object obtained by listing the dims in another order `ds'` -/
def permuted (d : Data κ α) (ds' : List String) : Data κ α :=
  let perm := ds'.map d.dims.idxOf
  { d with dims := ds', coords := perm.map (fun k => d.coords.getD k []),
           values := transpose d.values perm }

theorem permuted_coords {d : Data κ α} (ds' : List String) :
    (d.permuted ds').coords = ds'.map d.coord := by
  simp [permuted, Data.coord, Data.index, List.map_map, Function.comp_def]

/-- everything C01/C02 need about an axis permutation given as a list of names -/
theorem permuted_spec {d : Data κ α} (h : d.Consistent) {ds' : List String} (hp : ds'.Perm d.dims) :
    (d.permuted ds').Consistent ∧
    (∀ nm ∈ d.dims, (d.permuted ds').coord nm = d.coord nm) ∧
    (∀ ℓ : String → Nat, (∀ nm ∈ d.dims, ℓ nm < d.ext nm) → (d.permuted ds').getN ℓ = d.getN ℓ) := by
  have hnd' : ds'.Nodup := hp.nodup_iff.2 h.1
  have hsub : ∀ x ∈ ds', x ∈ d.dims := fun x hx => hp.mem_iff.1 hx
  have hshape : (d.permuted ds').values.shape = ds'.map d.ext :=
    transpose_shape_named hsub d.values d.ext h.shape_named
  refine ⟨⟨hnd', ?_, ?_, ?_⟩, ?_, ?_⟩
  · simp [permuted]
  · rw [hshape, permuted_coords, List.map_map]
    apply List.map_congr_left
    intro x hx
    exact h.ext_eq (hsub x hx)
  · exact Arr.ofFn_WF _ _
  · intro nm hm
    have hm' : nm ∈ ds' := hp.mem_iff.2 hm
    have hk : ds'.idxOf nm < ds'.length := List.idxOf_lt_length_iff.2 hm'
    have : (d.permuted ds').coord nm = (ds'.map d.coord).getD (ds'.idxOf nm) [] := by
      rw [← permuted_coords]; rfl
    rw [this]
    simp [List.getD, hk, List.getElem_idxOf hk]
  · intro ℓ hin
    exact transpose_named h.1 hp d.values d.ext ℓ h.shape_named hin

theorem dedup_nodup : ∀ (l : List String), (dedup l).Nodup
  | [] => by simp [dedup]
  | x :: xs => by
    simp only [dedup, List.nodup_cons]
    exact ⟨by simp, (dedup_nodup xs).filter _⟩

theorem mem_dedup : ∀ {l : List String} {x : String}, x ∈ dedup l ↔ x ∈ l
  | [], _ => by simp [dedup]
  | y :: ys, x => by
    simp only [dedup, List.mem_cons, List.mem_filter, mem_dedup (l := ys)]
    by_cases hxy : x = y <;> simp [hxy]

/-- `dedup (ds ++ dims)` lists exactly the dims, each once -/
theorem dedup_append_perm {ds dims : List String} (hnd : dims.Nodup) (hsub : ∀ x ∈ ds, x ∈ dims) :
    (dedup (ds ++ dims)).Perm dims := by
  rw [List.perm_ext_iff_of_nodup (dedup_nodup _) hnd]
  intro x
  rw [mem_dedup, List.mem_append]
  constructor
  · rintro (h | h)
    · exact hsub x h
    · exact h
  · exact Or.inr

theorem reorder_eq_permuted {d d' : Data κ α} {ds : List String} (h : d.reorder ds = .ok d') :
    d' = d.permuted (dedup (ds ++ d.dims)) ∧ ds.Nodup ∧ (∀ x ∈ ds, x ∈ d.dims) := by
  unfold reorder at h
  split at h
  · cases h
  · split at h
    · cases h
    · rename_i h1 h2
      simp only [Except.ok.injEq] at h
      exact ⟨h.symm, by simpa using h1, by simpa using h2⟩

end Data
end Dnp
