import DnpProofs.Lemmas.Sort
set_option linter.unusedSectionVars false
/-! permuting there and back; unfold followed by fold is the identity. -/
namespace Dnp
open Np
namespace Data
variable {κ α : Type} [Inhabited α] [Inhabited κ]

/-- every in-bounds index of a consistent object is a by-name assignment -/
theorem idx_named {dims : List String} (hnd : dims.Nodup) {idx : List Nat} (hl : idx.length = dims.length) :
    idx = dims.map (fun nm => idx.getD (dims.idxOf nm) 0) := shape_by_name hnd idx hl

theorem permuted_permuted {d : Data κ α} (h : d.Consistent) {ds' : List String} (hp : ds'.Perm d.dims) :
    (d.permuted ds').permuted d.dims = d := by
  obtain ⟨h1, h2, h3⟩ := permuted_spec h hp
  have hp' : d.dims.Perm (d.permuted ds').dims := hp.symm
  obtain ⟨g1, g2, g3⟩ := permuted_spec h1 hp'
  have hmem : ∀ nm, nm ∈ (d.permuted ds').dims ↔ nm ∈ d.dims := fun nm => hp.mem_iff
  -- compare field by field
  have hdims : ((d.permuted ds').permuted d.dims).dims = d.dims := rfl
  have hcoords : ((d.permuted ds').permuted d.dims).coords = d.coords := by
    rw [g1.coords_named, h.coords_named, hdims]
    apply List.map_congr_left
    intro nm hm
    rw [g2 nm ((hmem nm).2 hm), h2 nm hm]
  have hshape : ((d.permuted ds').permuted d.dims).values.shape = d.values.shape := by
    rw [g1.2.2.1, hcoords, h.2.2.1]
  have hvals : ((d.permuted ds').permuted d.dims).values = d.values := by
    apply Arr.ext_get hshape g1.2.2.2 h.2.2.2
    intro idx hin
    rw [hshape] at hin
    have hl : idx.length = d.dims.length := by rw [hin.length_eq, h.shape_len]
    have hidx := idx_named h.1 hl
    set ℓ : String → Nat := fun nm => idx.getD (d.dims.idxOf nm) 0 with hℓ
    have hb : ∀ nm ∈ d.dims, ℓ nm < d.ext nm := by
      rw [h.shape_named, hidx] at hin
      exact (InB_map_iff ℓ d.ext).1 hin
    have e1 := g3 ℓ (fun nm hm => by
      have : (d.permuted ds').ext nm = d.ext nm := by
        rw [h1.ext_eq hm, h.ext_eq ((hmem nm).1 hm), h2 nm ((hmem nm).1 hm)]
      rw [this]; exact hb nm ((hmem nm).1 hm))
    have e2 := h3 ℓ hb
    unfold getN at e1 e2
    rw [hdims] at e1
    rw [hidx]
    rw [e1, e2]
  cases d with
  | mk dims coords values attrs dattrs hist unf =>
    simp only [permuted] at hcoords hvals ⊢
    simp only [hcoords, hvals]

end Data
end Dnp

namespace Np
theorem eraseAt_append_length {γ : Type} : ∀ (l : List γ) (x : γ), eraseAt (l ++ [x]) l.length = l
  | [], _ => rfl
  | y :: ys, x => by simp [eraseAt, eraseAt_append_length ys x]
end Np

namespace Dnp
open Np
namespace Data
variable {κ α : Type} [Inhabited α] [Inhabited κ]

theorem dedup_of_nodup : ∀ {l : List String}, l.Nodup → dedup l = l
  | [], _ => rfl
  | x :: xs, h => by
    have hx : x ∉ xs := (List.nodup_cons.1 h).1
    have := dedup_of_nodup (List.nodup_cons.1 h).2
    simp only [dedup, this]
    congr 1
    apply List.filter_eq_self.2
    intro y hy
    simp only [bne_iff_ne, ne_eq]
    rintro rfl; exact hx hy

theorem dedup_filter (p : String → Bool) : ∀ m : List String, (dedup m).filter p = dedup (m.filter p)
  | [] => rfl
  | y :: m => by
    by_cases hy : p y = true
    · simp only [dedup, List.filter_cons, hy, if_true]
      congr 1
      rw [List.filter_comm, dedup_filter p m]
    · have hy' : p y = false := by simpa using hy
      simp only [dedup, List.filter_cons, hy', Bool.false_eq_true, if_false]
      rw [List.filter_filter, ← dedup_filter p m]
      apply List.filter_congr
      intro z _
      by_cases hz : p z = true
      · have : z ≠ y := by rintro rfl; exact hy hz
        simp [hz, this]
      · simp [hz]

theorem dedup_append_sub : ∀ {dims l : List String}, dims.Nodup → (∀ x ∈ l, x ∈ dims) → dedup (dims ++ l) = dims := by
  intro dims
  induction dims with
  | nil =>
    intro l _ hsub
    cases l with
    | nil => rfl
    | cons y ys => exact absurd (hsub y (by simp)) (by simp)
  | cons x xs ih =>
    intro l hnd hsub
    have hx : x ∉ xs := (List.nodup_cons.1 hnd).1
    have hnd' := (List.nodup_cons.1 hnd).2
    simp only [List.cons_append, dedup]
    congr 1
    rw [dedup_filter, List.filter_append]
    have e : xs.filter (· != x) = xs := by
      apply List.filter_eq_self.2
      intro y hy
      simp only [bne_iff_ne, ne_eq]
      rintro rfl; exact hx hy
    rw [e]
    apply ih hnd'
    intro y hy
    have hy' := List.mem_filter.1 hy
    have := hsub y hy'.1
    simp only [bne_iff_ne, ne_eq] at hy'
    rcases List.mem_cons.1 this with h | h
    · exact absurd h hy'.2
    · exact h

theorem idxOf_append_last {l : List String} {x : String} (h : x ∉ l) : (l ++ [x]).idxOf x = l.length := by
  induction l with
  | nil => simp
  | cons y ys ih =>
    have hy : y ≠ x := by rintro rfl; exact h (by simp)
    have hx : x ∉ ys := fun hh => h (by simp [hh])
    simp [List.idxOf_cons_ne _ hy, ih hx]

theorem reorder_ok {d : Data κ α} {ds : List String} (h1 : ds.Nodup) (h2 : ∀ x ∈ ds, x ∈ d.dims) :
    d.reorder ds = .ok (d.permuted (dedup (ds ++ d.dims))) := by
  unfold reorder
  rw [if_neg (not_not.2 h1), if_neg (not_not.2 h2)]
  rfl

/-- folding the unfolded form of `p` gives `p.reorder forder` -/
theorem fold_unfolded (p : Data κ α) (hp : p.Consistent) (hu : p.unf = none) (hfi : "fold_index" ∉ p.dims)
    (a b : Nat) (c : List κ) (forder : List String) :
    fold { p with values := reshapeC p.values [a, b], dims := p.dims ++ ["fold_index"],
                  coords := p.coords ++ [c], unf := some (p.values.shape, forder) } = p.reorder forder := by
  cases p with
  | mk dims coords values attrs dattrs hist unf =>
    simp only at hu hfi
    subst hu
    have hcl : coords.length = dims.length := hp.2.1
    have hsz : size values.shape = values.data.length := hp.2.2.2.symm
    unfold fold
    have hmem : "fold_index" ∈ dims ++ ["fold_index"] := by simp
    simp only [hmem, not_true_eq_false, if_false, index, idxOf_append_last hfi, eraseAt_append_length]
    rw [← hcl, eraseAt_append_length]
    simp only [reshapeC, hsz, ne_eq, not_true_eq_false, if_false]

/-- unfold followed by fold is the identity on consistent folded objects, for every rank and
    every position of the processed dimension -/
theorem unfold_fold_id (arange : Nat → List κ) {d : Data κ α} {dim : String} (h : d.Consistent)
    (hf : d.unf = none) (hdim : dim ∈ d.dims) (hfi : "fold_index" ∉ d.dims) :
    (d.unfold arange dim >>= fold) = .ok d := by
  have hsub : ∀ x ∈ [dim], x ∈ d.dims := by simpa using hdim
  have hp := dedup_append_perm h.1 hsub
  obtain ⟨h1, _, _⟩ := permuted_spec h hp
  have hre : d.reorder [dim] = .ok (d.permuted (dedup ([dim] ++ d.dims))) :=
    reorder_ok (by simp) hsub
  have hfi' : "fold_index" ∉ (d.permuted (dedup ([dim] ++ d.dims))).dims := fun hh => hfi (hp.mem_iff.1 hh)
  have hu : (d.permuted (dedup ([dim] ++ d.dims))).unf = none := hf
  unfold unfold
  simp only [folded, hf, Option.isNone_none, not_true_eq_false, if_false, hfi, hre, bind, Except.bind]
  rw [fold_unfolded _ h1 hu hfi']
  rw [reorder_ok h.1 (fun x hx => hp.mem_iff.2 hx)]
  have hde : dedup (d.dims ++ (d.permuted (dedup ([dim] ++ d.dims))).dims) = d.dims :=
    dedup_append_sub h.1 (fun x hx => hp.mem_iff.1 hx)
  rw [hde, permuted_permuted h hp]

end Data
end Dnp
