import DnpProofs.Lemmas.Consistent
import DnpModel.Arith
set_option linter.unusedSectionVars false
/-! Lemmas for `align` / broadcasting (C04). -/
namespace Np

theorem size_replicate_one : ∀ k : Nat, size (List.replicate k 1) = 1
  | 0 => rfl
  | k + 1 => by simp [List.replicate, size, size_replicate_one k]

theorem size_append : ∀ (s t : List Nat), size (s ++ t) = size s * size t
  | [], t => by simp [size]
  | n :: s, t => by simp [size, size_append s t, Nat.mul_assoc]

/-- trailing unit axes with index 0 do not change the flat offset -/
theorem ravel_append_units : ∀ (idx s : List Nat) (k : Nat), idx.length = s.length →
    ravel (idx ++ List.replicate k 0) (s ++ List.replicate k 1) = ravel idx s
  | [], [], k, _ => by
    induction k with
    | zero => rfl
    | succ k ih =>
      simp only [List.nil_append] at ih ⊢
      simp [List.replicate, ravel, ih]
  | i :: idx, n :: s, k, h => by
    simp only [List.cons_append, ravel, size_append, size_replicate_one, Nat.mul_one]
    rw [ravel_append_units idx s k (by simpa using h)]
  | [], _ :: _, _, h => by simp at h
  | _ :: _, [], _, h => by simp at h

/-- unit axes with index 0 anywhere do not change the flat offset: drop them -/
theorem ravel_drop_units {τ : Type} (gi ge : τ → Nat) (keep : τ → Bool) :
    ∀ (L : List τ), (∀ x ∈ L, keep x = false → gi x = 0 ∧ ge x = 1) →
    ravel (L.map gi) (L.map ge) = ravel ((L.filter keep).map gi) ((L.filter keep).map ge) ∧
    size (L.map ge) = size ((L.filter keep).map ge)
  | [], _ => ⟨rfl, rfl⟩
  | p :: L, h => by
    obtain ⟨ih1, ih2⟩ := ravel_drop_units gi ge keep L (fun q hq => h q (by simp [hq]))
    by_cases hk : keep p = true
    · simp only [List.map_cons, List.filter_cons, hk, if_true, ravel, size]
      rw [ih1, ih2]; exact ⟨rfl, rfl⟩
    · have hk' : keep p = false := by simpa using hk
      obtain ⟨h0, h1⟩ := h p (by simp) hk'
      simp only [List.map_cons, List.filter_cons, hk', Bool.false_eq_true, if_false, ravel, size, h0, h1]
      simp [ih1, ih2]

end Np

namespace Dnp
open Np
namespace Data

theorem dedup_append_left : ∀ {a : List String} (b : List String), a.Nodup →
    dedup (a ++ b) = a ++ dedup (b.filter (fun x => !a.contains x))
  | [], b, _ => by simp
  | x :: a, b, h => by
    have hx : x ∉ a := (List.nodup_cons.1 h).1
    have hnd := (List.nodup_cons.1 h).2
    simp only [List.cons_append, dedup]
    congr 1
    rw [dedup_filter, List.filter_append]
    have e : a.filter (· != x) = a := by
      apply List.filter_eq_self.2
      intro y hy
      simp only [bne_iff_ne, ne_eq]
      rintro rfl; exact hx hy
    rw [e, dedup_append_left _ hnd, List.filter_filter]
    congr 2
    apply List.filter_congr
    intro y _
    by_cases hyx : y = x <;> by_cases hya : y ∈ a <;> simp [hyx, hya]

end Data
end Dnp
