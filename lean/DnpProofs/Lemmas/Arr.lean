import DnpModel.Np.Prim
/-! Helper lemmas about the L0 array layer (core Lean only). -/
namespace Np
open Arr
variable {α β : Type}

theorem InB.length_eq : ∀ {idx s : List Nat}, InB idx s → idx.length = s.length
  | [], [], _ => rfl
  | _ :: _, _ :: _, h => by simp [InB.length_eq h.2]
  | [], _ :: _, h => by cases h
  | _ :: _, [], h => by cases h

theorem InB_iff {idx s : List Nat} :
    InB idx s ↔ idx.length = s.length ∧ ∀ k, k < idx.length → idx.getD k 0 < s.getD k 0 := by
  induction idx generalizing s with
  | nil => cases s <;> simp [InB]
  | cons i idx ih =>
    cases s with
    | nil => simp [InB]
    | cons n s =>
      simp only [InB, ih, List.length_cons, Nat.add_right_cancel_iff]
      constructor
      · rintro ⟨h1, h2, h3⟩
        refine ⟨h2, fun k hk => ?_⟩
        cases k with
        | zero => simpa using h1
        | succ k => simpa using h3 k (by omega)
      · rintro ⟨h2, h3⟩
        refine ⟨by simpa using h3 0 (by omega), h2, fun k hk => ?_⟩
        simpa using h3 (k + 1) (by omega)

theorem ravel_lt : ∀ {idx s : List Nat}, InB idx s → ravel idx s < size s
  | [], [], _ => by simp [ravel, size]
  | i :: idx, n :: s, h => by
    have h2 := ravel_lt h.2
    have h1 : i < n := h.1
    simp only [ravel, size]
    calc i * size s + ravel idx s < i * size s + size s := by omega
      _ = (i + 1) * size s := by rw [Nat.add_mul, Nat.one_mul]
      _ ≤ n * size s := Nat.mul_le_mul_right _ h1
  | [], _ :: _, h => by cases h
  | _ :: _, [], h => by cases h

theorem unravel_ravel : ∀ {idx s : List Nat}, InB idx s → unravel (ravel idx s) s = idx
  | [], [], _ => rfl
  | i :: idx, n :: s, h => by
    have h2 := ravel_lt h.2
    have hpos : 0 < size s := by omega
    simp only [ravel, unravel]
    have e1 : (i * size s + ravel idx s) / size s = i := by
      rw [Nat.mul_comm, Nat.mul_add_div hpos, Nat.div_eq_of_lt h2, Nat.add_zero]
    have e2 : (i * size s + ravel idx s) % size s = ravel idx s := by
      rw [Nat.mul_comm, Nat.mul_add_mod, Nat.mod_eq_of_lt h2]
    rw [e1, e2, unravel_ravel h.2]
  | [], _ :: _, h => by cases h
  | _ :: _, [], h => by cases h

theorem unravel_InB : ∀ {k : Nat} {s : List Nat}, k < size s → InB (unravel k s) s
  | _, [], _ => trivial
  | k, n :: s, h => by
    simp only [size] at h
    have hpos : 0 < size s := by
      rcases Nat.eq_zero_or_pos (size s) with h0 | h0
      · rw [h0] at h; omega
      · exact h0
    refine ⟨?_, unravel_InB (Nat.mod_lt _ hpos)⟩
    exact (Nat.div_lt_iff_lt_mul hpos).2 h

theorem ravel_unravel : ∀ {k : Nat} {s : List Nat}, k < size s → ravel (unravel k s) s = k
  | k, [], h => by simp [size] at h; simp [unravel, ravel, h]
  | k, n :: s, h => by
    simp only [size] at h
    have hpos : 0 < size s := by
      rcases Nat.eq_zero_or_pos (size s) with h0 | h0
      · rw [h0] at h; omega
      · exact h0
    simp only [unravel, ravel]
    rw [ravel_unravel (Nat.mod_lt _ hpos)]
    exact Nat.div_add_mod' k (size s)

@[simp] theorem Arr.ofFn_shape (s : List Nat) (f : List Nat → α) : (ofFn s f).shape = s := rfl

theorem Arr.ofFn_WF (s : List Nat) (f : List Nat → α) : (ofFn s f).WF := by
  simp [Arr.WF, ofFn]

/-- the key lemma: reading an `ofFn` array at an in-bounds index gives the function value -/
theorem Arr.get_ofFn [Inhabited α] {s idx : List Nat} (f : List Nat → α) (h : InB idx s) :
    (ofFn s f).get idx = f idx := by
  have hl := ravel_lt h
  simp [Arr.get, ofFn, List.getD, hl, unravel_ravel h]

/-- two well-formed arrays of one shape agreeing at every in-bounds index are equal -/
theorem Arr.ext_get [Inhabited α] {a b : Arr α} (hs : a.shape = b.shape) (ha : a.WF) (hb : b.WF)
    (h : ∀ idx, InB idx a.shape → a.get idx = b.get idx) : a = b := by
  cases a with | mk sa da => cases b with | mk sb db =>
  simp only at hs; subst hs
  simp only [Arr.WF] at ha hb
  congr 1
  apply List.ext_getElem (by omega)
  intro k h1 h2
  have hk : k < size sa := by omega
  have := h (unravel k sa) (unravel_InB hk)
  simpa [Arr.get, ravel_unravel hk, List.getD, h1, h2] using this

theorem Arr.ofFn_get [Inhabited α] {a : Arr α} (ha : a.WF) : ofFn a.shape a.get = a :=
  Arr.ext_get rfl (Arr.ofFn_WF _ _) ha (fun _ h => Arr.get_ofFn _ h)

end Np
