import DnpProofs.Lemmas.Along
import DnpProofs.Lemmas.Consistent2
set_option linter.unusedSectionVars false
/-! By-name ("which value belongs to which labels") specifications of rename, sort, new_dim, concat,
    concatenate. -/
namespace Np
variable {α : Type}

theorem ravel_append_zero : ∀ (idx s : List Nat), idx.length = s.length → ravel (idx ++ [0]) (s ++ [1]) = ravel idx s
  | [], [], _ => by simp [ravel, size]
  | i :: idx, n :: s, h => by
    have ih := ravel_append_zero idx s (by simpa using h)
    have hs : ∀ t : List Nat, size (t ++ [1]) = size t := by
      intro t; induction t with
      | nil => simp [size]
      | cons a t iht => simp [size, iht]
    simp [ravel, ih, hs]
  | [], _ :: _, h => by simp at h
  | _ :: _, [], h => by simp at h

theorem insertAt_length_eq : ∀ (l : List Nat) (x : Nat), insertAt l l.length x = l ++ [x]
  | [], _ => rfl
  | y :: ys, x => by simp [insertAt, insertAt_length_eq ys x]

end Np

namespace Dnp
open Np
namespace Data
variable {κ α : Type} [Inhabited α] [Inhabited κ]

/-- rename: nothing moves; the value that sat at (…, dim ↦ i, …) sits at (…, new ↦ i, …) -/
theorem rename_byname {d d' : Data κ α} {dim new : String} (h : d.Consistent) (hr : d.rename dim new = .ok d') :
    d'.values = d.values ∧ d'.coords = d.coords ∧ d'.dims = setAt d.dims (d.index dim) new ∧
    ∀ ℓ : String → Nat, d'.getN (fun x => if x = new then ℓ dim else ℓ x) = d.getN ℓ := by
  unfold rename at hr
  split at hr
  · cases hr
  · rename_i hdm
    have hdm : dim ∈ d.dims := by simpa using hdm
    split at hr
    · cases hr
    · rename_i hnew
      simp only [Except.ok.injEq] at hr
      subst hr
      refine ⟨rfl, rfl, rfl, ?_⟩
      intro ℓ
      simp only [getN]
      congr 1
      have hidx : d.dims.idxOf dim < d.dims.length := List.idxOf_lt_length_iff.2 hdm
      apply List.ext_getElem (by simp)
      intro k h1 h2
      have hk : k < d.dims.length := by simpa using h2
      simp only [List.getElem_map]
      by_cases hkd : k = d.dims.idxOf dim
      · subst hkd
        have e1 : (setAt d.dims (d.index dim) new)[d.dims.idxOf dim]'(by simpa using hk) = new := by
          have := setAt_getD_self d.dims (d.dims.idxOf dim) new "" hidx
          simpa [List.getD, index, hk] using this
        rw [e1, List.getElem_idxOf hidx]; simp
      · have e2 : (setAt d.dims (d.index dim) new)[k]'(by simpa using hk) = d.dims[k] := by
          have := setAt_getD_ne d.dims (d.dims.idxOf dim) k new "" hkd
          simpa [List.getD, index, hk] using this
        rw [e2]
        have hne : d.dims[k] ≠ new := by
          intro e
          have hmem : new ∈ d.dims := e ▸ List.getElem_mem hk
          have hnd : new = dim := by
            by_contra hc; exact hnew ⟨hc, hmem⟩
          apply hkd
          rw [← h.1.idxOf_getElem k hk, e, hnd]
        simp [hne]

/-- sort by coordinate: position i of the result holds coordinate AND values of position o[i] of the source,
    where o is a permutation of the positions — each value keeps its coordinate label -/
theorem sort_byname (le : κ → κ → Bool) {d d' : Data κ α} {dim : String} (h : d.Consistent)
    (hr : d.sort le dim = .ok d') :
    let o := argsort le (d.coord dim)
    o.Perm (List.range (d.coord dim).length) ∧ d'.dims = d.dims ∧
    d'.coord dim = o.map (fun k => (d.coord dim).getD k default) ∧
    (∀ nm, nm ≠ dim → d'.coord nm = d.coord nm) ∧
    ∀ ℓ : String → Nat, (∀ nm ∈ d.dims, ℓ nm < d.ext nm) →
      d'.getN ℓ = d.getN (fun x => if x = dim then o.getD (ℓ dim) 0 else ℓ x) := by
  intro o
  unfold sort at hr
  split at hr
  · cases hr
  · rename_i hdm
    have hdm : dim ∈ d.dims := by simpa using hdm
    simp only [Except.ok.injEq] at hr
    subst hr
    have hk : d.index dim < d.coords.length := by rw [h.2.1]; exact index_lt hdm
    have hol : o.length = d.ext dim := by rw [argsort_length, coord_length h]
    refine ⟨argsort_perm _ _, rfl, ?_, ?_, ?_⟩
    · exact setAt_getD_self d.coords (d.dims.idxOf dim) _ [] hk
    · intro nm hnm
      by_cases hmem : nm ∈ d.dims
      · have hne : d.dims.idxOf nm ≠ d.dims.idxOf dim := by
          intro e; apply hnm
          have := congrArg (fun k => d.dims.getD k "") e
          simpa [List.getD, List.idxOf_lt_length_iff.2 hmem, List.idxOf_lt_length_iff.2 hdm] using this
        exact setAt_getD_ne d.coords (d.dims.idxOf dim) (d.dims.idxOf nm) _ [] hne
      · have hlen : d.dims.idxOf nm = d.dims.length := List.idxOf_eq_length_iff.2 hmem
        have hne : d.dims.idxOf nm ≠ d.dims.idxOf dim := by
          have := List.idxOf_lt_length_iff.2 hdm; omega
        exact setAt_getD_ne d.coords (d.dims.idxOf dim) (d.dims.idxOf nm) _ [] hne
    · intro ℓ hℓ
      simp only [getN, takeAxis]
      have hshape : setAt d.values.shape (d.index dim) o.length = d.dims.map d.ext := by
        rw [hol, h.shape_named]
        have := setAt_map_named h.1 hdm d.ext (d.ext dim)
        rw [show d.index dim = d.dims.idxOf dim from rfl, this]
        apply List.map_congr_left
        intro x _; by_cases hx : x = dim <;> simp [hx]
      rw [hshape, Arr.get_ofFn _ ((InB_map_iff _ _).2 hℓ)]
      rw [show (d.dims.map ℓ).getD (d.index dim) 0 = ℓ dim from getD_map_named hdm ℓ]
      rw [show d.index dim = d.dims.idxOf dim from rfl, setAt_map_named h.1 hdm ℓ]

/-- new_dim: the new name takes position 0 of a length-one axis, every value stays at its labels -/
theorem newDim_byname {d d' : Data κ α} {dim : String} {c : κ} (h : d.Consistent) (hr : d.newDim dim c = .ok d') :
    d'.dims = d.dims ++ [dim] ∧ d'.coords = d.coords ++ [[c]] ∧
    ∀ ℓ : String → Nat, ℓ dim = 0 → d'.getN ℓ = d.getN ℓ := by
  unfold newDim at hr
  split at hr
  · cases hr
  · simp only [Except.ok.injEq] at hr
    subst hr
    refine ⟨rfl, rfl, ?_⟩
    intro ℓ h0
    simp only [getN, expandDims, Arr.get, List.map_append, List.map_cons, List.map_nil, h0, insertAt_length_eq]
    rw [ravel_append_zero _ _ (by rw [List.length_map, h.shape_len])]

/-- concat (stack along a new last dimension): position k of the new dimension holds object k, label for label -/
theorem concat_byname (arange : Nat → List κ) {ds : List (Data κ α)} {dim : String} {coord : Option (List κ)}
    {r : Data κ α} (d0 : Data κ α) (rest : List (Data κ α)) (hds : ds = d0 :: rest)
    (hall : ∀ d ∈ ds, d.Consistent) (hr : Data.concat arange ds dim coord = .ok r) :
    r.dims = d0.dims ++ [dim] ∧
    ∀ (ℓ : String → Nat) (k : Nat) (hk : k < ds.length), ℓ dim = k → (∀ nm ∈ d0.dims, ℓ nm < d0.ext nm) →
      r.getN ℓ = (ds[k]).values.get (d0.dims.map ℓ) := by
  subst hds
  unfold Data.concat at hr
  simp only at hr
  split at hr
  · cases hr
  · split at hr
    · cases hr
    · simp only [Except.ok.injEq] at hr
      subst hr
      refine ⟨rfl, ?_⟩
      intro ℓ k hk hℓk hℓ
      have h0 := hall d0 (by simp)
      have hin : InB (d0.dims.map ℓ ++ [ℓ dim]) (d0.values.shape ++ [((d0 :: rest).map (·.values)).length]) := by
        rw [h0.shape_named]
        have h1 : InB (d0.dims.map ℓ) (d0.dims.map d0.ext) := (InB_map_iff _ _).2 hℓ
        have : ∀ (a s : List Nat) (x n : Nat), InB a s → x < n → InB (a ++ [x]) (s ++ [n]) := by
          intro a
          induction a with
          | nil => intro s x n ha hx; cases s with
            | nil => exact ⟨hx, trivial⟩
            | cons _ _ => exact absurd ha (by simp [InB])
          | cons i a iha => intro s x n ha hx; cases s with
            | nil => exact absurd ha (by simp [InB])
            | cons m s => exact ⟨ha.1, iha s x n ha.2 hx⟩
        exact this _ _ _ _ h1 (by rw [hℓk]; simpa using hk)
      have hk' : k < ((d0 :: rest).map (·.values)).length := by simpa using hk
      show (stackLast d0.values.shape ((d0 :: rest).map (·.values))).get ((d0.dims ++ [dim]).map ℓ) = _
      unfold stackLast
      rw [show (d0.dims ++ [dim]).map ℓ = d0.dims.map ℓ ++ [ℓ dim] by simp]
      rw [Arr.get_ofFn _ hin]
      simp only [List.getLast?_append, List.getLast?_singleton, Option.some_or, Option.getD_some, hℓk,
        List.dropLast_concat]
      rw [List.getElem?_eq_getElem hk']
      simp only [List.getElem_map]

theorem mem_eraseAt_idxOf_of_ne {l : List String} {x y : String} (hx : x ∈ l) (hne : x ≠ y) :
    x ∈ eraseAt l (l.idxOf y) := by
  induction l with
  | nil => cases hx
  | cons a t ih =>
    by_cases hay : a = y
    · subst hay
      rcases List.mem_cons.1 hx with rfl | hx'
      · exact absurd rfl hne
      · simpa [List.idxOf_cons_self, eraseAt] using hx'
    · have : (a :: t).idxOf y = t.idxOf y + 1 := by
        simp [List.idxOf_cons, hay]
      rw [this]
      simp only [eraseAt, List.mem_cons]
      rcases List.mem_cons.1 hx with rfl | hx'
      · exact Or.inl rfl
      · exact Or.inr (ih hx')

/-- concatenate: the receiver's block keeps its labels, the other operand's block is appended along `dim`
    with its own coordinates, matched BY NAME whatever the operand's axis order was -/
theorem concatenate_byname {d b r : Data κ α} {dim : String} (h : d.Consistent) (hb : b.Consistent)
    (hr : d.concatenate b dim = .ok r) :
    r.dims = d.dims ∧ r.coord dim = d.coord dim ++ b.coord dim ∧ (∀ nm, nm ≠ dim → r.coord nm = d.coord nm) ∧
    ∀ ℓ : String → Nat, (∀ nm ∈ d.dims, nm ≠ dim → ℓ nm < d.ext nm) → ℓ dim < d.ext dim + b.ext dim →
      r.getN ℓ = if ℓ dim < d.ext dim then d.getN ℓ
                 else b.getN (fun x => if x = dim then ℓ dim - d.ext dim else ℓ x) := by
  unfold concatenate at hr
  split at hr
  · cases hr
  · rename_i hdb
    have hdb : dim ∈ b.dims := by simpa using hdb
    split at hr
    · cases hr
    · rename_i hdm
      have hdm : dim ∈ d.dims := by simpa using hdm
      simp only [bind, Except.bind] at hr
      cases hq : b.reorder d.dims with
      | error e => rw [hq] at hr; cases hr
      | ok b' =>
        rw [hq] at hr
        simp only at hr
        split at hr
        · cases hr
        · rename_i hoff
          have hoff : eraseAt b'.values.shape (d.index dim) = eraseAt d.values.shape (d.index dim) := by
            simpa using hoff
          simp only [Except.ok.injEq] at hr
          subst hr
          obtain ⟨hbd, _, hsub⟩ := reorder_eq_permuted hq
          have hperm : (dedup (d.dims ++ b.dims)).Perm b.dims := dedup_append_perm hb.1 hsub
          obtain ⟨hb'c, hb'coord, hb'get⟩ := permuted_spec hb hperm
          rw [← hbd] at hb'c hb'coord hb'get
          obtain ⟨rr, hpre⟩ := dedup_append_prefix b.dims h.1
          have hbdims0 : b'.dims = d.dims ++ rr := by rw [hbd]; exact hpre
          have hax : d.index dim < d.dims.length := index_lt hdm
          -- same rank ⇒ same dims
          have hlen : b'.values.shape.length = d.values.shape.length := by
            have h1 := congrArg List.length hoff
            rw [eraseAt_length _ _ (by rw [hb'c.shape_len, hbdims0]; simp; omega),
                eraseAt_length _ _ (by rw [h.shape_len]; exact hax)] at h1
            have : 0 < b'.values.shape.length := by rw [hb'c.shape_len, hbdims0]; simp; omega
            have : 0 < d.values.shape.length := by rw [h.shape_len]; omega
            omega
          have hbdims : b'.dims = d.dims := by
            have : rr = [] := by
              apply List.length_eq_zero_iff.1
              have := hlen
              rw [hb'c.shape_len, h.shape_len, hbdims0, List.length_append] at this
              omega
            rw [hbdims0, this, List.append_nil]
          have hidx : b'.index dim = d.index dim := by unfold index; rw [hbdims]
          have hpermdb : b.dims.Perm d.dims := by rw [← hbdims, hbd]; exact hperm.symm
          -- extents off the axis agree
          have hext : ∀ nm ∈ d.dims, nm ≠ dim → b'.ext nm = d.ext nm := by
            intro nm hnm hne
            rw [hb'c.shape_named, h.shape_named, hbdims, ← eraseAt_map, ← eraseAt_map] at hoff
            have hmem : nm ∈ eraseAt d.dims (d.index dim) := mem_eraseAt_idxOf_of_ne hnm hne
            exact List.map_inj_left.1 hoff nm hmem
          have hextb : ∀ nm ∈ b.dims, b'.ext nm = b.ext nm := by
            intro nm hnm
            have hnm' : nm ∈ b'.dims := by rw [hbdims]; exact hpermdb.mem_iff.1 hnm
            rw [hb'c.ext_eq hnm', hb.ext_eq hnm, hb'coord nm hnm]
          have hk : d.index dim < d.coords.length := by rw [h.2.1]; exact hax
          refine ⟨rfl, ?_, ?_, ?_⟩
          · show (setAt d.coords (d.index dim) _).getD (d.index dim) [] = _
            rw [setAt_getD_self _ _ _ _ hk, hb'coord dim hdb]
          · intro nm hnm
            show (setAt d.coords (d.index dim) _).getD (d.index nm) [] = _
            have hne : d.index nm ≠ d.index dim := by
              unfold index
              by_cases hmem : nm ∈ d.dims
              · intro e; apply hnm
                have := congrArg (fun k => d.dims.getD k "") e
                simpa [List.getD, List.idxOf_lt_length_iff.2 hmem, List.idxOf_lt_length_iff.2 hdm] using this
              · have := List.idxOf_eq_length_iff.2 hmem
                have := List.idxOf_lt_length_iff.2 hdm
                omega
            exact setAt_getD_ne _ _ _ _ _ hne
          · intro ℓ hℓ hℓd
            have hnb : b'.values.shape.getD (d.index dim) 0 = b.ext dim := by
              rw [← hidx]; exact hextb dim hdb
            simp only [getN, concatAxis]
            rw [hnb]
            have hshape : setAt d.values.shape (d.index dim) (d.values.shape.getD (d.index dim) 0 + b.ext dim)
                = d.dims.map (fun x => if x = dim then d.ext dim + b.ext dim else d.ext x) := by
              rw [h.shape_named]
              have e1 : (d.dims.map d.ext).getD (d.index dim) 0 = d.ext dim := getD_map_named hdm d.ext
              rw [e1]
              exact setAt_map_named h.1 hdm d.ext _
            rw [hshape, Arr.get_ofFn]
            · rw [show (d.dims.map ℓ).getD (d.index dim) 0 = ℓ dim from getD_map_named hdm ℓ]
              show (if ℓ dim < d.ext dim then _ else _) = _
              split
              · rfl
              · rename_i hge
                rw [show d.index dim = d.dims.idxOf dim from rfl, setAt_map_named h.1 hdm ℓ]
                show b'.values.get (d.dims.map (fun x => if x = dim then ℓ dim - d.ext dim else ℓ x))
                    = b.getN (fun x => if x = dim then ℓ dim - d.ext dim else ℓ x)
                have : b'.values.get (d.dims.map (fun x => if x = dim then ℓ dim - d.ext dim else ℓ x))
                    = b'.getN (fun x => if x = dim then ℓ dim - d.ext dim else ℓ x) := by
                  unfold getN; rw [hbdims]
                rw [this]
                apply hb'get
                intro nm hnm
                have hnmd : nm ∈ d.dims := hpermdb.mem_iff.1 hnm
                by_cases hnd : nm = dim
                · subst hnd; simp only [if_true]; omega
                · simp only [hnd, if_false]
                  rw [← hextb nm hnm, hext nm hnmd hnd]
                  exact hℓ nm hnmd hnd
            · rw [InB_map_iff]
              intro x hx
              by_cases hxd : x = dim
              · subst hxd; simpa using hℓd
              · simpa [hxd] using hℓ x hx hxd

end Data
end Dnp
