import DnpProofs.Lemmas.Store
set_option linter.unusedSectionVars false
/-!
# C03 — calls never modify their arguments; objects never share state

The model's store holds immutable values, so these theorems are the *specification* the real
code is compared against after every operation (whole-store snapshots in the correspondence
run): a call changes at most the entry named by `Op.target`, and nothing at all when it raises.
-/
namespace Dnp.C03
open Np Dnp
variable {κ α : Type} [Inhabited α] [Inhabited κ]

/-- frame: every object other than the receiver / the stored result is exactly what it was -/
theorem frame (sc : Scalars κ α) (s : Store κ α) (op : Op κ α) {i : Nat} (h : i ≠ op.target) :
    (step sc s op).store.get? i = s.get? i := by
  cases op <;> simp only [Op.target] at h <;> simp only [step]
  all_goals first
    | exact Store.get?_set_ne s _ h
    | exact Store.get?_del_ne s h
    | (apply withObj_frame; intro d; first
        | exact Store.get?_set_ne s _ h
        | exact putResult_frame h _
        | (apply withObj_frame; intro b; exact putResult_frame h _)
        | (split <;> first | rfl | exact Store.get?_set_ne s _ h))
    | (split <;> first | rfl | exact putResult_frame h _)

/-- a call that raises changes nothing, wherever it raises -/
theorem raise_frame (sc : Scalars κ α) (s : Store κ α) (op : Op κ α) :
    (step sc s op).err.isSome → (step sc s op).store = s := by
  cases op <;> simp only [step]
  all_goals first
    | (intro h; simp at h; done)
    | (apply withObj_raise; intro d; first
        | (intro h; simp at h; done)
        | exact putResult_raise _
        | (apply withObj_raise; intro b; exact putResult_raise _)
        | (split <;> intro h <;> first | rfl | (simp at h; done)))
    | (split <;> first | exact putResult_raise _ | (intro _; rfl))

/-- lifted to histories: an object that no operation of the history targets is never changed -/
theorem run_frame (sc : Scalars κ α) (ops : List (Op κ α)) (s : Store κ α) {i : Nat}
    (h : ∀ op ∈ ops, i ≠ op.target) : (run sc s ops).get? i = s.get? i := by
  induction ops generalizing s with
  | nil => rfl
  | cons op ops ih =>
    simp only [run, List.foldl_cons]
    have := ih (step sc s op).store (fun o ho => h o (by simp [ho]))
    simp only [run] at this
    rw [this, frame sc s op (h op (by simp))]

/-- independently constructed objects share nothing: writing an attribute through one object
    (or any other in-place operation on it) is invisible through another -/
theorem fresh_independent (sc : Scalars κ α) (s : Store κ α) (i j : Nat) (hij : i ≠ j)
    (di dj : Data κ α) (op : Op κ α) (hop : op.target = j) :
    (step sc (step sc (step sc s (.new i di)).store (.new j dj)).store op).store.get? i = some di := by
  rw [frame sc _ op (by rw [hop]; exact hij), frame sc _ (.new j dj) (by simpa [Op.target] using hij)]
  simp only [step]
  exact Store.get?_set_self s i di

end Dnp.C03
