import DnpModel.Analysis.Hydration
import Mathlib.Algebra.Order.Field.Basic
import Mathlib.Tactic.FieldSimp
import Mathlib.Tactic.Ring
import Mathlib.Tactic.Linarith
import Mathlib.Data.Real.Basic
set_option linter.unusedSectionVars false
/-!
# C20 — hydration analysis inverts its own forward model

Proved (ℝ, field identities): every closed-form step of `hydration` inverts the published ODNP
model exactly.  NOT provable here and left to the sweep on the implementation: that the coupling
factor is strictly decreasing in the correlation time on [1, 1e5] ps (a transcendental
monotonicity statement), that brentq therefore returns the unique root, and that
Levenberg–Marquardt reaches the zero-residual point.
-/
namespace Dnp.C20
open Dnp.Hydration

/-- the kσ·s(p) array computed from model-generated enhancements is exactly kσ·smax·p/(p½+p) -/
theorem ksigma_array_exact (ks p12 C w p t1 : ℝ) (hC : C ≠ 0) (hw : w ≠ 0) (ht : t1 ≠ 0) :
    (1 - enhancement ks p12 C w p t1) / (C * w * t1) = ksigmaFit ks p12 p := by
  unfold enhancement
  field_simp
  ring

theorem ksigmaArray_exact (ks p12 C w : ℝ) (hC : C ≠ 0) (hw : w ≠ 0) (ps ts : List ℝ) (hl : ps.length = ts.length)
    (ht : ∀ t ∈ ts, t ≠ 0) :
    ksigmaArray (List.zipWith (enhancement ks p12 C w) ps ts) ts C w = ps.map (ksigmaFit ks p12) := by
  unfold ksigmaArray
  induction ps generalizing ts with
  | nil => simp
  | cons p ps ih =>
    cases ts with
    | nil => simp at hl
    | cons t ts =>
      simp only [List.zipWith_cons_cons, List.map_cons]
      rw [ksigma_array_exact ks p12 C w p t hC hw (ht t (by simp)),
        ih ts (by simpa using hl) (fun x hx => ht x (by simp [hx]))]

/-- kρ inverts the definition of T1,0 -/
theorem krho_inverts (kr C T100 : ℝ) (hC : C ≠ 0) (hT : T100 ≠ 0) (_hden : kr * C + 1 / T100 ≠ 0) :
    krho (1 / (kr * C + 1 / T100)) T100 C = kr := by
  unfold krho
  field_simp
  ring

/-- coupling factor, k_low and their definitions invert each other -/
theorem coupling_inverts (xi kr : ℝ) (hk : kr ≠ 0) : couplingFactor (xi * kr) kr = xi := by
  unfold couplingFactor; field_simp

theorem klow_def (ks kr : ℝ) : 3 * klow ks kr + 7 * ks = 5 * kr := by
  unfold klow; ring

/-- local diffusivity: D_local · τ_corr = τ_bulk · (D_H2O + D_SL) -/
theorem dlocal_def (tb t dh ds : ℝ) (ht : t ≠ 0) : dlocal tb t dh ds * t = tb * (dh + ds) := by
  unfold dlocal; field_simp

/-- the linearised T1 of Eq. 39 and its inverse are mutually inverse: data generated from a T1 that
    is linear in power in this sense is reproduced exactly by the linear interpolation (given that
    the least-squares line through collinear points is that line — numpy.polyfit, assumed) -/
theorem linearT1_inverts (T10 T100 l : ℝ) (h10 : T10 ≠ 0) (h100 : T100 ≠ 0) (hl : l ≠ 0)
    (hden : 1 + l / T10 - l / T100 ≠ 0) : linearT1 T10 T100 (fromLinearT1 T10 T100 l) = l := by
  unfold linearT1 fromLinearT1
  have h1 : 1 / (l / (1 + l / T10 - l / T100)) - 1 / T10 + 1 / T100 = 1 / l := by
    rw [one_div_div]
    field_simp
    ring
  rw [h1, one_div_one_div]

theorem fromLinearT1_inverts (T10 T100 t1 : ℝ) (h10 : T10 ≠ 0) (h100 : T100 ≠ 0) (ht : t1 ≠ 0)
    (hden : 1 / t1 - 1 / T10 + 1 / T100 ≠ 0) :
    fromLinearT1 T10 T100 (linearT1 T10 T100 t1) = t1 := by
  unfold linearT1 fromLinearT1
  set e := 1 / t1 - 1 / T10 + 1 / T100 with he
  have h1 : 1 + 1 / e / T10 - 1 / e / T100 = (1 / t1) / e := by
    have : e + 1 / T10 - 1 / T100 = 1 / t1 := by rw [he]; ring
    field_simp
    field_simp at this
    linarith
  rw [h1]
  field_simp

/-- second-order interpolation: the back-transformation undoes the forward one exactly, whatever the
    macromolecule concentration is (it need not equal the spin concentration) -/
theorem secondOrder_inverts (t1 t1w dT1w p kHH macroC spinC : ℝ) (ht : t1 ≠ 0) (hs : spinC ≠ 0) :
    fromSecondOrderKrp (secondOrderKrp t1 t1w dT1w p kHH macroC spinC) t1w dT1w p kHH macroC spinC = t1 := by
  unfold fromSecondOrderKrp secondOrderKrp
  have h : spinC * ((1 / t1 - 1 / (t1w + dT1w * p) - kHH * macroC) / spinC) + 1 / (t1w + dT1w * p) + kHH * macroC = 1 / t1 := by
    field_simp
    ring
  rw [h]
  field_simp

/-- legacy units: a quantity given in the legacy unit (value above the threshold) is rescaled to the SI
    value, an SI value below the threshold is left alone — so both conventions give the same input to the
    analysis WHENEVER the threshold separates them -/
theorem legacy_equals_si (thr fac si : ℝ) (hfac : 0 < fac) (hsi : si ≤ thr) (hleg : thr < si / fac) :
    normUnit (fun a b => decide (a < b)) thr fac (si / fac) = normUnit (fun a b => decide (a < b)) thr fac si := by
  unfold normUnit
  have h1 : ¬ thr < si := not_lt.2 hsi
  simp only [hleg, decide_true, if_true, h1, decide_false, Bool.false_eq_true, if_false]
  field_simp

/-- the thresholds `hydration` uses NOW (regenerated from its source on every run) separate every SI range
    of the property's quantifier from the same range written in the legacy unit -/
theorem rules_separate : separates Dnp.Generated.legacyRules = true := by decide +kernel

/-- hence, for every quantity and every value in its SI range, the value and its legacy-unit spelling are
    normalised to the same number, namely the SI value (stated for any rule table that separates) -/
theorem normalise_legacy_eq_si (rules : List (String × ℚ × ℚ)) (hsep : separates rules = true)
    (k : String) (lo hi : ℚ) (hmem : (k, lo, hi) ∈ siRanges) (x : ℚ) (hlo : lo ≤ x) (hhi : x ≤ hi) :
    ∃ thr fac, ruleFor rules k = some (thr, fac) ∧ 0 < fac ∧
      normalise rules k x = x ∧ normalise rules k (x / fac) = x := by
  have h1 : separatesOne rules (k, lo, hi) = true := by
    unfold separates at hsep
    exact (List.all_eq_true.1 hsep) _ hmem
  unfold separatesOne at h1
  simp only at h1
  cases hr : ruleFor rules k with
  | none => rw [hr] at h1; simp at h1
  | some tf =>
    obtain ⟨thr, fac⟩ := tf
    rw [hr] at h1
    simp only [Bool.and_eq_true, decide_eq_true_eq] at h1
    obtain ⟨⟨hf, hthr⟩, hsepr⟩ := h1
    refine ⟨thr, fac, rfl, hf, ?_, ?_⟩
    · unfold normalise normUnit ratLt
      rw [hr]
      have : ¬ thr < x := not_lt.2 (le_trans hhi hthr)
      simp [this]
    · unfold normalise normUnit ratLt
      rw [hr]
      have : thr < x / fac := by
        rw [lt_div_iff₀ hf]
        exact lt_of_lt_of_le hsepr hlo
      simp only [this, decide_true, if_true]
      field_simp

/-- the current table in particular -/
theorem legacy_units_agree (k : String) (lo hi : ℚ) (hmem : (k, lo, hi) ∈ siRanges) (x : ℚ) (hlo : lo ≤ x) (hhi : x ≤ hi) :
    ∃ thr fac, ruleFor Dnp.Generated.legacyRules k = some (thr, fac) ∧ 0 < fac ∧
      normalise Dnp.Generated.legacyRules k x = x ∧ normalise Dnp.Generated.legacyRules k (x / fac) = x :=
  normalise_legacy_eq_si _ rules_separate k lo hi hmem x hlo hhi

/-- witness of the repaired defect: with the former field threshold of 3 the table does not separate tesla
    from millitesla, and 9.4 T is taken for 9.4 mT -/
theorem old_field_threshold_fails :
    separates [("tcorr_bulk", (1 : ℚ) / 10, (1 : ℚ) / 1000000000000), ("macro_C", (1 : ℚ) / 10, (1 : ℚ) / 1000000),
               ("spin_C", (1 : ℚ) / 10, (1 : ℚ) / 1000000), ("magnetic_field", 3, (1 : ℚ) / 1000)] = false ∧
    normalise [("magnetic_field", 3, (1 : ℚ) / 1000)] "magnetic_field" ((94 : ℚ) / 10) = (94 : ℚ) / 10000 := by
  constructor <;> decide +kernel

example : ("magnetic_field", (3 : ℚ) / 10, (15 : ℚ)) ∈ siRanges := by simp [siRanges]

end Dnp.C20
