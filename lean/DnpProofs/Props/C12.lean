import DnpProofs.Lemmas.Along
import DnpProofs.Lemmas.ByName
import DnpModel.Proc.Funcs
import Mathlib.Algebra.Field.Basic
import Mathlib.Tactic.Ring
import Mathlib.Tactic.FieldSimp
set_option linter.unusedSectionVars false
/-!
# C12 — integrals are trapezoidal and linear; enhancements are gain-invariant

Arithmetic laws are proved in an arbitrary field `K` (so for real and complex data alike);
placement of the integrated / region axis comes from the C08 mechanisms.
-/
namespace Dnp.C12
open Np Dnp Dnp.Data
variable {K : Type} [Field K]

/-- the model's arithmetic record instantiated at a field (order-related entries are unused here) -/
def fieldArith (K : Type) [Field K] : Arith K K where
  add := (· + ·)
  sub := (· - ·)
  mul := (· * ·)
  div := (· / ·)
  zero := 0
  two := 2
  ofκ := id
  ofNat := fun n => (n : K)
  ksub := (· - ·)
  kadd := (· + ·)
  kmul := (· * ·)
  kdiv := (· / ·)
  kofNat := fun n => (n : K)
  klt := fun _ _ => false
  abs := id
  ltα := fun _ _ => false

/-- the trapezoid rule, written out -/
theorem trapz_cons (x0 x1 : K) (xs : List K) (y0 y1 : K) (ys : List K) :
    trapz (fieldArith K) (x0 :: x1 :: xs) (y0 :: y1 :: ys)
      = (x1 - x0) * (y0 + y1) / 2 + trapz (fieldArith K) (x1 :: xs) (y1 :: ys) := rfl

theorem trapz_short (x : List K) (y : List K) (h : x.length < 2 ∨ y.length < 2) :
    trapz (fieldArith K) x y = 0 := by
  rcases x with _ | ⟨x0, _ | ⟨x1, xs⟩⟩
  · rfl
  · rcases y with _ | ⟨y0, _ | ⟨y1, ys⟩⟩ <;> rfl
  · rcases y with _ | ⟨y0, _ | ⟨y1, ys⟩⟩
    · rfl
    · rfl
    · exfalso; simp at h; omega

/-- integrals scale with the unit of the axis: ∫ y d(s·x) = s · ∫ y dx (any factor, any axis) -/
theorem trapz_scale (s : K) : ∀ (x y : List K),
    trapz (fieldArith K) (x.map (s * ·)) y = s * trapz (fieldArith K) x y
  | [], y => by simp [trapz_short]
  | [x0], y => by simp [trapz_short]
  | x0 :: x1 :: xs, [] => by simp [trapz_short]
  | x0 :: x1 :: xs, [y0] => by simp [trapz_short]
  | x0 :: x1 :: xs, y0 :: y1 :: ys => by
    simp only [List.map_cons, trapz_cons]
    have ih := trapz_scale s (x1 :: xs) (y1 :: ys)
    simp only [List.map_cons] at ih
    rw [ih]; ring

/-- integrate is linear in the data (any coordinate axis, uniform or not) -/
theorem trapz_linear (a b : K) : ∀ (x y z : List K), y.length = z.length →
    trapz (fieldArith K) x (List.zipWith (fun u v => a * u + b * v) y z)
      = a * trapz (fieldArith K) x y + b * trapz (fieldArith K) x z := by
  intro x
  induction x with
  | nil => intro y z _; simp [trapz_short]
  | cons x0 xs ih =>
    intro y z h
    rcases xs with _ | ⟨x1, xs⟩
    · simp [trapz_short]
    · rcases y with _ | ⟨y0, _ | ⟨y1, ys⟩⟩
      · have hz : z = [] := by cases z <;> simp_all
        subst hz; simp [trapz_short]
      · rcases z with _ | ⟨z0, _ | ⟨z1, zs⟩⟩
        · simp at h
        · simp [trapz_short]
        · simp at h
      · rcases z with _ | ⟨z0, _ | ⟨z1, zs⟩⟩
        · simp at h
        · simp at h
        · have ih' := ih (y1 :: ys) (z1 :: zs) (by simpa using h)
          simp only [List.zipWith_cons_cons] at ih' ⊢
          rw [trapz_cons, trapz_cons, trapz_cons, ih']
          ring

theorem cumtrapzFrom_short (acc : K) (x y : List K) (h : x.length < 2 ∨ y.length < 2) :
    cumtrapzFrom (fieldArith K) acc x y = [] := by
  rcases x with _ | ⟨x0, _ | ⟨x1, xs⟩⟩
  · rfl
  · rcases y with _ | ⟨y0, _ | ⟨y1, ys⟩⟩ <;> rfl
  · rcases y with _ | ⟨y0, _ | ⟨y1, ys⟩⟩
    · rfl
    · rfl
    · exfalso; simp at h; omega

theorem cumtrapzFrom_cons (acc x0 x1 : K) (xs : List K) (y0 y1 : K) (ys : List K) :
    cumtrapzFrom (fieldArith K) acc (x0 :: x1 :: xs) (y0 :: y1 :: ys)
      = (acc + (x1 - x0) * (y0 + y1) / 2) ::
          cumtrapzFrom (fieldArith K) (acc + (x1 - x0) * (y0 + y1) / 2) (x1 :: xs) (y1 :: ys) := rfl

/-- the last point of cumulative_integrate equals integrate -/
theorem cumtrapzFrom_getLast : ∀ (x y : List K) (acc : K), 2 ≤ x.length → 2 ≤ y.length →
    (cumtrapzFrom (fieldArith K) acc x y).getLast? = some (acc + trapz (fieldArith K) x y) := by
  intro x
  induction x with
  | nil => intro y acc h; simp at h
  | cons x0 xs ih =>
    intro y acc hx hy
    rcases xs with _ | ⟨x1, xs⟩
    · simp at hx
    · rcases y with _ | ⟨y0, _ | ⟨y1, ys⟩⟩
      · simp at hy
      · simp at hy
      · rw [cumtrapzFrom_cons, trapz_cons]
        by_cases hl : 2 ≤ (x1 :: xs).length ∧ 2 ≤ (y1 :: ys).length
        · have ih' := ih (y1 :: ys) (acc + (x1 - x0) * (y0 + y1) / 2) hl.1 hl.2
          have hne : cumtrapzFrom (fieldArith K) (acc + (x1 - x0) * (y0 + y1) / 2) (x1 :: xs) (y1 :: ys) ≠ [] := by
            intro e; rw [e] at ih'; simp at ih'
          rw [List.getLast?_cons_of_ne_nil hne, ih']
          congr 1; ring
        · have hshort : (x1 :: xs).length < 2 ∨ (y1 :: ys).length < 2 := by omega
          rw [cumtrapzFrom_short _ _ _ hshort, trapz_short _ _ hshort]
          simp

theorem cumtrapz_last (x y : List K) (hx : 2 ≤ x.length) (hy : 2 ≤ y.length) :
    (cumtrapz (fieldArith K) x y).getLast? = some (trapz (fieldArith K) x y) := by
  unfold cumtrapz
  rcases y with _ | ⟨y0, ys⟩
  · simp at hy
  · have h0 : cumtrapz.acc0 (fieldArith K) = (0 : K) := rfl
    have := cumtrapzFrom_getLast x (y0 :: ys) (0 : K) hx hy
    have hne : cumtrapzFrom (fieldArith K) 0 x (y0 :: ys) ≠ [] := by
      intro e; rw [e] at this; simp at this
    simp only [h0]
    rw [List.getLast?_cons_of_ne_nil hne, this]; simp

/-- integrate (whole axis): for every trace along the chosen dimension the trapezoidal integral
    over the coordinate axis; that dimension is removed (any rank, any position) -/
theorem integrate_spec [Inhabited K] {d r : Data K K} {dim : String} (hd : d.Consistent)
    (hr : integrateAll (fieldArith K) d dim = .ok r) :
    r.dims = eraseAt d.dims (d.index dim) ∧
    ∀ ℓ : String → Nat, (∀ nm ∈ d.dims, nm ≠ dim → ℓ nm < d.ext nm) →
      r.getN ℓ = trapz (fieldArith K) (d.coord dim) (d.trace dim ℓ) := by
  unfold integrateAll at hr
  simp only [bind, Except.bind] at hr
  split at hr
  · cases hr
  · rename_i q hq
    simp only [Except.ok.injEq] at hr
    subst hr
    set d1 : Data K K := { d with attrs := dictSet d.attrs "experiment_type" "'integrals'" } with hd1
    have hd1c : d1.Consistent := hd
    obtain ⟨_, hdims, _, _, _, _⟩ := reduceDim_dims _ hq
    refine ⟨hdims, ?_⟩
    intro ℓ hℓ
    exact reduceDim_spec _ hd1c hq ℓ hℓ

/-- enhancement: the reference entry is exactly 1 -/
theorem enh_ref (v : K) (hv : v ≠ 0) : v / v = 1 := div_self hv

/-- enhancement: multiplying the input by any non-zero constant changes nothing -/
theorem enh_gain (c a r : K) (hc : c ≠ 0) (hr : r ≠ 0) : (c * a) / (c * r) = a / r := by
  field_simp

/-- per trace along Power: every entry of the trace is divided by the trace's own reference entry -/
theorem enh_trace (tr : List K) (k : Nat) (c : K) (hc : c ≠ 0) [Inhabited K] (hk : (tr.getD k default) ≠ 0) :
    (tr.map (c * ·)).map (fun x => x / ((tr.map (c * ·)).getD k default)) = tr.map (fun x => x / tr.getD k default) ∨
    k ≥ tr.length := by
  by_cases hkl : k < tr.length
  · left
    have e : (tr.map (c * ·)).getD k default = c * tr.getD k default := by
      simp [List.getD_eq_getElem?_getD, List.getElem?_map, hkl]
    rw [e, List.map_map]
    apply List.map_congr_left
    intro x _
    simp only [Function.comp]
    exact enh_gain c x _ hc hk
  · right; omega

/-- `mapM` over `Except` pairs every input with its own result, in order -/
theorem mapM_except_forall₂ {α β ε : Type} (g : α → Except ε β) : ∀ (xs : List α) (ys : List β),
    xs.mapM g = .ok ys → List.Forall₂ (fun x y => g x = .ok y) xs ys
  | [], ys, h => by
    simp only [List.mapM_nil, pure, Except.pure, Except.ok.injEq] at h
    subst h; exact List.Forall₂.nil
  | x :: xs, ys, h => by
    simp only [List.mapM_cons, bind, Except.bind, pure, Except.pure] at h
    cases hx : g x with
    | error e => rw [hx] at h; cases h
    | ok y =>
      rw [hx] at h
      simp only at h
      cases hr : xs.mapM g with
      | error e => rw [hr] at h; cases h
      | ok rest =>
        rw [hr] at h
        simp only [Except.ok.injEq] at h
        subst h
        exact List.Forall₂.cons hx (mapM_except_forall₂ g xs rest hr)

/-- integrate with regions: ONE entry per region, IN REQUEST ORDER, along a new last dimension `integrals`; entry k is the
    whole-axis integral of the block `data[dim, (lo_k, hi_k)]`; the input's history is kept and one entry added -/
theorem integrate_regions_spec [Inhabited K] (A : Arith K K) (arange : Nat → List K) (dist : K → K → K)
    {d r : Data K K} {dim : String} {regions : List (K × K)}
    (hr : integrateRegions A arange dist d dim regions = .ok r) :
    ∃ parts : List (Data K K),
      List.Forall₂ (fun reg p => ∃ sub,
          ({ d with attrs := dictSet d.attrs "experiment_type" "'integrals'" } : Data K K).getitem dist A.klt
              [(dim, Sel.range reg.1 reg.2)] = .ok sub ∧
          integrateAll A sub dim = .ok p) regions parts ∧
      r.hist = d.hist ++ [("integrate", ["dim", "regions"])] ∧
      ∀ p0 rest, parts = p0 :: rest → (∀ p ∈ parts, p.Consistent) →
        r.dims = p0.dims ++ ["integrals"] ∧
        ∀ (ℓ : String → Nat) (k : Nat) (hk : k < parts.length), ℓ "integrals" = k → (∀ nm ∈ p0.dims, ℓ nm < p0.ext nm) →
          r.getN ℓ = (parts[k]).values.get (p0.dims.map ℓ) := by
  unfold integrateRegions at hr
  simp only [bind, Except.bind] at hr
  split at hr
  · cases hr
  · cases hm : regions.mapM (fun reg => do
        let sub ← ({ d with attrs := dictSet d.attrs "experiment_type" "'integrals'" } : Data K K).getitem dist A.klt
          [(dim, Sel.range reg.1 reg.2)]
        integrateAll A sub dim) with
    | error e => simp only [bind, Except.bind] at hm; rw [hm] at hr; cases hr
    | ok parts =>
      simp only [bind, Except.bind] at hm
      rw [hm] at hr
      simp only at hr
      cases hc : Data.concat arange parts "integrals" (some (arange parts.length)) with
      | error e => rw [hc] at hr; cases hr
      | ok c =>
        rw [hc] at hr
        simp only [Except.ok.injEq] at hr
        subst hr
        refine ⟨parts, ?_, by simp [addHist], ?_⟩
        · have := mapM_except_forall₂ _ regions parts hm
          refine this.imp ?_
          intro reg p hp
          cases hs : ({ d with attrs := dictSet d.attrs "experiment_type" "'integrals'" } : Data K K).getitem dist A.klt
              [(dim, Sel.range reg.1 reg.2)] with
          | error e => rw [hs] at hp; cases hp
          | ok sub => rw [hs] at hp; exact ⟨sub, rfl, hp⟩
        · intro p0 rest hparts hall
          obtain ⟨hd, hv⟩ := concat_byname arange p0 rest hparts hall hc
          exact ⟨hd, fun ℓ k hk hℓk hℓ => by
            have := hv ℓ k hk hℓk hℓ
            simpa [getN, addHist] using this⟩

end Dnp.C12
