import DnpProofs.Lemmas.Sort
import DnpProofs.Lemmas.ByName
import DnpProofs.Lemmas.ByName2
set_option linter.unusedSectionVars false
/-!
# C02 — relabelling operations keep each value attached to its coordinates

Property theorems only.  `getN ℓ` reads the value at a *by-name* index assignment ℓ, and
`coord nm` reads a coordinate list by name, so "the same labels carry the same value" is
`(op d).getN ℓ = d.getN ℓ` together with `(op d).coord nm = d.coord nm`.
-/
namespace Dnp.C02
open Np Dnp Dnp.Data
variable {κ α : Type} [Inhabited α] [Inhabited κ]

/-- reorder (any partial list of names, any rank): consistent, same coordinate per name,
    same value at every by-name index, and the requested names come first -/
theorem reorder_spec {d d' : Data κ α} {ds : List String} (h : d.Consistent)
    (hr : d.reorder ds = .ok d') :
    d'.Consistent ∧ d'.dims = dedup (ds ++ d.dims) ∧ d'.dims.Perm d.dims ∧
    (∀ nm ∈ d.dims, d'.coord nm = d.coord nm) ∧
    (∀ ℓ : String → Nat, (∀ nm ∈ d.dims, ℓ nm < d.ext nm) → d'.getN ℓ = d.getN ℓ) := by
  obtain ⟨rfl, _, hsub⟩ := reorder_eq_permuted hr
  have hp := dedup_append_perm h.1 hsub
  obtain ⟨h1, h2, h3⟩ := permuted_spec h hp
  exact ⟨h1, rfl, hp, h2, h3⟩

/-- reorder raises exactly when a name repeats or is unknown, and then nothing is produced -/
theorem reorder_ok_iff {d : Data κ α} {ds : List String} :
    (∃ d', d.reorder ds = .ok d') ↔ ds.Nodup ∧ ∀ x ∈ ds, x ∈ d.dims := by
  unfold reorder
  constructor
  · rintro ⟨d', h⟩
    split at h
    · cases h
    · split at h
      · cases h
      · rename_i h1 h2; exact ⟨by simpa using h1, by simpa using h2⟩
  · rintro ⟨h1, h2⟩
    have h3 : ¬ ∃ x, x ∈ ds ∧ ¬ x ∈ d.dims := by
      rintro ⟨x, hx, hn⟩; exact hn (h2 x hx)
    simp [h1, h3]

/-- sort_dims (as repaired): a by-name permutation, for every rank and every naming -/
theorem sortDims_spec {d : Data κ α} (h : d.Consistent) :
    d.sortDims.Consistent ∧ d.sortDims.dims.Perm d.dims ∧
    (∀ nm ∈ d.dims, d.sortDims.coord nm = d.coord nm) ∧
    (∀ ℓ : String → Nat, (∀ nm ∈ d.dims, ℓ nm < d.ext nm) → d.sortDims.getN ℓ = d.getN ℓ) := by
  rw [sortDims_eq_permuted h]
  have hp := sortedDims_perm d.dims
  obtain ⟨h1, h2, h3⟩ := permuted_spec h hp
  exact ⟨h1, hp, h2, h3⟩

/-- rename: values and coordinates stay where they are; what was labelled `dim` is labelled `new` -/
theorem rename_spec {d d' : Data κ α} {dim new : String} (h : d.Consistent) (hr : d.rename dim new = .ok d') :
    d'.values = d.values ∧ d'.coords = d.coords ∧ d'.dims = setAt d.dims (d.index dim) new ∧
    ∀ ℓ : String → Nat, d'.getN (fun x => if x = new then ℓ dim else ℓ x) = d.getN ℓ :=
  rename_byname h hr

/-- sort by coordinate: a permutation `o` of the positions along `dim` moves coordinate and values together -/
theorem sort_spec (le : κ → κ → Bool) {d d' : Data κ α} {dim : String} (h : d.Consistent) (hr : d.sort le dim = .ok d') :
    let o := argsort le (d.coord dim)
    o.Perm (List.range (d.coord dim).length) ∧ d'.dims = d.dims ∧
    d'.coord dim = o.map (fun k => (d.coord dim).getD k default) ∧
    (∀ nm, nm ≠ dim → d'.coord nm = d.coord nm) ∧
    ∀ ℓ : String → Nat, (∀ nm ∈ d.dims, ℓ nm < d.ext nm) →
      d'.getN ℓ = d.getN (fun x => if x = dim then o.getD (ℓ dim) 0 else ℓ x) :=
  sort_byname le h hr

/-- new_dim: one more label of extent one; nothing else moves -/
theorem newDim_spec {d d' : Data κ α} {dim : String} {c : κ} (h : d.Consistent) (hr : d.newDim dim c = .ok d') :
    d'.dims = d.dims ++ [dim] ∧ d'.coords = d.coords ++ [[c]] ∧
    ∀ ℓ : String → Nat, ℓ dim = 0 → d'.getN ℓ = d.getN ℓ :=
  newDim_byname h hr

/-- concat: position k of the new dimension is object k, label for label (any number of objects, any rank) -/
theorem concat_spec (arange : Nat → List κ) {ds : List (Data κ α)} {dim : String} {coord : Option (List κ)}
    {r : Data κ α} (d0 : Data κ α) (rest : List (Data κ α)) (hds : ds = d0 :: rest)
    (hall : ∀ d ∈ ds, d.Consistent) (hr : Data.concat arange ds dim coord = .ok r) :
    r.dims = d0.dims ++ [dim] ∧
    ∀ (ℓ : String → Nat) (k : Nat) (hk : k < ds.length), ℓ dim = k → (∀ nm ∈ d0.dims, ℓ nm < d0.ext nm) →
      r.getN ℓ = (ds[k]).values.get (d0.dims.map ℓ) :=
  concat_byname arange d0 rest hds hall hr

/-- concatenate along `dim`: the receiver's block keeps its labels; the other operand's block follows with its own
    coordinates; every other dimension is matched BY NAME, whatever axis order the operand had -/
theorem concatenate_spec {d b r : Data κ α} {dim : String} (h : d.Consistent) (hb : b.Consistent)
    (hr : d.concatenate b dim = .ok r) :
    r.dims = d.dims ∧ r.coord dim = d.coord dim ++ b.coord dim ∧ (∀ nm, nm ≠ dim → r.coord nm = d.coord nm) ∧
    ∀ ℓ : String → Nat, (∀ nm ∈ d.dims, nm ≠ dim → ℓ nm < d.ext nm) → ℓ dim < d.ext dim + b.ext dim →
      r.getN ℓ = if ℓ dim < d.ext dim then d.getN ℓ
                 else b.getN (fun x => if x = dim then ℓ dim - d.ext dim else ℓ x) :=
  concatenate_byname h hb hr

/-- squeeze: dimensions of extent one go together with their coordinates; every value stays at its labels -/
theorem squeeze_spec {d : Data κ α} (h : d.Consistent) :
    (∃ keep : List Nat, d.squeeze.dims = keep.map (fun k => d.dims.getD k "") ∧
                        d.squeeze.coords = keep.map (fun k => d.coords.getD k [])) ∧
    ∀ ℓ : String → Nat, (∀ nm ∈ d.dims, ℓ nm < d.ext nm) → d.squeeze.getN ℓ = d.getN ℓ :=
  squeeze_byname h

/-- split(dim, new, c) with |c| = k: position a·k + b along `dim` becomes (dim ↦ a, new ↦ b), all other labels untouched -/
theorem split_spec {d r : Data κ α} {dim new : String} {c : List κ} (h : d.Consistent)
    (hr : d.split dim new c = .ok r) :
    r.dims = d.dims.filter (· != dim) ++ [dim, new] ∧
    d.ext dim = d.ext dim / c.length * c.length ∧
    ∀ ℓ : String → Nat, (∀ nm ∈ d.dims, nm ≠ dim → ℓ nm < d.ext nm) → ℓ dim < d.ext dim / c.length → ℓ new < c.length →
      r.getN ℓ = d.getN (fun x => if x = dim then ℓ dim * c.length + ℓ new else ℓ x) :=
  split_byname h hr

/-- unfold then fold gives back the very same object — every rank, every position of the dimension -/
theorem unfold_fold_spec (arange : Nat → List κ) {d : Data κ α} {dim : String} (h : d.Consistent)
    (hf : d.unf = none) (hdim : dim ∈ d.dims) (hfi : "fold_index" ∉ d.dims) :
    (d.unfold arange dim >>= fold) = .ok d :=
  unfold_fold_id arange h hf hdim hfi

/-- the concrete 3-cycle on which the pinned `sort_dims` (moveaxis with the inverse
    permutation) produced an inconsistent object — the defect repaired by the fix commit -/
def witness : Data Nat Nat :=
  { dims := ["c", "a", "b"], coords := [[0, 1], [0, 1, 2], [0, 1, 2, 3]],
    values := Arr.ofFn [2, 3, 4] (fun idx => ravel idx [2, 3, 4]) }

theorem sortDimsPinned_breaks :
    decide witness.Consistent = true ∧ decide witness.sortDimsPinned.Consistent = false ∧
    decide witness.sortDims.Consistent = true := by decide +kernel

/-- non-vacuity: the hypotheses of the theorems above are met by a 3-D object with
    pairwise distinct extents, and `reorder` succeeds on it -/
theorem witness_nonvacuous :
    decide witness.Consistent = true ∧ (witness.reorder ["b"]).toOption.isSome = true := by decide +kernel

end Dnp.C02
