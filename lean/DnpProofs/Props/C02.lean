import DnpProofs.Lemmas.Sort
set_option linter.unusedSectionVars false
/-!
# C02 — relabelling operations keep each value attached to its coordinates

Property theorems only.  `getN ℓ` reads the value at a *by-name* index assignment ℓ, and
`coord nm` reads a coordinate list by name, so "the same labels carry the same value" is
`(op d).getN ℓ = d.getN ℓ` together with `(op d).coord nm = d.coord nm`.
-/
namespace Dnp.C02
open Np Dnp Dnp.Data
variable {κ α : Type} [Inhabited α] [Inhabited κ]

/-- reorder (any partial list of names, any rank): consistent, same coordinate per name,
    same value at every by-name index, and the requested names come first -/
theorem reorder_spec {d d' : Data κ α} {ds : List String} (h : d.Consistent)
    (hr : d.reorder ds = .ok d') :
    d'.Consistent ∧ d'.dims = dedup (ds ++ d.dims) ∧ d'.dims.Perm d.dims ∧
    (∀ nm ∈ d.dims, d'.coord nm = d.coord nm) ∧
    (∀ ℓ : String → Nat, (∀ nm ∈ d.dims, ℓ nm < d.ext nm) → d'.getN ℓ = d.getN ℓ) := by
  obtain ⟨rfl, _, hsub⟩ := reorder_eq_permuted hr
  have hp := dedup_append_perm h.1 hsub
  obtain ⟨h1, h2, h3⟩ := permuted_spec h hp
  exact ⟨h1, rfl, hp, h2, h3⟩

/-- reorder raises exactly when a name repeats or is unknown, and then nothing is produced -/
theorem reorder_ok_iff {d : Data κ α} {ds : List String} :
    (∃ d', d.reorder ds = .ok d') ↔ ds.Nodup ∧ ∀ x ∈ ds, x ∈ d.dims := by
  unfold reorder
  constructor
  · rintro ⟨d', h⟩
    split at h
    · cases h
    · split at h
      · cases h
      · rename_i h1 h2; exact ⟨by simpa using h1, by simpa using h2⟩
  · rintro ⟨h1, h2⟩
    have h3 : ¬ ∃ x, x ∈ ds ∧ ¬ x ∈ d.dims := by
      rintro ⟨x, hx, hn⟩; exact hn (h2 x hx)
    simp [h1, h3]

/-- sort_dims (as repaired): a by-name permutation, for every rank and every naming -/
theorem sortDims_spec {d : Data κ α} (h : d.Consistent) :
    d.sortDims.Consistent ∧ d.sortDims.dims.Perm d.dims ∧
    (∀ nm ∈ d.dims, d.sortDims.coord nm = d.coord nm) ∧
    (∀ ℓ : String → Nat, (∀ nm ∈ d.dims, ℓ nm < d.ext nm) → d.sortDims.getN ℓ = d.getN ℓ) := by
  rw [sortDims_eq_permuted h]
  have hp := sortedDims_perm d.dims
  obtain ⟨h1, h2, h3⟩ := permuted_spec h hp
  exact ⟨h1, hp, h2, h3⟩

/-- the concrete 3-cycle on which the pinned `sort_dims` (moveaxis with the inverse
    permutation) produced an inconsistent object — the defect repaired by the fix commit -/
def witness : Data Nat Nat :=
  { dims := ["c", "a", "b"], coords := [[0, 1], [0, 1, 2], [0, 1, 2, 3]],
    values := Arr.ofFn [2, 3, 4] (fun idx => ravel idx [2, 3, 4]) }

theorem sortDimsPinned_breaks :
    decide witness.Consistent = true ∧ decide witness.sortDimsPinned.Consistent = false ∧
    decide witness.sortDims.Consistent = true := by decide +kernel

/-- non-vacuity: the hypotheses of the theorems above are met by a 3-D object with
    pairwise distinct extents, and `reorder` succeeds on it -/
theorem witness_nonvacuous :
    decide witness.Consistent = true ∧ (witness.reorder ["b"]).toOption.isSome = true := by decide +kernel

end Dnp.C02
