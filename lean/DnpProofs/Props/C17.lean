import DnpProofs.Props.C07
set_option linter.unusedSectionVars false
/-!
# C17 — a failed or refused save never damages what is on disk

`save` is the model of the repaired `save_h5`: refusal is decided before anything is written,
all writes go to a temporary file, and the destination is replaced only on success.  A fault is
any value h5py refuses (`writeAll = none`), wherever in the workspace / object / history it sits.
Filesystem atomicity of `os.replace` and h5py's own behaviour are L0.
-/
namespace Dnp.C17
open Dnp.H5

/-- never replaces an existing file unless overwrite is requested, and says so by raising -/
theorem refuse (t : Tree) (w : Workspace) : save (.holds t) w false = { disk := .holds t, raised := true } := rfl

/-- … whatever the existing file is (a saved workspace, a text file, an empty stub, a truncated file) -/
theorem refuse_any (dest : Disk) (w : Workspace) (h : dest ≠ .absent) : save dest w false = { disk := dest, raised := true } := by
  unfold save
  cases dest with
  | absent => exact absurd rfl h
  | holds t => rfl
  | other n => rfl

/-- whatever makes the save raise, wherever the unstorable value occurs, the destination afterwards
    is exactly what it was before (absent, or the complete previous content) -/
theorem fault_safe (dest : Disk) (w : Workspace) (ow : Bool) (h : (save dest w ow).raised = true) :
    (save dest w ow).disk = dest := by
  unfold save at *
  split
  · rfl
  · rename_i hc
    rw [if_neg hc] at h
    cases hw : writeAll w with
    | none => simp
    | some t => simp [hw] at h

/-- a workspace with an entry that cannot be stored at all (neither a data object nor a dictionary), wherever it sits
    among the entries, is never written: the call raises and the destination is what it was -/
theorem raw_entry_refused (dest : Disk) (w : Workspace) (ow : Bool) (k : String) (hk : (k, Entry.raw) ∈ w) :
    (save dest w ow).raised = true ∧ (save dest w ow).disk = dest := by
  have hw : writeAll w = Option.none := by
    induction w with
    | nil => cases hk
    | cons e rest ih =>
      obtain ⟨k', e'⟩ := e
      rcases List.mem_cons.1 hk with h | h
      · cases h
        simp [writeAll, writeEntry]
      · have := ih h
        simp only [writeAll, this]
        cases writeEntry e' <;> rfl
  have hr : (save dest w ow).raised = true := by
    unfold save
    split
    · rfl
    · simp [hw]
  exact ⟨hr, fault_safe dest w ow hr⟩

/-- a successful save holds exactly the tree of the whole workspace (which loads back by C07) -/
theorem success (dest : Disk) (w : Workspace) (ow : Bool) (h : (save dest w ow).raised = false) :
    ∃ t, writeAll w = some t ∧ (save dest w ow).disk = .holds t := by
  unfold save at *
  split
  · rename_i hc; rw [if_pos hc] at h; simp at h
  · rename_i hc
    rw [if_neg hc] at h
    cases hw : writeAll w with
    | none => simp [hw] at h
    | some t => exact ⟨t, rfl, by simp⟩

/-- every fault position: a value that cannot be stored anywhere in the workspace makes the save raise -/
theorem fault_raises (dest : Disk) (w : Workspace) (hw : writeAll w = none) : (save dest w true).raised = true := by
  unfold save
  simp [hw]

/-- the pinned `save_h5` (truncate, then write): a workspace whose SECOND entry holds an unstorable
    value leaves a file that loads without error but lacks that entry, and the previous content is gone -/
theorem pinned_fault_unsafe :
    let good : Obj := { dtype := "f8", shape := [1], data := ["1"], dims := ["x"], coords := [[0]], attrs := [],
                        dattrs := [], hist := [] }
    let bad : Obj := { good with attrs := [("k", .seq [.num 1, .none])] }
    let prev : Tree := [("old", .dict [("a", .scalar (.num 1))])]
    let w : Workspace := [("a", .data good), ("b", .data bad)]
    (savePinned (.holds prev) w true).raised = true ∧
    (savePinned (.holds prev) w true).disk ≠ .holds prev ∧
    (match (savePinned (.holds prev) w true).disk with | .holds t => t.length | _ => 0) = 1 ∧
    (save (.holds prev) w true).disk = .holds prev := by decide +kernel

end Dnp.C17
