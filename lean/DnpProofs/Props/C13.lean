import DnpProofs.Props.C08
import Mathlib.Analysis.SpecialFunctions.Complex.Circle
import Mathlib.Analysis.SpecialFunctions.Trigonometric.Basic
import Mathlib.Algebra.Order.Floor.Ring
set_option linter.unusedSectionVars false
/-!
# C13 — phase corrections form a group action and autophase is replayable

The factor is `cis p0 p1 k N = exp(i·π/180·(p0 + p1·k/N))` over ℂ (Mathlib).  The model's `phase`
takes the factor table as a parameter; `phase_spec` places it (via the bracket theorem), the
algebraic laws are about the factor itself.
-/
namespace Dnp.C13
open Np Dnp Dnp.Data Complex

/-- the phase factor in degrees -/
noncomputable def cis (p0 p1 : ℝ) (k N : ℕ) : ℂ :=
  Complex.exp ((((Real.pi / 180 * (p0 + p1 * k / N) : ℝ)) : ℂ) * I)

/-- magnitudes are preserved -/
theorem phase_norm (p0 p1 : ℝ) (k N : ℕ) (z : ℂ) : ‖z * cis p0 p1 k N‖ = ‖z‖ := by
  unfold cis
  rw [norm_mul, Complex.norm_exp_ofReal_mul_I, mul_one]

/-- successive corrections add -/
theorem phase_add (a0 a1 b0 b1 : ℝ) (k N : ℕ) :
    cis a0 a1 k N * cis b0 b1 k N = cis (a0 + b0) (a1 + b1) k N := by
  unfold cis
  rw [← Complex.exp_add]
  congr 1
  push_cast
  ring

/-- a correction followed by the opposite one restores the data -/
theorem phase_inv (p0 p1 : ℝ) (k N : ℕ) (z : ℂ) : z * cis p0 p1 k N * cis (-p0) (-p1) k N = z := by
  rw [mul_assoc, phase_add]
  unfold cis
  simp

/-- p0 is 360-periodic -/
theorem p0_periodic (p0 p1 : ℝ) (k N : ℕ) : cis (p0 + 360) p1 k N = cis p0 p1 k N := by
  unfold cis
  have : (((Real.pi / 180 * (p0 + 360 + p1 * k / N) : ℝ)) : ℂ) * I
      = (((Real.pi / 180 * (p0 + p1 * k / N) : ℝ)) : ℂ) * I + 2 * Real.pi * I := by
    push_cast; ring
  rw [this, Complex.exp_add, Complex.exp_two_pi_mul_I, mul_one]

/-- the angle reduction of phase() (|p| mod 360 with the sign restored — into the right array,
    as repaired) is the identity on (−360, 360): no valid correction is altered by it -/
noncomputable def reduceAngle (p : ℝ) : ℝ :=
  if p < 0 then -(|p| - 360 * ⌊|p| / 360⌋) else |p| - 360 * ⌊|p| / 360⌋

theorem reduceAngle_id (p : ℝ) (h : |p| < 360) : reduceAngle p = p := by
  unfold reduceAngle
  have hfl : ⌊|p| / 360⌋ = 0 := by
    rw [Int.floor_eq_iff]
    constructor
    · simp only [Int.cast_zero]; positivity
    · simp only [Int.cast_zero, zero_add]
      rw [div_lt_one (by norm_num)]; exact h
  rw [hfl]
  split
  · rename_i hneg; rw [abs_of_neg hneg]; simp
  · rename_i hpos; rw [abs_of_nonneg (not_lt.1 hpos)]; simp

/-- the pinned restoration step: with p0 = 10, p1 = −20 the sign of p1 was put into p0 -/
theorem pinned_sign_wrong :
    let p0 : ℤ := 10; let p1 : ℤ := -20
    -- pinned: p0 ↦ −|p0|, p1 ↦ |p1|;  repaired: both unchanged
    ((-(|p0| % 360), |p1| % 360) ≠ (p0, p1)) ∧ ((|p0| % 360, -(|p1| % 360)) = (p0, p1)) := by decide

/-- phase_cycle: exp(−iπ/2·r) is (−i)^r, so the model's exact factor table is the property's factor -/
theorem phase_cycle_factor (r : ℕ) : Complex.exp (-(I * (Real.pi / 2) * r)) = (-I) ^ r := by
  induction r with
  | zero => simp
  | succ r ih =>
    have h1 : Complex.exp (-(I * (Real.pi / 2))) = -I := by
      rw [show -(I * ((Real.pi : ℂ) / 2)) = ((-(Real.pi / 2) : ℝ) : ℂ) * I by push_cast; ring]
      rw [Complex.exp_mul_I, ← Complex.ofReal_cos, ← Complex.ofReal_sin]
      simp
    rw [pow_succ, ← ih, ← h1, ← Complex.exp_add]
    congr 1
    push_cast; ring

variable {κ : Type} [Inhabited κ]

/-- placement: `phase` multiplies element k of trace j by `cis j k`, for every rank and position
    of the phased dimension (j = number of the trace in the order of the remaining dims) -/
theorem phase_spec (A : Arith κ ℂ) (arange : Nat → List κ) {d r : Data κ ℂ} {dim : String} (tbl : Nat → Nat → ℂ)
    (hd : d.Consistent) (hf : d.unf = none) (hdim : dim ∈ d.dims) (hfi : "fold_index" ∉ d.dims)
    (hr : d.phase A arange dim tbl = .ok r) (ℓ : String → Nat) (hℓ : ∀ nm ∈ d.dims, ℓ nm < d.ext nm) :
    r.getN ℓ = A.mul (d.getN ℓ)
      (tbl (ravel ((d.dims.filter (· != dim)).map ℓ) ((d.dims.filter (· != dim)).map d.ext)) (ℓ dim)) := by
  unfold Data.phase at hr
  simp only [bind, Except.bind] at hr
  split at hr
  · cases hr
  · rename_i q hq
    simp only [Except.ok.injEq] at hr
    subst hr
    have hb := (bracket_spec arange _ (d.ext dim) none hd hf hdim hfi (by simp) (by simp) hq).2.2.2.2 ℓ
      (fun nm hnm _ => hℓ nm hnm) (hℓ dim hdim)
    show q.getN ℓ = _
    rw [hb]
    set j := ravel ((d.dims.filter (· != dim)).map ℓ) ((d.dims.filter (· != dim)).map d.ext)
    have hlen : (d.trace dim ℓ).length = d.ext dim := by simp [trace]
    have hk : ℓ dim < (d.trace dim ℓ).length := by rw [hlen]; exact hℓ dim hdim
    have htr : (d.trace dim ℓ)[ℓ dim]? = some (d.getN ℓ) := by
      unfold trace
      rw [List.getElem?_map, List.getElem?_range (hℓ dim hdim)]
      simp only [Option.map_some, Option.some.injEq]
      unfold getN
      congr 1
      apply List.map_congr_left
      intro x _
      by_cases hx : x = dim
      · simp [hx]
      · simp [hx]
    rw [List.getD_eq_getElem?_getD, List.getElem?_zipWith, htr, List.getElem?_range hk]
    simp

/-- autophase REPLAYS: with the factor table of the angles it records, its output has exactly the values, dimensions and
    coordinates that `phase` gives for those angles — only the history entry differs -/
theorem autophase_replays (A : Arith κ ℂ) (arange : Nat → List κ) (d : Data κ ℂ) (dim : String) (tbl : Nat → Nat → ℂ) :
    (d.autophase A arange dim tbl).map (fun r => (r.values, r.dims, r.coords)) =
    (d.phase A arange dim tbl).map (fun r => (r.values, r.dims, r.coords)) := by
  unfold Data.autophase Data.phase
  simp only [bind, Except.bind]
  split <;> rfl

/-- hence every element of the autophased object is the input element times a unit-modulus factor -/
theorem autophase_spec (A : Arith κ ℂ) (arange : Nat → List κ) {d r : Data κ ℂ} {dim : String} (tbl : Nat → Nat → ℂ)
    (hd : d.Consistent) (hf : d.unf = none) (hdim : dim ∈ d.dims) (hfi : "fold_index" ∉ d.dims)
    (hr : d.autophase A arange dim tbl = .ok r) (ℓ : String → Nat) (hℓ : ∀ nm ∈ d.dims, ℓ nm < d.ext nm) :
    r.getN ℓ = A.mul (d.getN ℓ)
      (tbl (ravel ((d.dims.filter (· != dim)).map ℓ) ((d.dims.filter (· != dim)).map d.ext)) (ℓ dim)) := by
  have h := autophase_replays A arange d dim tbl
  rw [hr] at h
  cases hp : d.phase A arange dim tbl with
  | error e => rw [hp] at h; cases h
  | ok q =>
    rw [hp] at h
    simp only [Except.map, Except.ok.injEq, Prod.mk.injEq] at h
    have hq := phase_spec A arange tbl hd hf hdim hfi hp ℓ hℓ
    unfold getN at hq ⊢
    rw [h.1, h.2.1]
    exact hq

/-- "with a reference slice every trace receives the correction found for that slice": when the recorded angles are the
    same for every trace (the factor table does not depend on the trace number), the factor an element is multiplied by
    depends on its position along `dim` only — whatever the other labels are -/
theorem autophase_reference_slice (A : Arith κ ℂ) (arange : Nat → List κ) {d r : Data κ ℂ} {dim : String}
    (tbl : Nat → Nat → ℂ) (ref : Nat → ℂ) (href : ∀ j k, tbl j k = ref k)
    (hd : d.Consistent) (hf : d.unf = none) (hdim : dim ∈ d.dims) (hfi : "fold_index" ∉ d.dims)
    (hr : d.autophase A arange dim tbl = .ok r) (ℓ : String → Nat) (hℓ : ∀ nm ∈ d.dims, ℓ nm < d.ext nm) :
    r.getN ℓ = A.mul (d.getN ℓ) (ref (ℓ dim)) := by
  rw [autophase_spec A arange tbl hd hf hdim hfi hr ℓ hℓ, href]

end Dnp.C13
