import DnpProofs.Props.C12
import Mathlib.RingTheory.RootsOfUnity.PrimitiveRoots
import Mathlib.Algebra.Ring.GeomSum
import Mathlib.Algebra.BigOperators.Ring.Finset
import Mathlib.Algebra.Order.Field.Rat
set_option linter.unusedSectionVars false
/-!
# C09 — Fourier transform pair: exact DFT, calibrated axis, exact inverse

Everything is proved in an arbitrary field `K` with a primitive N-th root of unity `ω`
(ℂ with exp(−2πi/N) is one instance); `numpy.fft` computing this sum is L0.
-/
namespace Dnp.C09
open Np Dnp Dnp.Data Dnp.C12 Finset
variable {K : Type} [Field K]

/-- the DFT of the n-point signal x (zero-filled to N points): X_k = Σ_{j<n} x_j ω^{jk} -/
def dft (ω : K) (x : ℕ → K) (n k : ℕ) : K := ∑ j ∈ range n, x j * ω ^ (j * k)

/-- the inverse transform with ω⁻¹ and 1/N -/
def idft (ω : K) (N : ℕ) (X : ℕ → K) (j : ℕ) : K := (∑ k ∈ range N, X k * ω⁻¹ ^ (j * k)) / N

theorem list_sum_range (f : ℕ → K) (n : ℕ) : ((List.range n).map f).sum = ∑ j ∈ range n, f j := by
  induction n with
  | zero => simp
  | succ n ih => rw [List.sum_range_succ, Finset.sum_range_succ, ih]

theorem foldl_add_eq_sum (l : List K) (a : K) : l.foldl (· + ·) a = a + l.sum := by
  induction l generalizing a with
  | nil => simp
  | cons x xs ih => simp [ih, add_assoc]

/-- the model's `dftList` (what `fourier_transform` applies to every trace) is this sum -/
theorem dftList_eq (ω : K) (N : ℕ) (hω : ω ^ N = 1) (x : List K) [Inhabited K] (k : ℕ) (hk : k < N) :
    (dftList (fieldArith K) (fun m => ω ^ m) N x).getD k 0 = dft ω (fun j => x.getD j 0) x.length k := by
  unfold dftList dft
  rw [List.getD_eq_getElem?_getD, List.getElem?_map, List.getElem?_range hk]
  simp only [Option.map_some, Option.getD_some]
  show List.foldl (· + ·) (0 : K) _ = _
  rw [foldl_add_eq_sum, zero_add]
  have : List.zipWith (fun xj j => (fieldArith K).mul xj (ω ^ ((j * k) % N))) x (List.range x.length)
      = (List.range x.length).map (fun j => x.getD j 0 * ω ^ (j * k)) := by
    apply List.ext_getElem (by simp)
    intro i h1 h2
    have hi : i < x.length := by simpa using h2
    simp only [List.getElem_zipWith, List.getElem_range, List.getElem_map]
    have hpow : ω ^ ((i * k) % N) = ω ^ (i * k) := by
      conv_rhs => rw [← Nat.mod_add_div (i * k) N, pow_add, pow_mul, hω, one_pow, mul_one]
    rw [hpow]
    simp [fieldArith, List.getD_eq_getElem?_getD, hi]
  rw [this, list_sum_range]

/-- the transform is linear -/
theorem dft_linear (ω a b : K) (x y : ℕ → K) (n k : ℕ) :
    dft ω (fun j => a * x j + b * y j) n k = a * dft ω x n k + b * dft ω y n k := by
  unfold dft
  rw [Finset.mul_sum, Finset.mul_sum, ← Finset.sum_add_distrib]
  apply Finset.sum_congr rfl
  intro j _; ring

/-- orthogonality of the characters of ℤ/N -/
theorem ortho {ω : K} {N : ℕ} (hω : IsPrimitiveRoot ω N) {j j' : ℕ} (hj : j < N) (hj' : j' < N) :
    ∑ k ∈ range N, ω ^ (j * k) * ω⁻¹ ^ (j' * k) = if j = j' then (N : K) else 0 := by
  have hN : 0 < N := by omega
  have hω0 : ω ≠ 0 := hω.ne_zero (by omega)
  have hterm : ∀ k, ω ^ (j * k) * ω⁻¹ ^ (j' * k) = (ω ^ j * (ω ^ j')⁻¹) ^ k := by
    intro k
    rw [pow_mul, pow_mul, mul_pow, inv_pow, inv_pow]
  simp only [hterm]
  split
  · rename_i h; subst h
    have : ω ^ j * (ω ^ j)⁻¹ = 1 := mul_inv_cancel₀ (pow_ne_zero _ hω0)
    simp [this]
  · rename_i hne
    set ζ := ω ^ j * (ω ^ j')⁻¹ with hζ
    have hζN : ζ ^ N = 1 := by
      rw [hζ, mul_pow, inv_pow, ← pow_mul, ← pow_mul, mul_comm j N, mul_comm j' N, pow_mul, pow_mul,
        hω.pow_eq_one]
      simp
    have hζ1 : ζ ≠ 1 := by
      intro h
      have : ω ^ j = ω ^ j' := by
        have h2 : ω ^ j * (ω ^ j')⁻¹ * ω ^ j' = 1 * ω ^ j' := by rw [← hζ, h]
        rwa [mul_assoc, inv_mul_cancel₀ (pow_ne_zero _ hω0), mul_one, one_mul] at h2
      exact hne (hω.pow_inj hj hj' this)
    have hg := geom_sum_mul ζ N
    rw [hζN, sub_self] at hg
    rcases mul_eq_zero.1 hg with h | h
    · exact h
    · exact absurd (sub_eq_zero.1 h) hζ1

/-- an on-grid tone at bin m peaks exactly at bin m (value N) and vanishes at every other bin -/
theorem tone_peak {ω : K} {N : ℕ} (hω : IsPrimitiveRoot ω N) {m k : ℕ} (hm : m < N) (hk : k < N) :
    dft ω (fun j => ω⁻¹ ^ (m * j)) N k = if k = m then (N : K) else 0 := by
  unfold dft
  have := ortho hω hk hm
  rw [← this]
  apply Finset.sum_congr rfl
  intro j _
  rw [mul_comm j k, mul_comm]

/-- the inverse transform undoes the transform (values), for every length N with N ≠ 0 in K -/
theorem idft_dft {ω : K} {N : ℕ} (hω : IsPrimitiveRoot ω N) (hN : (N : K) ≠ 0) (x : ℕ → K) {j : ℕ} (hj : j < N) :
    idft ω N (fun k => dft ω x N k) j = x j := by
  unfold idft dft
  have : ∑ k ∈ range N, (∑ j' ∈ range N, x j' * ω ^ (j' * k)) * ω⁻¹ ^ (j * k)
      = ∑ j' ∈ range N, x j' * ∑ k ∈ range N, ω ^ (j' * k) * ω⁻¹ ^ (j * k) := by
    simp only [Finset.sum_mul, Finset.mul_sum]
    rw [Finset.sum_comm]
    apply Finset.sum_congr rfl; intro a _
    apply Finset.sum_congr rfl; intro b _
    ring
  rw [this]
  have h2 : ∑ j' ∈ range N, x j' * ∑ k ∈ range N, ω ^ (j' * k) * ω⁻¹ ^ (j * k)
      = ∑ j' ∈ range N, if j' = j then x j' * (N : K) else 0 := by
    apply Finset.sum_congr rfl
    intro a ha
    rw [ortho hω (Finset.mem_range.1 ha) hj]
    split <;> simp
  rw [h2, Finset.sum_ite_eq' (range N) j (fun a => x a * (N : K))]
  simp [Finset.mem_range.2 hj, hN]

/-! ### the shift -/

theorem roll_length {γ : Type} (xs : List γ) (k : ℕ) : (roll xs k).length = xs.length := by
  unfold roll
  split
  · rfl
  · simp

theorem roll_lt {γ : Type} (xs : List γ) {k : ℕ} (hk : k < xs.length) :
    roll xs k = xs.drop (xs.length - k) ++ xs.take (xs.length - k) := by
  unfold roll
  rw [if_neg (by omega), Nat.mod_eq_of_lt hk]

/-- rotating right by k and then by n − k restores the list -/
theorem roll_roll_inv {γ : Type} (xs : List γ) {k : ℕ} (hk : k < xs.length) (hk0 : 0 < k) :
    roll (roll xs k) (xs.length - k) = xs := by
  have hl := roll_length xs k
  rw [roll_lt (roll xs k) (by rw [hl]; omega), hl, roll_lt xs hk]
  have e : xs.length - (xs.length - k) = k := by omega
  rw [e]
  have hd : (List.drop (xs.length - k) xs).length = k := by rw [List.length_drop]; omega
  rw [List.drop_append_of_le_length (le_of_eq hd.symm), List.take_append_of_le_length (le_of_eq hd.symm)]
  rw [List.drop_of_length_le (le_of_eq hd), List.take_of_length_le (le_of_eq hd)]
  simp

/-- `ifftshift ∘ fftshift = id` for EVERY length, odd or even -/
theorem ifftshift_fftshift {γ : Type} (xs : List γ) : ifftshiftL (fftshiftL xs) = xs := by
  unfold ifftshiftL fftshiftL
  rw [roll_length]
  by_cases h1 : xs.length / 2 = 0
  · -- length 0 or 1: nothing moves
    have hle : xs.length ≤ 1 := by omega
    rw [h1]
    have r0 : ∀ ys : List γ, ys.length ≤ 1 → ∀ k, roll ys k = ys := by
      intro ys hys k
      unfold roll
      split
      · rfl
      · have : ys.length = 1 := by omega
        rw [this, Nat.mod_one]
        simp [this]
        rcases ys with _ | ⟨y, _ | _⟩ <;> simp_all
    rw [r0 xs hle, r0 xs hle]
  · exact roll_roll_inv xs (Nat.div_lt_self (by omega) (by omega)) (by omega)

/-- …whereas applying `fftshift` twice (what the pinned inverse did) is NOT the identity for odd lengths -/
theorem fftshift_twice_odd : fftshiftL (fftshiftL [0, 1, 2, 3, 4]) ≠ [0, 1, 2, 3, 4] ∧
    ifftshiftL (fftshiftL [0, 1, 2, 3, 4]) = [0, 1, 2, 3, 4] := by decide

/-- where a bin lands: after `fftshift`, position p holds bin (p + N − ⌊N/2⌋) mod N; so the
    position of bin b is (b + ⌊N/2⌋) mod N, and the repaired axis value there, (p − ⌊N/2⌋)/(N·dt),
    is ≡ b/(N·dt) modulo the spectral width 1/dt — for even AND odd N -/
theorem axis_tone (N b : ℕ) (hN : 0 < N) (hb : b < N) :
    ∃ q : ℤ, (((b + N / 2) % N : ℕ) : ℤ) - ((N / 2 : ℕ) : ℤ) = b + q * N := by
  refine ⟨-(((b + N / 2) / N : ℕ) : ℤ), ?_⟩
  have := Nat.mod_add_div (b + N / 2) N
  have h2 : (((b + N / 2) % N : ℕ) : ℤ) + (N : ℤ) * (((b + N / 2) / N : ℕ) : ℤ) = (b : ℤ) + ((N / 2 : ℕ) : ℤ) := by
    exact_mod_cast this
  linarith

/-- the pinned axis for N = 5, dt = 1: the zero-frequency bin sits at position 2 after the shift,
    where the pinned formula k/(N·dt) − 1/(2·dt) gave −1/10 instead of 0; the repaired formula gives 0 -/
theorem pinned_axis_odd_wrong :
    ((2 : ℚ) / (5 * 1) - 1 / (2 * 1) = -1 / 10) ∧ (((2 : ℚ) - (5 / 2 : ℕ)) / (5 * 1) = 0) := by
  constructor <;> norm_num

/-- renaming: `t<k>` ↦ `f<k>` and back, every other name untouched -/
theorem rename_roundtrip : renameFt 'f' 't' (renameFt 't' 'f' "t2") = "t2" ∧ renameFt 't' 'f' "t2" = "f2" ∧
    renameFt 't' 'f' "t" = "f" ∧ renameFt 't' 'f' "t10" = "f10" ∧ renameFt 't' 'f' "tau" = "tau" ∧
    renameFt 't' 'f' "Power" = "Power" := by decide

/-- `fourier_transform` acts along the named dimension only: the value at the source position `d.dims.map ℓ` (with the
    transformed axis at output bin `ℓ dim`) is that bin of the (shifted) DFT of THE trace through ℓ — whatever the rank
    and wherever the dimension sits; every other axis is untouched -/
theorem ft_spec [Inhabited K] (A : Arith K K) {d r : Data K K} {dim : String} (zff : Nat) (shift : Bool)
    (ppm : Option K) (tw : Nat → K) (hd : d.Consistent) (hr : d.fourierTransform A dim zff shift ppm tw = .ok r) :
    let n := (if zff = 0 then 1 else zff) * (d.coord dim).length
    let h := fun (tr : List K) => let y := dftList A tw n tr; if shift then fftshiftL y else y
    dim ∈ d.dims ∧ r.values.shape = setAt d.values.shape (d.index dim) n ∧
    ∀ ℓ : String → Nat, (∀ nm ∈ d.dims, nm ≠ dim → ℓ nm < d.ext nm) → ℓ dim < n →
      r.values.get (d.dims.map ℓ) = (h (d.trace dim ℓ)).getD (ℓ dim) default := by
  intro n h
  unfold Data.fourierTransform at hr
  split at hr
  · cases hr
  · rename_i hdm
    have hdm : dim ∈ d.dims := by simpa using hdm
    simp only at hr
    split at hr
    · cases hr
    · split at hr
      · cases hr
      · simp only [Except.ok.injEq] at hr
        subst hr
        refine ⟨hdm, rfl, ?_⟩
        intro ℓ hℓ hℓd
        have hm : d.mapAlong dim h n none = .ok { d with values := mapAxis h n d.values (d.index dim) } := by
          unfold Data.mapAlong; simp [hdm]
        exact (mapAlong_spec h n none hd hm).2.2 ℓ hℓ hℓd

/-- the same for `inverse_fourier_transform`: un-shift, inverse DFT and 1/N on the trace through ℓ, nothing else moves -/
theorem ift_spec [Inhabited K] (A : Arith K K) {d r : Data K K} {dim : String} (zff : Nat) (shift : Bool)
    (ppm : Option K) (twInv : Nat → K) (hd : d.Consistent)
    (hr : d.inverseFourierTransform A dim zff shift ppm twInv = .ok r) :
    let n := (if zff = 0 then 1 else zff) * (d.coord dim).length
    let h := fun (tr : List K) =>
      let x := if shift then ifftshiftL tr else tr
      (dftList A twInv n x).map (fun y => A.div y (A.ofNat n))
    dim ∈ d.dims ∧ r.values.shape = setAt d.values.shape (d.index dim) n ∧
    ∀ ℓ : String → Nat, (∀ nm ∈ d.dims, nm ≠ dim → ℓ nm < d.ext nm) → ℓ dim < n →
      r.values.get (d.dims.map ℓ) = (h (d.trace dim ℓ)).getD (ℓ dim) default := by
  intro n h
  unfold Data.inverseFourierTransform at hr
  split at hr
  · cases hr
  · rename_i hdm
    have hdm : dim ∈ d.dims := by simpa using hdm
    simp only at hr
    split at hr
    · cases hr
    · split at hr
      · cases hr
      · simp only [Except.ok.injEq] at hr
        subst hr
        refine ⟨hdm, rfl, ?_⟩
        intro ℓ hℓ hℓd
        have hm : d.mapAlong dim h n none = .ok { d with values := mapAxis h n d.values (d.index dim) } := by
          unfold Data.mapAlong; simp [hdm]
        exact (mapAlong_spec h n none hd hm).2.2 ℓ hℓ hℓd

/-! ### the axis pair: the inverse transform rebuilds the time axis from the frequency axis the forward transform built -/
section axes
variable {F : Type} [Field F]

/-- forward axis point k of an n-point transform with dwell time dt, shifted by `off` bins, optionally divided by the
    ppm factor q (the formulas of `fourierTransform`) -/
def fwdAxis (n : ℕ) (dt : F) (off : ℕ) (q : F) (k : ℕ) : F := ((k : F) / ((n : F) * dt) - (off : F) / ((n : F) * dt)) / q

/-- inverse axis point k rebuilt from the spacing df of a frequency axis that was divided by q (the formulas of
    `inverseFourierTransform`: df·q is the spacing in Hz) -/
def invAxis (n : ℕ) (df q : F) (k : ℕ) : F := (k : F) / ((n : F) * (df * q))

/-- the spacing of the forward axis is 1/(n·dt)/q — for ANY non-zero dwell time, positive or NEGATIVE (a descending
    axis), shifted or not -/
theorem fwdAxis_spacing (n : ℕ) (dt : F) (off : ℕ) (q : F) (hn : (n : F) ≠ 0) (hdt : dt ≠ 0) (hq : q ≠ 0) (k : ℕ) :
    fwdAxis n dt off q (k + 1) - fwdAxis n dt off q k = 1 / ((n : F) * dt) / q := by
  unfold fwdAxis
  field_simp
  push_cast
  ring

/-- **the time axis comes back with its sign**: rebuilt from the spacing of the forward axis, point k is k·dt — for any
    non-zero dt (descending time axes included), any shift, with or without the ppm conversion -/
theorem axis_roundtrip (n : ℕ) (dt : F) (off : ℕ) (q : F) (hn : (n : F) ≠ 0) (hdt : dt ≠ 0) (hq : q ≠ 0) (k : ℕ) :
    invAxis n (fwdAxis n dt off q 1 - fwdAxis n dt off q 0) q k = (k : F) * dt := by
  have h := fwdAxis_spacing n dt off q hn hdt hq 0
  simp only [zero_add] at h
  rw [h]
  unfold invAxis
  field_simp

/-- the model's `fourierTransform` puts exactly `fwdAxis` on the transformed dimension (arithmetic of a field) -/
theorem ft_axis [Inhabited F] {d r : Data F F} {dim : String} (zff : Nat) (shift : Bool) (fr : Option F) (tw : Nat → F)
    (hr : d.fourierTransform (Dnp.C12.fieldArith F) dim zff shift fr tw = .ok r) :
    let n := (if zff = 0 then 1 else zff) * (d.coord dim).length
    let dt := (d.coord dim).getD 1 default - (d.coord dim).getD 0 default
    r.coords = setAt d.coords (d.index dim)
      ((List.range n).map (fwdAxis n dt (if shift then n / 2 else 0) (match fr with | some f => f / ((1000000 : ℕ) : F) | none => 1))) := by
  intro n dt
  unfold Data.fourierTransform at hr
  split at hr
  · cases hr
  · simp only at hr
    split at hr
    · cases hr
    · split at hr
      · cases hr
      · simp only [Except.ok.injEq] at hr
        subst hr
        cases fr with
        | none =>
          simp only [Data.addHist, Dnp.C12.fieldArith]
          congr 1
          apply List.map_congr_left
          intro k _
          simp only [fwdAxis, div_one, n, dt]
        | some f =>
          simp only [Data.addHist, Dnp.C12.fieldArith, List.map_map]
          congr 1

end axes

end Dnp.C09
