import DnpProofs.Lemmas.Consistent2
import DnpProofs.Lemmas.ReduceDims
set_option linter.unusedSectionVars false
/-!
# C10 — NumPy functions on data objects agree with NumPy and keep the labels

`f` ranges over every element function / list reduction, so one theorem covers the whole
registry of ufuncs and reductions; NumPy's own evaluation of `f` is L0 (trusted, compared
in the correspondence run).
-/
namespace Dnp.C10
open Np Dnp Dnp.Data
variable {κ α : Type} [Inhabited α] [Inhabited κ]

/-- unary ufunc (also data∘scalar and scalar∘data): labels untouched, values = f elementwise -/
theorem ufunc_unary_spec (d : Data κ α) (n : String) (f : α → α) (h : d.Consistent) :
    (d.npUnary n f).dims = d.dims ∧ (d.npUnary n f).coords = d.coords ∧
    (d.npUnary n f).values = d.values.map f ∧ (d.npUnary n f).Consistent :=
  ⟨rfl, rfl, rfl, npUnary_consistent h n f⟩

/-- binary ufunc on two data objects: every operand contributes its OWN values -/
theorem ufunc_binary_spec {a b r : Data κ α} (n : String) (f : α → α → α) (ha : a.Consistent) (hb : b.Consistent)
    (hr : npBinaryData n f a b = .ok r) :
    r.dims = a.dims ∧ r.coords = a.coords ∧ r.Consistent ∧
    ∀ idx, InB idx a.values.shape → r.values.get idx = f (a.values.get idx) (b.values.get idx) := by
  unfold npBinaryData at hr
  split at hr
  · cases hr
  · rename_i hs
    have hs : a.values.shape = b.values.shape := by simpa using hs
    simp only [Except.ok.injEq] at hr
    subst hr
    have hla : a.values.data.length = size a.values.shape := ha.2.2.2
    have hlb : b.values.data.length = size a.values.shape := by rw [hs]; exact hb.2.2.2
    refine ⟨rfl, rfl, ⟨ha.1, ha.2.1, ha.2.2.1, ?_⟩, ?_⟩
    · simp [Arr.WF, addHist, hla, hlb]
    · intro idx hin
      have hlt := ravel_lt hin
      simp only [Arr.get, addHist, List.getD_eq_getElem?_getD]
      rw [← hs]
      simp [hla, hlb, hlt]

/-- a two-element witness on which the pinned operand substitution returned `f a a` -/
theorem ufunc_binary_pinned_wrong :
    let a : Data Nat Nat := { dims := ["x"], coords := [[0, 1]], values := ⟨[2], [1, 2]⟩ }
    let b : Data Nat Nat := { dims := ["x"], coords := [[0, 1]], values := ⟨[2], [10, 20]⟩ }
    ((npBinaryDataPinned "add" (· + ·) a b).toOption.map (·.values.data)) = some [2, 4] ∧
    ((npBinaryData "add" (· + ·) a b).toOption.map (·.values.data)) = some [11, 22] := by decide +kernel

theorem reduceAxis_get {β : Type} [Inhabited β] (f : List α → β) (a : Arr α) (k : Nat) {idx : List Nat}
    (h : InB idx (eraseAt a.shape k)) :
    (reduceAxis f a k).get idx = f ((List.range (a.shape.getD k 0)).map (fun i => a.get (insertAt idx k i))) := by
  unfold reduceAxis
  exact Arr.get_ofFn _ h

/-- reduction with the axis given by name: exactly that dimension and its coordinate are removed,
    every remaining element is `f` of the trace along it, and the result is consistent -/
theorem reduce_name_spec {d r : Data κ α} (n : String) (f : List α → α) {s : String} (h : d.Consistent)
    (hrank : d.dims.length ≠ 1) (hr : d.npReduce n f (.name s) = .ok (.inl r)) :
    s ∈ d.dims ∧ r.dims = eraseAt d.dims (d.index s) ∧ r.coords = eraseAt d.coords (d.index s) ∧ r.Consistent ∧
    ∀ idx, InB idx (eraseAt d.values.shape (d.index s)) →
      r.values.get idx = f ((List.range (d.ext s)).map (fun i => d.values.get (insertAt idx (d.index s) i))) := by
  unfold npReduce at hr
  simp only at hr
  by_cases hm0 : s ∈ d.dims
  · rw [if_neg (not_not.2 hm0), if_neg hrank] at hr
    cases hq : d.reduceDim f s with
    | error e => rw [hq] at hr; cases hr
    | ok q =>
      rw [hq] at hr
      simp only [Except.map, Except.ok.injEq, Sum.inl.injEq] at hr
      subst hr
      obtain ⟨hm, hd, hc, hv, _, _⟩ := reduceDim_dims f hq
      refine ⟨hm, hd, hc, addHist_consistent (reduceDim_consistent f h hq) _ _, ?_⟩
      intro idx hin
      show q.values.get idx = _
      rw [hv]
      exact reduceAxis_get f d.values _ hin
  · rw [if_pos hm0] at hr; cases hr

/-- a positional axis (negative from the end) is the dimension at that position -/
theorem reduce_pos_eq_name (d : Data κ α) (n : String) (f : List α → α) (i : Int) 
    (hi : -(d.dims.length : Int) ≤ i ∧ i < d.dims.length) :
    d.npReduce n f (.pos i) =
      d.npReduce n f (.name (d.dims.getD (if i < 0 then i + d.dims.length else i).toNat "")) := by
  have hk : (if i < 0 then i + d.dims.length else i).toNat < d.dims.length := by
    split <;> omega
  have hm : d.dims.getD (if i < 0 then i + d.dims.length else i).toNat "" ∈ d.dims := by
    rw [List.getD_eq_getElem?_getD, List.getElem?_eq_getElem hk]; exact List.getElem_mem hk
  unfold npReduce
  simp only
  have h1 : ¬ (i ≥ (d.dims.length : Int) ∨ i < -(d.dims.length : Int)) := by omega
  rw [if_neg h1, if_neg (not_not.2 hm)]

/-- a full reduction returns NumPy's scalar for the object's own values -/
theorem reduce_full (d : Data κ α) (n : String) (f : List α → α) :
    d.npReduce n f .none = .ok (.inr (f d.values.data)) := rfl

/-- an out-of-range positional axis or an unknown name raises and nothing is returned -/
theorem reduce_bad_axis (d : Data κ α) (n : String) (f : List α → α) :
    (∀ s, s ∉ d.dims → d.npReduce n f (.name s) = .error .value) ∧
    (∀ i : Int, (i ≥ d.dims.length ∨ i < -(d.dims.length : Int)) → d.npReduce n f (.pos i) = .error .index) := by
  refine ⟨fun s hs => ?_, fun i hi => ?_⟩
  · unfold npReduce; simp only; rw [if_pos hs]
  · unfold npReduce; simp only; rw [if_pos hi]

/-- tuple-valued axis (names and positions mixed, any order): the object returned has lost EXACTLY the named /
    positioned dimensions with their coordinates, the others keep order and coordinates, whatever the rank -/
theorem reduce_tuple_labels (n : String) (f : List α → α) {d r : Data κ α} {items : List AxItem} (h : d.Consistent)
    (hr : d.npReduce n f (.tuple items) = .ok (.inl r)) :
    ∃ names, resolveItems d.dims items = .ok names ∧ names.Nodup ∧ (∀ x ∈ names, x ∈ d.dims) ∧
      r.Consistent ∧ r.dims = d.dims.filter (fun x => x ∉ names) ∧
      r.coords = (d.dims.filter (fun x => x ∉ names)).map d.coord := by
  obtain ⟨names, h1, h2, h3, h4, h5, h6, _⟩ := npReduce_tuple_spec n f h hr
  exact ⟨names, h1, h2, h3, h4, h5, h6⟩

/-- a repeated dimension in the tuple (by name and by position, say) raises like NumPy does -/
theorem reduce_tuple_duplicate (n : String) (f : List α → α) (d : Data κ α) (items : List AxItem) (names : List String)
    (hi : items ≠ []) (hres : resolveItems d.dims items = .ok names) (hdup : ¬ names.Nodup) :
    d.npReduce n f (.tuple items) = .error .value := by
  unfold npReduce
  simp only [hi, if_false, bind, Except.bind, hres, hdup, not_false_eq_true, if_true]

/-- … and the VALUES: at the surviving labels ℓ the result holds `f` of all source values with those labels, over every
    combination of positions of the consumed dimensions — NumPy's joint reduction, read by name -/
theorem reduce_tuple_values (n : String) (f : List α → α) {d r : Data κ α} {items : List AxItem} (h : d.Consistent)
    (hr : d.npReduce n f (.tuple items) = .ok (.inl r)) :
    ∃ names, resolveItems d.dims items = .ok names ∧
      ∀ ℓ : String → Nat, (∀ nm ∈ d.dims, nm ∉ names → ℓ nm < d.ext nm) →
        r.getN ℓ = f ((List.range (size (names.map d.ext))).map
                      (fun i => d.getN (withNames names (unravel i (names.map d.ext)) ℓ))) := by
  obtain ⟨names, h1, hnd, hsub, _, _, _, _, _, q, hq, rfl⟩ := npReduce_tuple_spec n f h hr
  refine ⟨names, h1, ?_⟩
  intro ℓ hℓ
  have := reduceDims_getN f h hnd hsub hq ℓ hℓ
  simpa [getN, addHist] using this

end Dnp.C10
