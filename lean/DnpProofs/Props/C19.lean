import DnpProofs.Props.C06
set_option linter.unusedSectionVars false
/-!
# C19 — damaged vendor files are never imported as plausible wrong data

The strict reader `decode` is the REFERENCE the real importers are compared with: it says which
byte strings are damaged for a given header, and what the intact import is.  The trichotomy of the
property (raise / warn inconsistent / equal to the intact import label for label) is evaluated on
the real importers by fault enumeration; an importer that ignores trailing bytes but returns the
intact data is accepted by that oracle.
-/
namespace Dnp.C19
open Np Dnp.Layout Dnp.C06

/-- every truncation — inside the header, at a sample boundary, inside a sample, one block short — is refused -/
theorem decode_truncated (L : Layout) (bs : List Byte) (h : bs.length < L.total) : decode L bs = .error .short := by
  unfold decode; rw [if_pos h]

/-- trailing extra bytes are refused unless the format has a trailer -/
theorem decode_extended (L : Layout) (bs : List Byte) (h : bs.length > L.total) (ht : L.trailerOk = false) :
    decode L bs = .error .long := by
  unfold decode
  rw [if_neg (by omega), if_pos ⟨h, by simp [ht]⟩]

/-- whatever is accepted has exactly the declared size, so a header perturbation that changes a
    declared extent (hence the declared total) turns an intact file into a refused one -/
theorem decode_ok_length (L : Layout) (bs : List Byte) (a : Arr Point) (h : decode L bs = .ok a) :
    bs.length = L.total ∨ (L.trailerOk = true ∧ L.total < bs.length) := by
  unfold decode at h
  split at h
  · cases h
  · split at h
    · cases h
    · rename_i h1 h2
      by_cases heq : bs.length = L.total
      · exact Or.inl heq
      · right
        have hgt : bs.length > L.total := by omega
        have : ¬ ¬ L.trailerOk = true := fun hn => h2 ⟨hgt, hn⟩
        exact ⟨by simpa using this, hgt⟩

theorem header_perturbation_refused (L L' : Layout) (bs : List Byte) (a : Arr Point) (hok : decode L bs = .ok a)
    (hexact : bs.length = L.total) (hchg : L'.total ≠ L.total) (ht : L'.trailerOk = false) :
    ∃ e, decode L' bs = .error e := by
  by_cases hlt : bs.length < L'.total
  · exact ⟨_, decode_truncated L' bs hlt⟩
  · exact ⟨_, decode_extended L' bs (by omega) ht⟩

/-- without a stated data length the two readers coincide -/
theorem decodeDeclared_none (L : Layout) (bs : List Byte) : decodeDeclared L none bs = decode L bs := rfl

/-- a format that states the byte length of its data section (TNMR): a header whose extents imply another
    length is refused even though trailing sections are allowed — so a perturbed extent can never be absorbed
    by the trailer and re-read at the wrong stride -/
theorem declared_mismatch_refused (L' : Layout) (n : Nat) (bs : List Byte) (h : n ≠ L'.dataBytes) :
    decodeDeclared L' (some n) bs = .error .inconsistent := by
  unfold decodeDeclared; simp [h]

theorem declared_perturbation_refused (L L' : Layout) (bs : List Byte) (hchg : L'.dataBytes ≠ L.dataBytes) :
    decodeDeclared L' (some L.dataBytes) bs = .error .inconsistent :=
  declared_mismatch_refused L' _ bs (fun h => hchg h.symm)

/-- and with the right stated length it is the strict reader -/
theorem declared_ok (L : Layout) (bs : List Byte) : decodeDeclared L (some L.dataBytes) bs = decode L bs := by
  unfold decodeDeclared; simp

/-- an accepted file always yields an array of the declared logical shape with one point per position -/
theorem decode_ok_shape (L : Layout) (bs : List Byte) (a : Arr Point) (h : decode L bs = .ok a) :
    a.shape = L.logicalShape ∧ a.WF := by
  unfold decode at h
  split at h
  · cases h
  · split at h
    · cases h
    · split at h
      · cases h
      · simp only [Except.ok.injEq] at h
        subst h
        exact ⟨rfl, Arr.ofFn_WF _ _⟩

/-- the content of header, block headers and padding never influences the imported samples -/
theorem filler_irrelevant (L : Layout) (f1 f2 : Byte) (a : Arr Point) (h : Fits L a) :
    decode L (encode L f1 a) = decode L (encode L f2 a) := by
  rw [decode_encode L f1 a h, decode_encode L f2 a h]

/-- concrete: the (2 × 3) VnmrJ-like file of C06 one byte short, one byte long, and with a declared
    extent changed from 3 to 2 (which would otherwise shift the second block) -/
theorem example_damage :
    let L : Layout := { hdr := 2, rowPrefix := 1, rowPad := 0, pointBytes := 1, rowLen := 3, outer := [2], perm := [1, 0],
                        trailerOk := false }
    let bytes : List Byte := [99, 99,  77, 10, 11, 12,  77, 20, 21, 22]
    decode L bytes.dropLast = .error .short ∧ decode L (bytes ++ [0]) = .error .long ∧
    decode { L with rowLen := 2 } bytes = .error .long ∧ decode { L with outer := [3] } bytes = .error .short := by
  decide +kernel

end Dnp.C19
