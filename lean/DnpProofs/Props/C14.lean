import DnpProofs.Props.C08
import DnpProofs.Props.C12
import DnpProofs.Lemmas.Slice
import DnpProofs.Lemmas.Lsq
import Mathlib.Algebra.Module.LinearMap.Defs
import Mathlib.Algebra.Module.Pi
import Mathlib.Algebra.Order.Field.Basic
import Mathlib.Tactic.Linarith
import Mathlib.Tactic.FieldSimp
import Mathlib.Tactic.Abel
set_option linter.unusedSectionVars false
/-!
# C14 — baseline removal, normalisation, resampling and alignment laws

`numpy.polyfit` is external.  The abstract laws are stated for a linear map `P` (S1) that reproduces
every sampled polynomial of degree ≤ deg (S2) and always returns one; section `lsq` then DERIVES S1 and S2
from the routine's documented contract alone — it returns a polynomial of degree ≤ deg minimising the
squared error on the fitting points — whenever those points carry more than deg distinct abscissae
(`lsq_exact`, `lsq_linear`, `lsq_unique`), and instantiates the three laws for `polyval(polyfit(..))`
(`background_lsq_annihilates`, `background_lsq_idempotent`, `background_lsq_linear`).  The contract is a
theorem HYPOTHESIS, not an axiom; the oracle exercises it on the implementation.
-/
namespace Dnp.C14
open Np Dnp Dnp.Data Dnp.C12

/-! ### remove_background = id − P -/
section background
variable {K ι : Type} [Field K]

/-- annihilates any polynomial of the requested degree or lower -/
theorem background_annihilates (P : (ι → K) →ₗ[K] (ι → K)) (IsPoly : (ι → K) → Prop)
    (hfix : ∀ p, IsPoly p → P p = p) (p : ι → K) (hp : IsPoly p) : p - P p = 0 := by
  rw [hfix p hp, sub_self]

/-- applying it twice equals applying it once -/
theorem background_idempotent (P : (ι → K) →ₗ[K] (ι → K)) (IsPoly : (ι → K) → Prop)
    (hrange : ∀ y, IsPoly (P y)) (hfix : ∀ p, IsPoly p → P p = p) (y : ι → K) :
    (y - P y) - P (y - P y) = y - P y := by
  rw [map_sub, hfix (P y) (hrange y), sub_self, sub_zero]

/-- it is linear (real and imaginary parts are fitted separately, each linearly) -/
theorem background_linear (P : (ι → K) →ₗ[K] (ι → K)) (a b : K) (y z : ι → K) :
    (a • y + b • z) - P (a • y + b • z) = a • (y - P y) + b • (z - P z) := by
  rw [map_add, map_smul, map_smul, smul_sub, smul_sub]
  rw [add_sub_add_comm]

end background

/-! ### the least-squares contract of `numpy.polyfit` gives S1 and S2 -/
section lsq
open Polynomial Finset Dnp.Lsq
variable {K ι : Type} [Field K] [LinearOrder K] [IsStrictOrderedRing K] [DecidableEq ι]

/-- **S2**: data sampled from a polynomial of degree ≤ d is fitted by exactly that polynomial -/
theorem lsq_exact {x : ι → K} {S : Finset ι} {d : ℕ} {q p : K[X]} {y : ι → K}
    (hinj : Set.InjOn x S) (hcard : d < S.card) (hp : p.natDegree ≤ d) (hy : ∀ i ∈ S, y i = p.eval (x i))
    (h : IsLsq x S d q y) : q = p := by
  have hpn : Normal x S d p y := by
    intro r _
    apply Finset.sum_eq_zero
    intro i hi
    rw [hy i hi, sub_self, zero_mul]
  exact Normal.unique hinj hcard h.1 hp h.normal hpn

/-- **S1**: the fit of a linear combination is the linear combination of the fits -/
theorem lsq_linear {x : ι → K} {S : Finset ι} {d : ℕ} {q q' q'' : K[X]} {y z : ι → K} (a b : K)
    (hinj : Set.InjOn x S) (hcard : d < S.card)
    (h : IsLsq x S d q y) (h' : IsLsq x S d q' z) (h'' : IsLsq x S d q'' (a • y + b • z)) :
    q'' = C a * q + C b * q' :=
  Normal.unique hinj hcard h''.1 (natDegree_lin a b h.1 h'.1) h''.normal (Normal.lin a b h.normal h'.normal)

/-- the fit is unique, so "the" least-squares polynomial is well defined -/
theorem lsq_unique {x : ι → K} {S : Finset ι} {d : ℕ} {q q' : K[X]} {y : ι → K}
    (hinj : Set.InjOn x S) (hcard : d < S.card) (h : IsLsq x S d q y) (h' : IsLsq x S d q' y) : q = q' :=
  Normal.unique hinj hcard h.1 h'.1 h.normal h'.normal

/-- a sampled polynomial of degree ≤ d -/
def IsPolyOn (x : ι → K) (d : ℕ) (f : ι → K) : Prop :=
  ∃ p : K[X], p.natDegree ≤ d ∧ ∀ i, f i = p.eval (x i)

/-- the background `polyval(polyfit(x[S], y[S], d), x)` as a LINEAR map, for any routine `fit` that meets the
    least-squares contract -/
def bgMap (x : ι → K) (S : Finset ι) (d : ℕ) (hinj : Set.InjOn x S) (hcard : d < S.card)
    (fit : (ι → K) → K[X]) (hfit : ∀ y, IsLsq x S d (fit y) y) : (ι → K) →ₗ[K] (ι → K) where
  toFun y := fun i => (fit y).eval (x i)
  map_add' y z := by
    funext i
    have := lsq_linear (1 : K) 1 hinj hcard (hfit y) (hfit z) (by simpa using hfit (y + z))
    have e : fit (y + z) = fit y + fit z := by simpa using this
    simp [e]
  map_smul' a y := by
    funext i
    have := lsq_linear a (0 : K) hinj hcard (hfit y) (hfit y) (by simpa using hfit (a • y))
    have e : fit (a • y) = C a * fit y := by simpa using this
    simp [e]

theorem bgMap_apply (x : ι → K) (S : Finset ι) (d : ℕ) (hinj : Set.InjOn x S) (hcard : d < S.card)
    (fit : (ι → K) → K[X]) (hfit : ∀ y, IsLsq x S d (fit y) y) (y : ι → K) (i : ι) :
    bgMap x S d hinj hcard fit hfit y i = (fit y).eval (x i) := rfl

/-- the background of anything is a sampled polynomial of degree ≤ d -/
theorem bgMap_range (x : ι → K) (S : Finset ι) (d : ℕ) (hinj : Set.InjOn x S) (hcard : d < S.card)
    (fit : (ι → K) → K[X]) (hfit : ∀ y, IsLsq x S d (fit y) y) (y : ι → K) :
    IsPolyOn x d (bgMap x S d hinj hcard fit hfit y) :=
  ⟨fit y, (hfit y).1, fun _ => rfl⟩

/-- a sampled polynomial of degree ≤ d is its own background -/
theorem bgMap_fix (x : ι → K) (S : Finset ι) (d : ℕ) (hinj : Set.InjOn x S) (hcard : d < S.card)
    (fit : (ι → K) → K[X]) (hfit : ∀ y, IsLsq x S d (fit y) y) (f : ι → K) (hf : IsPolyOn x d f) :
    bgMap x S d hinj hcard fit hfit f = f := by
  obtain ⟨p, hp, hfp⟩ := hf
  funext i
  rw [bgMap_apply, lsq_exact hinj hcard hp (fun i _ => hfp i) (hfit f), hfp i]


/-- remove_background annihilates every sampled polynomial of degree ≤ deg — from the least-squares contract alone -/
theorem background_lsq_annihilates (x : ι → K) (S : Finset ι) (d : ℕ) (hinj : Set.InjOn x S) (hcard : d < S.card)
    (fit : (ι → K) → K[X]) (hfit : ∀ y, IsLsq x S d (fit y) y) (f : ι → K) (hf : IsPolyOn x d f) :
    f - bgMap x S d hinj hcard fit hfit f = 0 :=
  background_annihilates _ (IsPolyOn x d) (bgMap_fix x S d hinj hcard fit hfit) f hf

/-- applying it twice equals applying it once -/
theorem background_lsq_idempotent (x : ι → K) (S : Finset ι) (d : ℕ) (hinj : Set.InjOn x S) (hcard : d < S.card)
    (fit : (ι → K) → K[X]) (hfit : ∀ y, IsLsq x S d (fit y) y) (y : ι → K) :
    (y - bgMap x S d hinj hcard fit hfit y) - bgMap x S d hinj hcard fit hfit (y - bgMap x S d hinj hcard fit hfit y)
      = y - bgMap x S d hinj hcard fit hfit y :=
  background_idempotent _ (IsPolyOn x d) (bgMap_range x S d hinj hcard fit hfit) (bgMap_fix x S d hinj hcard fit hfit) y

/-- it is linear in the data -/
theorem background_lsq_linear (x : ι → K) (S : Finset ι) (d : ℕ) (hinj : Set.InjOn x S) (hcard : d < S.card)
    (fit : (ι → K) → K[X]) (hfit : ∀ y, IsLsq x S d (fit y) y) (a b : K) (y z : ι → K) :
    (a • y + b • z) - bgMap x S d hinj hcard fit hfit (a • y + b • z)
      = a • (y - bgMap x S d hinj hcard fit hfit y) + b • (z - bgMap x S d hinj hcard fit hfit z) :=
  background_linear _ a b y z

/-- the contract is satisfiable and the hypotheses are met by a concrete case: three points 0, 1, 2 fitted by a
    straight line; data on the line y = 1 + 2x is its own fit -/
example : IsLsq (fun i : Fin 3 => (i.val : ℚ)) Finset.univ 1 (C 1 + C 2 * X) (fun i => 1 + 2 * (i.val : ℚ)) := by
  refine Normal.isLsq ?_ ?_
  · exact (natDegree_add_le _ _).trans (max_le (by simp) ((natDegree_C_mul_le _ _).trans (by simp)))
  · intro r _
    apply Finset.sum_eq_zero
    intro i _
    simp

end lsq

/-! ### normalize -/
section normalize
variable {K : Type} [Field K] [LinearOrder K] [IsStrictOrderedRing K]

/-- dividing by the largest magnitude m > 0: every magnitude is ≤ 1 and the largest one is exactly 1;
    the factor 1/m is positive, so signs are kept -/
theorem normalize_max (xs : List K) (m : K) (hm : 0 < m) (hmem : ∃ x ∈ xs, |x| = m) (hle : ∀ x ∈ xs, |x| ≤ m) :
    (∀ y ∈ xs.map (· / m), |y| ≤ 1) ∧ (∃ y ∈ xs.map (· / m), |y| = 1) ∧ 0 < 1 / m := by
  refine ⟨?_, ?_, by positivity⟩
  · intro y hy
    obtain ⟨x, hx, rfl⟩ := List.mem_map.1 hy
    rw [abs_div, abs_of_pos hm, div_le_one hm]; exact hle x hx
  · obtain ⟨x, hx, hxm⟩ := hmem
    exact ⟨x / m, List.mem_map.2 ⟨x, hx, rfl⟩, by rw [abs_div, abs_of_pos hm, hxm, div_self hm.ne']⟩

/-- idempotent: once the largest magnitude is 1, normalising again divides by 1 -/
theorem normalize_idempotent (xs : List K) : xs.map (· / (1 : K)) = xs := by simp

end normalize

/-! ### interp (numpy.interp, piecewise linear) -/
section interp
variable {K : Type} [Field K] [LinearOrder K] [IsStrictOrderedRing K] [Inhabited K]

/-- the model's arithmetic over an ordered field -/
def ordArith (K : Type) [Field K] [LinearOrder K] : Arith K K :=
  { fieldArith K with klt := fun a b => decide (a < b), ltα := fun a b => decide (a < b), abs := fun x => |x| }

theorem go_left (x xb fa fb : K) (xs fs : List K) (h : x < xb) :
    interp1.go (ordArith K) x x fa (xb :: xs) (fb :: fs) = fa := by
  unfold interp1.go
  simp only [ordArith, fieldArith, h, decide_true, if_true, sub_self, id, mul_zero, zero_div, add_zero]

theorem go_skip (x xa xb fa fb : K) (xs fs : List K) (h : ¬ x < xb) (hne : xs ≠ []) :
    interp1.go (ordArith K) x xa fa (xb :: xs) (fb :: fs) = interp1.go (ordArith K) x xb fb xs fs := by
  conv_lhs => unfold interp1.go
  simp only [ordArith, fieldArith, h, decide_false, Bool.false_eq_true, if_false, hne]

theorem go_last (x xa xb fa fb : K) (h : ¬ x < xb) :
    interp1.go (ordArith K) x xa fa [xb] [fb] = fb := by
  unfold interp1.go
  simp [ordArith, fieldArith, h]

/-- between two neighbouring nodes the value is the straight line through them -/
theorem go_linear (x xa xb fa fb : K) (xs fs : List K) (h : x < xb) :
    interp1.go (ordArith K) x xa fa (xb :: xs) (fb :: fs) = fa + (fb - fa) * (x - xa) / (xb - xa) := by
  unfold interp1.go
  simp only [ordArith, fieldArith, h, decide_true, if_true, id]

/-- at a node the interpolant returns the node's value (strictly increasing abscissae) -/
theorem go_node : ∀ (xs fs : List K) (xa fa : K) (i : ℕ) (hi : i < xs.length), xs.length = fs.length →
    (xa :: xs).Pairwise (· < ·) →
    interp1.go (ordArith K) (xs.getD i default) xa fa xs fs = fs.getD i default
  | [], _, _, _, _, hi, _, _ => by simp at hi
  | xb :: xs, [], _, _, _, _, hl, _ => by simp at hl
  | xb :: xs, fb :: fs, xa, fa, 0, _, hl, hp => by
    simp only [List.getD_cons_zero]
    by_cases hne : xs = []
    · subst hne
      have : fs = [] := by cases fs <;> simp_all
      subst this
      exact go_last xb xa xb fa fb (lt_irrefl _)
    · rw [go_skip xb xa xb fa fb xs fs (lt_irrefl _) hne]
      cases xs with
      | nil => exact absurd rfl hne
      | cons xc xs' =>
        cases fs with
        | nil => simp at hl
        | cons fc fs' =>
          have hlt : xb < xc := by
            have := (List.pairwise_cons.1 (List.pairwise_cons.1 hp).2).1 xc (by simp)
            exact this
          exact go_left xb xc fb fc xs' fs' hlt
  | xb :: xs, fb :: fs, xa, fa, i + 1, hi, hl, hp => by
    simp only [List.getD_cons_succ]
    have hi' : i < xs.length := by simpa using hi
    have hne : xs ≠ [] := by intro e; rw [e] at hi'; simp at hi'
    have hp' := (List.pairwise_cons.1 hp).2
    have hge : ¬ xs.getD i default < xb := by
      have hmem : xs.getD i default ∈ xs := by
        rw [List.getD_eq_getElem?_getD, List.getElem?_eq_getElem hi']; exact List.getElem_mem hi'
      exact not_lt.2 (le_of_lt ((List.pairwise_cons.1 hp').1 _ hmem))
    rw [go_skip _ xa xb fa fb xs fs hge hne]
    exact go_node xs fs xb fb i hi' (by simpa using hl) hp'

/-- walking the nodes from `xa ≤ x`: data lying on the straight line a·x + b is reproduced at every x up to the last node -/
theorem go_affine (a b : K) : ∀ (xs : List K) (xa x : K), (xa :: xs).Pairwise (· < ·) → xa ≤ x →
    x ≤ (xa :: xs).getLast (by simp) →
    interp1.go (ordArith K) x xa (a * xa + b) xs (xs.map (fun t => a * t + b)) = a * x + b
  | [], xa, x, _, h1, h2 => by
    simp only [List.getLast_singleton] at h2
    have : x = xa := le_antisymm h2 h1
    subst this
    simp [interp1.go]
  | xb :: xs, xa, x, hp, h1, h2 => by
    have hab : xa < xb := (List.pairwise_cons.1 hp).1 xb (by simp)
    by_cases hx : x < xb
    · rw [List.map_cons, go_linear x xa xb _ _ _ _ hx]
      have hne : xb - xa ≠ 0 := sub_ne_zero.2 hab.ne'
      field_simp
      ring
    · by_cases hne : xs = []
      · subst hne
        simp only [List.getLast_cons_cons, List.getLast_singleton] at h2
        have : x = xb := le_antisymm h2 (not_lt.1 hx)
        subst this
        simp only [List.map_cons, List.map_nil]
        exact go_last x xa x _ _ (lt_irrefl _)
      · rw [List.map_cons, go_skip x xa xb _ _ _ _ hx (by simpa using hne)]
        refine go_affine a b xs xb x (List.pairwise_cons.1 hp).2 (not_lt.1 hx) ?_
        simpa [List.getLast_cons (List.cons_ne_nil xb xs)] using h2

/-- **interp reproduces linear data exactly**: on strictly increasing nodes, values on the line a·x + b are returned as
    a·x + b at every x between the first and the last node (not only at the nodes) -/
theorem interp1_affine (a b : K) (xp : List K) (hne : xp ≠ []) (hp : xp.Pairwise (· < ·)) (x : K)
    (h1 : xp.head hne ≤ x) (h2 : x ≤ xp.getLast hne) :
    interp1 (ordArith K) xp (xp.map (fun t => a * t + b)) x = a * x + b := by
  cases xp with
  | nil => exact absurd rfl hne
  | cons x0 xs =>
    simp only [List.head_cons] at h1
    unfold interp1
    simp only [List.map_cons]
    have hnlt : ¬ x < x0 := not_lt.2 h1
    by_cases hxs : xs = []
    · subst hxs
      simp only [List.getLast_singleton] at h2
      have : x = x0 := le_antisymm h2 h1
      subst this
      simp [ordArith, fieldArith]
    · simp only [ordArith, fieldArith, hnlt, decide_false, Bool.false_eq_true, hxs, or_self, if_false]
      exact go_affine a b xs x0 x hp h1 h2

/-- interp on the object's own coordinates is the identity (every trace, via the bracket theorem) -/
theorem interp_self (xp fp : List K) (hl : xp.length = fp.length) (hp : xp.Pairwise (· < ·)) :
    xp.map (interp1 (ordArith K) xp fp) = fp := by
  cases xp with
  | nil => cases fp <;> simp_all
  | cons x0 xs =>
    cases fp with
    | nil => simp at hl
    | cons f0 fs =>
      have hl' : xs.length = fs.length := by simpa using hl
      apply List.ext_getElem (by simpa using hl)
      intro k h1 h2
      rw [List.getElem_map]
      cases k with
      | zero =>
        simp only [List.getElem_cons_zero]
        unfold interp1
        by_cases hne : xs = []
        · simp [ordArith, fieldArith, hne]
        · simp only [ordArith, fieldArith, lt_irrefl, decide_false, Bool.false_eq_true, hne, or_self, if_false]
          cases xs with
          | nil => exact absurd rfl hne
          | cons x1 xs' =>
            cases fs with
            | nil => simp at hl'
            | cons f1 fs' =>
              have hlt : x0 < x1 := (List.pairwise_cons.1 hp).1 x1 (by simp)
              exact go_left x0 x1 f0 f1 xs' fs' hlt
      | succ k =>
        simp only [List.getElem_cons_succ]
        have hk : k < xs.length := by simpa using h1
        have hmem : xs[k] ∈ xs := List.getElem_mem hk
        have hgt : x0 < xs[k] := (List.pairwise_cons.1 hp).1 _ hmem
        have hne : xs ≠ [] := by intro e; rw [e] at hk; simp at hk
        unfold interp1
        have hnlt : ¬ xs[k] < x0 := not_lt.2 hgt.le
        simp only [ordArith, fieldArith, hnlt, decide_false, Bool.false_eq_true, hne, or_self, if_false]
        have := go_node xs fs x0 f0 k hk hl' hp
        simp only [List.getD_eq_getElem?_getD, List.getElem?_eq_getElem hk, Option.getD_some,
          List.getElem?_eq_getElem (hl' ▸ hk)] at this
        exact this

/-! unit independence of resampling -/
theorem go_scale (s : K) (hs : 0 < s) (x : K) : ∀ (xs fs : List K) (xa fa : K),
    interp1.go (ordArith K) (s * x) (s * xa) fa (xs.map (s * ·)) fs = interp1.go (ordArith K) x xa fa xs fs
  | [], _, _, _ => by simp [interp1.go]
  | _ :: _, [], _, _ => by simp [interp1.go]
  | xb :: xs, fb :: fs, xa, fa => by
    simp only [List.map_cons, interp1.go, ordArith, fieldArith, id]
    have hlt : (s * x < s * xb) ↔ (x < xb) := mul_lt_mul_iff_right₀ hs
    have hmap : (xs.map (s * ·) = []) ↔ (xs = []) := by simp
    by_cases h : x < xb
    · simp only [h, hlt.2 h, decide_true, if_true]
      rw [← mul_sub, ← mul_sub, mul_div_assoc, mul_div_mul_left _ _ hs.ne', ← mul_div_assoc]
    · have h' : ¬ s * x < s * xb := fun hh => h (hlt.1 hh)
      simp only [h, h', decide_false, Bool.false_eq_true, if_false, hmap]
      by_cases he : xs = []
      · simp [he]
      · simp only [he, if_false]
        exact go_scale s hs x xs fs xb fb

/-- resampling does not depend on the unit of the axis: nodes and target in another unit give the same value -/
theorem interp1_scale (s : K) (hs : 0 < s) (xp fp : List K) (x : K) :
    interp1 (ordArith K) (xp.map (s * ·)) fp (s * x) = interp1 (ordArith K) xp fp x := by
  cases xp with
  | nil => rfl
  | cons x0 xs =>
    cases fp with
    | nil => rfl
    | cons f0 fs =>
      simp only [List.map_cons, interp1, ordArith, fieldArith]
      have hlt : (s * x < s * x0) ↔ (x < x0) := mul_lt_mul_iff_right₀ hs
      have hmap : (xs.map (s * ·) = []) ↔ (xs = []) := by simp
      simp only [hlt, hmap, decide_eq_true_eq]
      split
      · rfl
      · exact go_scale s hs x xs fs x0 f0


end interp

/-! ### left_shift and ndalign -/

/-- left_shift removes exactly the first n points: the slice `n:` selects positions n … len−1 -/
theorem left_shift_positions (len n : ℕ) (h : n ≤ len) :
    pySlice len (some (n : ℤ)) none none = List.range' n (len - n) := pySlice_some_none h

variable {κ α : Type} [Inhabited α] [Inhabited κ]

/-- ndalign only shifts each trace circularly … -/
theorem mem_zipWith_roll {γ : Type} (g : ℤ → ℤ) : ∀ (cs : List (List γ)) (ds : List ℤ) (c : List γ),
    c ∈ List.zipWith (fun c d => rollInt c (g d)) cs ds → ∃ c0 ∈ cs, ∃ s : ℤ, c = rollInt c0 s
  | [], _, _, h => by simp at h
  | _ :: _, [], _, h => by simp at h
  | c0 :: cs, d :: ds, c, h => by
    simp only [List.zipWith_cons_cons, List.mem_cons] at h
    rcases h with rfl | h
    · exact ⟨c0, by simp, g d, rfl⟩
    · obtain ⟨c1, h1, s, hs⟩ := mem_zipWith_roll g cs ds c h
      exact ⟨c1, by simp [h1], s, hs⟩

theorem ndalign_only_rolls (A : Arith κ α) (cs : List (List α)) :
    ∀ c ∈ ndalignCols A cs, ∃ c0 ∈ cs, ∃ s : ℤ, c = rollInt c0 s := by
  intro c hc
  unfold ndalignCols at hc
  exact mem_zipWith_roll _ _ _ c hc

/-- … and leaves the first trace untouched -/
theorem ndalign_first_untouched (A : Arith κ α) (c : List α) (cs : List (List α)) :
    (ndalignCols A (c :: cs)).head? = some c := by
  unfold ndalignCols
  simp only [List.map_cons, List.headD_cons, List.zipWith_cons_cons, List.head?_cons, sub_self, neg_zero,
    Option.some.injEq]
  unfold rollInt roll
  split
  · rfl
  · simp

end Dnp.C14
