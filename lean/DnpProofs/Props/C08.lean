import DnpProofs.Lemmas.Along
import DnpModel.Proc.Funcs
set_option linter.unusedSectionVars false
/-!
# C08 — processing acts along the named dimension only

`trace d dim ℓ` is the 1-D trace of `d` along `dim` at the other labels of the by-name index ℓ.
Both mechanisms the processing functions use are *trace-local by name*:
the result at ℓ is a function of that one trace (and of ℓ dim), for every rank and every
position of `dim`.  Permutation equivariance is a corollary, because a trace read by name does
not see the storage order.
-/
namespace Dnp.C08
open Np Dnp Dnp.Data
variable {κ α : Type} [Inhabited α] [Inhabited κ]

/-- the unfold…fold bracket (phase, normalize, interp, smooth, remove_background, autophase, …) -/
theorem bracket_trace_local (arange : Nat → List κ) {d r : Data κ α} {dim : String} (h : List α → List α) (n' : Nat)
    (newCoord : Option (List κ)) (hd : d.Consistent) (hf : d.unf = none) (hdim : dim ∈ d.dims)
    (hfi : "fold_index" ∉ d.dims) (hnc : ∀ c, newCoord = some c → c.length = n') (hn : newCoord = none → n' = d.ext dim)
    (hr : d.bracket arange dim (fun _ => h) n' newCoord = .ok r) :
    r.dims = d.dims ∧ r.Consistent ∧ (∀ nm ∈ d.dims, nm ≠ dim → r.coord nm = d.coord nm) ∧
    r.coord dim = newCoord.getD (d.coord dim) ∧
    ∀ ℓ : String → Nat, (∀ nm ∈ d.dims, nm ≠ dim → ℓ nm < d.ext nm) → ℓ dim < n' →
      r.getN ℓ = (h (d.trace dim ℓ)).getD (ℓ dim) default :=
  bracket_spec arange (fun _ => h) n' newCoord hd hf hdim hfi hnc hn hr

/-- the axis-index mechanism (fft, apodize, integrate, cumulative_integrate, average, …) -/
theorem mapAlong_trace_local {d r : Data κ α} {dim : String} (h : List α → List α) (m : Nat) (nc : Option (List κ))
    (hd : d.Consistent) (hr : d.mapAlong dim h m nc = .ok r) :
    ∀ ℓ : String → Nat, (∀ nm ∈ d.dims, nm ≠ dim → ℓ nm < d.ext nm) → ℓ dim < m →
      r.getN ℓ = (h (d.trace dim ℓ)).getD (ℓ dim) default :=
  (mapAlong_spec h m nc hd hr).2.2

/-- reductions along a named dimension -/
theorem reduce_trace_local {d r : Data κ α} {dim : String} (f : List α → α) (hd : d.Consistent)
    (hr : d.reduceDim f dim = .ok r) :
    ∀ ℓ : String → Nat, (∀ nm ∈ d.dims, nm ≠ dim → ℓ nm < d.ext nm) → r.getN ℓ = f (d.trace dim ℓ) :=
  reduceDim_spec f hd hr

/-- the two mechanisms agree: a function written with unfold/fold computes the same labelled
    result as the same trace function applied along the axis index -/
theorem mapAlong_eq_bracket (arange : Nat → List κ) {d r1 r2 : Data κ α} {dim : String} (h : List α → List α)
    (hd : d.Consistent) (hf : d.unf = none) (hdim : dim ∈ d.dims) (hfi : "fold_index" ∉ d.dims)
    (h1 : d.bracket arange dim (fun _ => h) (d.ext dim) none = .ok r1)
    (h2 : d.mapAlong dim h (d.ext dim) none = .ok r2)
    (ℓ : String → Nat) (hℓ : ∀ nm ∈ d.dims, ℓ nm < d.ext nm) : r1.getN ℓ = r2.getN ℓ := by
  rw [(bracket_spec arange (fun _ => h) _ none hd hf hdim hfi (by simp) (by simp) h1).2.2.2.2 ℓ
        (fun nm hnm _ => hℓ nm hnm) (hℓ dim hdim),
      (mapAlong_spec h _ none hd h2).2.2 ℓ (fun nm hnm _ => hℓ nm hnm) (hℓ dim hdim)]

/-- a trace read by name does not see the storage order -/
theorem trace_permuted {d : Data κ α} (hd : d.Consistent) {ds' : List String} (hp : ds'.Perm d.dims)
    {dim : String} (hdim : dim ∈ d.dims) (ℓ : String → Nat) (hℓ : ∀ nm ∈ d.dims, nm ≠ dim → ℓ nm < d.ext nm) :
    (d.permuted ds').trace dim ℓ = d.trace dim ℓ := by
  obtain ⟨h1, h2, h3⟩ := permuted_spec hd hp
  have hext : (d.permuted ds').ext dim = d.ext dim := by
    rw [h1.ext_eq (hp.mem_iff.2 hdim), hd.ext_eq hdim, h2 dim hdim]
  unfold trace
  rw [hext]
  apply List.map_congr_left
  intro i hi
  apply h3
  intro nm hnm
  by_cases hne : nm = dim
  · subst hne; simpa using hi
  · simpa [hne] using hℓ nm hnm hne

/-- **Permutation equivariance** for every function built on the bracket: permuting the input's
    axes (any permutation, given as a list of names) and then applying the function gives the
    same labelled result as applying it first -/
theorem bracket_perm_equivariant (arange : Nat → List κ) {d r r' : Data κ α} {dim : String} {ds' : List String}
    (h : List α → List α) (hd : d.Consistent) (hf : d.unf = none) (hdim : dim ∈ d.dims)
    (hfi : "fold_index" ∉ d.dims) (hp : ds'.Perm d.dims)
    (hr : d.bracket arange dim (fun _ => h) (d.ext dim) none = .ok r)
    (hr' : (d.permuted ds').bracket arange dim (fun _ => h) ((d.permuted ds').ext dim) none = .ok r')
    (ℓ : String → Nat) (hℓ : ∀ nm ∈ d.dims, ℓ nm < d.ext nm) : r'.getN ℓ = r.getN ℓ := by
  obtain ⟨h1, h2, _⟩ := permuted_spec hd hp
  have hext : ∀ nm ∈ d.dims, (d.permuted ds').ext nm = d.ext nm := fun nm hnm => by
    rw [h1.ext_eq (hp.mem_iff.2 hnm), hd.ext_eq hnm, h2 nm hnm]
  have hdim' : dim ∈ (d.permuted ds').dims := hp.mem_iff.2 hdim
  have hfi' : "fold_index" ∉ (d.permuted ds').dims := fun hh => hfi (hp.mem_iff.1 hh)
  rw [(bracket_spec arange (fun _ => h) _ none hd hf hdim hfi (by simp) (by simp) hr).2.2.2.2 ℓ
        (fun nm hnm _ => hℓ nm hnm) (hℓ dim hdim),
      (bracket_spec arange (fun _ => h) _ none h1 hf hdim' hfi' (by simp) (by simp) hr').2.2.2.2 ℓ
        (fun nm hnm _ => by rw [hext nm (hp.mem_iff.1 hnm)]; exact hℓ nm (hp.mem_iff.1 hnm))
        (by rw [hext dim hdim]; exact hℓ dim hdim),
      trace_permuted hd hp hdim ℓ (fun nm hnm _ => hℓ nm hnm)]

/-- the same for the axis-index mechanism -/
theorem mapAlong_perm_equivariant {d r r' : Data κ α} {dim : String} {ds' : List String}
    (h : List α → List α) (hd : d.Consistent) (hdim : dim ∈ d.dims) (hp : ds'.Perm d.dims)
    (hr : d.mapAlong dim h (d.ext dim) none = .ok r)
    (hr' : (d.permuted ds').mapAlong dim h ((d.permuted ds').ext dim) none = .ok r')
    (ℓ : String → Nat) (hℓ : ∀ nm ∈ d.dims, ℓ nm < d.ext nm) : r'.getN ℓ = r.getN ℓ := by
  obtain ⟨h1, h2, _⟩ := permuted_spec hd hp
  have hext : ∀ nm ∈ d.dims, (d.permuted ds').ext nm = d.ext nm := fun nm hnm => by
    rw [h1.ext_eq (hp.mem_iff.2 hnm), hd.ext_eq hnm, h2 nm hnm]
  rw [(mapAlong_spec h _ none hd hr).2.2 ℓ (fun nm hnm _ => hℓ nm hnm) (hℓ dim hdim),
      (mapAlong_spec h _ none h1 hr').2.2 ℓ
        (fun nm hnm _ => by rw [hext nm (hp.mem_iff.1 hnm)]; exact hℓ nm (hp.mem_iff.1 hnm))
        (by rw [hext dim hdim]; exact hℓ dim hdim),
      trace_permuted hd hp hdim ℓ (fun nm hnm _ => hℓ nm hnm)]

/-- exact integer arithmetic for the concrete witnesses -/
def intArith : Arith Int Int where
  add := fun a b => a + b
  sub := fun a b => a - b
  mul := fun a b => a * b
  div := fun a b => a / b
  zero := 0
  two := 2
  ofκ := id
  ofNat := fun n => n
  ksub := fun a b => a - b
  kadd := fun a b => a + b
  kmul := fun a b => a * b
  kdiv := fun a b => a / b
  kofNat := fun n => n
  klt := fun a b => decide (a < b)
  abs := fun x => if x < 0 then -x else x
  ltα := fun a b => decide (a < b)

def intRange (n : Nat) : List Int := (List.range n).map (fun k => (k : Int))

/-- the pinned `interp` on a (2,3) object interpolated along its SECOND dimension to 4 points:
    the pinned code patched folded_shape at the wrong position and fold() raised, the repaired
    code returns the (2,4) result -/
theorem interpPinned_breaks :
    let d : Data Int Int := { dims := ["x", "t"], coords := [[0, 1], [0, 2, 4]], values := ⟨[2, 3], [0, 2, 4, 10, 12, 14]⟩ }
    ((interpPinned intArith intRange d "t" [0, 1, 2, 3]).toOption.isSome = false) ∧
    ((interp intArith intRange d "t" [0, 1, 2, 3]).toOption.map (fun r => (r.dims, r.values.shape, r.values.data)))
      = some (["x", "t"], [2, 4], [0, 1, 2, 3, 10, 11, 12, 13]) := by decide +kernel

section perFunction
variable (A : Arith κ α)

/-- `interp` is trace-wise: at any labels of the other dimensions the result is the 1-D interpolation of that trace alone -/
theorem interp_trace_local (arange : Nat → List κ) {d r : Data κ α} {dim : String} (newc : List κ)
    (hd : d.Consistent) (hf : d.unf = none) (hdim : dim ∈ d.dims) (hfi : "fold_index" ∉ d.dims)
    (hr : d.interp A arange dim newc = .ok r) :
    r.dims = d.dims ∧ r.coord dim = newc ∧ (∀ nm ∈ d.dims, nm ≠ dim → r.coord nm = d.coord nm) ∧
    ∀ ℓ : String → Nat, (∀ nm ∈ d.dims, nm ≠ dim → ℓ nm < d.ext nm) → ℓ dim < newc.length →
      r.getN ℓ = (newc.map (interp1 A (d.coord dim) (d.trace dim ℓ))).getD (ℓ dim) default := by
  simp only [Data.interp, bind, Except.bind] at hr
  split at hr
  · cases hr
  · rename_i q hq
    simp only [Except.ok.injEq] at hr
    subst hr
    obtain ⟨h1, _, h3, h4, h5⟩ := bracket_trace_local arange (fun c => newc.map (interp1 A (d.coord dim) c)) newc.length
      (some newc) hd hf hdim hfi (by intro c hc; cases hc; rfl) (by intro h; cases h) hq
    exact ⟨h1, h4, h3, h5⟩

/-- `normalize(dim=…)` is trace-wise: every trace is divided by its own largest magnitude -/
theorem normalize_trace_local (arange : Nat → List κ) {d r : Data κ α} {dim : String}
    (hd : d.Consistent) (hf : d.unf = none) (hdim : dim ∈ d.dims) (hfi : "fold_index" ∉ d.dims)
    (hr : d.normalize A arange (some dim) = .ok r) :
    r.dims = d.dims ∧ (∀ nm ∈ d.dims, r.coord nm = d.coord nm) ∧
    ∀ ℓ : String → Nat, (∀ nm ∈ d.dims, ℓ nm < d.ext nm) →
      r.getN ℓ = A.div (d.getN ℓ) (maxAbs A (d.trace dim ℓ)) := by
  simp only [Data.normalize, hdim, not_true_eq_false, if_false, bind, Except.bind] at hr
  split at hr
  · cases hr
  · rename_i q hq
    simp only [Except.ok.injEq] at hr
    subst hr
    obtain ⟨h1, _, h3, h4, h5⟩ := bracket_trace_local arange (fun c => c.map (fun x => A.div x (maxAbs A c))) (d.ext dim)
      none hd hf hdim hfi (by intro c hc; cases hc) (by intro _; rfl) hq
    refine ⟨h1, ?_, ?_⟩
    · intro nm hnm
      by_cases hne : nm = dim
      · subst hne; exact (by simpa using h4 : q.coord nm = d.coord nm)
      · exact h3 nm hnm hne
    · intro ℓ hℓ
      have := h5 ℓ (fun nm hnm _ => hℓ nm hnm) (hℓ dim hdim)
      show q.getN ℓ = _
      rw [this]
      have hlen : ℓ dim < (d.trace dim ℓ).length := by simp [trace]; exact hℓ dim hdim
      rw [List.getD_eq_getElem?_getD, List.getElem?_map, List.getElem?_eq_getElem hlen]
      simp only [Option.map_some, Option.getD_some]
      congr 1
      simp only [trace, List.getElem_map, List.getElem_range]
      unfold getN
      congr 1
      apply List.map_congr_left
      intro x _
      by_cases hx : x = dim
      · simp [hx]
      · simp [hx]

end perFunction

end Dnp.C08
