import DnpProofs.Props.C08
import DnpModel.Proc.Lineshape
import DnpModel.Proc.Fit
import Mathlib.Tactic.FieldSimp
import Mathlib.Tactic.Ring
import Mathlib.Analysis.SpecialFunctions.Gaussian.GaussianIntegral
import Mathlib.Analysis.SpecialFunctions.Integrals.Basic
import Mathlib.MeasureTheory.Integral.IntegralEqImproper
import Mathlib.Analysis.Calculus.Deriv.Inv
import Mathlib.Analysis.SpecialFunctions.ImproperIntegrals
import Mathlib.MeasureTheory.Measure.Haar.NormedSpace
set_option linter.unusedSectionVars false
/-!
# C18 — fits label their parameters; lineshapes are normalised

`scipy.optimize.curve_fit` is a parameter (`solve`): that it recovers generating parameters is not a
theorem.  The Voigt profile (scipy.special.wofz) is not modelled.  What is proved: where the
per-trace parameters land, and the analytic facts about the Gaussian and Lorentzian formulas.
-/
namespace Dnp.C18
open Np Dnp Dnp.Data Dnp.Lineshape MeasureTheory Real
open Dnp.Window (Transc)

noncomputable def realT : Transc ℝ :=
  { exp := Real.exp, cos := Real.cos, sqrt := Real.sqrt, log := Real.log, pi := Real.pi,
    ofNat := fun n => (n : ℝ), half := 1 / 2, hamA := 0.53836, hamB := 0.46164, c06 := 0.6 }

/-! ### lineshapes over ℝ -/

/-- symmetric about the centre -/
theorem gaussian_symm (x0 s A t : ℝ) : gaussian realT (x0 + t) x0 s A = gaussian realT (x0 - t) x0 s A := by
  unfold gaussian; simp only [realT]; ring_nf

theorem lorentzian_symm (x0 g A t : ℝ) : lorentzian realT (x0 + t) x0 g A = lorentzian realT (x0 - t) x0 g A := by
  unfold lorentzian; simp only [realT]; ring_nf

/-- the derivative variant IS the derivative of the Lorentzian -/
theorem lorentzian_hasDeriv (x x0 g A : ℝ) (hg : g ≠ 0) :
    HasDerivAt (fun t => lorentzian realT t x0 g A) (lorentzianDeriv realT x x0 g A) x := by
  unfold lorentzian lorentzianDeriv
  simp only [realT]
  have hden : (x - x0) * (x - x0) + g * g ≠ 0 := by
    have h1 : 0 ≤ (x - x0) * (x - x0) := mul_self_nonneg _
    have h2 : 0 < g * g := mul_self_pos.2 hg
    exact (by linarith : 0 < (x - x0) * (x - x0) + g * g).ne'
  have h1 : HasDerivAt (fun t : ℝ => (t - x0) * (t - x0) + g * g) (2 * (x - x0)) x := by
    have := ((hasDerivAt_id x).sub_const x0)
    have h2 := (this.mul this).add_const (g * g)
    refine h2.congr_deriv ?_
    simp only [id, one_mul, mul_one]; ring
  have h3 := (h1.inv hden).const_mul (A * ((1 : ℕ) / (Real.pi * g)) * (g * g))
  have hf : (fun t : ℝ => A * (((1 : ℕ) : ℝ) / (Real.pi * g)) * (g * g) / ((t - x0) * (t - x0) + g * g))
      = fun y => A * (((1 : ℕ) : ℝ) / (Real.pi * g)) * (g * g) * (fun t : ℝ => (t - x0) * (t - x0) + g * g)⁻¹ y := by
    funext t; simp [div_eq_mul_inv]
  rw [hf]
  refine h3.congr_deriv ?_
  have hpi : Real.pi * g ≠ 0 := mul_ne_zero Real.pi_ne_zero hg
  push_cast
  field_simp

/-- the Gaussian's area equals its `integral` argument (σ > 0) -/
theorem gaussian_area (x0 s A : ℝ) (hs : 0 < s) : ∫ x : ℝ, gaussian realT x x0 s A = A := by
  unfold gaussian
  simp only [realT]
  have hb : (0 : ℝ) < 1 / (2 * s ^ 2) := by positivity
  have hfun : (fun x : ℝ => A / (s * √((2 : ℕ) * π)) * rexp (-((x - x0) * (x - x0)) / ((2 : ℕ) * (s * s))))
      = fun x => (A / (s * √(2 * π))) * (fun y : ℝ => rexp (-(1 / (2 * s ^ 2)) * y ^ 2)) (x - x0) := by
    funext x
    have e1 : (((2 : ℕ) : ℝ) * π) = 2 * π := by norm_num
    have e2 : -((x - x0) * (x - x0)) / (((2 : ℕ) : ℝ) * (s * s)) = -(1 / (2 * s ^ 2)) * (x - x0) ^ 2 := by
      push_cast; field_simp
    rw [e1, e2]
  rw [hfun, integral_const_mul, integral_sub_right_eq_self (fun y : ℝ => rexp (-(1 / (2 * s ^ 2)) * y ^ 2)) x0,
    integral_gaussian]
  have : π / (1 / (2 * s ^ 2)) = (s * √(2 * π)) ^ 2 / 1 := by
    rw [mul_pow, Real.sq_sqrt (by positivity)]; field_simp
  rw [this, div_one, Real.sqrt_sq (by positivity)]
  field_simp

/-- the Lorentzian's area equals its `integral` argument (γ > 0) -/
theorem lorentzian_area (x0 g A : ℝ) (hg : 0 < g) : ∫ x : ℝ, lorentzian realT x x0 g A = A := by
  unfold lorentzian
  simp only [realT]
  have hfun : (fun x : ℝ => A * (((1 : ℕ) : ℝ) / (π * g)) * (g * g) / ((x - x0) * (x - x0) + g * g))
      = fun x => (A / (π * g)) * (fun y : ℝ => (fun z : ℝ => (1 + z ^ 2)⁻¹) (y / g)) (x - x0) := by
    funext x
    have hgne : g ≠ 0 := hg.ne'
    have hden : (x - x0) * (x - x0) + g * g ≠ 0 := by nlinarith [mul_self_nonneg (x - x0), mul_self_pos.2 hgne]
    have hden2 : 1 + ((x - x0) / g) ^ 2 ≠ 0 := by positivity
    push_cast
    field_simp
    ring
  rw [hfun, integral_const_mul, integral_sub_right_eq_self (fun y : ℝ => (fun z : ℝ => (1 + z ^ 2)⁻¹) (y / g)) x0,
    Measure.integral_comp_div (fun z : ℝ => (1 + z ^ 2)⁻¹) g, integral_univ_inv_one_add_sq, abs_of_pos hg]
  have hgne : g ≠ 0 := hg.ne'
  simp only [smul_eq_mul]
  field_simp

variable {κ α : Type} [Inhabited α] [Inhabited κ]

/-! ### where the fitted parameters land -/

/-- the parameters of every trace are returned under a leading dimension `popt` followed by the
    remaining dimensions with their coordinates, wherever the fitted dimension sits in the input:
    element (p, r) is parameter p of the fit of the trace at the other labels r -/
theorem popt_labels (arange : Nat → List κ) {d r : Data κ α} {dim : String} (np : Nat) (solve : List α → List α)
    (hd : d.Consistent) (hf : d.unf = none) (hdim : dim ∈ d.dims) (hfi : "fold_index" ∉ d.dims)
    (hp : "popt" ∉ d.dims) (har : (arange np).length = np) (hr : d.fitPopt arange dim np solve = .ok r) :
    r.dims = "popt" :: d.dims.filter (· != dim) ∧ r.Consistent ∧
    (∀ nm ∈ d.dims, nm ≠ dim → r.coord nm = d.coord nm) ∧
    ∀ ℓ : String → Nat, (∀ nm ∈ d.dims, nm ≠ dim → ℓ nm < d.ext nm) → ℓ "popt" < np →
      r.getN ℓ = (solve (d.trace dim (fun nm => ℓ nm))).getD (ℓ "popt") default := by
  unfold fitPopt at hr
  have hnp : ¬ ("popt" ∈ d.dims ∧ dim ≠ "popt") := fun h => hp h.1
  simp only [hnp, if_false, bind, Except.bind] at hr
  -- the bracket
  cases hb : d.bracket arange dim (fun _ => solve) np (some (arange np)) with
  | error e => rw [hb] at hr; cases hr
  | ok b =>
    rw [hb] at hr
    simp only at hr
    obtain ⟨hbd, hbc, hbco, _, hbget⟩ := bracket_spec arange (fun _ => solve) np (some (arange np)) hd hf hdim hfi
      (fun c hc => by simp only [Option.some.injEq] at hc; rw [← hc]; exact har) (by simp) hb
    have hdimb : dim ∈ b.dims := by rw [hbd]; exact hdim
    have hsub : ∀ x ∈ [dim], x ∈ b.dims := by simpa using hdimb
    rw [reorder_ok (by simp) hsub] at hr
    simp only at hr
    have hperm := dedup_append_perm hbc.1 hsub
    obtain ⟨h1c, h1co, h1get⟩ := permuted_spec hbc hperm
    have hds : dedup ([dim] ++ b.dims) = dim :: b.dims.filter (· != dim) := dedup_cons_dim hbc.1 dim
    set b1 := b.permuted (dedup ([dim] ++ b.dims)) with hb1
    have hb1dims : b1.dims = dim :: d.dims.filter (· != dim) := by rw [← hbd]; exact hds
    -- rename
    cases hrn : b1.rename dim "popt" with
    | error e => rw [hrn] at hr; cases hr
    | ok b2 =>
      rw [hrn] at hr
      simp only [Except.ok.injEq] at hr
      have h2c := rename_consistent h1c hrn
      have hb2 : b2 = { b1 with dims := setAt b1.dims (b1.index dim) "popt" } := by
        unfold rename at hrn
        split at hrn
        · cases hrn
        · split at hrn
          · cases hrn
          · simp only [Except.ok.injEq] at hrn; exact hrn.symm
      have hidx : b1.index dim = 0 := by
        show List.idxOf dim b1.dims = 0; rw [hb1dims]; simp
      have hb2dims : b2.dims = "popt" :: d.dims.filter (· != dim) := by
        rw [hb2]; simp only [hidx, hb1dims, setAt]
      subst hr
      refine ⟨hb2dims, h2c, ?_, ?_⟩
      · intro nm hnm hne
        have hnm1 : nm ∈ b.dims := by rw [hbd]; exact hnm
        have hk : nm ≠ "popt" := fun e => hp (e ▸ hnm)
        -- coordinate lists are untouched by the rename; read by name through the two dim lists
        show b2.coords.getD (List.idxOf nm b2.dims) [] = _
        have hcoords : b2.coords = b1.coords := by rw [hb2]
        have hi : List.idxOf nm b2.dims = List.idxOf nm b1.dims := by
          rw [hb2dims, hb1dims, List.idxOf_cons_ne _ (Ne.symm hk), List.idxOf_cons_ne _ (Ne.symm hne)]
        rw [hcoords, hi]
        show b1.coord nm = _
        rw [h1co nm hnm1, hbco nm hnm hne]
      · intro ℓ hℓ hℓp
        set ℓ' : String → Nat := fun nm => if nm = dim then ℓ "popt" else ℓ nm with hℓ'
        have hrest : ∀ x ∈ d.dims.filter (· != dim), x ≠ dim ∧ x ∈ d.dims := by
          intro x hx; have := List.mem_filter.1 hx; exact ⟨by simpa using this.2, this.1⟩
        have e1 : b2.getN ℓ = b1.getN ℓ' := by
          unfold getN
          have hv : b2.values = b1.values := by rw [hb2]
          rw [hv, hb2dims, hb1dims]
          congr 1
          simp only [List.map_cons, hℓ', if_true]
          congr 1
          apply List.map_congr_left
          intro x hx
          simp [(hrest x hx).1]
        have hext : ∀ nm ∈ b.dims, ℓ' nm < b.ext nm := by
          intro nm hnm
          have hnm' : nm ∈ d.dims := by rw [← hbd]; exact hnm
          rw [hbc.ext_eq hnm]
          by_cases hne : nm = dim
          · subst hne
            rename_i hcd
            simp only [hℓ', if_true]
            rw [hcd]; simp [har]; exact hℓp
          · simp only [hℓ', hne, if_false]
            rw [hbco nm hnm' hne, ← hd.ext_eq hnm']; exact hℓ nm hnm' hne
        show b2.getN ℓ = _
        rw [e1, h1get ℓ' hext, hbget ℓ' (fun nm hnm hne => by simp only [hℓ', hne, if_false]; exact hℓ nm hnm hne)
          (by simp only [hℓ', if_true]; exact hℓp)]
        simp only [hℓ', if_true]
        congr 2
        exact trace_congr d dim _ _ (fun x hx => by simp [hx])

/-! ### the grid of the fitted curve -/
open Dnp.Fit in
/-- `fit_points = None`: the fitted curve is evaluated on the data axis itself -/
theorem fitGrid_none (coord : List ℚ) (lo hi : ℚ) : fitGrid (fun n => (n : ℚ)) coord lo hi none = coord := rfl

open Dnp.Fit in
/-- `fit_points = n ≥ 2`: exactly n points, the first is the axis minimum, the last the axis maximum, and consecutive
    points are (max − min)/(n − 1) apart — whatever the data axis looks like (log-spaced, descending, …) -/
theorem fitGrid_some (coord : List ℚ) (lo hi : ℚ) (n : ℕ) (hn : 2 ≤ n) :
    let g := fitGrid (fun n => (n : ℚ)) coord lo hi (some n)
    g.length = n ∧ g.head? = some lo ∧ g.getLast? = some hi ∧
    ∀ k, k + 1 < n → g.getD (k + 1) 0 - g.getD k 0 = (hi - lo) / ((n : ℚ) - 1) := by
  intro g
  have hne : n ≠ 1 := by omega
  have hg : g = (List.range n).map (fun (k : ℕ) => lo + (hi - lo) * (k : ℚ) / ((n - 1 : ℕ) : ℚ)) := by
    show linspace _ lo hi n = _
    unfold linspace; rw [if_neg hne]
  have hcast : ((n - 1 : ℕ) : ℚ) = (n : ℚ) - 1 := by
    rw [Nat.cast_sub (by omega)]; simp
  have hpos : (n : ℚ) - 1 ≠ 0 := by
    have : (2 : ℚ) ≤ n := by exact_mod_cast hn
    intro h; linarith
  refine ⟨by rw [hg]; simp, ?_, ?_, ?_⟩
  · rw [hg]
    obtain ⟨m, rfl⟩ : ∃ m, n = m + 1 := ⟨n - 1, by omega⟩
    simp [List.range_succ_eq_map]
  · rw [hg, List.getLast?_map, List.getLast?_range]
    have : n ≠ 0 := by omega
    simp only [this, if_false, Option.map_some, hcast]
    field_simp
    ring
  · intro k hk
    rw [hg]
    simp only [List.getD_eq_getElem?_getD, List.getElem?_map]
    rw [List.getElem?_range hk, List.getElem?_range (by omega)]
    simp only [Option.map_some, Option.getD_some, hcast, Nat.cast_add, Nat.cast_one]
    field_simp
    ring

end Dnp.C18