import DnpProofs.Lemmas.Along
import DnpModel.Proc.Funcs
import DnpModel.Proc.Window
import DnpModel.Generated.Windows
import Mathlib.Analysis.SpecialFunctions.Trigonometric.Basic
import Mathlib.Analysis.SpecialFunctions.Exp
import Mathlib.Analysis.SpecialFunctions.Log.Basic
import Mathlib.Analysis.SpecialFunctions.Sqrt
set_option linter.unusedSectionVars false
/-!
# C15 — apodization multiplies by a coordinate-only window that starts at 1

The window formulas are the generic definitions of `DnpModel/Proc/Window.lean` (the very ones
the driver evaluates in Float against `dnplab.math.window`), instantiated at ℝ.
-/
namespace Dnp.C15
open Np Dnp Dnp.Data Dnp.Window

noncomputable def realT : Transc ℝ :=
  { exp := Real.exp, cos := Real.cos, sqrt := Real.sqrt, log := Real.log, pi := Real.pi,
    ofNat := fun n => (n : ℝ), half := 1 / 2, hamA := 0.53836, hamB := 0.46164, c06 := 0.6 }

/-! ### the window table regenerated from the source -/

/-- every kind of the (regenerated) lookup table dispatches to the window function of the same
    name, and each of them has a formula in the model -/
theorem windowTable_modelled :
    ∀ p ∈ Generated.windowTable, p.1 = p.2 ∧
      p.1 ∈ ["exponential", "gaussian", "hann", "hamming", "lorentz_gauss", "traf", "sin2"] := by decide

variable {κ α : Type} [Inhabited α] [Inhabited κ]

/-- unknown window kinds are rejected (ValueError), known ones are not rejected for their kind -/
theorem apodize_unknown (A : Arith κ α) (d : Data κ α) (dim kind : String) (keys : List String) (w : List α)
    (hk : kind.toLower ∉ Generated.windowKinds) (hdim : dim ∈ d.dims) :
    d.apodize A Generated.windowKinds dim kind keys w = .error .value := by
  unfold apodize
  rw [if_neg (not_not.2 hdim), if_pos hk]

/-- product structure: every element is multiplied by the window value at ITS position along `dim`;
    the window is the same list for every trace and does not look at the other dimensions -/
theorem apodize_spec (A : Arith κ α) {d r : Data κ α} {dim kind : String} (keys : List String) (w : List α)
    (hd : d.Consistent) (hr : d.apodize A Generated.windowKinds dim kind keys w = .ok r) :
    r.dims = d.dims ∧ r.coords = d.coords ∧
    ∀ ℓ : String → Nat, (∀ nm ∈ d.dims, ℓ nm < d.ext nm) → r.getN ℓ = A.mul (d.getN ℓ) (w.getD (ℓ dim) default) := by
  unfold apodize at hr
  split at hr
  · cases hr
  · rename_i hdim
    have hdim : dim ∈ d.dims := by simpa using hdim
    split at hr
    · cases hr
    · simp only [bind, Except.bind] at hr
      split at hr
      · cases hr
      · rename_i q hq
        simp only [Except.ok.injEq] at hr
        subst hr
        unfold scaleAlong at hq
        rw [if_neg (not_not.2 hdim)] at hq
        split at hq
        · cases hq
        · simp only [Except.ok.injEq] at hq
          subst hq
          refine ⟨rfl, rfl, ?_⟩
          intro ℓ hℓ
          simp only [getN, addHist, zipAxis]
          rw [Arr.get_ofFn]
          · rw [show (d.dims.map ℓ).getD (d.index dim) 0 = ℓ dim from getD_map_named hdim ℓ]
          · rw [hd.shape_named, InB_map_iff]; exact hℓ

/-! ### the decaying kinds over ℝ: first point 1, never increasing -/

theorem exponential_closed_form (x0 : ℝ) (xs : List ℝ) (lw : ℝ) :
    exponential realT (x0 :: xs) lw = (x0 :: xs).map (fun t => Real.exp (-Real.pi * (t - x0) * lw)) := rfl

theorem exponential_first (x0 : ℝ) (xs : List ℝ) (lw : ℝ) : (exponential realT (x0 :: xs) lw).head? = some 1 := by
  simp [exponential, realT]

/-- on an ascending axis the exponential window never increases, for every line width ≥ 0 -/
theorem exponential_antitone (x : List ℝ) (lw : ℝ) (hlw : 0 ≤ lw) (hx : x.Pairwise (· ≤ ·)) :
    (exponential realT x lw).Pairwise (· ≥ ·) := by
  cases x with
  | nil => simp [exponential]
  | cons x0 xs =>
    rw [exponential_closed_form, List.pairwise_map]
    refine hx.imp ?_
    intro a b hab
    apply Real.exp_le_exp.2
    have : 0 ≤ Real.pi := Real.pi_pos.le
    nlinarith [mul_nonneg this hlw, mul_nonneg (mul_nonneg this hlw) (sub_nonneg.2 hab)]

theorem gaussian_first (xs : List ℝ) (lw : ℝ) : (gaussian realT (0 :: xs) lw).head? = some 1 := by
  simp [gaussian, realT]

/-- on an ascending axis starting at 0 (t ≥ 0) the gaussian window never increases -/
theorem gaussian_antitone (x : List ℝ) (lw : ℝ) (hx : x.Pairwise (· ≤ ·)) (hpos : ∀ t ∈ x, 0 ≤ t) :
    (gaussian realT x lw).Pairwise (· ≥ ·) := by
  unfold gaussian
  rw [List.pairwise_map]
  have h2 : x.Pairwise (fun a b => a ≤ b ∧ 0 ≤ a) := by
    rw [List.pairwise_iff_getElem] at hx ⊢
    intro i j hi hj hij
    exact ⟨hx i j hi hj hij, hpos _ (List.getElem_mem hi)⟩
  refine h2.imp ?_
  intro a b ⟨hab, ha⟩
  apply Real.exp_le_exp.2
  simp only [realT]
  set s := lw / ((2 : ℕ) * Real.sqrt ((2 : ℕ) * Real.log (2 : ℕ)))
  have hsq : a * a ≤ b * b := by nlinarith
  have hc : 0 ≤ (2 : ℝ) * (Real.pi * Real.pi) * (s * s) :=
    mul_nonneg (mul_nonneg (by norm_num) (mul_self_nonneg _)) (mul_self_nonneg _)
  push_cast
  nlinarith [mul_le_mul_of_nonneg_left hsq hc]

/-- the ramp π·n/(N−1) stays in [0, π] and is ascending -/
theorem ramp_mem (N : ℕ) (hN : 2 ≤ N) (n : ℕ) (hn : n < N) :
    0 ≤ Real.pi * n / ((N - 1 : ℕ) : ℝ) ∧ Real.pi * n / ((N - 1 : ℕ) : ℝ) ≤ Real.pi := by
  have hpos : (0 : ℝ) < ((N - 1 : ℕ) : ℝ) := by exact_mod_cast (by omega : 0 < N - 1)
  constructor
  · have := Real.pi_pos; positivity
  · rw [div_le_iff₀ hpos]
    have : (n : ℝ) ≤ ((N - 1 : ℕ) : ℝ) := by exact_mod_cast (by omega : n ≤ N - 1)
    nlinarith [Real.pi_pos]

theorem cos_window_first (c0 c1 : ℝ) (h : c0 + c1 = 1) (N : ℕ) (hN : 2 ≤ N) :
    ((ramp realT N).map (fun a => c0 + c1 * Real.cos a)).head? = some 1 := by
  unfold ramp
  obtain ⟨m, rfl⟩ : ∃ m, N = m + 1 := ⟨N - 1, by omega⟩
  simp [List.range_succ_eq_map, realT, h]

/-- hann / hamming: c0 + c1·cos(π n/(N−1)) with c1 ≥ 0 never increases along n -/
theorem cos_window_antitone (c0 c1 : ℝ) (hc : 0 ≤ c1) (N : ℕ) (hN : 2 ≤ N) :
    ((ramp realT N).map (fun a => c0 + c1 * Real.cos a)).Pairwise (· ≥ ·) := by
  unfold ramp
  rw [List.pairwise_map, List.pairwise_map]
  have hr : (List.range N).Pairwise (fun a b => a < b ∧ b < N) := by
    rw [List.pairwise_iff_getElem]
    intro i j hi hj hij
    simp only [List.getElem_range]
    simp at hj
    exact ⟨hij, hj⟩
  refine hr.imp ?_
  intro a b ⟨hab, hb⟩
  simp only [realT, ge_iff_le]
  have ha := ramp_mem N hN a (by omega)
  have hb' := ramp_mem N hN b hb
  have hpos : (0 : ℝ) < ((N - 1 : ℕ) : ℝ) := by exact_mod_cast (by omega : 0 < N - 1)
  have hle : Real.pi * a / ((N - 1 : ℕ) : ℝ) ≤ Real.pi * b / ((N - 1 : ℕ) : ℝ) := by
    apply div_le_div_of_nonneg_right _ hpos.le
    have : (a : ℝ) ≤ b := by exact_mod_cast hab.le
    nlinarith [Real.pi_pos]
  have := Real.cos_le_cos_of_nonneg_of_le_pi ha.1 hb'.2 hle
  nlinarith

theorem hann_first (N : ℕ) (hN : 2 ≤ N) : (hann realT N).head? = some 1 := by
  unfold hann; exact cos_window_first (1 / 2) (1 / 2) (by norm_num) N hN

theorem hann_antitone (N : ℕ) (hN : 2 ≤ N) : (hann realT N).Pairwise (· ≥ ·) := by
  unfold hann; exact cos_window_antitone (1 / 2) (1 / 2) (by norm_num) N hN

theorem hamming_first (N : ℕ) (hN : 2 ≤ N) : (hamming realT N).head? = some 1 := by
  unfold hamming; exact cos_window_first 0.53836 0.46164 (by norm_num) N hN

theorem hamming_antitone (N : ℕ) (hN : 2 ≤ N) : (hamming realT N).Pairwise (· ≥ ·) := by
  unfold hamming; exact cos_window_antitone 0.53836 0.46164 (by norm_num) N hN

/-- sin2 = cos(π − a/2)² = cos²(a/2) on the ramp a ∈ [0, π] -/
theorem sin2_eq (a : ℝ) : (Real.cos (-(1 / 2) * a + Real.pi)) * (Real.cos (-(1 / 2) * a + Real.pi)) =
    Real.cos (a / 2) * Real.cos (a / 2) := by
  have : -(1 / 2) * a + Real.pi = Real.pi - a / 2 := by ring
  rw [this, Real.cos_pi_sub]
  ring

theorem sin2_first (N : ℕ) (hN : 2 ≤ N) : (sin2 realT N).head? = some 1 := by
  unfold sin2 ramp
  obtain ⟨m, rfl⟩ : ∃ m, N = m + 1 := ⟨N - 1, by omega⟩
  simp [List.range_succ_eq_map, realT]

/-- sin2 never increases along the axis -/
theorem sin2_antitone (N : ℕ) (hN : 2 ≤ N) : (sin2 realT N).Pairwise (· ≥ ·) := by
  unfold sin2 ramp
  rw [List.pairwise_map, List.pairwise_map]
  have hr : (List.range N).Pairwise (fun a b => a < b ∧ b < N) := by
    rw [List.pairwise_iff_getElem]
    intro i j hi hj hij
    simp only [List.getElem_range]
    simp at hj
    exact ⟨hij, hj⟩
  refine hr.imp ?_
  intro a b ⟨hab, hb⟩
  simp only [realT, ge_iff_le]
  rw [sin2_eq, sin2_eq]
  have ha := ramp_mem N hN a (by omega)
  have hb' := ramp_mem N hN b hb
  have hpos : (0 : ℝ) < ((N - 1 : ℕ) : ℝ) := by exact_mod_cast (by omega : 0 < N - 1)
  have hle : Real.pi * a / ((N - 1 : ℕ) : ℝ) ≤ Real.pi * b / ((N - 1 : ℕ) : ℝ) := by
    apply div_le_div_of_nonneg_right _ hpos.le
    have : (a : ℝ) ≤ b := by exact_mod_cast hab.le
    nlinarith [Real.pi_pos]
  have h1 : Real.cos (Real.pi * b / ((N - 1 : ℕ) : ℝ) / 2) ≤ Real.cos (Real.pi * a / ((N - 1 : ℕ) : ℝ) / 2) :=
    Real.cos_le_cos_of_nonneg_of_le_pi (by linarith [ha.1]) (by linarith [hb'.2, Real.pi_pos]) (by linarith)
  have h0 : 0 ≤ Real.cos (Real.pi * b / ((N - 1 : ℕ) : ℝ) / 2) :=
    Real.cos_nonneg_of_neg_pi_div_two_le_of_le (by linarith [hb'.1, Real.pi_pos]) (by linarith [hb'.2])
  nlinarith

end Dnp.C15
