import DnpProofs.Lemmas.Transpose
import DnpProofs.Lemmas.Procpar
import DnpModel.Io.Axes
import Mathlib.Tactic.Ring
set_option linter.unusedSectionVars false
/-!
# C06 — vendor files import sample-exactly, in the right place

One theorem for every format whose binary section is `header ++ rows(prefix ++ points ++ padding)`
read into an axis-transposed array (`Layout`): decoding what the encoder wrote returns exactly the
array, for every rank, extent, point width and transposition.  The per-format layouts (which
header fields give the extents, the byte order, the real/imaginary convention) are data handed
to this model by the harness and compared against the real importers; text-header parsing is
covered differentially only — except for VnmrJ, whose parameter file and array-axis rule are modelled
(`DnpModel/Io/Procpar.lean`): section `procpar` below proves that the reader returns every parameter of a
well-formed file exactly as written and states `array_coords` as the decision logic it is.
-/
namespace Dnp.C06
open Np Dnp.Layout

theorem takeGroups_flatten (w : Nat) : ∀ (xs : List (List Byte)) (rest : List Byte), (∀ x ∈ xs, x.length = w) →
    takeGroups xs.length w (xs.flatten ++ rest) = some xs
  | [], _, _ => rfl
  | x :: xs, rest, h => by
    have hx : x.length = w := h x (by simp)
    have ih := takeGroups_flatten w xs rest (fun y hy => h y (by simp [hy]))
    simp only [List.length_cons, takeGroups, List.flatten_cons, List.append_assoc]
    have hlen : ¬ (x ++ (xs.flatten ++ rest)).length < w := by simp [hx]
    rw [if_neg hlen]
    have hd : (x ++ (xs.flatten ++ rest)).drop w = xs.flatten ++ rest := by
      rw [← hx]; simp
    have ht : (x ++ (xs.flatten ++ rest)).take w = x := by
      rw [← hx]; simp
    rw [hd, ih, ht]; rfl

theorem length_flatten_const (w : Nat) : ∀ (xs : List (List Byte)), (∀ x ∈ xs, x.length = w) → xs.flatten.length = xs.length * w
  | [], _ => by simp
  | x :: xs, h => by
    simp [length_flatten_const w xs (fun y hy => h y (by simp [hy])), h x (by simp), Nat.add_mul, Nat.add_comm]

/-- reading the rows the writer produced returns the points in order, whatever fills prefix and padding -/
theorem readRows_writeRows (L : Layout) (fill : Byte) : ∀ (r : Nat) (pts : List Point) (rest : List Byte),
    pts.length = r * L.rowLen → (∀ x ∈ pts, x.length = L.pointBytes) →
    readRows L r (writeRows L fill pts r ++ rest) = some pts
  | 0, pts, rest, hl, _ => by
    have : pts = [] := List.length_eq_zero_iff.1 (by simpa using hl)
    subst this; rfl
  | r + 1, pts, rest, hl, hw => by
    have hlen : L.rowLen ≤ pts.length := by rw [hl, Nat.succ_mul]; omega
    have htake : (pts.take L.rowLen).length = L.rowLen := by simp [hlen]
    have hwt : ∀ x ∈ pts.take L.rowLen, x.length = L.pointBytes := fun x hx => hw x (List.mem_of_mem_take hx)
    have hwd : ∀ x ∈ pts.drop L.rowLen, x.length = L.pointBytes := fun x hx => hw x (List.mem_of_mem_drop hx)
    have hld : (pts.drop L.rowLen).length = r * L.rowLen := by
      rw [List.length_drop, hl, Nat.succ_mul]; omega
    have ih := readRows_writeRows L fill r (pts.drop L.rowLen) rest hld hwd
    have hfl : (pts.take L.rowLen).flatten.length = L.rowLen * L.pointBytes := by
      rw [length_flatten_const _ _ hwt, htake]
    set row := List.replicate L.rowPrefix fill ++ (pts.take L.rowLen).flatten ++ List.replicate L.rowPad fill with hrowdef
    set tail := writeRows L fill (pts.drop L.rowLen) r with htail
    have hrl : row.length = L.rowBytes := by
      simp only [hrowdef, List.length_append, List.length_replicate, hfl, Layout.rowBytes]
    have hw1 : writeRows L fill pts (r + 1) = row ++ tail := rfl
    rw [hw1, List.append_assoc]
    simp only [readRows]
    rw [if_neg (by simp only [List.length_append, hrl]; omega)]
    have hd2 : (row ++ (tail ++ rest)).drop L.rowBytes = tail ++ rest := List.drop_left' hrl
    have hd1 : (row ++ (tail ++ rest)).drop L.rowPrefix
        = (pts.take L.rowLen).flatten ++ (List.replicate L.rowPad fill ++ (tail ++ rest)) := by
      rw [hrowdef, List.append_assoc, List.append_assoc]
      exact List.drop_left' (by simp)
    rw [hd1, hd2, ih]
    have := takeGroups_flatten L.pointBytes (pts.take L.rowLen)
      (List.replicate L.rowPad fill ++ (tail ++ rest)) hwt
    rw [htake] at this
    rw [this]
    simp

theorem writeRows_length (L : Layout) (fill : Byte) : ∀ (r : Nat) (pts : List Point),
    pts.length = r * L.rowLen → (∀ x ∈ pts, x.length = L.pointBytes) →
    (writeRows L fill pts r).length = r * L.rowBytes
  | 0, _, _, _ => by simp [writeRows]
  | r + 1, pts, hl, hw => by
    have hlen : L.rowLen ≤ pts.length := by rw [hl, Nat.succ_mul]; omega
    have hwt : ∀ x ∈ pts.take L.rowLen, x.length = L.pointBytes := fun x hx => hw x (List.mem_of_mem_take hx)
    have hwd : ∀ x ∈ pts.drop L.rowLen, x.length = L.pointBytes := fun x hx => hw x (List.mem_of_mem_drop hx)
    have hld : (pts.drop L.rowLen).length = r * L.rowLen := by
      rw [List.length_drop, hl, Nat.succ_mul]; omega
    simp only [writeRows, List.length_append, List.length_replicate,
      writeRows_length L fill r _ hld hwd, length_flatten_const _ _ hwt, List.length_take, Nat.min_eq_left hlen,
      Layout.rowBytes, Nat.succ_mul]
    omega

/-- a well-formed array for a layout -/
structure Fits (L : Layout) (a : Arr Point) : Prop where
  perm : L.perm.Perm (List.range L.fileShape.length)
  shape : a.shape = L.logicalShape
  wf : a.WF
  width : ∀ x ∈ a.data, x.length = L.pointBytes

theorem size_append_one (s : List Nat) (n : Nat) : size (s ++ [n]) = size s * n := by
  induction s with
  | nil => simp [size]
  | cons m s ih => simp [size, ih, Nat.mul_assoc]

/-- **decode ∘ encode = id**: no sample is dropped, duplicated, padded or moved, for every
    dimensionality, extents, point width, row prefix / padding and axis transposition -/
theorem decode_encode (L : Layout) (fill : Byte) (a : Arr Point) (h : Fits L a) :
    decode L (encode L fill a) = .ok a := by
  have hq := invPerm_perm h.perm
  -- the file-order array
  set b := transpose a (invPerm L.perm) with hb
  have hbwf : b.WF := Arr.ofFn_WF _ _
  have hlen_a : a.shape.length = L.fileShape.length := by
    rw [h.shape, Layout.logicalShape, gather]; simpa using h.perm.length_eq
  have hpl : L.perm.length = L.fileShape.length := by simpa using h.perm.length_eq
  have hbshape : b.shape = L.fileShape := by
    show gather (invPerm L.perm) a.shape = _
    rw [h.shape, Layout.logicalShape]
    exact gather_inv_gather h.perm L.fileShape rfl
  have hq' : (invPerm L.perm).Perm (List.range a.shape.length) := by rw [hlen_a]; exact hq
  -- every point of the file-order array is a point of `a`
  have hbw : ∀ x ∈ b.data, x.length = L.pointBytes := by
    intro x hx
    simp only [hb, transpose, Arr.ofFn, List.mem_map, List.mem_range] at hx
    obtain ⟨k, hk, rfl⟩ := hx
    have hin : InB (unravel k (gather (invPerm L.perm) a.shape)) (gather (invPerm L.perm) a.shape) := unravel_InB hk
    have hin2 := InB_scatter hq' a.shape _ rfl hin
    have hlt := ravel_lt hin2
    have hwf : a.data.length = size a.shape := h.wf
    apply h.width
    have hlt' : ravel (scatter (invPerm L.perm) (unravel k (gather (invPerm L.perm) a.shape))) a.shape < a.data.length := by
      rw [hwf]; exact hlt
    show a.data.getD _ default ∈ a.data
    rw [List.getD_eq_getElem?_getD, List.getElem?_eq_getElem hlt']
    exact List.getElem_mem hlt'
  have hbl : b.data.length = L.rows * L.rowLen := by
    have : b.data.length = size b.shape := hbwf
    rw [this, hbshape, Layout.fileShape, size_append_one]; rfl
  have hwl := writeRows_length L fill L.rows b.data hbl hbw
  have henc : encode L fill a = List.replicate L.hdr fill ++ writeRows L fill b.data L.rows := rfl
  have hlen : (encode L fill a).length = L.total := by
    rw [henc, List.length_append, List.length_replicate, hwl]; rfl
  unfold decode
  rw [if_neg (by omega), if_neg (by omega)]
  have hdrop : (encode L fill a).drop L.hdr = writeRows L fill b.data L.rows ++ [] := by
    rw [henc, List.append_nil]; exact List.drop_left' (by simp)
  rw [hdrop, readRows_writeRows L fill L.rows b.data [] hbl hbw]
  simp only
  have : (⟨L.fileShape, b.data⟩ : Arr Point) = b := by
    rw [← hbshape]
  rw [this, hb]
  exact congrArg Except.ok (transpose_invPerm a L.perm h.wf (by rw [hlen_a]; exact h.perm))

/-! ### VnmrJ: the parameter file and the array axis ("axes equal to those computed from the header parameters") -/
section procpar
open Dnp.Procpar

/-- reading what the writer wrote returns every parameter, in file order, with exactly the value tokens of the file —
    for any number of parameters, single- and multi-valued reals, single- and multi-line strings -/
theorem procpar_parse_print (ps : List (String × PVal)) (h : ∀ p ∈ ps, WFParam p) :
    Procpar.parse (Procpar.print ps) = .ok ps :=
  parseFuel_print ps _ h (print_length_ge ps)

/-- a multi-valued real parameter keeps ALL its values in file order (the count token is not one of them) -/
theorem procpar_reals_in_file_order (nm : String) (vs : List Tok) (h : vs.length ≠ 1) (rest : List (String × PVal))
    (hr : ∀ p ∈ rest, WFParam p) :
    (Procpar.parse (Procpar.print ((nm, .reals vs) :: rest))).toOption.map (fun ps => ps.head?.map (·.2))
      = some (some (.reals vs)) := by
  rw [procpar_parse_print _ (by
    intro p hp
    rcases List.mem_cons.1 hp with rfl | hp
    · exact h
    · exact hr p hp)]
  rfl

variable (N : Num) (d : String → Option PVal)

/-- array_coords, decision logic stated outright (1): an experiment arrayed over a NAMED parameter gets that name as
    dimension and exactly the parameter's values, in file order, as coordinates -/
theorem arrayCoords_named (delta dim start stop : Tok) (arr : String) (vs : List Tok)
    (h1 : d "arraydelta" = some (.real delta)) (h2 : d "arraydim" = some (.real dim)) (h3 : d "arraystart" = some (.real start))
    (h4 : d "arraystop" = some (.real stop)) (h5 : d "array" = some (.str arr)) (hdim : N.isOne dim = false)
    (harr : arr ≠ "") (hv : d arr = some (.reals vs)) :
    arrayCoords N d = some (arr, .values vs) := by
  simp [arrayCoords, h1, h2, h3, h4, h5, hdim, harr, hv]

/-- (2): an unnamed array gets the dimension `t1` and `r_[start : stop + delta : delta]` -/
theorem arrayCoords_unnamed (delta dim start stop : Tok)
    (h1 : d "arraydelta" = some (.real delta)) (h2 : d "arraydim" = some (.real dim)) (h3 : d "arraystart" = some (.real start))
    (h4 : d "arraystop" = some (.real stop)) (h5 : d "array" = some (.str "")) (hdim : N.isOne dim = false) :
    arrayCoords N d = some ("t1", .range start stop delta) := by
  simp [arrayCoords, h1, h2, h3, h4, h5, hdim]

/-- (3): `arraydim = 1` — no array dimension, whatever the other parameters say -/
theorem arrayCoords_single (delta dim start stop : Tok) (arr : String)
    (h1 : d "arraydelta" = some (.real delta)) (h2 : d "arraydim" = some (.real dim)) (h3 : d "arraystart" = some (.real start))
    (h4 : d "arraystop" = some (.real stop)) (h5 : d "array" = some (.str arr)) (hdim : N.isOne dim = true) :
    arrayCoords N d = none := by
  simp [arrayCoords, h1, h2, h3, h4, h5, hdim]

/-- (4): a describing parameter missing from the file — no array dimension -/
theorem arrayCoords_missing (h : d "arraydelta" = none ∨ d "arraydim" = none ∨ d "arraystart" = none ∨ d "arraystop" = none ∨
    d "array" = none) : arrayCoords N d = none := by
  unfold arrayCoords
  rcases h with h | h | h | h | h <;> rw [h] <;> split <;> simp_all

/-- (5): named, but the named parameter is not in the file: the start/stop description is used, with `arraymax` as the
    end when stop does not lie beyond start -/
theorem arrayCoords_named_fallback (delta dim start stop : Tok) (arr : String)
    (h1 : d "arraydelta" = some (.real delta)) (h2 : d "arraydim" = some (.real dim)) (h3 : d "arraystart" = some (.real start))
    (h4 : d "arraystop" = some (.real stop)) (h5 : d "array" = some (.str arr)) (hdim : N.isOne dim = false)
    (harr : arr ≠ "") (hv : d arr = none) :
    arrayCoords N d = (if N.gt stop start then some (arr, .range start stop delta)
                       else match d "arraymax" with
                         | some (.real mx) => some (arr, .range start mx delta)
                         | _ => none) := by
  simp only [arrayCoords, h1, h2, h3, h4, h5, hdim, hv]
  simp only [harr, Bool.false_eq_true, if_false, ne_eq, not_false_eq_true, if_true]
  split <;> rfl

/-- end to end on a concrete well-formed file (non-vacuity of the hypotheses above, and the count token is not a value):
    `array = "d2"`, `d2 = 0.5 0.1 2.0`, three blocks → dimension `d2`, coordinates 0.5, 0.1, 2.0 in acquisition order -/
theorem example_named_array :
    let ps : List (String × PVal) :=
      [("arraydim", .real (.num 3)), ("array", .str "d2"), ("arraystart", .real (.num 0)), ("arraystop", .real (.num 2)),
       ("arraydelta", .real (.num 1)), ("d2", .reals [.txt "0.5", .txt "0.1", .txt "2.0"])]
    let N : Num := { isOne := fun t => t == .num 1, gt := fun _ _ => true }
    (match Procpar.parse (Procpar.print ps) with
      | .ok qs => arrayCoords N (Procpar.lookup qs)
      | .error _ => none) = some ("d2", .values [.txt "0.5", .txt "0.1", .txt "2.0"]) := by decide +kernel

end procpar


/-! ### the index axes of a binary file: one coordinate per stored point -/
section axes
open Dnp.ImportAxis

/-- one coordinate per stored point, for every extent, start and step (zero and negative steps included) -/
theorem indexAxis_length (n : Nat) (start step : Int) : (indexAxis n start step).length = n := by
  simp [indexAxis]

theorem indexAxis_getElem (n : Nat) (start step : Int) (k : Nat) (hk : k < (indexAxis n start step).length) :
    (indexAxis n start step)[k] = start + (k : Int) * step := by
  simp [indexAxis]

/-- neighbouring coordinates differ by exactly the step -/
theorem indexAxis_step (n : Nat) (start step : Int) (k : Nat) (hk : k + 1 < (indexAxis n start step).length) :
    (indexAxis n start step)[k + 1] - (indexAxis n start step)[k]'(by omega) = step := by
  simp only [indexAxis_getElem]
  push_cast
  ring

/-- with a non-zero step no coordinate occurs twice -/
theorem indexAxis_injective (n : Nat) (start step : Int) (hs : step ≠ 0) (i j : Nat)
    (hi : i < (indexAxis n start step).length) (hj : j < (indexAxis n start step).length)
    (h : (indexAxis n start step)[i] = (indexAxis n start step)[j]) : i = j := by
  simp only [indexAxis_getElem] at h
  have h' : (i : Int) * step = (j : Int) * step := by omega
  have := mul_right_cancel₀ hs h'
  exact_mod_cast this

/-- in exact arithmetic `arange(start, start + n·step, step)` has exactly n points: an importer that writes the axis that way
    differs from the index form only through rounding of `n·step` (L0) — which is why the correspondence check imports files
    with decimal dwell times -/
theorem arange_exact (n : Nat) (start step : Int) (hs : 0 < step) :
    arangeLen start (start + (n : Int) * step) step = n := by
  unfold arangeLen
  have h1 : ¬ step ≤ 0 := by omega
  simp only [h1, if_false]
  have h2 : start + (n : Int) * step - start + step - 1 = (step - 1) + step * (n : Int) := by ring
  rw [h2, Int.add_mul_ediv_left _ _ (by omega : step ≠ 0)]
  have h3 : (step - 1) / step = 0 := Int.ediv_eq_zero_of_lt (by omega) (by omega)
  rw [h3]; simp

/-- … and one rounding step too far gives one point too many -/
theorem arange_overshoot (n : Nat) (start step eps : Int) (hs : 0 < step) (he : 0 < eps) (he' : eps ≤ step) :
    arangeLen start (start + (n : Int) * step + eps) step = n + 1 := by
  unfold arangeLen
  have h1 : ¬ step ≤ 0 := by omega
  simp only [h1, if_false]
  have h2 : start + (n : Int) * step + eps - start + step - 1 = (eps - 1) + step * ((n : Int) + 1) := by ring
  rw [h2, Int.add_mul_ediv_left _ _ (by omega : step ≠ 0)]
  have h3 : (eps - 1) / step = 0 := Int.ediv_eq_zero_of_lt (by omega) (by omega)
  rw [h3]; simp

example : indexAxis 4 0 3 = [0, 3, 6, 9] ∧ arangeLen 0 12 3 = 4 ∧ arangeLen 0 13 3 = 5 := by decide

end axes


/-- non-vacuity and a concrete check of the index convention: a (2 rows × 3 points) file with a 1-byte
    row prefix, transposed on import, as VnmrJ stores its blocks -/
theorem example_vnmrj_like :
    let L : Layout := { hdr := 2, rowPrefix := 1, rowPad := 0, pointBytes := 1, rowLen := 3, outer := [2], perm := [1, 0],
                        trailerOk := false }
    let bytes : List Byte := [99, 99,  77, 10, 11, 12,  77, 20, 21, 22]
    (match decode L bytes with
      | .ok a => some (a.shape, a.data)
      | .error _ => none) = some ([3, 2], [[10], [20], [11], [21], [12], [22]]) := by decide +kernel

end Dnp.C06
