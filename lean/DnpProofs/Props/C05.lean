import DnpProofs.Lemmas.ArgBest
import DnpProofs.Lemmas.Slice
import DnpProofs.Lemmas.ListAux
set_option linter.unusedSectionVars false
/-!
# C05 — indexing by position, coordinate value or range selects the right block

Coordinates live in an arbitrary linear order `κ`; `dist t x` is |t − x| in the driver and an
arbitrary function here (the decision logic does not depend on it).
-/
namespace Dnp.C05
open Np Dnp
variable {κ : Type} [LinearOrder κ] [Inhabited κ] (dist : κ → κ → κ)

/-- an in-range integer picks exactly that position (negative from the end) -/
theorem int_spec (c : List κ) (i : Int) (hlo : -(c.length : Int) ≤ i) (hhi : i < c.length) :
    selPositions dist ltB c (.int i) = [(if i < 0 then i + c.length else i).toNat] := by
  have := pySlice_int hlo hhi
  unfold selPositions selToSlice PySl.positions
  by_cases h1 : i = -1
  · subst h1; simpa using this
  · simp only [ne_eq, h1, not_false_eq_true, if_true] at this ⊢
    exact this

/-- a float target picks the single position whose coordinate is nearest (first minimiser) -/
theorem float_spec (c : List κ) (t : κ) (hne : c ≠ []) :
    selPositions dist ltB c (.flt t) = [nearest dist ltB t c] ∧
    nearest dist ltB t c < c.length ∧
    (∀ x ∈ c, dist t (c.getD (nearest dist ltB t c) default) ≤ dist t x) ∧
    (∀ j, j < nearest dist ltB t c → dist t (c.getD (nearest dist ltB t c) default) < dist t (c.getD j default)) := by
  have hne' : c.map (fun x => dist t x) ≠ [] := by simpa using hne
  obtain ⟨h1, h2, h3⟩ := argBest_spec (dist t default) (c.map (fun x => dist t x)) hne'
  have hk : nearest dist ltB t c < c.length := by simpa [nearest] using h1
  refine ⟨?_, hk, ?_, ?_⟩
  · unfold selPositions selToSlice PySl.positions
    simp only
    have := @pySlice_some_some c.length (nearest dist ltB t c) (nearest dist ltB t c + 1) (by omega) (by omega)
    simp only [Nat.cast_add, Nat.cast_one] at this
    rw [this]; simp
  · intro x hx
    have := h2 (dist t x) (List.mem_map.2 ⟨x, hx, rfl⟩)
    simpa [nearest, List.getD_eq_getElem?_getD, List.getElem?_map, hk] using this
  · intro j hj
    have := h3 j hj
    have hj' : j < c.length := by omega
    simpa [nearest, List.getD_eq_getElem?_getD, List.getElem?_map, hk, hj'] using this

/-- the selection a `(lo, hi)` pair produces, in terms of the two nearest positions -/
theorem range_positions (c : List κ) (lo hi : κ) (hne : c ≠ []) :
    let i := nearest dist ltB lo c
    let j := nearest dist ltB hi c
    selPositions dist ltB c (.range lo hi) =
      if beyondEnd ltB hi c then List.range' i (c.length - i)
      else if i = j then [i] else List.range' (min i j) (max i j - min i j) := by
  intro i j
  have hi' : i < c.length := (float_spec dist c lo hne).2.1
  have hj' : j < c.length := (float_spec dist c hi hne).2.1
  unfold selPositions selToSlice PySl.positions
  simp only
  split
  · exact pySlice_some_none (by omega)
  · by_cases hij : i = j
    · have e : nearest dist ltB lo c = nearest dist ltB hi c := hij
      simp only [e, if_true, hij]
      have hlt : ¬ (nearest dist ltB hi c + 1 < nearest dist ltB hi c) := by omega
      rw [if_neg hlt]
      have := @pySlice_some_some c.length j (j + 1) (by omega) (by omega)
      dsimp only
      rw [this]; simp
    · have e : ¬ nearest dist ltB lo c = nearest dist ltB hi c := hij
      simp only [e, if_false, hij]
      by_cases hlt : j < i
      · have hlt' : nearest dist ltB hi c < nearest dist ltB lo c := hlt
        rw [if_pos hlt']
        rw [show min i j = j by omega, show max i j = i by omega]
        exact pySlice_some_some (by omega) (by omega)
      · have hlt' : ¬ nearest dist ltB hi c < nearest dist ltB lo c := hlt
        rw [if_neg hlt']
        rw [show min i j = i by omega, show max i j = j by omega]
        exact pySlice_some_some (by omega) (by omega)

/-- C05's range clause: whenever "hi beyond the end" really means that the position nearest hi
    is the last one (true on ascending and on descending axes, see `beyond_is_last_*`), the
    selection is a non-empty contiguous run between the positions nearest lo and nearest hi
    (inclusive) and contains every position strictly between them, for either order of lo, hi -/
theorem range_spec (c : List κ) (lo hi : κ) (hne : c ≠ [])
    (hlast : beyondEnd ltB hi c = true → nearest dist ltB hi c = c.length - 1) :
    let i := nearest dist ltB lo c
    let j := nearest dist ltB hi c
    let P := selPositions dist ltB c (.range lo hi)
    P ≠ [] ∧ (∃ p₀ len, P = List.range' p₀ len) ∧ (∀ p ∈ P, min i j ≤ p ∧ p ≤ max i j) ∧
    (∀ p, min i j < p → p < max i j → p ∈ P) := by
  intro i j P
  have hi' : i < c.length := (float_spec dist c lo hne).2.1
  have hj' : j < c.length := (float_spec dist c hi hne).2.1
  have hP : P = if beyondEnd ltB hi c then List.range' i (c.length - i)
      else if i = j then [i] else List.range' (min i j) (max i j - min i j) := range_positions dist c lo hi hne
  by_cases hb : beyondEnd ltB hi c = true
  · have hjl : j = c.length - 1 := hlast hb
    rw [if_pos hb] at hP
    rw [hP]
    refine ⟨?_, ⟨_, _, rfl⟩, ?_, ?_⟩
    · intro h; have := congrArg List.length h; simp at this; omega
    · intro p hp; rw [List.mem_range'_1] at hp; omega
    · intro p h1 h2; rw [List.mem_range'_1]; omega
  · rw [if_neg hb] at hP
    by_cases hij : i = j
    · rw [if_pos hij] at hP
      rw [hP]
      refine ⟨by simp, ⟨i, 1, by simp⟩, ?_, ?_⟩
      · intro p hp; simp at hp; omega
      · intro p h1 h2; omega
    · rw [if_neg hij] at hP
      rw [hP]
      refine ⟨?_, ⟨_, _, rfl⟩, ?_, ?_⟩
      · intro h; have := congrArg List.length h; simp at this; omega
      · intro p hp; rw [List.mem_range'_1] at hp; omega
      · intro p h1 h2; rw [List.mem_range'_1]; omega

/-- reading and writing go through ONE conversion: the positions `__setitem__` writes are by
    definition the positions `__getitem__` reads (the repaired code shares the helper) -/
theorem read_write_agree (c : List κ) (s : Sel κ) :
    (selToSlice dist ltB c s).positions c.length = selPositions dist ltB c s := rfl

/-- the pinned tree: on the descending axis 4,3,2,1,0 the range (1, 3) read positions 3..4
    (coordinates 1, 0 — outside the requested interval) and wrote positions 1..2 -/
theorem pinned_descending_wrong :
    let c : List Int := [4, 3, 2, 1, 0]
    let d : Int → Int → Int := fun a b => if a - b < 0 then b - a else a - b
    (selToSlicePinnedRead d ltB c (.range 1 3)).positions 5 = [3, 4] ∧
    (selToSlicePinnedWrite d ltB c (.range 1 3)).positions 5 = [1, 2] ∧
    selPositions d ltB c (.range 1 3) = [1, 2] := by decide +kernel

end Dnp.C05
