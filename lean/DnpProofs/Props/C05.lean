import DnpProofs.Lemmas.ArgBest
import DnpProofs.Lemmas.Slice
import DnpProofs.Lemmas.SliceBounds
import DnpProofs.Lemmas.Cut
import DnpProofs.Lemmas.ListAux
import Mathlib.Algebra.Order.Field.Basic
import Mathlib.Algebra.Order.Ring.Abs
set_option linter.unusedSectionVars false
/-!
# C05 — indexing by position, coordinate value or range selects the right block

Coordinates live in an arbitrary linear order `κ`; `dist t x` is |t − x| in the driver and an
arbitrary function here (the decision logic does not depend on it).
-/
namespace Dnp.C05
open Np Dnp Dnp.Data
variable {κ : Type} [LinearOrder κ] [Inhabited κ] (dist : κ → κ → κ)

/-- an in-range integer picks exactly that position (negative from the end) -/
theorem int_spec (c : List κ) (i : Int) (hlo : -(c.length : Int) ≤ i) (hhi : i < c.length) :
    selPositions dist ltB c (.int i) = [(if i < 0 then i + c.length else i).toNat] := by
  have := pySlice_int hlo hhi
  unfold selPositions selToSlice PySl.positions
  by_cases h1 : i = -1
  · subst h1; simpa using this
  · simp only [ne_eq, h1, not_false_eq_true, if_true] at this ⊢
    exact this

/-- a float target picks the single position whose coordinate is nearest (first minimiser) -/
theorem float_spec (c : List κ) (t : κ) (hne : c ≠ []) :
    selPositions dist ltB c (.flt t) = [nearest dist ltB t c] ∧
    nearest dist ltB t c < c.length ∧
    (∀ x ∈ c, dist t (c.getD (nearest dist ltB t c) default) ≤ dist t x) ∧
    (∀ j, j < nearest dist ltB t c → dist t (c.getD (nearest dist ltB t c) default) < dist t (c.getD j default)) := by
  have hne' : c.map (fun x => dist t x) ≠ [] := by simpa using hne
  obtain ⟨h1, h2, h3⟩ := argBest_spec (dist t default) (c.map (fun x => dist t x)) hne'
  have hk : nearest dist ltB t c < c.length := by simpa [nearest] using h1
  refine ⟨?_, hk, ?_, ?_⟩
  · unfold selPositions selToSlice PySl.positions
    simp only
    have := @pySlice_some_some c.length (nearest dist ltB t c) (nearest dist ltB t c + 1) (by omega) (by omega)
    simp only [Nat.cast_add, Nat.cast_one] at this
    rw [this]; simp
  · intro x hx
    have := h2 (dist t x) (List.mem_map.2 ⟨x, hx, rfl⟩)
    simpa [nearest, List.getD_eq_getElem?_getD, List.getElem?_map, hk] using this
  · intro j hj
    have := h3 j hj
    have hj' : j < c.length := by omega
    simpa [nearest, List.getD_eq_getElem?_getD, List.getElem?_map, hk, hj'] using this

/-- the selection a `(lo, hi)` pair produces, in terms of the two nearest positions -/
theorem range_positions (c : List κ) (lo hi : κ) (hne : c ≠ []) :
    let i := nearest dist ltB lo c
    let j := nearest dist ltB hi c
    selPositions dist ltB c (.range lo hi) =
      if beyondEnd ltB hi c then List.range' i (c.length - i)
      else if i = j then [i] else List.range' (min i j) (max i j - min i j) := by
  intro i j
  have hi' : i < c.length := (float_spec dist c lo hne).2.1
  have hj' : j < c.length := (float_spec dist c hi hne).2.1
  unfold selPositions selToSlice PySl.positions
  simp only
  split
  · exact pySlice_some_none (by omega)
  · by_cases hij : i = j
    · have e : nearest dist ltB lo c = nearest dist ltB hi c := hij
      simp only [e, if_true, hij]
      have hlt : ¬ (nearest dist ltB hi c + 1 < nearest dist ltB hi c) := by omega
      rw [if_neg hlt]
      have := @pySlice_some_some c.length j (j + 1) (by omega) (by omega)
      dsimp only
      rw [this]; simp
    · have e : ¬ nearest dist ltB lo c = nearest dist ltB hi c := hij
      simp only [e, if_false, hij]
      by_cases hlt : j < i
      · have hlt' : nearest dist ltB hi c < nearest dist ltB lo c := hlt
        rw [if_pos hlt']
        rw [show min i j = j by omega, show max i j = i by omega]
        exact pySlice_some_some (by omega) (by omega)
      · have hlt' : ¬ nearest dist ltB hi c < nearest dist ltB lo c := hlt
        rw [if_neg hlt']
        rw [show min i j = i by omega, show max i j = j by omega]
        exact pySlice_some_some (by omega) (by omega)

/-- C05's range clause: whenever "hi beyond the end" really means that the position nearest hi
    is the last one (true on ascending and on descending axes, proved below as `beyond_is_last_ascending` / `beyond_is_last_descending`; `range_spec_ascending` / `range_spec_descending` are the clause with that premise discharged), the
    selection is a non-empty contiguous run between the positions nearest lo and nearest hi
    (inclusive) and contains every position strictly between them, for either order of lo, hi -/
theorem range_spec (c : List κ) (lo hi : κ) (hne : c ≠ [])
    (hlast : beyondEnd ltB hi c = true → nearest dist ltB hi c = c.length - 1) :
    let i := nearest dist ltB lo c
    let j := nearest dist ltB hi c
    let P := selPositions dist ltB c (.range lo hi)
    P ≠ [] ∧ (∃ p₀ len, P = List.range' p₀ len) ∧ (∀ p ∈ P, min i j ≤ p ∧ p ≤ max i j) ∧
    (∀ p, min i j < p → p < max i j → p ∈ P) := by
  intro i j P
  have hi' : i < c.length := (float_spec dist c lo hne).2.1
  have hj' : j < c.length := (float_spec dist c hi hne).2.1
  have hP : P = if beyondEnd ltB hi c then List.range' i (c.length - i)
      else if i = j then [i] else List.range' (min i j) (max i j - min i j) := range_positions dist c lo hi hne
  by_cases hb : beyondEnd ltB hi c = true
  · have hjl : j = c.length - 1 := hlast hb
    rw [if_pos hb] at hP
    rw [hP]
    refine ⟨?_, ⟨_, _, rfl⟩, ?_, ?_⟩
    · intro h; have := congrArg List.length h; simp at this; omega
    · intro p hp; rw [List.mem_range'_1] at hp; omega
    · intro p h1 h2; rw [List.mem_range'_1]; omega
  · rw [if_neg hb] at hP
    by_cases hij : i = j
    · rw [if_pos hij] at hP
      rw [hP]
      refine ⟨by simp, ⟨i, 1, by simp⟩, ?_, ?_⟩
      · intro p hp; simp at hp; omega
      · intro p h1 h2; omega
    · rw [if_neg hij] at hP
      rw [hP]
      refine ⟨?_, ⟨_, _, rfl⟩, ?_, ?_⟩
      · intro h; have := congrArg List.length h; simp at this; omega
      · intro p hp; rw [List.mem_range'_1] at hp; omega
      · intro p h1 h2; rw [List.mem_range'_1]; omega

/-- reading and writing go through ONE conversion: the positions `__setitem__` writes are by
    definition the positions `__getitem__` reads (the repaired code shares the helper) -/
theorem read_write_agree (c : List κ) (s : Sel κ) :
    (selToSlice dist ltB c s).positions c.length = selPositions dist ltB c s := rfl

/-- the pinned tree: on the descending axis 4,3,2,1,0 the range (1, 3) read positions 3..4
    (coordinates 1, 0 — outside the requested interval) and wrote positions 1..2 -/
theorem pinned_descending_wrong :
    let c : List Int := [4, 3, 2, 1, 0]
    let d : Int → Int → Int := fun a b => if a - b < 0 then b - a else a - b
    (selToSlicePinnedRead d ltB c (.range 1 3)).positions 5 = [3, 4] ∧
    (selToSlicePinnedWrite d ltB c (.range 1 3)).positions 5 = [1, 2] ∧
    selPositions d ltB c (.range 1 3) = [1, 2] := by decide +kernel

/-- a slice acts as in NumPy: whatever start / stop / (non-zero) step, every selected position lies on the axis -/
theorem slice_on_axis (n : Nat) (start stop step : Option Int) (hst : step.getD 1 ≠ 0) :
    ∀ p ∈ pySlice n start stop step, p < n := pySlice_lt n start stop step hst

/-- every selector is turned into positions ON the axis (the zero-step slice is refused before) -/
theorem selPositions_on_axis (c : List κ) (s : Sel κ) (hs : ∀ a b, s ≠ .slice a b (some 0)) :
    ∀ p ∈ selPositions dist ltB c s, p < c.length := by
  unfold selPositions PySl.positions
  apply pySlice_lt
  cases s with
  | int i => simp only [selToSlice]; split <;> simp
  | flt t => simp [selToSlice]
  | tup1 t => simp [selToSlice]
  | range lo hi =>
    simp only [selToSlice]
    split
    · simp
    · split <;> (split <;> simp)
  | slice a b st =>
    simp only [selToSlice]
    cases st with
    | none => simp
    | some z =>
      simp only [Option.getD_some, ne_eq]
      intro hz; subst hz
      exact hs a b rfl

/-- `data[dim, selector, …]` (the first sentence of the property): values and every coordinate array are cut by the SAME
    per-axis position lists, dimensions without a selector are untouched, and the element at result index `idx` is the
    source element at the index obtained by looking each axis up in its own position list -/
theorem getitem_spec {α : Type} [Inhabited α] {d r : Data κ α} {sels : List (String × Sel κ)} (h : d.Consistent)
    (hr : d.getitem dist ltB sels = .ok r) :
    ∃ pos : List (Option (List Nat)), pos.length = d.dims.length ∧ r = d.cut pos ∧
      r.dims = d.dims ∧
      r.coords = List.zipWith (fun (c : List κ) (p : Option (List Nat)) => match p with
                        | none => c
                        | some p => p.map (fun i => c.getD i default)) d.coords pos ∧
      ∀ idx, InB idx r.values.shape →
        InB (cutIdx 0 pos idx) d.values.shape ∧ r.values.get idx = d.values.get (cutIdx 0 pos idx) := by
  unfold getitem at hr
  split at hr
  · cases hr
  · split at hr
    · cases hr
    · rename_i _ hz
      simp only [Except.ok.injEq] at hr
      subst hr
      set pos := d.dims.map (fun dim => (selFor sels dim).map (fun s => selPositions dist ltB (d.coord dim) s)) with hpos
      have hlen : pos.length = d.dims.length := by simp [hpos]
      have hval : CutValid 0 pos d.values.shape := by
        intro j p hj i hi
        simp only [Nat.zero_add]
        by_cases hjl : j < d.dims.length
        · simp only [hpos, List.getD_eq_getElem?_getD, List.getElem?_map, List.getElem?_eq_getElem hjl, Option.map_some,
            Option.getD_some] at hj
          cases hsf : selFor sels d.dims[j] with
          | none => rw [hsf] at hj; simp at hj
          | some s =>
            rw [hsf] at hj
            simp only [Option.map_some, Option.some.injEq] at hj
            subst hj
            -- the selector is one of those given, hence not a zero-step slice
            have hsmem : ∃ q ∈ sels, q.2 = s := by
              unfold selFor at hsf
              cases hf : sels.reverse.find? (fun q => q.1 == d.dims[j]) with
              | none => rw [hf] at hsf; simp at hsf
              | some q =>
                rw [hf] at hsf
                simp only [Option.map_some, Option.some.injEq] at hsf
                exact ⟨q, by simpa using List.mem_of_find?_eq_some hf, hsf⟩
            obtain ⟨q, hq, hqs⟩ := hsmem
            have hs0 : ∀ a b, s ≠ .slice a b (some 0) := by
              intro a b he
              apply hz
              simp only [List.any_eq_true]
              exact ⟨q, hq, by simp [hqs, he]⟩
            have := selPositions_on_axis dist (d.coord d.dims[j]) s hs0 i hi
            rw [coord_length h] at this
            have hidx : d.index d.dims[j] = j := h.1.idxOf_getElem j hjl
            simpa [ext, hidx] using this
        · have : pos.getD j none = none := by
            simp [hpos, List.getD_eq_getElem?_getD, List.getElem?_eq_none (by simpa using Nat.le_of_not_lt hjl)]
          rw [this] at hj; cases hj
      obtain ⟨h1, h2, h3⟩ := cut_spec h pos hlen hval
      exact ⟨pos, hlen, rfl, h1, h2, h3⟩

/-- assignment through selectors: dims, coordinates and shape stay; an element is overwritten exactly when, on EVERY axis,
    its index is one of the positions that READING through the same selector returns (the same `selPositions`), and is
    left as it was otherwise -/
theorem setitem_spec {α : Type} [Inhabited α] {d r : Data κ α} {sels : List (String × Sel κ)} {newv : List Nat → α}
    (hr : d.setitemWith dist ltB sels newv = .ok r) :
    let pos := d.dims.map (fun dim => (selFor sels dim).map (fun s => selPositions dist ltB (d.coord dim) s))
    r.dims = d.dims ∧ r.coords = d.coords ∧ r.values.shape = d.values.shape ∧
    ∀ idx, InB idx d.values.shape →
      let hit := List.zipWith (fun i (p : Option (List Nat)) => match p with
                    | none => some i
                    | some p => let k := p.idxOf i; if k < p.length then some k else none) idx pos
      r.values.get idx = if hit.all Option.isSome then newv (hit.map (·.getD 0)) else d.values.get idx := by
  intro pos
  unfold setitemWith at hr
  split at hr
  · cases hr
  · simp only [Except.ok.injEq] at hr
    subst hr
    refine ⟨rfl, rfl, rfl, ?_⟩
    intro idx hin
    simp only
    rw [Arr.get_ofFn _ hin]
    rfl

theorem getLast?_getD_eq (c : List κ) (hne : c ≠ []) : c.getLast?.getD default = c.getD (c.length - 1) default := by
  rw [List.getLast?_eq_getElem?, List.getD_eq_getElem?_getD]

/-- on an ASCENDING axis, with a distance that shrinks as the coordinate approaches the target from below (|t − x| does),
    "hi beyond the end" means that the position nearest hi is the last one — the hypothesis of `range_spec` -/
theorem beyond_is_last_ascending (c : List κ) (hi : κ) (hne : c ≠ []) (hs : c.Pairwise (· < ·))
    (hd : ∀ x y, x < y → y < hi → dist hi y < dist hi x) (hb : beyondEnd ltB hi c = true) :
    nearest dist ltB hi c = c.length - 1 := by
  obtain ⟨_, hk, hmin, _⟩ := float_spec dist c hi hne
  by_contra hne'
  have hlen : 0 < c.length := List.length_pos_iff.2 hne
  have hk' : nearest dist ltB hi c < c.length - 1 := by omega
  set k := nearest dist ltB hi c with hkdef
  set L := c.length - 1 with hL
  have hLlt : L < c.length := by omega
  have hkl : c[k] < c[L] := List.pairwise_iff_getElem.1 hs k L hk hLlt hk'
  -- the last coordinate is below hi
  have hlast : c[L] < hi := by
    unfold beyondEnd at hb
    simp only at hb
    have hge : ¬ (c.getLast?.getD default < c.headD default) := by
      rw [getLast?_getD_eq c hne, List.getD_eq_getElem?_getD, List.getElem?_eq_getElem hLlt]
      cases c with
      | nil => exact absurd rfl hne
      | cons x xs =>
        simp only [List.headD_cons, Option.getD_some, not_lt]
        by_cases h0 : L = 0
        · simp [h0]
        · have := List.pairwise_iff_getElem.1 hs 0 L (by simp) hLlt (by omega)
          exact le_of_lt (by simpa using this)
    have : ltB (c.getLast?.getD default) (c.headD default) = false := by
      simp only [ltB, decide_eq_false_iff_not]; exact hge
    rw [this] at hb
    simp only [Bool.false_eq_true, if_false] at hb
    rw [getLast?_getD_eq c hne, List.getD_eq_getElem?_getD, List.getElem?_eq_getElem hLlt] at hb
    simpa [ltB] using hb
  have h1 := hd c[k] c[L] hkl hlast
  have h2 := hmin c[L] (List.getElem_mem hLlt)
  rw [List.getD_eq_getElem?_getD, List.getElem?_eq_getElem hk, Option.getD_some] at h2
  exact absurd h1 (not_lt.2 h2)


/-- the same on a DESCENDING axis, with a distance that shrinks as the coordinate approaches the target from above -/
theorem beyond_is_last_descending (c : List κ) (hi : κ) (hne : c ≠ []) (hs : c.Pairwise (· > ·))
    (hd : ∀ x y, y < x → hi < y → dist hi y < dist hi x) (hb : beyondEnd ltB hi c = true) :
    nearest dist ltB hi c = c.length - 1 := by
  obtain ⟨_, hk, hmin, _⟩ := float_spec dist c hi hne
  by_contra hne'
  have hlen : 0 < c.length := List.length_pos_iff.2 hne
  have hk' : nearest dist ltB hi c < c.length - 1 := by omega
  set k := nearest dist ltB hi c with hkdef
  set L := c.length - 1 with hL
  have hLlt : L < c.length := by omega
  have hL0 : 0 < L := by omega
  have hkl : c[L] < c[k] := List.pairwise_iff_getElem.1 hs k L hk hLlt hk'
  have hlast : hi < c[L] := by
    unfold beyondEnd at hb
    simp only at hb
    have hlt : c.getLast?.getD default < c.headD default := by
      rw [getLast?_getD_eq c hne, List.getD_eq_getElem?_getD, List.getElem?_eq_getElem hLlt]
      cases c with
      | nil => exact absurd rfl hne
      | cons x xs =>
        simp only [List.headD_cons, Option.getD_some]
        have := List.pairwise_iff_getElem.1 hs 0 L (by simp) hLlt hL0
        simpa using this
    have : ltB (c.getLast?.getD default) (c.headD default) = true := by
      simp only [ltB, decide_eq_true_eq]; exact hlt
    rw [this] at hb
    simp only [if_true] at hb
    rw [getLast?_getD_eq c hne, List.getD_eq_getElem?_getD, List.getElem?_eq_getElem hLlt] at hb
    simpa [ltB] using hb
  have h1 := hd c[k] c[L] hkl hlast
  have h2 := hmin c[L] (List.getElem_mem hLlt)
  rw [List.getD_eq_getElem?_getD, List.getElem?_eq_getElem hk, Option.getD_some] at h2
  exact absurd h1 (not_lt.2 h2)

/-- **C05's range clause on ascending axes**, with no side condition left but the shape of the distance -/
theorem range_spec_ascending (c : List κ) (lo hi : κ) (hne : c ≠ []) (hs : c.Pairwise (· < ·))
    (hd : ∀ x y, x < y → y < hi → dist hi y < dist hi x) :
    let i := nearest dist ltB lo c
    let j := nearest dist ltB hi c
    let P := selPositions dist ltB c (.range lo hi)
    P ≠ [] ∧ (∃ p₀ len, P = List.range' p₀ len) ∧ (∀ p ∈ P, min i j ≤ p ∧ p ≤ max i j) ∧
    (∀ p, min i j < p → p < max i j → p ∈ P) :=
  range_spec dist c lo hi hne (beyond_is_last_ascending dist c hi hne hs hd)

/-- **… and on descending axes** -/
theorem range_spec_descending (c : List κ) (lo hi : κ) (hne : c ≠ []) (hs : c.Pairwise (· > ·))
    (hd : ∀ x y, y < x → hi < y → dist hi y < dist hi x) :
    let i := nearest dist ltB lo c
    let j := nearest dist ltB hi c
    let P := selPositions dist ltB c (.range lo hi)
    P ≠ [] ∧ (∃ p₀ len, P = List.range' p₀ len) ∧ (∀ p ∈ P, min i j ≤ p ∧ p ≤ max i j) ∧
    (∀ p, min i j < p → p < max i j → p ∈ P) :=
  range_spec dist c lo hi hne (beyond_is_last_descending dist c hi hne hs hd)

/-- the distance the implementation uses, |t − x| over the rationals, has both shapes -/
theorem abs_dist_shapes (t : ℚ) :
    (∀ x y : ℚ, x < y → y < t → |t - y| < |t - x|) ∧ (∀ x y : ℚ, y < x → t < y → |t - y| < |t - x|) := by
  constructor
  · intro x y hxy hyt
    rw [abs_of_pos (by linarith), abs_of_pos (by linarith)]; linarith
  · intro x y hyx hty
    rw [abs_of_neg (by linarith), abs_of_neg (by linarith)]; linarith


/-- non-vacuity: a concrete ascending axis, a target beyond its end, and |t − x| meet every premise of `range_spec_ascending` -/
example : ([0, 1/2, 1, 3] : List ℚ).Pairwise (· < ·) ∧ beyondEnd ltB (5 : ℚ) [0, 1/2, 1, 3] = true ∧
    (∀ x y : ℚ, x < y → y < 5 → |5 - y| < |5 - x|) :=
  ⟨by decide +kernel, by decide +kernel, (abs_dist_shapes 5).1⟩
example : ([3, 1, 1/2, 0] : List ℚ).Pairwise (· > ·) ∧ beyondEnd ltB (-2 : ℚ) [3, 1, 1/2, 0] = true ∧
    (∀ x y : ℚ, y < x → -2 < y → |-2 - y| < |-2 - x|) :=
  ⟨by decide +kernel, by decide +kernel, (abs_dist_shapes (-2)).2⟩

/-! ### the unit of an axis does not matter -/
section scale
variable {K : Type} [Field K] [LinearOrder K] [IsStrictOrderedRing K] [Inhabited K]

/-- the distance the code uses: |t − x| -/
def absDist (a b : K) : K := |a - b|

/-- scaling a list by a positive factor does not move its first minimum -/
theorem argBest_go_scale (s : K) (hs : 0 < s) : ∀ (ys : List K) (best : K) (bi i : Nat),
    argBest.go ltB (s * best) bi i (ys.map (s * ·)) = argBest.go ltB best bi i ys
  | [], _, _, _ => rfl
  | y :: ys, best, bi, i => by
    simp only [List.map_cons, argBest.go, ltB]
    have : (s * y < s * best) ↔ (y < best) := mul_lt_mul_iff_right₀ hs
    by_cases h : y < best
    · simp only [h, this.2 h, decide_true, if_true]
      exact argBest_go_scale s hs ys y i (i + 1)
    · have h' : ¬ s * y < s * best := fun hh => h (this.1 hh)
      simp only [h, h', decide_false, Bool.false_eq_true, if_false]
      exact argBest_go_scale s hs ys best bi (i + 1)

theorem argBest_scale (s : K) (hs : 0 < s) (l : List K) : argBest ltB (l.map (s * ·)) = argBest ltB l := by
  cases l with
  | nil => rfl
  | cons x xs => simp only [List.map_cons, argBest]; exact argBest_go_scale s hs xs x 0 1

/-- the nearest position does not depend on the unit of the axis -/
theorem nearest_scale (s : K) (hs : 0 < s) (t : K) (c : List K) :
    nearest absDist ltB (s * t) (c.map (s * ·)) = nearest absDist ltB t c := by
  unfold nearest
  have : (c.map (s * ·)).map (fun x => absDist (s * t) x) = (c.map (fun x => absDist t x)).map (s * ·) := by
    simp only [List.map_map]
    apply List.map_congr_left
    intro x _
    simp only [Function.comp, absDist, ← mul_sub, abs_mul, abs_of_pos hs]
  rw [this, argBest_scale s hs]

def scaleSel (s : K) : Sel K → Sel K
  | .int i => .int i
  | .flt t => .flt (s * t)
  | .tup1 t => .tup1 (s * t)
  | .range lo hi => .range (s * lo) (s * hi)
  | .slice a b st => .slice a b st

theorem beyondEnd_scale (s : K) (hs : 0 < s) (hi : K) (c : List K) (hne : c ≠ []) :
    beyondEnd ltB (s * hi) (c.map (s * ·)) = beyondEnd ltB hi c := by
  obtain ⟨x, xs, rfl⟩ := List.exists_cons_of_ne_nil hne
  have hl : ((x :: xs).map (s * ·)).getLast?.getD default = s * ((x :: xs).getLast?.getD default) := by
    rw [List.getLast?_map]
    cases h : (x :: xs).getLast? with
    | none => simp at h
    | some v => simp
  unfold beyondEnd
  simp only []
  rw [hl]
  simp only [List.map_cons, List.headD_cons, ltB, mul_lt_mul_iff_right₀ hs]
  first | rfl | (split <;> split <;> simp_all)

/-- **unit independence of indexing**: the same axis and the same selector expressed in another unit (everything times a
    positive factor) select the same slice — float, 1-tuple, (lo, hi) pairs, integers and slices, ascending, descending or
    unordered axes -/
theorem selToSlice_scale (s : K) (hs : 0 < s) (c : List K) (hne : c ≠ []) (sel : Sel K) :
    selToSlice absDist ltB (c.map (s * ·)) (scaleSel s sel) = selToSlice absDist ltB c sel := by
  cases sel with
  | int i => rfl
  | flt t => simp only [scaleSel, selToSlice, nearest_scale s hs]
  | tup1 t => simp only [scaleSel, selToSlice, nearest_scale s hs]
  | range lo hi => simp only [scaleSel, selToSlice, nearest_scale s hs, beyondEnd_scale s hs hi c hne]
  | slice a b st => rfl

theorem selPositions_scale (s : K) (hs : 0 < s) (c : List K) (hne : c ≠ []) (sel : Sel K) :
    selPositions absDist ltB (c.map (s * ·)) (scaleSel s sel) = selPositions absDist ltB c sel := by
  unfold selPositions
  rw [selToSlice_scale s hs c hne, List.length_map]

end scale

end Dnp.C05
