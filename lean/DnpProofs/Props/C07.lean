import DnpModel.Io.H5
import Mathlib.Data.List.Perm.Basic
import Mathlib.Data.List.Basic
set_option linter.unusedSectionVars false
/-!
# C07 — HDF5 save followed by load returns the same object

Theorems about DNPLab's layout logic over an abstract HDF5 tree.  h5py's storage rules
(`h5Attr`, creation-order iteration under track_order, dimension scales) are L0: trusted, and
compared with real files in the correspondence run.
-/
namespace Dnp.C07
open Dnp.H5

/-- lists, tuples and arrays are one container class after a round trip -/
def norm : PyVal → PyVal
  | .ndarr xs => .seq xs
  | v => v

/-- a value the persistence layer can carry: no `None` inside a sequence, no sequence too long for an HDF5 attribute,
    and no string that collides with the None alias -/
def StorableVal : PyVal → Prop
  | .sc (.str s) => s ≠ noneAlias
  | .sc _ => True
  | .seq xs => ¬ (xs.any (· == Sc.none)) = true ∧ xs.length < attrMaxLen
  | .ndarr xs => ¬ (xs.any (· == Sc.none)) = true ∧ xs.length < attrMaxLen

theorem attr_roundtrip (v : PyVal) (hv : StorableVal v) :
    ∃ st, h5Attr (toAlias v) = some st ∧ fromAlias st = norm v := by
  cases v with
  | sc s =>
    cases s with
    | none => exact ⟨.scalar (.str noneAlias), rfl, by simp [fromAlias, norm]⟩
    | bool b => exact ⟨.scalar (.bool b), rfl, rfl⟩
    | num q => exact ⟨.scalar (.num q), rfl, rfl⟩
    | str s =>
      refine ⟨.scalar (.str s), rfl, ?_⟩
      have : s ≠ noneAlias := hv
      simp [fromAlias, norm, this]
  | seq xs =>
    have h1 : ¬ (xs.any (· == Sc.none)) = true := hv.1
    have h2 : ¬ attrMaxLen ≤ xs.length := Nat.not_le.2 hv.2
    exact ⟨.array xs, by simp [toAlias, h5Attr, h1, h2], rfl⟩
  | ndarr xs =>
    have h1 : ¬ (xs.any (· == Sc.none)) = true := hv.1
    have h2 : ¬ attrMaxLen ≤ xs.length := Nat.not_le.2 hv.2
    exact ⟨.array xs, by simp [toAlias, h5Attr, h1, h2], rfl⟩

/-- an attribute dictionary comes back with the same key → value mapping (scalar-like entries
    first, array entries after them: dictionary order is not part of equality) -/
theorem attrs_roundtrip : ∀ (kv : List (String × PyVal)), (∀ p ∈ kv, StorableVal p.2) →
    ∃ a d, writeAttrs kv = some (a, d) ∧ (readAttrs a d).Perm (kv.map (fun p => (p.1, norm p.2)))
  | [], _ => ⟨[], [], rfl, by simp [readAttrs]⟩
  | (k, v) :: rest, h => by
    obtain ⟨a, d, hw, hp⟩ := attrs_roundtrip rest (fun p hp => h p (by simp [hp]))
    cases v with
    | ndarr xs =>
      refine ⟨a, (k, xs) :: d, by simp [writeAttrs, hw], ?_⟩
      simp only [readAttrs, List.map_cons, norm] at hp ⊢
      exact (List.perm_middle).trans (hp.cons _)
    | sc s =>
      obtain ⟨st, hs, hf⟩ := attr_roundtrip (.sc s) (h (k, .sc s) (by simp))
      refine ⟨(k, st) :: a, d, by simp [writeAttrs, hs, hw], ?_⟩
      simp only [readAttrs, List.map_cons, List.cons_append, hf] at hp ⊢
      exact hp.cons _
    | seq xs =>
      obtain ⟨st, hs, hf⟩ := attr_roundtrip (.seq xs) (h (k, .seq xs) (by simp))
      refine ⟨(k, st) :: a, d, by simp [writeAttrs, hs, hw], ?_⟩
      simp only [readAttrs, List.map_cons, List.cons_append, hf] at hp ⊢
      exact hp.cons _

theorem params_roundtrip : ∀ (kv : List (String × PyVal)), (∀ p ∈ kv, StorableVal p.2) →
    ∃ st, writeParams kv = some st ∧ st.map (fun q => (q.1, fromAlias q.2)) = kv.map (fun p => (p.1, norm p.2))
  | [], _ => ⟨[], rfl, rfl⟩
  | (k, v) :: rest, h => by
    obtain ⟨st, hw, hp⟩ := params_roundtrip rest (fun p hp => h p (by simp [hp]))
    have hv := h (k, v) (by simp)
    cases v with
    | ndarr xs =>
      obtain ⟨s1, hs, hf⟩ := attr_roundtrip (.seq xs) hv
      exact ⟨(k, s1) :: st, by simp [writeParams, hs, hw], by simp [hf, hp, norm]⟩
    | sc s =>
      obtain ⟨s1, hs, hf⟩ := attr_roundtrip (.sc s) hv
      exact ⟨(k, s1) :: st, by simp [writeParams, hs, hw], by simp [hf, hp]⟩
    | seq xs =>
      obtain ⟨s1, hs, hf⟩ := attr_roundtrip (.seq xs) hv
      exact ⟨(k, s1) :: st, by simp [writeParams, hs, hw], by simp [hf, hp]⟩

theorem digits_ne_colon (i : Nat) : ∀ c ∈ (toString i).toList, c ≠ ':' := by
  intro c hc
  have : (toString i).toList = Nat.toDigits 10 i := by simp [toString, Nat.repr]
  rw [this] at hc
  have := Nat.isDigit_of_mem_toDigits (by decide) (by decide) hc
  intro e; subst e; simp [Char.isDigit] at this

/-- `"%i:%s" % (ix, name)` followed by `split(":", 1)[1]` returns the name, whatever it contains -/
theorem afterColon_fmt (i : Nat) (name : String) : afterColon (toString i ++ ":" ++ name) = name := by
  unfold afterColon
  have h : (toString i ++ ":" ++ name).toList = (toString i).toList ++ (':' :: name.toList) := by
    simp [String.toList_append]
  rw [h, List.dropWhile_append_of_pos]
  · simp
  · intro c hc; simpa using digits_ne_colon i c hc

/-- the processing history comes back entry for entry IN ORDER, for any number of steps
    (by induction on the history; the `10:` < `2:` name-order trap does not arise because the
    group is created with track_order and iterated in creation order) -/
theorem hist_roundtrip : ∀ (i : Nat) (hist : List (String × List (String × PyVal))),
    (∀ e ∈ hist, ∀ p ∈ e.2, StorableVal p.2) →
    ∃ pr, writeHist i hist = some pr ∧
      pr.map (fun p => (afterColon p.1, p.2.map (fun kv => (kv.1, fromAlias kv.2))))
        = hist.map (fun e => (e.1, e.2.map (fun p => (p.1, norm p.2))))
  | _, [], _ => ⟨[], rfl, rfl⟩
  | i, (name, ps) :: rest, h => by
    obtain ⟨pr, hw, hp⟩ := hist_roundtrip (i + 1) rest (fun e he => h e (by simp [he]))
    obtain ⟨st, hs, hq⟩ := params_roundtrip ps (h (name, ps) (by simp))
    refine ⟨(toString i ++ ":" ++ name, st) :: pr, by simp [writeHist, hs, hw], ?_⟩
    simp only [List.map_cons, afterColon_fmt, hq, hp]

/-- everything the object needs for the round trip -/
structure StorableObj (o : Obj) : Prop where
  dims_coords : o.dims.length = o.coords.length
  attrs : ∀ p ∈ o.attrs, StorableVal p.2
  dattrs : ∀ p ∈ o.dattrs, StorableVal p.2
  hist : ∀ e ∈ o.hist, ∀ p ∈ e.2, StorableVal p.2

/-- **save followed by load** returns equal values of the same dtype, the same dimension names in the
    same order, equal coordinates, the same attribute mappings and the same history in the same order -/
theorem load_save (o : Obj) (ho : StorableObj o) :
    ∃ t, writeAll (wrap o) = some t ∧ ∃ o', load t = .single o' ∧
      o'.dtype = o.dtype ∧ o'.shape = o.shape ∧ o'.data = o.data ∧ o'.dims = o.dims ∧ o'.coords = o.coords ∧
      o'.attrs.Perm (o.attrs.map (fun p => (p.1, norm p.2))) ∧
      o'.dattrs.Perm (o.dattrs.map (fun p => (p.1, norm p.2))) ∧
      o'.hist = o.hist.map (fun e => (e.1, e.2.map (fun p => (p.1, norm p.2)))) := by
  obtain ⟨aA, aD, hwa, hpa⟩ := attrs_roundtrip o.attrs ho.attrs
  obtain ⟨dA, dD, hwd, hpd⟩ := attrs_roundtrip o.dattrs ho.dattrs
  obtain ⟨pr, hwh, hph⟩ := hist_roundtrip 0 o.hist ho.hist
  refine ⟨[("__DNPDATA__", Node.data (DataGroup.mk o.dtype o.shape o.data (o.dims.zip o.coords) aA aD dA dD pr))], ?_, ?_⟩
  · simp [wrap, writeAll, writeEntry, writeObj, hwa, hwd, hwh, bind, Option.bind]
  · refine ⟨_, rfl, rfl, rfl, rfl, ?_, ?_, hpa, hpd, hph⟩
    · simp only [readObj]
      exact List.map_fst_zip (Nat.le_of_eq ho.dims_coords)
    · simp only [readObj]
      exact List.map_snd_zip (Nat.le_of_eq ho.dims_coords.symm)

/-- the pinned reader raised for every array-valued attribute (`v in replace_types` on an array);
    in the model: such an attribute is read back as the sequence it was -/
theorem array_attr_example :
    let o : Obj := { dtype := "f8", shape := [2], data := ["1", "2"], dims := ["t2"], coords := [[0, 1]],
                     attrs := [("lst", .seq [.num 1, .num 2]), ("none", .sc .none), ("arr", .ndarr [.num 3])],
                     dattrs := [], hist := [("integrate", [("regions", .sc .none), ("dim", .sc (.str "f2"))])] }
    (writeAll (wrap o)).map load = some (.single
      { o with attrs := [("lst", .seq [.num 1, .num 2]), ("none", .sc .none), ("arr", .seq [.num 3])] }) := by
  decide +kernel

end Dnp.C07
