import DnpProofs.Lemmas.Align
set_option linter.unusedSectionVars false
/-!
# C04 — arithmetic aligns operands by dimension name, not by axis position

`f` is an arbitrary binary function on an arbitrary value type, so the four operators on real
and complex data are instances; `close` is NumPy's `allclose` element test (L0).
-/
namespace Dnp.C04
open Np Dnp Dnp.Data
variable {κ α : Type} [Inhabited α] [Inhabited κ]

/-- the result carries the union of the dimensions (a's, then b-only in b's order) and each
    element is `f` of the operands' elements with the same labels, whatever the axis orders;
    dimensions absent from one operand broadcast (ℓ is simply not consulted for them) -/
theorem binop_spec (close : κ → κ → Bool) (f : α → α → α) {a b r : Data κ α}
    (ha : a.Consistent) (hb : b.Consistent) (hr : binop close f a b = .ok r) :
    r.Consistent ∧ r.dims = a.dims ++ restDims a b ∧ r.coords = a.coords ++ (restDims a b).map b.coord ∧
    ∀ ℓ : String → Nat, (∀ x ∈ a.dims, ℓ x < a.ext x) → (∀ x ∈ b.dims, ℓ x < b.ext x) →
      r.getN ℓ = f (a.getN ℓ) (b.getN ℓ) := by
  obtain ⟨h1, _, h3⟩ := Data.binop_spec close f ha hb hr
  obtain ⟨h4, h5⟩ := binop_consistent close f ha hb hr
  exact ⟨h4, h1, h5, h3⟩

/-- the operation succeeds exactly when the shared dimensions carry agreeing coordinates;
    otherwise it raises ValueError and no misaligned data is produced -/
theorem binop_ok_iff (close : κ → κ → Bool) (f : α → α → α) (a b : Data κ α)
    (ha : a.Consistent) (hb : b.Consistent) :
    (∃ r, binop close f a b = .ok r) ↔ CoordsAgree close a b := by
  constructor
  · rintro ⟨r, hr⟩
    exact (Data.binop_spec close f ha hb hr).2.1
  · intro hag
    unfold binop align
    simp only [bind, Except.bind]
    have : ¬ ((dedup (a.dims ++ b.dims)).any fun x =>
        a.dims.contains x && b.dims.contains x && !coordsClose close (a.coord x) (b.coord x)) = true := by
      rw [List.any_eq_true]
      rintro ⟨x, _, hx⟩
      simp only [Bool.and_eq_true, List.contains_iff_mem, Bool.not_eq_true'] at hx
      have := hag x hx.1.1 hx.1.2
      rw [this] at hx; exact absurd hx.2 (by simp)
    rw [if_neg this]
    exact ⟨_, rfl⟩

theorem binop_mismatch_raises (close : κ → κ → Bool) (f : α → α → α) (a b : Data κ α)
    (ha : a.Consistent) (hb : b.Consistent) (h : ¬ CoordsAgree close a b) :
    binop close f a b = .error .value := by
  cases hq : binop close f a b with
  | ok r => exact absurd ((binop_ok_iff close f a b ha hb).1 ⟨r, hq⟩) h
  | error e =>
    unfold binop align at hq
    simp only [bind, Except.bind] at hq
    split at hq
    · rename_i e' heq
      split at heq
      · simp only [Except.error.injEq] at heq hq; rw [← hq, ← heq]
      · cases heq
    · cases hq

/-- storage order is invisible: permuting the axes of either operand (any permutations, given as
    lists of names) gives a result with the same value at the same labels -/
theorem binop_perm_invariant (close : κ → κ → Bool) (f : α → α → α) {a b r r' : Data κ α}
    {pa pb : List String} (ha : a.Consistent) (hb : b.Consistent) (hpa : pa.Perm a.dims) (hpb : pb.Perm b.dims)
    (hr : binop close f a b = .ok r) (hr' : binop close f (a.permuted pa) (b.permuted pb) = .ok r')
    (ℓ : String → Nat) (hla : ∀ x ∈ a.dims, ℓ x < a.ext x) (hlb : ∀ x ∈ b.dims, ℓ x < b.ext x) :
    r'.getN ℓ = r.getN ℓ := by
  obtain ⟨ha1, ha2, ha3⟩ := permuted_spec ha hpa
  obtain ⟨hb1, hb2, hb3⟩ := permuted_spec hb hpb
  have ea : ∀ x ∈ a.dims, (a.permuted pa).ext x = a.ext x := fun x hx => by
    rw [ha1.ext_eq (hpa.mem_iff.2 hx), ha.ext_eq hx, ha2 x hx]
  have eb : ∀ x ∈ b.dims, (b.permuted pb).ext x = b.ext x := fun x hx => by
    rw [hb1.ext_eq (hpb.mem_iff.2 hx), hb.ext_eq hx, hb2 x hx]
  rw [(Data.binop_spec close f ha hb hr).2.2 ℓ hla hlb,
    (Data.binop_spec close f ha1 hb1 hr').2.2 ℓ
      (fun x hx => by have hx' := hpa.mem_iff.1 hx; rw [ea x hx']; exact hla x hx')
      (fun x hx => by have hx' := hpb.mem_iff.1 hx; rw [eb x hx']; exact hlb x hx'),
    ha3 ℓ hla, hb3 ℓ hlb]

/-- scalar on either side: NumPy's value on every element, labels untouched -/
theorem scalar_spec (d : Data κ α) (g : α → α) (h : d.Consistent) :
    (d.scalarOp g).dims = d.dims ∧ (d.scalarOp g).coords = d.coords ∧
    (d.scalarOp g).values = d.values.map g ∧ (d.scalarOp g).Consistent :=
  ⟨rfl, rfl, rfl, scalarOp_consistent h g⟩

/-- plain array of the object's shape on either side: element-wise on the flat data, labels untouched -/
theorem array_spec {d r : Data κ α} (f : α → α → α) (arr : Arr α) (hr : d.arrayOp f arr = .ok r) :
    r.dims = d.dims ∧ r.coords = d.coords ∧ r.values.shape = d.values.shape ∧
    r.values.data = List.zipWith f d.values.data arr.data := by
  unfold arrayOp at hr
  split at hr
  · cases hr
  · simp only [Except.ok.injEq] at hr; subst hr; exact ⟨rfl, rfl, rfl, rfl⟩

/-- non-vacuity: a (2,3) object times a (3,) object given in the other order broadcasts by name -/
theorem example_broadcast :
    let a : Data Nat Nat := { dims := ["x", "y"], coords := [[0, 1], [5, 6, 7]], values := ⟨[2, 3], [1, 2, 3, 4, 5, 6]⟩ }
    let b : Data Nat Nat := { dims := ["z", "y"], coords := [[9], [5, 6, 7]], values := ⟨[1, 3], [10, 20, 30]⟩ }
    ((binop (fun x y => x == y) (· * ·) a b).toOption.map (fun r => (r.dims, r.values.shape, r.values.data)))
      = some (["x", "y", "z"], [2, 3, 1], [10, 40, 90, 40, 100, 180]) := by decide +kernel

end Dnp.C04
