import DnpModel.Proc.Stamps
import DnpProofs.Lemmas.Consistent2
import DnpProofs.Lemmas.Store
import DnpProofs.Lemmas.Hist
set_option linter.unusedSectionVars false
/-!
# C11 — processing history only grows by appending
-/
namespace Dnp.C11
open Np Dnp Dnp.Data
variable {κ α : Type} [Inhabited α] [Inhabited κ]

/-- a processing step: returns a new object whose history is the input's followed by >= 1 entry,
    the first of which carries the step's name -/
def Appends (F : Data κ α → Except Err (Data κ α)) (name : String) : Prop :=
  ∀ d d', F d = .ok d' → ∃ keys rest, d'.hist = d.hist ++ (name, keys) :: rest

theorem npUnary_appends (n : String) (f : α → α) :
    Appends (fun d : Data κ α => .ok (d.npUnary n f)) ("numpy." ++ n) := by
  intro d d' h
  simp only [Except.ok.injEq] at h
  subst h
  exact ⟨["args", "kwargs"], [], rfl⟩

theorem npBinary_appends (n : String) (f : α → α → α) (b : Data κ α) :
    Appends (fun d : Data κ α => npBinaryData n f d b) ("numpy." ++ n) := by
  intro d d' h
  simp only at h
  unfold npBinaryData at h
  split at h
  · cases h
  · simp only [Except.ok.injEq] at h
    subst h
    exact ⟨["args", "kwargs"], [], rfl⟩

theorem npReduce_appends (n : String) (f : List α → α) (ax : Axis) {d r : Data κ α} (hc : d.Consistent)
    (h : d.npReduce n f ax = .ok (.inl r)) : r.hist = d.hist ++ [("numpy." ++ n, ["axis"])] := by
  unfold npReduce at h
  cases ax with
  | tuple items =>
    obtain ⟨_, _, _, _, _, _, _, hh, _⟩ := npReduce_tuple_spec n f hc (by unfold npReduce; exact h)
    exact hh
  | none => simp at h
  | name s =>
    simp only at h
    split at h
    · cases h
    · split at h
      · simp at h
      · cases hq : d.reduceDim f s with
        | error e => rw [hq] at h; cases h
        | ok q =>
          rw [hq] at h
          simp only [Except.map, Except.ok.injEq, Sum.inl.injEq] at h
          subst h
          obtain ⟨_, _, _, _, hh, _⟩ := reduceDim_dims f hq
          simp [addHist, hh]
  | pos i =>
    simp only at h
    split at h
    · cases h
    · split at h
      · simp at h
      · cases hq : d.reduceDim f (d.dims.getD (if i < 0 then i + d.dims.length else i).toNat "") with
        | error e => rw [hq] at h; cases h
        | ok q =>
          rw [hq] at h
          simp only [Except.map, Except.ok.injEq, Sum.inl.injEq] at h
          subst h
          obtain ⟨_, _, _, _, hh, _⟩ := reduceDim_dims f hq
          simp [addHist, hh]

/-- run a pipeline of steps, stopping at the first raise -/
def runPipe : List (Data κ α → Except Err (Data κ α)) → Data κ α → Except Err (Data κ α)
  | [], d => .ok d
  | F :: Fs, d => F d >>= runPipe Fs

/-- across ANY pipeline of appending steps the history is an append-only log: the input's history
    is a prefix of the output's, and the step names can be read back in order -/
theorem pipeline_prefix :
    ∀ (steps : List ((Data κ α → Except Err (Data κ α)) × String)),
      (∀ p ∈ steps, Appends p.1 p.2) → ∀ d d', runPipe (steps.map (·.1)) d = .ok d' →
      ∃ tail, d'.hist = d.hist ++ tail ∧ (steps.map (·.2)).Sublist (tail.map (·.1)) ∧ steps.length ≤ tail.length
  | [], _, d, d', h => by
    simp only [List.map_nil, runPipe, Except.ok.injEq] at h
    subst h
    exact ⟨[], by simp, by simp, by simp⟩
  | (F, nm) :: steps, hA, d, d', h => by
    simp only [List.map_cons, runPipe, bind, Except.bind] at h
    cases hF : F d with
    | error e => rw [hF] at h; cases h
    | ok d1 =>
      rw [hF] at h
      obtain ⟨keys, rest, h1⟩ := hA (F, nm) (by simp) d d1 hF
      obtain ⟨tail, h2, h3, h4⟩ := pipeline_prefix steps (fun p hp => hA p (by simp [hp])) d1 d' h
      refine ⟨(nm, keys) :: rest ++ tail, by rw [h2, h1]; simp, ?_, by simp; omega⟩
      simp only [List.map_cons, List.map_append, List.cons_append]
      exact List.Sublist.cons_cons nm (h3.trans (List.sublist_append_right _ _))

/-- the input object itself is not touched by a step that stores its result elsewhere (C03 frame) -/
theorem input_history_kept (sc : Scalars κ α) (s : Store κ α) (op : Op κ α) (i : Nat) (h : i ≠ op.target) :
    ((step sc s op).store.get? i).map (·.hist) = (s.get? i).map (·.hist) := by
  have : (step sc s op).store.get? i = s.get? i := by
    cases op <;> simp only [Op.target] at h <;> simp only [step]
    all_goals first
      | exact Store.get?_set_ne s _ h
      | exact Store.get?_del_ne s h
      | (apply withObj_frame; intro d; first
          | exact Store.get?_set_ne s _ h
          | exact putResult_frame h _
          | (apply withObj_frame; intro b; exact putResult_frame h _)
          | (split <;> first | rfl | exact Store.get?_set_ne s _ h))
      | (split <;> first | rfl | exact putResult_frame h _)
  rw [this]

/-- non-vacuity: a concrete two-step NumPy pipeline on an object with a two-entry history -/
theorem example_pipeline :
    let d : Data Nat Int := { dims := ["x", "y"], coords := [[0, 1], [0, 1, 2]], values := ⟨[2, 3], [1, 2, 3, 4, 5, 6]⟩,
                              hist := [("fourier_transform", ["dim"]), ("phase", ["p0"])] }
    ((runPipe [fun d => .ok (d.npUnary "negative" (fun x => -x)),
               fun d => (d.npReduce "sum" (fun l => l.foldl (· + ·) 0) (.name "y")).bind
                 (fun r => match r with | .inl r => .ok r | .inr _ => .error .other)] d).toOption.map (·.hist))
      = some [("fourier_transform", ["dim"]), ("phase", ["p0"]), ("numpy.negative", ["args", "kwargs"]),
              ("numpy.sum", ["axis"])] := by decide +kernel

/-- a step built as "mechanism that keeps the history, then one stamped entry" appends -/
theorem appends_of_keep {F : Data κ α → Except Err (Data κ α)} {G : Data κ α → Except Err (Data κ α)}
    (name : String) (keys : List String)
    (hG : ∀ d r, G d = .ok r → r.hist = d.hist)
    (hF : ∀ d, F d = (G d).bind (fun r => .ok (r.addHist name keys))) : Appends F name := by
  intro d d' h
  rw [hF] at h
  cases hg : G d with
  | error e => rw [hg] at h; cases h
  | ok r =>
    rw [hg] at h
    simp only [Except.bind, Except.ok.injEq] at h
    subst h
    exact ⟨keys, [], by simp [addHist, hG d r hg]⟩

variable (A : Arith κ α)

/-- "Every processing function …": each processing function of the model, with ANY external numerics plugged in,
    returns the input's complete history followed by its own entry -/
theorem model_procs_append (arange : Nat → List κ) (dist : κ → κ → κ) (dim : String) :
    (∀ valid kind keys w, Appends (fun d : Data κ α => d.apodize A valid dim kind keys w) "window") ∧
    (∀ cis, Appends (fun d : Data κ α => d.phase A arange dim cis) "phase_correction") ∧
    (∀ cis, Appends (fun d : Data κ α => d.autophase A arange dim cis) "autophase") ∧
    (∀ rp ni, Appends (fun d : Data κ α => d.phaseCycle A dim rp ni) "phasecycle") ∧
    (∀ zff shift ppm tw, Appends (fun d : Data κ α => d.fourierTransform A dim zff shift ppm tw) "fourier_transform") ∧
    (∀ zff shift ppm tw, Appends (fun d : Data κ α => d.inverseFourierTransform A dim zff shift ppm tw)
      "inverse_fourier_transform") ∧
    Appends (fun d : Data κ α => integrateAll A d dim) "integrate" ∧
    (∀ regions, Appends (fun d : Data κ α => integrateRegions A arange dist d dim regions) "integrate") ∧
    Appends (fun d : Data κ α => d.cumulativeIntegrate A dim) "cumlative_integrate" ∧
    (∀ n, Appends (fun d : Data κ α => d.leftShift A dist dim n) "left_shift") ∧
    (∀ shift, Appends (fun d : Data κ α => d.reference A dim shift) "reference") ∧
    (∀ od, Appends (fun d : Data κ α => d.normalize A arange od) "normalized") ∧
    (∀ newc, Appends (fun d : Data κ α => d.interp A arange dim newc) "interp") ∧
    (∀ mean ax, Appends (fun d : Data κ α => d.average mean ax) "average") ∧
    Appends (fun d : Data κ α => d.ndalign A arange dim) "ndalign" ∧
    (∀ idx re, Appends (fun d : Data κ α => d.enhancement A idx re) "calculate_enhancement") := by
  refine ⟨?_, ?_, ?_, ?_, ?_, ?_, ?_, ?_, ?_, ?_, ?_, ?_, ?_, ?_, ?_, ?_⟩
  · intro valid kind keys w d d' h
    simp only [Data.apodize] at h
    split at h
    · cases h
    · split at h
      · cases h
      · simp only [bind, Except.bind] at h
        split at h
        · cases h
        · rename_i r hr
          simp only [Except.ok.injEq] at h; subst h
          exact ⟨keys, [], by simp [addHist, scaleAlong_hist A.mul w hr]⟩
  · intro cis
    exact appends_of_keep (G := fun d => d.bracket arange dim _ (d.ext dim) none) _ _
      (fun d r h => bracket_hist arange _ _ _ h) (fun d => by simp only [Data.phase, bind]; rfl)
  · intro cis
    exact appends_of_keep (G := fun d => d.bracket arange dim _ (d.ext dim) none) _ _
      (fun d r h => bracket_hist arange _ _ _ h) (fun d => by simp only [Data.autophase, bind]; rfl)
  · intro rp ni d d' h
    simp only [Data.phaseCycle] at h
    split at h
    · cases h
    · split at h
      · cases h
      · split at h
        · cases h
        · simp only [bind, Except.bind] at h
          split at h
          · cases h
          · rename_i r hr
            simp only [Except.ok.injEq] at h; subst h
            exact ⟨_, [], by show r.hist ++ [_] = _; rw [scaleAlong_hist A.mul _ hr]⟩
  · intro zff shift ppm tw d d' h
    simp only [Data.fourierTransform] at h
    split at h
    · cases h
    · split at h
      · cases h
      · split at h
        · cases h
        · simp only [Except.ok.injEq] at h; subst h
          exact ⟨_, [], rfl⟩
  · intro zff shift ppm tw d d' h
    simp only [Data.inverseFourierTransform] at h
    split at h
    · cases h
    · split at h
      · cases h
      · split at h
        · cases h
        · simp only [Except.ok.injEq] at h; subst h
          exact ⟨_, [], rfl⟩
  · intro d d' h
    simp only [integrateAll, bind, Except.bind] at h
    split at h
    · cases h
    · rename_i r hr
      simp only [Except.ok.injEq] at h; subst h
      exact ⟨_, [], by show r.hist ++ [_] = _; rw [reduceDim_hist _ hr]⟩
  · intro regions d d' h
    simp only [integrateRegions, bind, Except.bind] at h
    split at h
    · cases h
    · split at h
      · cases h
      · split at h
        · cases h
        · simp only [Except.ok.injEq] at h; subst h
          exact ⟨_, [], rfl⟩
  · exact appends_of_keep (G := fun d => d.mapAlong dim _ (d.ext dim) none) _ _
      (fun d r h => mapAlong_hist _ _ _ h) (fun d => by simp only [Data.cumulativeIntegrate, bind]; rfl)
  · intro n
    exact appends_of_keep (G := fun d => d.getitem dist A.klt _) _ _
      (fun d r h => getitem_hist dist A.klt h) (fun d => by simp only [Data.leftShift, bind]; rfl)
  · intro shift d d' h
    simp only [Data.reference] at h
    split at h
    · cases h
    · simp only [Except.ok.injEq] at h; subst h
      exact ⟨_, [], rfl⟩
  · intro od d d' h
    cases od with
    | none =>
      simp only [Data.normalize, Except.ok.injEq] at h; subst h
      exact ⟨_, [], rfl⟩
    | some dm =>
      simp only [Data.normalize] at h
      split at h
      · cases h
      · simp only [bind, Except.bind] at h
        split at h
        · cases h
        · rename_i r hr
          simp only [Except.ok.injEq] at h; subst h
          exact ⟨_, [], by show r.hist ++ [_] = _; rw [bracket_hist arange _ _ _ hr]⟩
  · intro newc
    exact appends_of_keep (G := fun d => d.bracket arange dim _ newc.length (some newc)) _ _
      (fun d r h => bracket_hist arange _ _ _ h) (fun d => by simp only [Data.interp, bind]; rfl)
  · intro mean ax d d' h
    simp only [Data.average] at h
    split at h
    · cases h
    · cases h
    · simp only [Except.ok.injEq] at h; subst h
      exact ⟨_, [], rfl⟩
  · intro d d' h
    simp only [Data.ndalign] at h
    split at h
    · cases h
    · simp only [bind, Except.bind] at h
      split at h
      · cases h
      · rename_i r hr
        simp only [Except.ok.injEq] at h; subst h
        exact ⟨_, [], by show r.hist ++ [_] = _; rw [bracketAll_hist arange _ hr]⟩
  · intro idx re d d' h
    simp only [Data.enhancement] at h
    split at h
    · cases h
    · split at h
      · cases h
      · split at h
        · split at h
          · cases h
          · simp only [Except.ok.injEq] at h; subst h
            exact ⟨_, [], rfl⟩
        · split at h
          · simp only [Except.ok.injEq] at h; subst h
            exact ⟨_, [], rfl⟩
          · cases h


/-- the stronger form: the appended entry is exactly `(name, keys)` -/
def AppendsWith (F : Data κ α → Except Err (Data κ α)) (name : String) (keys : List String) : Prop :=
  ∀ d d', F d = .ok d' → ∃ rest, d'.hist = d.hist ++ (name, keys) :: rest

theorem AppendsWith.appends {F : Data κ α → Except Err (Data κ α)} {name : String} {keys : List String}
    (h : AppendsWith F name keys) : Appends F name :=
  fun d d' hd => let ⟨rest, hr⟩ := h d d' hd; ⟨keys, rest, hr⟩

theorem appendsWith_of_keep {F : Data κ α → Except Err (Data κ α)} {G : Data κ α → Except Err (Data κ α)}
    (name : String) (keys : List String)
    (hG : ∀ d r, G d = .ok r → r.hist = d.hist)
    (hF : ∀ d, F d = (G d).bind (fun r => .ok (r.addHist name keys))) : AppendsWith F name keys := by
  intro d d' h
  rw [hF] at h
  cases hg : G d with
  | error e => rw [hg] at h; cases h
  | ok r =>
    rw [hg] at h
    simp only [Except.bind, Except.ok.injEq] at h
    subst h
    exact ⟨[], by simp [addHist, hG d r hg]⟩

/-- every entry of the model's stamp table occurs, for the same source function, among the `add_proc_attrs` calls that
    tools/extract_tables.py finds in /repo's processing modules on THIS run (a renamed step or a dropped / added
    parameter key in the source breaks this obligation) -/
theorem model_stamps_in_source : ∀ e ∈ Dnp.modelStamps, e ∈ Dnp.Generated.procStamps := by decide +kernel

/-- the step names of `model_procs_stamp` are those of the table -/
theorem model_stamp_names :
    Dnp.modelStamps.map (fun e => (e.1, e.2.1)) =
      [("phase", "phase_correction"), ("autophase", "autophase"), ("phase_cycle", "phasecycle"),
       ("fourier_transform", "fourier_transform"), ("inverse_fourier_transform", "inverse_fourier_transform"),
       ("integrate", "integrate"), ("cumulative_integrate", "cumlative_integrate"), ("left_shift", "left_shift"),
       ("reference", "reference"), ("normalize", "normalized"), ("interp", "interp"), ("average", "average"),
       ("ndalign", "ndalign"), ("calculate_enhancement", "calculate_enhancement")] := by decide +kernel

/-- the same with the RECORDED PARAMETER NAMES: each processing function of the model returns the input's complete history
    followed by the entry `stampOf <source function>` of the table `Dnp.modelStamps` — the step name and parameter keys that
    `model_stamps_in_source` finds, function by function, in the regenerated table of `add_proc_attrs` calls of /repo -/
theorem model_procs_stamp (arange : Nat → List κ) (dist : κ → κ → κ) (dim : String) :
    (∀ valid kind keys w, AppendsWith (fun d : Data κ α => d.apodize A valid dim kind keys w) "window" keys) ∧
    (∀ cis, AppendsWith (fun d : Data κ α => d.phase A arange dim cis) "phase_correction" ["p0", "p1", "pivot"]) ∧
    (∀ cis, AppendsWith (fun d : Data κ α => d.autophase A arange dim cis) "autophase" ["deriv", "dim", "gamma", "phasetuples", "reference_slice"]) ∧
    (∀ rp ni, AppendsWith (fun d : Data κ α => d.phaseCycle A dim rp ni) "phasecycle" ["dim", "receiver_phase"]) ∧
    (∀ zff shift ppm tw, AppendsWith (fun d : Data κ α => d.fourierTransform A dim zff shift ppm tw) "fourier_transform" ["convert_to_ppm", "dim", "shift", "zero_fill_factor"]) ∧
    (∀ zff shift ppm tw, AppendsWith (fun d : Data κ α => d.inverseFourierTransform A dim zff shift ppm tw) "inverse_fourier_transform" ["convert_from_ppm", "dim", "shift", "zero_fill_factor"]) ∧
    AppendsWith (fun d : Data κ α => integrateAll A d dim) "integrate" ["dim", "regions"] ∧
    (∀ regions, AppendsWith (fun d : Data κ α => integrateRegions A arange dist d dim regions) "integrate" ["dim", "regions"]) ∧
    AppendsWith (fun d : Data κ α => d.cumulativeIntegrate A dim) "cumlative_integrate" ["dim", "regions"] ∧
    (∀ n, AppendsWith (fun d : Data κ α => d.leftShift A dist dim n) "left_shift" ["dim", "points"]) ∧
    (∀ shift, AppendsWith (fun d : Data κ α => d.reference A dim shift) "reference" ["dim", "new_ref", "old_ref"]) ∧
    (∀ od, AppendsWith (fun d : Data κ α => d.normalize A arange od) "normalized" ["amplitude"]) ∧
    (∀ newc, AppendsWith (fun d : Data κ α => d.interp A arange dim newc) "interp" ["dim", "left", "new_coord", "right"]) ∧
    (∀ mean ax, AppendsWith (fun d : Data κ α => d.average mean ax) "average" ["axis"]) ∧
    AppendsWith (fun d : Data κ α => d.ndalign A arange dim) "ndalign" ["dim"] ∧
    (∀ idx re, AppendsWith (fun d : Data κ α => d.enhancement A idx re) "calculate_enhancement" ["off_spectrum_index", "return_complex_values"]) := by
  refine ⟨?_, ?_, ?_, ?_, ?_, ?_, ?_, ?_, ?_, ?_, ?_, ?_, ?_, ?_, ?_, ?_⟩
  · intro valid kind keys w d d' h
    simp only [Data.apodize] at h
    split at h
    · cases h
    · split at h
      · cases h
      · simp only [bind, Except.bind] at h
        split at h
        · cases h
        · rename_i r hr
          simp only [Except.ok.injEq] at h; subst h
          exact ⟨[], by simp [addHist, scaleAlong_hist A.mul w hr]⟩
  · intro cis
    exact appendsWith_of_keep (G := fun d => d.bracket arange dim _ (d.ext dim) none) _ _
      (fun d r h => bracket_hist arange _ _ _ h) (fun d => by simp only [Data.phase, bind]; rfl)
  · intro cis
    exact appendsWith_of_keep (G := fun d => d.bracket arange dim _ (d.ext dim) none) _ _
      (fun d r h => bracket_hist arange _ _ _ h) (fun d => by simp only [Data.autophase, bind]; rfl)
  · intro rp ni d d' h
    simp only [Data.phaseCycle] at h
    split at h
    · cases h
    · split at h
      · cases h
      · split at h
        · cases h
        · simp only [bind, Except.bind] at h
          split at h
          · cases h
          · rename_i r hr
            simp only [Except.ok.injEq] at h; subst h
            exact ⟨[], by show r.hist ++ [_] = _; rw [scaleAlong_hist A.mul _ hr]⟩
  · intro zff shift ppm tw d d' h
    simp only [Data.fourierTransform] at h
    split at h
    · cases h
    · split at h
      · cases h
      · split at h
        · cases h
        · simp only [Except.ok.injEq] at h; subst h
          exact ⟨[], rfl⟩
  · intro zff shift ppm tw d d' h
    simp only [Data.inverseFourierTransform] at h
    split at h
    · cases h
    · split at h
      · cases h
      · split at h
        · cases h
        · simp only [Except.ok.injEq] at h; subst h
          exact ⟨[], rfl⟩
  · intro d d' h
    simp only [integrateAll, bind, Except.bind] at h
    split at h
    · cases h
    · rename_i r hr
      simp only [Except.ok.injEq] at h; subst h
      exact ⟨[], by show r.hist ++ [_] = _; rw [reduceDim_hist _ hr]⟩
  · intro regions d d' h
    simp only [integrateRegions, bind, Except.bind] at h
    split at h
    · cases h
    · split at h
      · cases h
      · split at h
        · cases h
        · simp only [Except.ok.injEq] at h; subst h
          exact ⟨[], rfl⟩
  · exact appendsWith_of_keep (G := fun d => d.mapAlong dim _ (d.ext dim) none) _ _
      (fun d r h => mapAlong_hist _ _ _ h) (fun d => by simp only [Data.cumulativeIntegrate, bind]; rfl)
  · intro n
    exact appendsWith_of_keep (G := fun d => d.getitem dist A.klt _) _ _
      (fun d r h => getitem_hist dist A.klt h) (fun d => by simp only [Data.leftShift, bind]; rfl)
  · intro shift d d' h
    simp only [Data.reference] at h
    split at h
    · cases h
    · simp only [Except.ok.injEq] at h; subst h
      exact ⟨[], rfl⟩
  · intro od d d' h
    cases od with
    | none =>
      simp only [Data.normalize, Except.ok.injEq] at h; subst h
      exact ⟨[], rfl⟩
    | some dm =>
      simp only [Data.normalize] at h
      split at h
      · cases h
      · simp only [bind, Except.bind] at h
        split at h
        · cases h
        · rename_i r hr
          simp only [Except.ok.injEq] at h; subst h
          exact ⟨[], by show r.hist ++ [_] = _; rw [bracket_hist arange _ _ _ hr]⟩
  · intro newc
    exact appendsWith_of_keep (G := fun d => d.bracket arange dim _ newc.length (some newc)) _ _
      (fun d r h => bracket_hist arange _ _ _ h) (fun d => by simp only [Data.interp, bind]; rfl)
  · intro mean ax d d' h
    simp only [Data.average] at h
    split at h
    · cases h
    · cases h
    · simp only [Except.ok.injEq] at h; subst h
      exact ⟨[], rfl⟩
  · intro d d' h
    simp only [Data.ndalign] at h
    split at h
    · cases h
    · simp only [bind, Except.bind] at h
      split at h
      · cases h
      · rename_i r hr
        simp only [Except.ok.injEq] at h; subst h
        exact ⟨[], by show r.hist ++ [_] = _; rw [bracketAll_hist arange _ hr]⟩
  · intro idx re d d' h
    simp only [Data.enhancement] at h
    split at h
    · cases h
    · split at h
      · cases h
      · split at h
        · split at h
          · cases h
          · simp only [Except.ok.injEq] at h; subst h
            exact ⟨[], rfl⟩
        · split at h
          · simp only [Except.ok.injEq] at h; subst h
            exact ⟨[], rfl⟩
          · cases h

end Dnp.C11
