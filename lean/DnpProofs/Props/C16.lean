import DnpModel.Io.Load
import DnpProofs.Props.C12
import Mathlib.Analysis.SpecialFunctions.Pow.Real
import Mathlib.Analysis.SpecialFunctions.Log.Base
set_option linter.unusedSectionVars false
/-!
# C16 — format dispatch, SI-normalised metadata and exact unit conversion

Decision logic stated outright over the tables REGENERATED from `dnplab/io/load.py` and
`dnplab/config/dnplab.cfg`; dBm/W over ℝ.
-/
namespace Dnp.C16
open Dnp.Load

/-! ### autodetect -/

/-- the abstract domain: every extension autodetect knows plus two foreign ones, file or directory,
    every subset of the six names it looks for in a listing -/
def exts : List String := Generated.autodetectExts ++ [".xyz", ""]
def names : List String := ["acqu", "acqus", "proc", "procss", "acqu.par", "data.csv"]
def domain : List PathInfo :=
  exts.flatMap fun e => [true, false].flatMap fun d => names.sublists.map fun l => ⟨e, d, l⟩

/-- whatever autodetect returns is either dispatched by load_file or is `mat` (for which load_file
    raises ValueError); so `load(p)` = `load(p, data_format=autodetect(p))` by construction, and no
    returned format is silently ignored -/
def dispatchedOk (p : PathInfo) : Bool :=
  match autodetect p with
  | .fmt f => dispatches f || f == "mat"
  | .typeError => true

theorem autodetect_dispatched : ∀ p ∈ domain, dispatchedOk p = true := by decide +kernel

/-- every file form an importer accepts is recognised, whatever else lies in the directory
    (the extension tests come first) -/
theorem autodetect_by_extension :
    ∀ p ∈ domain,
      (p.ext ∈ [".DSC", ".DTA", ".YGF"] → autodetect p = .fmt "xepr") ∧
      (p.ext ∈ [".par", ".spc"] → autodetect p = .fmt "winepr") ∧
      (p.ext ∈ [".d01", ".exp"] → autodetect p = .fmt "specman") ∧
      (p.ext = ".jdf" → autodetect p = .fmt "delta") := by decide +kernel

/-- directory forms: a TopSpin experiment folder, a pdata folder, a VnmrJ `.fid` folder, a Prospa folder -/
theorem autodetect_directories :
    ∀ p ∈ domain, p.ext ∈ [".fid", ".xyz", ""] → p.isDir = true →
      (("acqu" ∈ p.listing ∨ "acqus" ∈ p.listing) → autodetect p = .fmt "topspin") ∧
      (¬("acqu" ∈ p.listing ∨ "acqus" ∈ p.listing) → ("proc" ∈ p.listing ∨ "procss" ∈ p.listing) →
          autodetect p = .fmt "topspin pdata") ∧
      (¬("acqu" ∈ p.listing ∨ "acqus" ∈ p.listing) → ¬("proc" ∈ p.listing ∨ "procss" ∈ p.listing) →
          p.ext = ".fid" → autodetect p = .fmt "vnmrj") := by decide +kernel

/-- unrecognised paths are rejected: a foreign extension with nothing recognisable in the listing -/
theorem autodetect_rejects :
    ∀ p ∈ domain, p.ext ∈ [".xyz", ""] →
      ¬("acqu" ∈ p.listing ∨ "acqus" ∈ p.listing) → ¬("proc" ∈ p.listing ∨ "procss" ∈ p.listing) →
      ¬("acqu.par" ∈ p.listing ∧ "data.csv" ∈ p.listing) → autodetect p = .typeError := by decide +kernel

/-- a file (not a directory) with a foreign extension is always rejected -/
theorem autodetect_rejects_files :
    ∀ p ∈ domain, p.ext ∈ [".xyz", "", ".fid"] → p.isDir = false → autodetect p = .typeError := by decide +kernel

/-! ### SI scaling over the regenerated configuration -/

/-- every unit string formed from an SI prefix and a known unit scales by exactly that prefix,
    and a bare unit by 1 -/
theorem scale_spec :
    (∀ u ∈ Generated.units, scaleExpL u.toList = 0) ∧
    (∀ pre ∈ siPrefixes, ∀ u ∈ Generated.units, scaleExpL (pre.1.toList ++ u.toList) = pre.2) := by decide +kernel

/-- surrounding blanks of the configured unit do not matter (`frequency = b1Freq, MHz`) -/
theorem scale_trim : scaleExpL " MHz".toList = 6 ∧ scaleExpL " ms ".toList = -3 ∧ scaleExpL "GHz".toList = 9 ∧
    scaleExpL " s".toList = 0 := by decide +kernel

/-- the spectrometer frequency configured for each NMR format agrees with the importer's own
    `nmr_frequency` in Hz: same header key and the same power of ten -/
theorem frequency_agrees :
    ∀ n ∈ nativeFrequency,
      (mappingOf n.1 "frequency").map (fun v => parseMappingL v.toList) = some ([n.2.1.toList], n.2.2) := by
  decide +kernel

/-- every configured mapping either is the literal None, a data-info string, or parses into header
    keys and a recognised scale -/
theorem sections_cover_dispatch :
    ∀ s ∈ Generated.attrSections, dispatches s.1 = true ∧ assignsAttrs s.1 = true := by decide +kernel

/-- conversely every format for which attributes are assigned has a section (otherwise KeyError) -/
theorem dispatch_has_section :
    ∀ f ∈ Generated.dispatchFormats, assignsAttrs f = true → f ≠ "topspin pdata" →
      (Generated.attrSections.find? (·.1 = f)).isSome = true := by decide +kernel

/-! ### dBm ↔ W over ℝ -/

noncomputable def realPow : PowFns ℝ := { pow10 := fun x => (10 : ℝ) ^ x, log10 := fun x => Real.logb 10 x }

/-- W → dBm → W is the identity for every positive power -/
theorem dBm2w_w2dBm (w : ℝ) (hw : 0 < w) : dBm2w realPow (w2dBm realPow w) = w := by
  unfold dBm2w w2dBm realPow
  simp only
  have h1000 : (0 : ℝ) < 1000 * w := by positivity
  rw [mul_div_cancel_left₀ _ (by norm_num : (10 : ℝ) ≠ 0), Real.rpow_logb (by norm_num) (by norm_num) h1000]
  field_simp

/-- dBm → W → dBm is the identity for every level -/
theorem w2dBm_dBm2w (x : ℝ) : w2dBm realPow (dBm2w realPow x) = x := by
  unfold dBm2w w2dBm realPow
  simp only
  rw [mul_div_cancel₀ _ (by norm_num : (1000 : ℝ) ≠ 0), Real.logb_rpow (by norm_num) (by norm_num)]
  ring

/-- the result never depends on the container: a list / array is converted element by element -/
theorem container_independent (xs : List ℝ) :
    (xs.map (dBm2w realPow)).map (w2dBm realPow) = xs := by
  rw [List.map_map]
  conv_rhs => rw [← List.map_id xs]
  apply List.map_congr_left
  intro x _
  exact w2dBm_dBm2w x

/-- a list of paths is stacked along a new last dimension with the supplied coordinates: slice k IS the object loaded from
    the k-th path as given (whatever the importer, whatever the number of paths), and the new axis carries `coord` -/
theorem multi_load_spec {κ α : Type} [Inhabited α] [Inhabited κ] (loadOne : String → Except Err (Data κ α))
    (arange : Nat → List κ) {paths : List String} {dim : Option String} {coord : List κ} {r : Data κ α}
    (hc0 : coord ≠ []) (hr : Dnp.Load.loadMany loadOne arange paths dim coord = .ok r) :
    coord.length = paths.length ∧
    ∃ parts : List (Data κ α), List.Forall₂ (fun p d => loadOne p = .ok d) paths parts ∧
      ∀ p0 rest, parts = p0 :: rest → (∀ p ∈ parts, p.Consistent) →
        r.dims = p0.dims ++ [dim.getD "unnamed"] ∧ r.coords = p0.coords ++ [coord] ∧
        ∀ (ℓ : String → Nat) (k : Nat) (hk : k < parts.length), ℓ (dim.getD "unnamed") = k →
          (∀ nm ∈ p0.dims, ℓ nm < p0.ext nm) → r.getN ℓ = (parts[k]).values.get (p0.dims.map ℓ) := by
  unfold Dnp.Load.loadMany at hr
  split at hr
  · cases hr
  · rename_i hlen
    have hlen : coord.length = paths.length := by simpa using hlen
    simp only [bind, Except.bind] at hr
    cases hm : paths.mapM loadOne with
    | error e => rw [hm] at hr; cases hr
    | ok parts =>
      rw [hm] at hr
      simp only at hr
      have hne : ¬ coord.length = 0 := fun h => hc0 (List.length_eq_zero_iff.1 h)
      rw [if_neg hne] at hr
      refine ⟨hlen, parts, Dnp.C12.mapM_except_forall₂ loadOne paths parts hm, ?_⟩
      intro p0 rest hparts hall
      obtain ⟨hd, hv⟩ := Dnp.Data.concat_byname arange p0 rest hparts hall hr
      refine ⟨hd, ?_, hv⟩
      subst hparts
      unfold Dnp.Data.concat at hr
      simp only at hr
      split at hr
      · cases hr
      · split at hr
        · cases hr
        · simp only [Except.ok.injEq] at hr
          subst hr
          rfl

/-- a list of paths WITHOUT a format: every path is detected on its own — part k of the stack is the import of path k under
    the format autodetect finds for path k (never the format of another entry of the list) -/
theorem multi_load_auto {κ α : Type} [Inhabited α] [Inhabited κ] (info : String → Dnp.Load.PathInfo)
    (imp : String → String → Except Err (Data κ α)) (arange : Nat → List κ) {paths : List String} {dim : Option String}
    {coord : List κ} {r : Data κ α}
    (hr : Dnp.Load.loadMany (Dnp.Load.loadOneAuto info imp none) arange paths dim coord = .ok r) :
    ∃ parts : List (Data κ α), List.Forall₂
      (fun p d => ∃ f, Dnp.Load.autodetect (info p) = .fmt f ∧ Dnp.Load.dispatches f = true ∧ imp f p = .ok d) paths parts := by
  unfold Dnp.Load.loadMany at hr
  split at hr
  · cases hr
  · simp only [bind, Except.bind] at hr
    cases hm : paths.mapM (Dnp.Load.loadOneAuto info imp none) with
    | error e => rw [hm] at hr; cases hr
    | ok parts =>
      refine ⟨parts, ?_⟩
      have h := Dnp.C12.mapM_except_forall₂ _ paths parts hm
      refine List.Forall₂.imp ?_ h
      intro p d hpd
      unfold Dnp.Load.loadOneAuto at hpd
      simp only at hpd
      split at hpd
      · rename_i f hf
        split at hpd
        · rename_i hdisp
          exact ⟨f, hf, hdisp, hpd⟩
        · cases hpd
      · cases hpd

end Dnp.C16
