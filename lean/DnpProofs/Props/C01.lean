import DnpProofs.Lemmas.Align
import DnpProofs.Lemmas.Store
import DnpProofs.Lemmas.Consistent2
import DnpProofs.Lemmas.ProcValid
import DnpProofs.Lemmas.BracketAll
import DnpModel.Proc.Core
set_option linter.unusedSectionVars false
/-!
# C01 — every produced data object is structurally consistent

`Data.Consistent` is the property's definition: unique dimension names, exactly one coordinate
list per axis, each as long as its axis (and the flat data as long as the shape demands).
One theorem per operation of the public alphabet, for every rank, extent and argument.
-/
namespace Dnp.C01
open Np Dnp Dnp.Data
variable {κ α : Type} [Inhabited α] [Inhabited κ]

theorem reorder_consistent {d d' : Data κ α} {ds : List String} (h : d.Consistent)
    (hr : d.reorder ds = .ok d') : d'.Consistent := by
  obtain ⟨rfl, _, hsub⟩ := reorder_eq_permuted hr
  exact (permuted_spec h (dedup_append_perm h.1 hsub)).1

theorem sortDims_consistent {d : Data κ α} (h : d.Consistent) : d.sortDims.Consistent := by
  rw [sortDims_eq_permuted h]
  exact (permuted_spec h (sortedDims_perm d.dims)).1

theorem rename_consistent {d d' : Data κ α} {dim new : String} (h : d.Consistent)
    (hr : d.rename dim new = .ok d') : d'.Consistent := Data.rename_consistent h hr

theorem newDim_consistent {d d' : Data κ α} {dim : String} {c : κ} (h : d.Consistent)
    (hr : d.newDim dim c = .ok d') : d'.Consistent := Data.newDim_consistent h hr

/-- an unfold…fold bracket (one step of the alphabet) returns the object it started from -/
theorem unfoldFold_consistent (arange : Nat → List κ) {d d' : Data κ α} {dim : String} (h : d.Consistent)
    (hf : d.unf = none) (hr : (d.unfold arange dim >>= fold) = .ok d') : d'.Consistent := by
  by_cases hdim : dim ∈ d.dims
  · by_cases hfi : "fold_index" ∈ d.dims
    · unfold unfold at hr
      simp [folded, hf, hfi] at hr
      cases hr
    · rw [unfold_fold_id arange h hf hdim hfi] at hr
      cases hr; exact h
  · unfold unfold reorder at hr
    have : ¬ ∀ x ∈ [dim], x ∈ d.dims := by simpa using hdim
    simp only [folded, hf, Option.isNone_none, not_true_eq_false, if_false] at hr
    split at hr
    · cases hr
    · simp [this] at hr
      cases hr

theorem binop_consistent (close : κ → κ → Bool) (f : α → α → α) {a b r : Data κ α}
    (ha : a.Consistent) (hb : b.Consistent) (hr : binop close f a b = .ok r) : r.Consistent :=
  (Data.binop_consistent close f ha hb hr).1

theorem scalarOp_consistent {d : Data κ α} (h : d.Consistent) (f : α → α) : (d.scalarOp f).Consistent :=
  Data.scalarOp_consistent h f

theorem reduce_consistent {d d' : Data κ α} {dim : String} (f : List α → α) (h : d.Consistent)
    (hr : d.reduceDim f dim = .ok d') : d'.Consistent := reduceDim_consistent f h hr

theorem argCoord_consistent {d d' : Data κ α} {dim : String} (ofκ : κ → α) (lt : α → α → Bool) (h : d.Consistent)
    (hr : d.argCoord ofκ lt dim = .ok d') : d'.Consistent := reduceDim_consistent _ h hr

theorem npUnary_consistent {d : Data κ α} (h : d.Consistent) (n : String) (f : α → α) :
    (d.npUnary n f).Consistent := Data.npUnary_consistent h n f

theorem npReduce_consistent {d r : Data κ α} (n : String) (f : List α → α) (ax : Axis) (h : d.Consistent)
    (hr : d.npReduce n f ax = .ok (.inl r)) : r.Consistent := by
  unfold npReduce at hr
  cases ax with
  | none => simp at hr
  | name s =>
    simp only at hr
    split at hr
    · cases hr
    · split at hr
      · simp at hr
      · cases hq : d.reduceDim f s with
        | error e => rw [hq] at hr; cases hr
        | ok q =>
          rw [hq] at hr
          simp only [Except.map, Except.ok.injEq, Sum.inl.injEq] at hr
          subst hr
          exact addHist_consistent (reduceDim_consistent f h hq) _ _
  | pos i =>
    simp only at hr
    split at hr
    · cases hr
    · split at hr
      · simp at hr
      · cases hq : d.reduceDim f (d.dims.getD (if i < 0 then i + d.dims.length else i).toNat "") with
        | error e => rw [hq] at hr; cases hr
        | ok q =>
          rw [hq] at hr
          simp only [Except.map, Except.ok.injEq, Sum.inl.injEq] at hr
          subst hr
          exact addHist_consistent (reduceDim_consistent f h hq) _ _
  | tuple items =>
    obtain ⟨_, _, _, _, hc, _⟩ := npReduce_tuple_spec n f h (by unfold npReduce; exact hr)
    exact hc

theorem npBinary_consistent {a b r : Data κ α} (n : String) (f : α → α → α) (ha : a.Consistent)
    (hb : b.Consistent) (hr : npBinaryData n f a b = .ok r) : r.Consistent := by
  unfold npBinaryData at hr
  split at hr
  · cases hr
  · rename_i hs
    have hs : a.values.shape = b.values.shape := by simpa using hs
    simp only [Except.ok.injEq] at hr
    subst hr
    refine ⟨ha.1, ha.2.1, ha.2.2.1, ?_⟩
    have hla : a.values.data.length = size a.values.shape := ha.2.2.2
    have hlb : b.values.data.length = size a.values.shape := by rw [hs]; exact hb.2.2.2
    simp [Arr.WF, addHist, hla, hlb]

/-- attribute / history writes and element writes never touch the structure -/
theorem probes_consistent {d : Data κ α} (h : d.Consistent) (k v : String) (n : String) (ks : List String)
    (flat : Nat) (x : α) :
    ({ d with attrs := dictSet d.attrs k v } : Data κ α).Consistent ∧
    ({ d with dattrs := dictSet d.dattrs k v } : Data κ α).Consistent ∧
    (d.addHist n ks).Consistent ∧
    ({ d with values := ⟨d.values.shape, setAt d.values.data flat x⟩ } : Data κ α).Consistent :=
  ⟨h, h, h, ⟨h.1, h.2.1, h.2.2.1, by simpa [Arr.WF] using h.2.2.2⟩⟩

/-! ## The invariant over the whole operation alphabet

`StoreInv s`: every object of the workspace is consistent.  `Op.Valid`: the side conditions under which the
property speaks about an operation — constructor payloads are consistent ("applied to structurally consistent
inputs"), a plain array operand is well formed, an explicit coordinate for `concat` has one entry per object, a
processing function is one of those shown to preserve consistency (C08 instantiates this), and `unfold` / `fold`
only occur as the bracket `unfoldFold` ("an unfold...fold bracket counts as one step"). -/

def StoreInv (s : Store κ α) : Prop := ∀ i d, s.get? i = some d → d.Consistent

def OpValid (sc : Scalars κ α) : Op κ α → Prop
  | .new _ d => d.Consistent
  | .unfold _ _ => False
  | .fold _ => False
  | .arrayOp _ _ _ arr _ => arr.WF
  | .concat objs _ coord _ => (coord.getD (sc.arange objs.length)).length = objs.length
  | .proc F _ _ => ∀ d r, d.Consistent → F d = .ok r → r.Consistent
  | _ => True

theorem set_inv {s : Store κ α} (hs : StoreInv s) {i : Nat} {d : Data κ α} (hd : d.Consistent) :
    StoreInv (s.set i d) := by
  intro j e he
  by_cases hji : j = i
  · subst hji; rw [Store.get?_set_self] at he; cases he; exact hd
  · rw [Store.get?_set_ne _ _ hji] at he; exact hs _ _ he

theorem get?_del_self : ∀ (t : Store κ α) (i : Nat), (t.del i).get? i = none
  | [], _ => rfl
  | (k, e) :: t, i => by
    by_cases hk : k = i
    · simp [Store.del, hk, get?_del_self t i]
    · simp [Store.del, Store.get?, hk, get?_del_self t i]

theorem get?_del_some (s : Store κ α) {i j : Nat} {d : Data κ α} (h : (s.del j).get? i = some d) :
    s.get? i = some d := by
  by_cases hij : i = j
  · subst hij; rw [get?_del_self] at h; cases h
  · rw [Store.get?_del_ne s hij] at h; exact h

theorem withObj_inv {s : Store κ α} {i : Nat} {k : Data κ α → StepOut κ α} (hs : StoreInv s)
    (hk : ∀ d, s.get? i = some d → StoreInv (k d).store) : StoreInv (withObj s i k).store := by
  unfold withObj
  split
  · rename_i d hd; exact hk d hd
  · exact hs

theorem putResult_inv {s : Store κ α} {i : Nat} {r : Except Err (Data κ α)} (hs : StoreInv s)
    (hr : ∀ d, r = .ok d → d.Consistent) : StoreInv (putResult s i r).store := by
  unfold putResult
  split
  · rename_i d; exact set_inv hs (hr d rfl)
  · exact hs

theorem allObjs_consistent {s : Store κ α} (hs : StoreInv s) : ∀ (is : List Nat) (ds : List (Data κ α)),
    allObjs s is = some ds → ds.length = is.length ∧ ∀ d ∈ ds, d.Consistent
  | [], ds, h => by simp only [allObjs, Option.some.injEq] at h; subst h; simp
  | i :: is, ds, h => by
    unfold allObjs at h
    cases hg : s.get? i with
    | none => rw [hg] at h; simp at h
    | some d =>
      cases hq : allObjs s is with
      | none => rw [hg, hq] at h; simp at h
      | some rest =>
        rw [hg, hq] at h
        simp only [Option.some.injEq] at h
        subst h
        obtain ⟨hl, hc⟩ := allObjs_consistent hs is rest hq
        refine ⟨by simp [hl], ?_⟩
        intro e he
        rcases List.mem_cons.1 he with rfl | he
        · exact hs _ _ hg
        · exact hc e he

/-- ONE STEP: whatever operation of the alphabet is applied with whatever arguments, and whether it returns or
    raises, every object of the workspace is consistent afterwards -/
theorem step_inv (sc : Scalars κ α) (s : Store κ α) (op : Op κ α) (hs : StoreInv s) (hv : OpValid sc op) :
    StoreInv (step sc s op).store := by
  cases op with
  | new id d => exact set_inv hs hv
  | copy obj out => exact withObj_inv hs fun d hd => set_inv hs (hs _ _ hd)
  | reorder obj ds => exact withObj_inv hs fun d hd => putResult_inv hs fun r hr => reorder_consistent (hs _ _ hd) hr
  | sortDims obj => exact withObj_inv hs fun d hd => set_inv hs (sortDims_consistent (hs _ _ hd))
  | rename obj dim new => exact withObj_inv hs fun d hd => putResult_inv hs fun r hr => rename_consistent (hs _ _ hd) hr
  | sort obj dim => exact withObj_inv hs fun d hd => putResult_inv hs fun r hr => sort_consistent _ (hs _ _ hd) hr
  | newDim obj dim c => exact withObj_inv hs fun d hd => putResult_inv hs fun r hr => newDim_consistent (hs _ _ hd) hr
  | squeeze obj => exact withObj_inv hs fun d hd => set_inv hs (squeeze_consistent (hs _ _ hd))
  | split obj dim new c => exact withObj_inv hs fun d hd => putResult_inv hs fun r hr => split_consistent (hs _ _ hd) hr
  | concatenate obj other dim =>
    exact withObj_inv hs fun d hd => withObj_inv hs fun b hb => putResult_inv hs fun r hr =>
      concatenate_consistent (hs _ _ hd) (hs _ _ hb) hr
  | unfold obj dim => exact absurd hv id
  | fold obj => exact absurd hv id
  | unfoldFold obj dim =>
    refine withObj_inv hs fun d hd => putResult_inv hs fun r hr => ?_
    by_cases hf : d.unf = none
    · exact unfoldFold_consistent sc.arange (hs _ _ hd) hf hr
    · -- an object that is already unfolded: `unfold` raises, nothing is stored
      exfalso
      have : d.unfold sc.arange dim = .error .value := by
        unfold Data.unfold
        have : ¬ d.folded = true := by
          unfold folded; cases hu : d.unf with
          | none => exact absurd hu hf
          | some _ => simp
        simp [this]
      rw [this] at hr
      cases hr
  | getitem obj sels out =>
    exact withObj_inv hs fun d hd => putResult_inv hs fun r hr => getitem_consistent _ _ (hs _ _ hd) hr
  | setitem obj sels v =>
    exact withObj_inv hs fun d hd => putResult_inv hs fun r hr => setitemWith_consistent _ _ (hs _ _ hd) hr
  | binop f lhs rhs out =>
    exact withObj_inv hs fun a ha => withObj_inv hs fun b hb => putResult_inv hs fun r hr =>
      binop_consistent _ f (hs _ _ ha) (hs _ _ hb) hr
  | scalarOp f obj out => exact withObj_inv hs fun d hd => set_inv hs (scalarOp_consistent (hs _ _ hd) f)
  | arrayOp f stamp obj arr out =>
    refine withObj_inv hs fun d hd => putResult_inv hs fun r hr => ?_
    cases hq : d.arrayOp f arr with
    | error e => rw [hq] at hr; cases hr
    | ok q =>
      rw [hq] at hr
      simp only [Except.map, Except.ok.injEq] at hr
      subst hr
      have hqc := arrayOp_consistent f (hs _ _ hd) hv hq
      cases stamp with
      | none => exact hqc
      | some nm => exact Data.addHist_consistent hqc _ _
  | reduce f obj dim out =>
    exact withObj_inv hs fun d hd => putResult_inv hs fun r hr => reduce_consistent f (hs _ _ hd) hr
  | argCoord lt obj dim out =>
    exact withObj_inv hs fun d hd => putResult_inv hs fun r hr => argCoord_consistent _ lt (hs _ _ hd) hr
  | argIndex lt obj dim out =>
    refine withObj_inv hs fun d hd => putResult_inv hs fun r hr => ?_
    split at hr
    · cases hr
    · exact reduceDim_consistent _ (hs _ _ hd) hr
  | cumsum obj dim out =>
    exact withObj_inv hs fun d hd => putResult_inv hs fun r hr => cumulativeSum_consistent _ (hs _ _ hd) hr
  | npReduce fname f obj ax out =>
    refine withObj_inv hs fun d hd => ?_
    cases hq : d.npReduce fname f ax with
    | error e => simpa [hq] using hs
    | ok v =>
      cases v with
      | inl r => simpa [hq] using set_inv hs (npReduce_consistent fname f ax (hs _ _ hd) hq)
      | inr x => simpa [hq] using hs
  | npUnary fname f obj out => exact withObj_inv hs fun d hd => set_inv hs (npUnary_consistent (hs _ _ hd) fname f)
  | npBinary fname f lhs rhs out =>
    exact withObj_inv hs fun a ha => withObj_inv hs fun b hb => putResult_inv hs fun r hr =>
      npBinary_consistent fname f (hs _ _ ha) (hs _ _ hb) hr
  | concat objs dim coord out =>
    simp only [step]
    cases hq : allObjs s objs with
    | none => exact hs
    | some ds =>
      obtain ⟨hl, hc⟩ := allObjs_consistent hs objs ds hq
      exact putResult_inv hs fun r hr => concat_consistent sc.arange hc (by rw [hl]; exact hv) hr
  | setAttr obj k v => exact withObj_inv hs fun d hd => set_inv hs (probes_consistent (hs _ _ hd) k v "" [] 0 default).1
  | setDattr obj k v => exact withObj_inv hs fun d hd => set_inv hs (probes_consistent (hs _ _ hd) k v "" [] 0 default).2.1
  | addHist obj name keys => exact withObj_inv hs fun d hd => set_inv hs (Data.addHist_consistent (hs _ _ hd) _ _)
  | setValue obj flat v => exact withObj_inv hs fun d hd => set_inv hs (probes_consistent (hs _ _ hd) "" "" "" [] flat v).2.2.2
  | setCoord obj dim k v => exact withObj_inv hs fun d hd => set_inv hs (setCoord_consistent (hs _ _ hd) dim k v)
  | del obj => exact fun i d hd => hs _ _ (get?_del_some s hd)
  | proc F obj out => exact withObj_inv hs fun d hd => putResult_inv hs fun r hr => hv d r (hs _ _ hd) hr

/-- EVERY HISTORY: by induction over the operation list, with no bound on its length -/
theorem run_inv (sc : Scalars κ α) : ∀ (ops : List (Op κ α)) (s : Store κ α), StoreInv s →
    (∀ op ∈ ops, OpValid sc op) → StoreInv (run sc s ops)
  | [], _, hs, _ => hs
  | op :: ops, s, hs, hv => by
    unfold run
    simp only [List.foldl_cons]
    exact run_inv sc ops _ (step_inv sc s op hs (hv op (by simp))) (fun o ho => hv o (by simp [ho]))

/-- the empty workspace satisfies the invariant; the hypotheses are met by a concrete non-trivial history -/
theorem empty_inv : StoreInv ([] : Store κ α) := by intro i d h; simp [Store.get?] at h

/-- the `proc` side condition is met by every processing function of the "apply a NumPy routine along the axis
    of a named dimension" shape, whatever the routine `h` does (the new axis, if any, must have the new length) -/
theorem proc_mapAlong_valid (sc : Scalars κ α) (dim : String) (h : List α → List α) (m : Nat) (nc : Option (List κ))
    (obj out : Nat) (hnc : ∀ c, nc = some c → c.length = m) (hm : nc = none → ∀ d : Data κ α, d.Consistent → dim ∈ d.dims → m = d.ext dim) :
    OpValid sc (.proc (fun d => d.mapAlong dim h m nc) obj out) := by
  intro d r hd hr
  by_cases hdm : dim ∈ d.dims
  · cases nc with
    | some c =>
      simp only [mapAlong, hdm, not_true_eq_false, if_false, Except.ok.injEq] at hr
      subst hr
      exact consistent_setAxis hd _ c _ (by simp [mapAxis, hnc c rfl]) (Arr.ofFn_WF _ _)
    | none =>
      simp only [mapAlong, hdm, not_true_eq_false, if_false, Except.ok.injEq] at hr
      subst hr
      refine consistent_of_same_labels hd _ ?_ (Arr.ofFn_WF _ _)
      simp only [mapAxis, Arr.ofFn_shape, hm rfl d hd hdm, ext]
      exact setAt_self _ _ _ (by rw [hd.shape_len]; exact index_lt hdm)
  · simp [mapAlong, hdm] at hr

/-- "… every processing function": each processing function of the model, with ANY external numerics plugged in (window
    values, phase factor tables, optimiser / filter tables, DFT twiddles), satisfies the `proc` side condition of
    `step_inv` — so `run_inv` covers arbitrary pipelines of them mixed with every other operation -/
theorem model_procs_valid (sc : Scalars κ α) (A : Arith κ α) (obj out : Nat) (dim : String) :
    (∀ valid kind keys w, OpValid sc (.proc (fun d => d.apodize A valid dim kind keys w) obj out)) ∧
    (∀ cis, OpValid sc (.proc (fun d => d.phase A sc.arange dim cis) obj out)) ∧
    (∀ cis, OpValid sc (.proc (fun d => d.autophase A sc.arange dim cis) obj out)) ∧
    (∀ rp ni, OpValid sc (.proc (fun d => d.phaseCycle A dim rp ni) obj out)) ∧
    (∀ zff shift ppm tw, OpValid sc (.proc (fun d => d.fourierTransform A dim zff shift ppm tw) obj out)) ∧
    (∀ zff shift ppm tw, OpValid sc (.proc (fun d => d.inverseFourierTransform A dim zff shift ppm tw) obj out)) ∧
    OpValid sc (.proc (fun d => integrateAll A d dim) obj out) ∧
    OpValid sc (.proc (fun d => d.cumulativeIntegrate A dim) obj out) ∧
    (∀ n, OpValid sc (.proc (fun d => d.leftShift A sc.dist dim n) obj out)) ∧
    (∀ shift, OpValid sc (.proc (fun d => d.reference A dim shift) obj out)) ∧
    (∀ od, OpValid sc (.proc (fun d => d.normalize A sc.arange od) obj out)) ∧
    (∀ newc, OpValid sc (.proc (fun d => d.interp A sc.arange dim newc) obj out)) ∧
    (∀ mean ax, OpValid sc (.proc (fun d => d.average mean ax) obj out)) ∧
    OpValid sc (.proc (fun d => d.ndalign A sc.arange dim) obj out) ∧
    (∀ regions, (∀ n, (sc.arange n).length = n) →
      OpValid sc (.proc (fun d => integrateRegions A sc.arange sc.dist d dim regions) obj out)) ∧
    (∀ idx re, OpValid sc (.proc (fun d => d.enhancement A idx re) obj out)) ∧
    (∀ np solve, (∀ n, (sc.arange n).length = n) →
      OpValid sc (.proc (fun d => d.fitPopt sc.arange dim np solve) obj out)) := by
  refine ⟨fun valid kind keys w d r hd hr => apodize_consistent A valid keys w hd hr,
    fun cis d r hd hr => phase_consistent A sc.arange cis hd hr,
    fun cis d r hd hr => autophase_consistent A sc.arange cis hd hr,
    fun rp ni d r hd hr => phaseCycle_consistent A rp ni hd hr,
    fun zff shift ppm tw d r hd hr => fourierTransform_consistent A zff shift ppm tw hd hr,
    fun zff shift ppm tw d r hd hr => inverseFourierTransform_consistent A zff shift ppm tw hd hr,
    fun d r hd hr => integrateAll_consistent A hd hr,
    fun d r hd hr => cumulativeIntegrate_consistent A hd hr,
    fun n d r hd hr => leftShift_consistent A sc.dist n hd hr,
    fun shift d r hd hr => reference_consistent A shift hd hr,
    fun od d r hd hr => normalize_consistent A sc.arange od hd hr,
    fun newc d r hd hr => interp_consistent A sc.arange newc hd hr,
    fun mean ax d r hd hr => average_consistent mean ax hd hr,
    fun d r hd hr => ndalign_consistent A sc.arange hd hr,
    fun regions har d r hd hr => integrateRegions_consistent A sc.arange sc.dist har regions hd hr,
    fun idx re d r hd hr => enhancement_consistent A idx re hd hr,
    fun np solve har d r hd hr => fitPopt_consistent sc.arange np solve har hd hr⟩

/-- a 3-D witness with pairwise distinct extents (non-vacuity of the hypotheses above) and the
    defect the pinned `sort_dims` had on it -/
def witness : Data Nat Nat :=
  { dims := ["c", "a", "b"], coords := [[0, 1], [0, 1, 2], [0, 1, 2, 3]],
    values := Arr.ofFn [2, 3, 4] (fun idx => ravel idx [2, 3, 4]) }

theorem pinned_sortDims_inconsistent :
    decide witness.Consistent = true ∧ decide witness.sortDimsPinned.Consistent = false := by
  decide +kernel

/-- non-vacuity of `run_inv`: a concrete history (construct, sort_dims, reduce, squeeze, tuple-axis NumPy reduction,
    concat, delete) meets `OpValid` at every step, and the run really produces several objects -/
def demoSc : Scalars Nat Nat :=
  { dist := fun a b => a - b + (b - a), lt := fun a b => decide (a < b), le := fun a b => decide (a ≤ b),
    close := fun a b => decide (a = b), arange := fun n => List.range n, ofκ := id, ofNat := id,
    ltα := fun a b => decide (a < b), add := (· + ·) }

def demoOps : List (Op Nat Nat) :=
  [.new 0 witness, .sortDims 0, .reduce List.sum 0 "a" 1, .squeeze 1,
   .npReduce "sum" List.sum 0 (.tuple [.nm "b", .ix 0]) 2, .concat [1, 1] "rep" none 3, .del 0]

theorem demo_valid : ∀ op ∈ demoOps, OpValid demoSc op := by
  intro op h
  simp only [demoOps, List.mem_cons, List.not_mem_nil, or_false] at h
  rcases h with rfl | rfl | rfl | rfl | rfl | rfl | rfl
  · show witness.Consistent; decide +kernel
  all_goals first | trivial | rfl

theorem demo_run : StoreInv (run demoSc [] demoOps) ∧ ((run demoSc [] demoOps).map (·.1)) = [1, 2, 3] :=
  ⟨run_inv demoSc demoOps [] empty_inv demo_valid, by decide +kernel⟩

end Dnp.C01
