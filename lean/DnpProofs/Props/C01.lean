import DnpProofs.Lemmas.Align
import DnpProofs.Lemmas.Store
import DnpProofs.Lemmas.Consistent2
set_option linter.unusedSectionVars false
/-!
# C01 — every produced data object is structurally consistent

`Data.Consistent` is the property's definition: unique dimension names, exactly one coordinate
list per axis, each as long as its axis (and the flat data as long as the shape demands).
One theorem per operation of the public alphabet, for every rank, extent and argument.
-/
namespace Dnp.C01
open Np Dnp Dnp.Data
variable {κ α : Type} [Inhabited α] [Inhabited κ]

theorem reorder_consistent {d d' : Data κ α} {ds : List String} (h : d.Consistent)
    (hr : d.reorder ds = .ok d') : d'.Consistent := by
  obtain ⟨rfl, _, hsub⟩ := reorder_eq_permuted hr
  exact (permuted_spec h (dedup_append_perm h.1 hsub)).1

theorem sortDims_consistent {d : Data κ α} (h : d.Consistent) : d.sortDims.Consistent := by
  rw [sortDims_eq_permuted h]
  exact (permuted_spec h (sortedDims_perm d.dims)).1

theorem rename_consistent {d d' : Data κ α} {dim new : String} (h : d.Consistent)
    (hr : d.rename dim new = .ok d') : d'.Consistent := Data.rename_consistent h hr

theorem newDim_consistent {d d' : Data κ α} {dim : String} {c : κ} (h : d.Consistent)
    (hr : d.newDim dim c = .ok d') : d'.Consistent := Data.newDim_consistent h hr

/-- an unfold…fold bracket (one step of the alphabet) returns the object it started from -/
theorem unfoldFold_consistent (arange : Nat → List κ) {d d' : Data κ α} {dim : String} (h : d.Consistent)
    (hf : d.unf = none) (hr : (d.unfold arange dim >>= fold) = .ok d') : d'.Consistent := by
  by_cases hdim : dim ∈ d.dims
  · by_cases hfi : "fold_index" ∈ d.dims
    · unfold unfold at hr
      simp [folded, hf, hfi] at hr
      cases hr
    · rw [unfold_fold_id arange h hf hdim hfi] at hr
      cases hr; exact h
  · unfold unfold reorder at hr
    have : ¬ ∀ x ∈ [dim], x ∈ d.dims := by simpa using hdim
    simp only [folded, hf, Option.isNone_none, not_true_eq_false, if_false] at hr
    split at hr
    · cases hr
    · simp [this] at hr
      cases hr

theorem binop_consistent (close : κ → κ → Bool) (f : α → α → α) {a b r : Data κ α}
    (ha : a.Consistent) (hb : b.Consistent) (hr : binop close f a b = .ok r) : r.Consistent :=
  (Data.binop_consistent close f ha hb hr).1

theorem scalarOp_consistent {d : Data κ α} (h : d.Consistent) (f : α → α) : (d.scalarOp f).Consistent :=
  Data.scalarOp_consistent h f

theorem reduce_consistent {d d' : Data κ α} {dim : String} (f : List α → α) (h : d.Consistent)
    (hr : d.reduceDim f dim = .ok d') : d'.Consistent := reduceDim_consistent f h hr

theorem argCoord_consistent {d d' : Data κ α} {dim : String} (ofκ : κ → α) (lt : α → α → Bool) (h : d.Consistent)
    (hr : d.argCoord ofκ lt dim = .ok d') : d'.Consistent := reduceDim_consistent _ h hr

theorem npUnary_consistent {d : Data κ α} (h : d.Consistent) (n : String) (f : α → α) :
    (d.npUnary n f).Consistent := Data.npUnary_consistent h n f

theorem npReduce_consistent {d r : Data κ α} (n : String) (f : List α → α) (ax : Axis) (h : d.Consistent)
    (hr : d.npReduce n f ax = .ok (.inl r)) : r.Consistent := by
  unfold npReduce at hr
  cases ax with
  | none => simp at hr
  | name s =>
    simp only at hr
    split at hr
    · cases hr
    · split at hr
      · simp at hr
      · cases hq : d.reduceDim f s with
        | error e => rw [hq] at hr; cases hr
        | ok q =>
          rw [hq] at hr
          simp only [Except.map, Except.ok.injEq, Sum.inl.injEq] at hr
          subst hr
          exact addHist_consistent (reduceDim_consistent f h hq) _ _
  | pos i =>
    simp only at hr
    split at hr
    · cases hr
    · split at hr
      · simp at hr
      · cases hq : d.reduceDim f (d.dims.getD (if i < 0 then i + d.dims.length else i).toNat "") with
        | error e => rw [hq] at hr; cases hr
        | ok q =>
          rw [hq] at hr
          simp only [Except.map, Except.ok.injEq, Sum.inl.injEq] at hr
          subst hr
          exact addHist_consistent (reduceDim_consistent f h hq) _ _
  | tuple items =>
    obtain ⟨_, _, _, _, hc, _⟩ := npReduce_tuple_spec n f h (by unfold npReduce; exact hr)
    exact hc

theorem npBinary_consistent {a b r : Data κ α} (n : String) (f : α → α → α) (ha : a.Consistent)
    (hb : b.Consistent) (hr : npBinaryData n f a b = .ok r) : r.Consistent := by
  unfold npBinaryData at hr
  split at hr
  · cases hr
  · rename_i hs
    have hs : a.values.shape = b.values.shape := by simpa using hs
    simp only [Except.ok.injEq] at hr
    subst hr
    refine ⟨ha.1, ha.2.1, ha.2.2.1, ?_⟩
    have hla : a.values.data.length = size a.values.shape := ha.2.2.2
    have hlb : b.values.data.length = size a.values.shape := by rw [hs]; exact hb.2.2.2
    simp [Arr.WF, addHist, hla, hlb]

/-- attribute / history writes and element writes never touch the structure -/
theorem probes_consistent {d : Data κ α} (h : d.Consistent) (k v : String) (n : String) (ks : List String)
    (flat : Nat) (x : α) :
    ({ d with attrs := dictSet d.attrs k v } : Data κ α).Consistent ∧
    ({ d with dattrs := dictSet d.dattrs k v } : Data κ α).Consistent ∧
    (d.addHist n ks).Consistent ∧
    ({ d with values := ⟨d.values.shape, setAt d.values.data flat x⟩ } : Data κ α).Consistent :=
  ⟨h, h, h, ⟨h.1, h.2.1, h.2.2.1, by simpa [Arr.WF] using h.2.2.2⟩⟩

/-- a 3-D witness with pairwise distinct extents (non-vacuity of the hypotheses above) and the
    defect the pinned `sort_dims` had on it -/
def witness : Data Nat Nat :=
  { dims := ["c", "a", "b"], coords := [[0, 1], [0, 1, 2], [0, 1, 2, 3]],
    values := Arr.ofFn [2, 3, 4] (fun idx => ravel idx [2, 3, 4]) }

theorem pinned_sortDims_inconsistent :
    decide witness.Consistent = true ∧ decide witness.sortDimsPinned.Consistent = false := by
  decide +kernel

end Dnp.C01
