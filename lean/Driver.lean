import Lean.Data.Json
import DnpModel
/-
  JSON-lines driver: runs the Lean model on the operation stream the Python harness
  also runs on the real DNPLab code.  One JSON object in, one JSON object out per line.
  (Trusted glue: not part of any theorem.)
-/
open Lean Dnp Np

abbrev D := Data Rat GRat
abbrev Store := Dnp.Store Rat GRat
abbrev M := Except String

def parseRat (s : String) : M Rat :=
  match s.splitOn "/" with
  | [a] => match a.trimAscii.toString.toInt? with
    | some n => pure (n : Rat)
    | none => throw s!"bad rational {s}"
  | [a, b] => match a.trimAscii.toString.toInt?, b.trimAscii.toString.toInt? with
    | some n, some d => pure ((n : Rat) / (d : Rat))
    | _, _ => throw s!"bad rational {s}"
  | _ => throw s!"bad rational {s}"

def parseGRat (s : String) : M GRat :=
  match s.splitOn "," with
  | [a] => do pure ⟨← parseRat a, 0⟩
  | [a, b] => do pure ⟨← parseRat a, ← parseRat b⟩
  | _ => throw s!"bad complex {s}"

def jStr (j : Json) : M String := j.getStr?
def jArr (j : Json) : M (List Json) := do pure (← j.getArr?).toList
def jNat (j : Json) : M Nat := j.getNat?
def jInt (j : Json) : M Int := j.getInt?
def jField (j : Json) (k : String) : M Json := j.getObjVal? k
def jFieldOpt (j : Json) (k : String) : Option Json :=
  match j.getObjVal? k with | .ok v => if v.isNull then none else some v | .error _ => none
def jRat (j : Json) : M Rat := do parseRat (← jStr j)
def jGRat (j : Json) : M GRat := do parseGRat (← jStr j)
def jOptInt (j : Json) : M (Option Int) := if j.isNull then pure none else some <$> jInt j
def jStrList (j : Json) : M (List String) := do (← jArr j).mapM jStr
def jRatList (j : Json) : M (List Rat) := do (← jArr j).mapM jRat
def jNatList (j : Json) : M (List Nat) := do (← jArr j).mapM jNat
def jDict (j : Json) : M (List (String × String)) := do
  let o ← j.getObj?
  let kvs := o.toList  -- sorted order; canonical output sorts anyway
  kvs.mapM (fun (k, v) => do pure (k, ← jStr v))
def jHist (j : Json) : M (List HistEntry) := do
  (← jArr j).mapM (fun e => do
    match ← jArr e with
    | [n, ks] => pure (← jStr n, ← jStrList ks)
    | _ => throw "bad hist entry")

def jSel (j : Json) : M (Sel Rat) := do
  if let some v := jFieldOpt j "int" then return .int (← jInt v)
  if let some v := jFieldOpt j "flt" then return .flt (← jRat v)
  if let some v := jFieldOpt j "tup1" then return .tup1 (← jRat v)
  if let some v := jFieldOpt j "range" then
    match ← jArr v with
    | [a, b] => return .range (← jRat a) (← jRat b)
    | _ => throw "bad range"
  if let some v := jFieldOpt j "slice" then
    match ← jArr v with
    | [a, b, c] => return .slice (← jOptInt a) (← jOptInt b) (← jOptInt c)
    | _ => throw "bad slice"
  throw "bad selector"

def jSels (j : Json) : M (List (String × Sel Rat)) := do
  (← jArr j).mapM (fun e => do
    match ← jArr e with
    | [d, s] => pure (← jStr d, ← jSel s)
    | _ => throw "bad sel pair")

/-! canonical output -/
def ratJ (q : Rat) : Json := Json.str (toString q)
def gJ (g : GRat) : Json := Json.str g.toStr
def dictJ (m : List (String × String)) : Json :=
  Json.mkObj (m.map (fun (k, v) => (k, Json.str v)))
def natsJ (l : List Nat) : Json := Json.arr (l.map (fun (n : Nat) => Json.num (Int.ofNat n))).toArray
def strsJ (l : List String) : Json := Json.arr (l.map Json.str).toArray

def canonShape (s : List Nat) : String := "[" ++ ",".intercalate (s.map toString) ++ "]"
def canonDims (s : List String) : String := "[" ++ ",".intercalate (s.map (fun x => "'" ++ x ++ "'")) ++ "]"

def objJ (d : D) : Json :=
  let attrs := match d.unf with
    | none => d.attrs
    | some (fs, fo) => Data.dictSet (Data.dictSet d.attrs "folded_shape" (canonShape fs)) "folded_order" (canonDims fo)
  Json.mkObj [
    ("dims", strsJ d.dims),
    ("coords", Json.arr (d.coords.map (fun c => Json.arr (c.map ratJ).toArray)).toArray),
    ("shape", natsJ d.values.shape),
    ("values", Json.arr (d.values.data.map gJ).toArray),
    ("attrs", dictJ attrs),
    ("dattrs", dictJ d.dattrs),
    ("hist", Json.arr (d.hist.map (fun (n, ks) => Json.arr #[Json.str n, strsJ ks])).toArray),
    ("folded", Json.bool d.folded)]

def storeJ (s : Store) : Json := Json.mkObj (s.map (fun (i, d) => (toString i, objJ d)))

/-! scalar functions -/
def rdist (a b : Rat) : Rat := ratAbs (a - b)
def rlt (a b : Rat) : Bool := a < b
def rle (a b : Rat) : Bool := a ≤ b
/-- numpy.allclose element test with the default tolerances -/
def rclose (x y : Rat) : Bool := ratAbs (x - y) ≤ (1 : Rat) / 100000000 + (1 : Rat) / 100000 * ratAbs y

def binF : String → M (GRat → GRat → GRat)
  | "add" => pure (· + ·) | "sub" => pure (· - ·) | "mul" => pure (· * ·) | "truediv" => pure (· / ·)
  | "subtract" => pure (· - ·) | "multiply" => pure (· * ·) | "divide" => pure (· / ·)
  | "true_divide" => pure (· / ·)
  | f => throw s!"unknown binary {f}"

def unF : String → M (GRat → GRat)
  | "negative" => pure (fun x => -x) | "conj" => pure GRat.conj | "conjugate" => pure GRat.conj
  | "square" => pure (fun x => x * x) | "positive" => pure id
  | "real" => pure (fun x => ⟨x.re, 0⟩) | "imag" => pure (fun x => ⟨x.im, 0⟩)
  | "abs2" => pure (fun x => ⟨x.normSq, 0⟩)
  | "reciprocal" => pure (fun x => 1 / x)
  | f => throw s!"unknown unary {f}"

def gsum (l : List GRat) : GRat := l.foldl (· + ·) 0
def gmean (l : List GRat) : GRat := gsum l / ⟨(l.length : Rat), 0⟩
def gbest (lt : GRat → GRat → Bool) (l : List GRat) : GRat := l.getD (argBest lt l) default
def gvar (l : List GRat) : GRat :=
  let m := gmean l
  ⟨(l.foldl (fun acc x => acc + (x - m).normSq) 0) / (l.length : Rat), 0⟩
def gmedian (l : List GRat) : GRat :=
  let s := (sortKeyed (fun a b => !GRat.lt b a) (l.zip (List.range l.length))).map Prod.fst
  let n := s.length
  if n % 2 == 1 then s.getD (n / 2) default
  else (s.getD (n / 2 - 1) default + s.getD (n / 2) default) / ⟨2, 0⟩

def redF : String → M (List GRat → GRat)
  | "sum" => pure gsum | "mean" => pure gmean
  | "max" => pure (gbest (fun a b => GRat.lt b a)) | "amax" => pure (gbest (fun a b => GRat.lt b a))
  | "min" => pure (gbest GRat.lt) | "amin" => pure (gbest GRat.lt)
  | "prod" => pure (fun l => l.foldl (· * ·) 1)
  | "var" => pure gvar | "median" => pure gmedian
  | "ptp" => pure (fun l => gbest (fun a b => GRat.lt b a) l - gbest GRat.lt l)
  | "any" => pure (fun l => if l.any (· != (0 : GRat)) then 1 else 0)
  | "all" => pure (fun l => if l.all (· != (0 : GRat)) then 1 else 0)
  | f => throw s!"unknown reduction {f}"

/-- `ufunc.__name__` of the NumPy ufunc an operator or alias resolves to -/
def ufuncName : String → String
  | "conj" => "conjugate" | "sub" => "subtract" | "mul" => "multiply" | "truediv" => "divide"
  | "true_divide" => "divide" | s => s

def arangeR (n : Nat) : List Rat := (List.range n).map (fun (k : Nat) => (k : Rat))

def sc : Scalars Rat GRat :=
  { dist := rdist, lt := rlt, le := rle, close := rclose, arange := arangeR, ofκ := GRat.ofRat,
    ofNat := fun n => ⟨(n : Rat), 0⟩, ltα := GRat.lt, add := (· + ·) }

def AR : Data.Arith Rat GRat :=
  { add := (· + ·), sub := (· - ·), mul := (· * ·), div := (· / ·), zero := 0, two := ⟨2, 0⟩,
    ofκ := GRat.ofRat, ofNat := fun n => ⟨(n : Rat), 0⟩, ksub := (· - ·), kadd := (· + ·), kmul := (· * ·),
    kdiv := (· / ·), kofNat := fun n => (n : Rat), klt := rlt,
    abs := fun x => ⟨ratAbs x.re, 0⟩, ltα := GRat.lt }

def jGList (j : Json) : M (List GRat) := do (← jArr j).mapM jGRat

/-- (−i)^r -/
def negIpow (r : Nat) : GRat :=
  match r % 4 with | 0 => ⟨1, 0⟩ | 1 => ⟨0, -1⟩ | 2 => ⟨-1, 0⟩ | _ => ⟨0, 1⟩

def jAxis (j : Json) : M Data.Axis := do
  match jFieldOpt j "axis" with
  | none => pure .none
  | some v => match v.getStr? with
    | .ok s => pure (.name s)
    | .error _ => match v.getArr? with
      | .ok arr => do
        let items ← arr.toList.mapM (fun (x : Json) => match x.getStr? with
          | .ok s => (pure (Data.AxItem.nm s) : M Data.AxItem)
          | .error _ => do pure (Data.AxItem.ix (← jInt x)))
        pure (.tuple items)
      | .error _ => do pure (.pos (← jInt v))

def gtα (a b : GRat) : Bool := GRat.lt b a

/-- protocol line → operation of the model's alphabet -/
def decodeOp (j : Json) : M (Op Rat GRat) := do
  let op ← jStr (← jField j "op")
  let nat (k : String) : M Nat := do jNat (← jField j k)
  let str (k : String) : M String := do jStr (← jField j k)
  let refl := (jFieldOpt j "refl").isSome
  match op with
  | "new" =>
    let dims ← jStrList (← jField j "dims")
    let coords ← (← jArr (← jField j "coords")).mapM jRatList
    let shape ← jNatList (← jField j "shape")
    let vals ← (← jArr (← jField j "values")).mapM jGRat
    let attrs ← match jFieldOpt j "attrs" with | some a => jDict a | none => pure []
    let dattrs ← match jFieldOpt j "dattrs" with | some a => jDict a | none => pure []
    let hist ← match jFieldOpt j "hist" with | some a => jHist a | none => pure []
    pure (.new (← nat "id") { dims, coords, values := ⟨shape, vals⟩, attrs, dattrs, hist })
  | "copy" => pure (.copy (← nat "obj") (← nat "out"))
  | "reorder" => pure (.reorder (← nat "obj") (← jStrList (← jField j "dims")))
  | "sort_dims" => pure (.sortDims (← nat "obj"))
  | "rename" => pure (.rename (← nat "obj") (← str "dim") (← str "new"))
  | "sort" => pure (.sort (← nat "obj") (← str "dim"))
  | "new_dim" => pure (.newDim (← nat "obj") (← str "dim") (← jRat (← jField j "coord")))
  | "squeeze" => pure (.squeeze (← nat "obj"))
  | "split" => pure (.split (← nat "obj") (← str "dim") (← str "new") (← jRatList (← jField j "coord")))
  | "concatenate" => pure (.concatenate (← nat "obj") (← nat "other") (← str "dim"))
  | "unfold" => pure (.unfold (← nat "obj") (← str "dim"))
  | "fold" => pure (.fold (← nat "obj"))
  | "unfold_fold" => pure (.unfoldFold (← nat "obj") (← str "dim"))
  | "getitem" => pure (.getitem (← nat "obj") (← jSels (← jField j "sel")) (← nat "out"))
  | "setitem" => pure (.setitem (← nat "obj") (← jSels (← jField j "sel")) (← jGRat (← jField j "value")))
  | "binop" => pure (.binop (← binF (← str "f")) (← nat "lhs") (← nat "rhs") (← nat "out"))
  | "scalarop" =>
    let f ← binF (← str "f"); let c ← jGRat (← jField j "scalar")
    pure (.scalarOp (fun x => if refl then f c x else f x c) (← nat "obj") (← nat "out"))
  | "arrayop" =>
    let fname ← str "f"; let f ← binF fname
    let shape ← jNatList (← jField j "shape")
    let vals ← (← jArr (← jField j "values")).mapM jGRat
    -- `ndarray ∘ data` is dispatched by NumPy to `__array_ufunc__`, which stamps the history
    pure (.arrayOp (fun x y => if refl then f y x else f x y)
      (if refl then some ("numpy." ++ ufuncName fname) else none) (← nat "obj") ⟨shape, vals⟩ (← nat "out"))
  | "method" =>
    let f ← str "f"; let obj ← nat "obj"; let dim ← str "dim"; let out ← nat "out"
    match f with
    | "sum" => pure (.reduce gsum obj dim out)
    | "maximum" => pure (.reduce (gbest gtα) obj dim out)
    | "minimum" => pure (.reduce (gbest GRat.lt) obj dim out)
    | "argmax" => pure (.argCoord gtα obj dim out)
    | "argmin" => pure (.argCoord GRat.lt obj dim out)
    | "argmax_index" => pure (.argIndex gtα obj dim out)
    | "argmin_index" => pure (.argIndex GRat.lt obj dim out)
    | "cumulative_sum" => pure (.cumsum obj dim out)
    | _ => throw s!"unknown method {f}"
  | "np_reduce" =>
    let fname ← str "f"
    pure (.npReduce fname (← redF fname) (← nat "obj") (← jAxis j) (← nat "out"))
  | "np_unary" =>
    let fname ← str "f"
    pure (.npUnary (ufuncName fname) (← unF fname) (← nat "obj") (← nat "out"))
  | "np_binary" =>
    let fname ← str "f"
    pure (.npBinary (ufuncName fname) (← binF fname) (← nat "lhs") (← nat "rhs") (← nat "out"))
  | "np_scalar" =>
    let fname ← str "f"; let f ← binF fname; let c ← jGRat (← jField j "scalar")
    pure (.npUnary (ufuncName fname) (fun x => if refl then f c x else f x c) (← nat "obj") (← nat "out"))
  | "concat" =>
    let ids ← (← jArr (← jField j "objs")).mapM jNat
    let coord ← match jFieldOpt j "coord" with | some c => some <$> jRatList c | none => pure none
    pure (.concat ids (← str "dim") coord (← nat "out"))
  | "set_attr" => pure (.setAttr (← nat "obj") (← str "key") (← str "value"))
  | "set_dattr" => pure (.setDattr (← nat "obj") (← str "key") (← str "value"))
  | "add_hist" => pure (.addHist (← nat "obj") (← str "name") (← jStrList (← jField j "keys")))
  | "set_value" => pure (.setValue (← nat "obj") (← nat "flat") (← jGRat (← jField j "value")))
  | "set_coord" => pure (.setCoord (← nat "obj") (← str "dim") (← nat "k") (← jRat (← jField j "value")))
  | "del" => pure (.del (← nat "obj"))
  | "proc" =>
    let f ← str "f"; let obj ← nat "obj"; let out ← nat "out"
    let kw ← jField j "kw"
    let kstr (k : String) : M String := do jStr (← jField kw k)
    let dim : M String := kstr "dim"
    match f with
    | "integrate" =>
      let dm ← dim
      match jFieldOpt kw "regions" with
      | none => pure (.proc (fun d => d.integrateAll AR dm) obj out)
      | some r =>
        let regs ← (← jArr r).mapM (fun e => do
          match ← jArr e with
          | [a, b] => pure (← jRat a, ← jRat b)
          | _ => throw "bad region")
        pure (.proc (fun d => d.integrateRegions AR arangeR rdist dm regs) obj out)
    | "cumulative_integrate" => do let dm ← dim; pure (.proc (fun d => d.cumulativeIntegrate AR dm) obj out)
    | "left_shift" => do
      let dm ← dim; let n ← jInt (← jField kw "n")
      pure (.proc (fun d => d.leftShift AR rdist dm n) obj out)
    | "reference" => do
      let dm ← dim; let sh ← jRat (← jField kw "shift")
      pure (.proc (fun d => d.reference AR dm sh) obj out)
    | "normalize" =>
      let dm := match jFieldOpt kw "dim" with | some v => v.getStr?.toOption | none => none
      pure (.proc (fun d => d.normalize AR arangeR dm) obj out)
    | "interp" => do
      let dm ← dim; let nc ← jRatList (← jField kw "new_coord")
      pure (.proc (fun d => d.interp AR arangeR dm nc) obj out)
    | "average" => do
      let ax ← jAxis kw
      pure (.proc (fun d => d.average gmean ax) obj out)
    | "calculate_enhancement" => do
      let idx ← jInt (← jField kw "idx")
      pure (.proc (fun d => d.enhancement AR idx (fun x => ⟨x.re, 0⟩)) obj out)
    | "apodize" => do
      let dm ← dim; let kind ← kstr "kind"
      let keys ← jStrList (← jField kw "kwkeys"); let w ← jGList (← jField kw "w")
      -- the table of valid kinds is REGENERATED from dnplab/processing/apodization.py on every run
      pure (.proc (fun d => d.apodize AR Dnp.Generated.windowKinds dm kind keys w) obj out)
    | "phase" => do
      let dm ← dim
      let tbl ← (← jArr (← jField kw "cis")).mapM jGList
      pure (.proc (fun d => d.phase AR arangeR dm (fun j k => (tbl.getD j []).getD k default)) obj out)
    | "autophase" => do
      let dm ← dim
      let tbl ← (← jArr (← jField kw "cis")).mapM jGList
      pure (.proc (fun d => d.autophase AR arangeR dm (fun j k => (tbl.getD j []).getD k default)) obj out)
    | "phase_cycle" => do
      let dm ← dim; let rp ← jNatList (← jField kw "rp")
      pure (.proc (fun d => d.phaseCycle AR dm rp negIpow) obj out)
    | "fit_popt" => do
      let dm ← dim
      let tbl ← (← jArr (← jField kw "table")).mapM (fun e => do
        match ← jArr e with
        | [a, b] => pure (← jGList a, ← jGList b)
        | _ => throw "bad table row")
      let np ← jNat (← jField kw "np")
      pure (.proc (fun d => d.fitPopt arangeR dm np (Data.tableFn tbl)) obj out)
    | "ndalign" => do let dm ← dim; pure (.proc (fun d => d.ndalign AR arangeR dm) obj out)
    | "trace_local" => do
      let dm ← dim
      let tbl ← (← jArr (← jField kw "table")).mapM (fun e => do
        match ← jArr e with
        | [a, b] => pure (← jGList a, ← jGList b)
        | _ => throw "bad table row")
      let n' ← jNat (← jField kw "n_out")
      let nc ← match jFieldOpt kw "new_coord" with | some c => some <$> jRatList c | none => pure none
      let name ← kstr "histname"; let keys ← jStrList (← jField kw "keys")
      pure (.proc (fun d => d.traceLocal arangeR dm tbl n' nc name keys) obj out)
    | "fourier_transform" | "inverse_fourier_transform" => do
      let dm ← dim; let zff ← jNat (← jField kw "zff")
      let shift := (jFieldOpt kw "shift").isSome
      let ppm ← match jFieldOpt kw "ppm" with | some v => some <$> jRat v | none => pure none
      let tw ← jGList (← jField kw "tw")
      let twa := tw.toArray                      -- O(1) lookup: the table is read n² times per trace
      let twf := fun m => twa.getD m default
      if f == "fourier_transform" then pure (.proc (fun d => d.fourierTransform AR dm zff shift ppm twf) obj out)
      else pure (.proc (fun d => d.inverseFourierTransform AR dm zff shift ppm twf) obj out)
    | _ => throw s!"unknown proc {f}"
  | _ => throw s!"unknown op {op}"

structure Out where
  store : Store
  outcome : String := "ok"
  ret : Option Json := none

def stepJ (s : Store) (j : Json) : M Out := do
  if (← jStr (← jField j "op")) == "reset" then return { store := [] }
  let op ← decodeOp j
  let r := Dnp.step sc s op
  pure { store := r.store,
         outcome := match r.err with | some e => "raise:" ++ e.toString | none => "ok",
         ret := r.ret.map gJ }

/-! Float evaluation of the window formulas (the definitions the ℝ-theorems of C15 are about) -/
def floatT : Dnp.Window.Transc Float :=
  { exp := Float.exp, cos := Float.cos, sqrt := Float.sqrt, log := Float.log,
    pi := 3.141592653589793, ofNat := fun n => n.toFloat, half := 0.5, hamA := 0.53836, hamB := 0.46164, c06 := 0.6 }

def ratToFloat (q : Rat) : Float := Float.ofInt q.num / Float.ofNat q.den

/-- the two T1 transforms of `interpolate_T1` (linear: Eq. 39, second order: Eq. 22/23), forward and back -/
def hydrationT1J (j : Json) : M Json := do
  let r (k : String) : M Rat := do jRat (← jField j k)
  let xs ← jRatList (← jField j "x")
  let ps ← jRatList (← jField j "p")
  let T10 ← r "T10"; let T100 ← r "T100"; let spinC ← r "spinC"
  let mode ← jStr (← jField j "mode")
  let out ← match mode with
    | "linear-fwd" => pure (xs.map (fun t => Dnp.Hydration.linearT1 T10 T100 t))
    | "linear-back" => pure (xs.map (fun l => Dnp.Hydration.fromLinearT1 T10 T100 l))
    | "second-fwd" | "second-back" => do
      let t1w ← r "T1w"; let d ← r "dT1w"; let macroC ← r "macroC"
      let kHH := (1 / T10 - 1 / t1w) / macroC
      if mode == "second-fwd" then
        pure (List.zipWith (fun t p => Dnp.Hydration.secondOrderKrp t t1w d p kHH macroC spinC) xs ps)
      else
        pure (List.zipWith (fun k p => Dnp.Hydration.fromSecondOrderKrp k t1w d p kHH macroC spinC) xs ps)
    | m => throw s!"unknown T1 transform {m}"
  pure (Json.mkObj [("outcome", "ok"), ("y", Json.arr (out.map ratJ).toArray)])

def hydrationJ (j : Json) : M Json := do
  if (jFieldOpt j "mode").isSome then return ← hydrationT1J j
  let r (k : String) : M Rat := do jRat (← jField j k)
  let E ← jRatList (← jField j "E"); let T1p ← jRatList (← jField j "T1p")
  let spinC ← r "spinC"; let w ← r "omegaRatio"; let T10 ← r "T10"; let T100 ← r "T100"
  let ksigma ← r "ksigma"; let tcorr ← r "tcorr"; let tb ← r "tcorr_bulk"; let dh ← r "D_H2O"; let ds ← r "D_SL"
  let kr := Dnp.Hydration.krho T10 T100 spinC
  pure (Json.mkObj [("outcome", "ok"),
    ("ksigma_array", Json.arr ((Dnp.Hydration.ksigmaArray E T1p spinC w).map ratJ).toArray),
    ("krho", ratJ kr), ("coupling_factor", ratJ (Dnp.Hydration.couplingFactor ksigma kr)),
    ("klow", ratJ (Dnp.Hydration.klow ksigma kr)), ("Dlocal", ratJ (Dnp.Hydration.dlocal tb tcorr dh ds)),
    ("field", ratJ (Dnp.Hydration.normalise Dnp.Generated.legacyRules "magnetic_field" (← r "field"))),
    ("spin_C", ratJ (Dnp.Hydration.normalise Dnp.Generated.legacyRules "spin_C" (← r "spinC_in")))])

/-- grid of the fitted curve (C18): min / max of the axis are taken here, over the rationals -/
def fitgridJ (j : Json) : M Json := do
  let coord ← jRatList (← jField j "coord")
  let fp ← match jFieldOpt j "fit_points" with
    | some v => do pure (some (← jNat v))
    | none => pure none
  let lo := coord.foldl (fun a b => if b < a then b else a) (coord.headD 0)
  let hi := coord.foldl (fun a b => if a < b then b else a) (coord.headD 0)
  let g := Dnp.Fit.fitGrid (fun n => (n : Rat)) coord lo hi fp
  pure (Json.mkObj [("outcome", "ok"), ("grid", Json.arr (g.map ratJ).toArray)])

/-- VnmrJ parameter file (C06): `print` writes a parameter list as token lines, `parse` reads token lines back and applies
    `array_coords`.  A token that consists of decimal digits only is a `num` (what `int()` accepts without sign), anything else
    a `txt`; the numeric readings `array_coords` needs (float(t) == 1, float(stop) > float(start)) are supplied by the caller. -/
def tokOf (s : String) : Dnp.Procpar.Tok :=
  if s ≠ "" ∧ s.toList.all Char.isDigit then (match s.toNat? with | some n => .num n | none => .txt s) else .txt s

def pvalJ : Dnp.Procpar.PVal → Json
  | .real v => Json.mkObj [("k", "real"), ("v", Json.arr #[Json.str v.text])]
  | .reals vs => Json.mkObj [("k", "reals"), ("v", Json.arr (vs.map (fun t => Json.str t.text)).toArray)]
  | .str s => Json.mkObj [("k", "str"), ("v", Json.arr #[Json.str s])]
  | .strs ss => Json.mkObj [("k", "strs"), ("v", Json.arr (ss.map Json.str).toArray)]

def jPval (j : Json) : M Dnp.Procpar.PVal := do
  let k ← jStr (← jField j "k")
  let v ← jStrList (← jField j "v")
  match k with
  | "real" => pure (.real (tokOf (v.headD "")))
  | "reals" => pure (.reals (v.map tokOf))
  | "str" => pure (.str (v.headD ""))
  | "strs" => pure (.strs v)
  | _ => throw s!"unknown parameter kind {k}"

def procparJ (j : Json) : M Json := do
  let mode ← jStr (← jField j "mode")
  if mode == "print" then
    let ps ← (← jArr (← jField j "params")).mapM (fun p => do
      let nm ← jStr (← jField p "name")
      pure (nm, ← jPval p))
    let ls := Dnp.Procpar.print ps
    pure (Json.mkObj [("outcome", "ok"),
      ("lines", Json.arr (ls.map (fun l => Json.arr (l.map (fun t => Json.str t.text)).toArray)).toArray)])
  else
    let ls ← (← jArr (← jField j "lines")).mapM (fun l => do pure ((← jStrList l).map tokOf))
    let ones ← jStrList (← jField j "ones")
    let gt ← (← jField j "stop_gt_start").getBool?
    let N : Dnp.Procpar.Num := { isOne := fun t => ones.contains t.text, gt := fun _ _ => gt }
    match Dnp.Procpar.parse ls with
    | .error e => pure (Json.mkObj [("outcome", Json.str ("raise:" ++ e.toString))])
    | .ok ps =>
      let arr := match Dnp.Procpar.arrayCoords N (Dnp.Procpar.lookup ps) with
        | none => Json.null
        | some (dim, .values vs) => Json.arr #[Json.str dim, "values", Json.arr (vs.map (fun t => Json.str t.text)).toArray]
        | some (dim, .range a b c) => Json.arr #[Json.str dim, "range", Json.arr #[Json.str a.text, Json.str b.text, Json.str c.text]]
      pure (Json.mkObj [("outcome", "ok"),
        ("params", Json.arr (ps.map (fun p => Json.mkObj [("name", Json.str p.1), ("val", pvalJ p.2)])).toArray),
        ("array", arr)])

def indexAxisJ (j : Json) : M Json := do
  let n ← jNat (← jField j "n")
  let start ← jInt (← jField j "start")
  let step ← jInt (← jField j "step")
  pure (Json.mkObj [("outcome", "ok"),
    ("axis", Json.arr ((Dnp.ImportAxis.indexAxis n start step).map (fun (x : Int) => Json.str (toString x))).toArray)])

def lineshapeJ (j : Json) : M Json := do
  let kind ← jStr (← jField j "kind")
  let x ← (← jRatList (← jField j "x")).mapM (fun q => pure (ratToFloat q))
  let par (k : String) : M Float := do pure (ratToFloat (← jRat (← jField j k)))
  let x0 ← par "x0"; let wd ← par "width"; let integ ← par "integral"
  let f ← match kind with
    | "gaussian" => pure (fun t => Dnp.Lineshape.gaussian floatT t x0 wd integ)
    | "lorentzian" => pure (fun t => Dnp.Lineshape.lorentzian floatT t x0 wd integ)
    | "lorentzian_deriv" => pure (fun t => Dnp.Lineshape.lorentzianDeriv floatT t x0 wd integ)
    | _ => throw s!"unknown lineshape {kind}"
  pure (Json.mkObj [("outcome", Json.str "ok"),
    ("bits", Json.arr (x.map (fun t => Json.str (toString (f t).toBits.toNat))).toArray)])

def windowJ (j : Json) : M Json := do
  let kind ← jStr (← jField j "kind")
  let x ← (← jRatList (← jField j "x")).mapM (fun q => pure (ratToFloat q))
  let par (k : String) : M Float := do pure (ratToFloat (← jRat (← jField j k)))
  let w ← match kind with
    | "exponential" => do pure (Dnp.Window.exponential floatT x (← par "lw"))
    | "gaussian" => do pure (Dnp.Window.gaussian floatT x (← par "lw"))
    | "hann" => pure (Dnp.Window.hann floatT x.length)
    | "hamming" => pure (Dnp.Window.hamming floatT x.length)
    | "sin2" => pure (Dnp.Window.sin2 floatT x.length)
    | "traf" => do pure (Dnp.Window.traf floatT x (← par "lw") (x.foldl (fun a b => if a < b then b else a) (x.headD 0)))
    | "lorentz_gauss" => do pure (Dnp.Window.lorentzGauss floatT x (← par "lw") (← par "gauss_lw") (← par "gaussian_max"))
    | _ => throw s!"unknown window {kind}"
  pure (Json.mkObj [("outcome", Json.str "ok"),
    ("bits", Json.arr (w.map (fun f => Json.str (toString f.toBits.toNat))).toArray)])

/-! HDF5 persistence model (C07 / C17) -/
open Dnp.H5 in
def jSc (j : Json) : M Sc := do
  match ← jStr (← jField j "t") with
  | "none" => pure .none
  | "bool" => pure (.bool ((← jField j "v").getBool?.toOption.getD false))
  | "num" => pure (.num (← jRat (← jField j "v")))
  | "str" => pure (.str (← jStr (← jField j "v")))
  | t => throw s!"bad scalar tag {t}"

open Dnp.H5 in
def jPyVal (j : Json) : M PyVal := do
  match ← jStr (← jField j "t") with
  | "seq" => do pure (.seq (← (← jArr (← jField j "v")).mapM jSc))
  | "ndarr" => do pure (.ndarr (← (← jArr (← jField j "v")).mapM jSc))
  | "big" => do pure (.ndarr (List.replicate (← jNat (← jField j "n")) (.num 0)))     -- numpy.zeros(n)
  | _ => do pure (.sc (← jSc j))

open Dnp.H5 in
def jKV (j : Json) : M (List (String × PyVal)) := do
  (← jArr j).mapM (fun e => do
    match ← jArr e with
    | [k, v] => pure (← jStr k, ← jPyVal v)
    | _ => throw "bad kv")

open Dnp.H5 in
def jObj (j : Json) : M Obj := do
  let hist ← (← jArr (← jField j "hist")).mapM (fun e => do
    match ← jArr e with
    | [n, ps] => pure (← jStr n, ← jKV ps)
    | _ => throw "bad hist")
  pure { dtype := ← jStr (← jField j "dtype"), shape := ← jNatList (← jField j "shape"),
         data := ← jStrList (← jField j "data"), dims := ← jStrList (← jField j "dims"),
         coords := ← (← jArr (← jField j "coords")).mapM jRatList,
         attrs := ← jKV (← jField j "attrs"), dattrs := ← jKV (← jField j "dattrs"), hist }

open Dnp.H5 in
def jWorkspace (j : Json) : M Workspace := do
  (← jArr j).mapM (fun e => do
    match ← jArr e with
    | [k, v] =>
      let kind ← jStr (← jField v "kind")
      if kind == "data" then pure (← jStr k, Entry.data (← jObj (← jField v "obj")))
      else if kind == "raw" then pure (← jStr k, Entry.raw)
      else pure (← jStr k, Entry.dict (← jKV (← jField v "kv")))
    | _ => throw "bad ws entry")

open Dnp.H5 in
def scJ : Sc → Json
  | .none => Json.mkObj [("t", "none")]
  | .bool b => Json.mkObj [("t", "bool"), ("v", Json.bool b)]
  | .num q => Json.mkObj [("t", "num"), ("v", ratJ q)]
  | .str s => Json.mkObj [("t", "str"), ("v", Json.str s)]

open Dnp.H5 in
def pyJ : PyVal → Json
  | .sc s => scJ s
  | .seq xs => Json.mkObj [("t", "seq"), ("v", Json.arr (xs.map scJ).toArray)]
  | .ndarr xs => Json.mkObj [("t", "ndarr"), ("v", Json.arr (xs.map scJ).toArray)]

open Dnp.H5 in
def storedJ : Stored → Json
  | .scalar s => Json.mkObj [("s", scJ s)]
  | .array xs => Json.mkObj [("a", Json.arr (xs.map scJ).toArray)]

open Dnp.H5 in
def kvObjJ {β : Type} (f : β → Json) (kv : List (String × β)) : Json := Json.mkObj (kv.map (fun p => (p.1, f p.2)))

open Dnp.H5 in
def nodeJ : Node → Json
  | .data g => Json.mkObj [("type", "dnpdata"), ("dtype", Json.str g.dtype), ("shape", natsJ g.shape),
      ("data", strsJ g.data),
      ("scales", Json.arr (g.scales.map (fun p => Json.arr #[Json.str p.1, Json.arr (p.2.map ratJ).toArray])).toArray),
      ("attrs", kvObjJ storedJ g.attrsA), ("attrs_ds", kvObjJ (fun xs => Json.arr (xs.map scJ).toArray) g.attrsD),
      ("dattrs", kvObjJ storedJ g.dattrsA), ("dattrs_ds", kvObjJ (fun xs => Json.arr (xs.map scJ).toArray) g.dattrsD),
      ("proc", Json.arr (g.proc.map (fun p => Json.arr #[Json.str p.1, kvObjJ storedJ p.2])).toArray)]
  | .dict kv => Json.mkObj [("type", "dict"), ("attrs", kvObjJ storedJ kv)]

open Dnp.H5 in
def objOutJ (o : Obj) : Json :=
  Json.mkObj [("dtype", Json.str o.dtype), ("shape", natsJ o.shape), ("data", strsJ o.data), ("dims", strsJ o.dims),
    ("coords", Json.arr (o.coords.map (fun c => Json.arr (c.map ratJ).toArray)).toArray),
    ("attrs", kvObjJ pyJ o.attrs), ("dattrs", kvObjJ pyJ o.dattrs),
    ("hist", Json.arr (o.hist.map (fun e => Json.arr #[Json.str e.1, kvObjJ pyJ e.2])).toArray)]

open Dnp.H5 in
def loadedJ : Loaded → Json
  | .single o => Json.mkObj [("single", objOutJ o)]
  | .ws w => Json.mkObj [("ws", Json.mkObj (w.map (fun p => (p.1, match p.2 with
      | .data o => Json.mkObj [("kind", "data"), ("obj", objOutJ o)]
      | .dict kv => Json.mkObj [("kind", "dict"), ("kv", kvObjJ pyJ kv)]
      | .raw => Json.mkObj [("kind", "raw")]))))]

open Dnp.H5 in
def diskJ : Disk → Json
  | .absent => Json.null
  | .holds t => Json.mkObj [("tree", Json.mkObj (t.map (fun p => (p.1, nodeJ p.2)))), ("loaded", loadedJ (load t))]
  | .other n => Json.mkObj [("other", Json.num (Int.ofNat n))]

open Dnp.H5 in
def h5J (j : Json) : M Json := do
  let w ← match jFieldOpt j "single" with
    | some o => do pure (wrap (← jObj o))
    | none => jWorkspace (← jField j "ws")
  let prev ← match jFieldOpt j "prev" with
    | some p => do
      if let some t := jFieldOpt p "other" then return ← (do
        let n ← jNat t
        let ow := (jFieldOpt j "overwrite").isSome
        let r := save (Disk.other n) w ow
        pure (Json.mkObj [("outcome", Json.str "ok"), ("raised", Json.bool r.raised), ("disk", diskJ r.disk)]))
      let pw ← match jFieldOpt p "single" with
        | some o => do pure (wrap (← jObj o))
        | none => jWorkspace (← jField p "ws")
      pure (match writeAll pw with | some t => Disk.holds t | none => Disk.absent)
    | none => pure Disk.absent
  let ow := (jFieldOpt j "overwrite").isSome
  let r := save prev w ow
  pure (Json.mkObj [("outcome", Json.str "ok"), ("raised", Json.bool r.raised), ("disk", diskJ r.disk)])

/-! binary layouts (C06 / C19): bytes travel as lists of numbers -/
def jLayout (j : Json) : M Dnp.Layout.Layout := do
  pure { hdr := ← jNat (← jField j "hdr"), rowPrefix := ← jNat (← jField j "rowPrefix"), rowPad := ← jNat (← jField j "rowPad"),
         pointBytes := ← jNat (← jField j "pointBytes"), rowLen := ← jNat (← jField j "rowLen"),
         outer := ← jNatList (← jField j "outer"), perm := ← jNatList (← jField j "perm"),
         trailerOk := (jFieldOpt j "trailerOk").isSome }

def layoutJ (j : Json) : M Json := do
  let L ← jLayout (← jField j "L")
  match ← jStr (← jField j "q") with
  | "decode" =>
    let bs ← jNatList (← jField j "bytes")
    let declared ← match jFieldOpt j "declared" with
      | some v => do pure (some (← jNat v))
      | none => pure none
    match Dnp.Layout.decodeDeclared L declared bs with
    | .ok a => pure (Json.mkObj [("outcome", "ok"), ("result", "ok"), ("shape", natsJ a.shape),
        ("points", Json.arr (a.data.map natsJ).toArray)])
    | .error .short => pure (Json.mkObj [("outcome", "ok"), ("result", "short")])
    | .error .long => pure (Json.mkObj [("outcome", "ok"), ("result", "long")])
    | .error .inconsistent => pure (Json.mkObj [("outcome", "ok"), ("result", "inconsistent")])
  | "encode" =>
    let shape ← jNatList (← jField j "shape")
    let pts ← (← jArr (← jField j "points")).mapM jNatList
    let fill ← jNat (← jField j "fill")
    pure (Json.mkObj [("outcome", "ok"), ("bytes", natsJ (Dnp.Layout.encode L fill ⟨shape, pts⟩)),
      ("total", Json.num (Int.ofNat L.total))])
  | q => throw s!"unknown layout query {q}"

/-- an object in the format of the `new` operation -/
def jDataObj (j : Json) : M D := do
  let dims ← jStrList (← jField j "dims")
  let coords ← (← jArr (← jField j "coords")).mapM jRatList
  let shape ← jNatList (← jField j "shape")
  let vals ← (← jArr (← jField j "values")).mapM jGRat
  let attrs ← match jFieldOpt j "attrs" with | some a => jDict a | none => pure []
  let dattrs ← match jFieldOpt j "dattrs" with | some a => jDict a | none => pure []
  pure { dims, coords, values := ⟨shape, vals⟩, attrs, dattrs, hist := [] }

def loadJ (j : Json) : M Json := do
  match ← jStr (← jField j "q") with
  | "many" => do
    -- load(list of paths): `files` says what each path loads to (the importers themselves are C06's business)
    let paths ← jStrList (← jField j "paths")
    let files ← (← jArr (← jField j "files")).mapM (fun e => do
      pure ((← jStr (← jField e "path")), (← jDataObj (← jField e "obj"))))
    let coord ← jRatList (← jField j "coord")
    let dim := match jFieldOpt j "dim" with | some v => v.getStr?.toOption | none => none
    let loadOne : String → Except Dnp.Err D := fun p =>
      match files.find? (fun f => f.1 == p) with | some f => .ok f.2 | none => .error .io
    match Dnp.Load.loadMany loadOne arangeR paths dim coord with
    | .ok r => pure (Json.mkObj [("outcome", "ok"), ("obj", objJ r)])
    | .error e => pure (Json.mkObj [("outcome", Json.str ("raise:" ++ e.toString))])
  | "autodetect" =>
    let p : Dnp.Load.PathInfo := { ext := ← jStr (← jField j "ext"), isDir := (jFieldOpt j "isDir").isSome,
                                   listing := ← jStrList (← jField j "listing") }
    pure (Json.mkObj [("outcome", "ok"), ("result", match Dnp.Load.autodetect p with
      | .fmt f => Json.str (if Dnp.Load.dispatches f then f else f ++ "!nodispatch")
      | .typeError => Json.str "TypeError")])
  | "scale" => do
    pure (Json.mkObj [("outcome", "ok"), ("result", Json.num (Dnp.Load.scaleExp (← jStr (← jField j "unit"))))])
  | "mapping" => do
    let r := Dnp.Load.parseMapping (← jStr (← jField j "val"))
    pure (Json.mkObj [("outcome", "ok"), ("keys", strsJ r.1), ("exp", Json.num r.2)])
  | q => throw s!"unknown load query {q}"

partial def loop (h : IO.FS.Stream) (out : IO.FS.Stream) (s : Store) : IO Unit := do
  let line ← h.getLine
  if line.isEmpty then return ()
  if line.trimAscii.toString.isEmpty then loop h out s else
  match Json.parse line with
  | .error e => do
    out.putStrLn (Json.compress (Json.mkObj [("outcome", Json.str ("driver-error:" ++ e))]))
    loop h out s
  | .ok j =>
    if (j.getObjVal? "op").toOption == some (Json.str "layout") then
      match layoutJ j with
      | .ok r => do out.putStrLn (Json.compress r); loop h out s
      | .error e => do
        out.putStrLn (Json.compress (Json.mkObj [("outcome", Json.str ("driver-error:" ++ e))])); loop h out s
    else
    if (j.getObjVal? "op").toOption == some (Json.str "load") then
      match loadJ j with
      | .ok r => do out.putStrLn (Json.compress r); loop h out s
      | .error e => do
        out.putStrLn (Json.compress (Json.mkObj [("outcome", Json.str ("driver-error:" ++ e))])); loop h out s
    else
    if (j.getObjVal? "op").toOption == some (Json.str "h5") then
      match h5J j with
      | .ok r => do out.putStrLn (Json.compress r); loop h out s
      | .error e => do
        out.putStrLn (Json.compress (Json.mkObj [("outcome", Json.str ("driver-error:" ++ e))])); loop h out s
    else
    if (j.getObjVal? "op").toOption == some (Json.str "hydration") then
      match hydrationJ j with
      | .ok r => do out.putStrLn (Json.compress r); loop h out s
      | .error e => do
        out.putStrLn (Json.compress (Json.mkObj [("outcome", Json.str ("driver-error:" ++ e))])); loop h out s
    else
    if (j.getObjVal? "op").toOption == some (Json.str "fitgrid") then
      match fitgridJ j with
      | .ok r => do out.putStrLn (Json.compress r); loop h out s
      | .error e => do
        out.putStrLn (Json.compress (Json.mkObj [("outcome", Json.str ("driver-error:" ++ e))])); loop h out s
    else
    if (j.getObjVal? "op").toOption == some (Json.str "procpar") then
      match procparJ j with
      | .ok r => do out.putStrLn (Json.compress r); loop h out s
      | .error e => do
        out.putStrLn (Json.compress (Json.mkObj [("outcome", Json.str ("driver-error:" ++ e))])); loop h out s
    else
    if (j.getObjVal? "op").toOption == some (Json.str "indexaxis") then
      match indexAxisJ j with
      | .ok r => do out.putStrLn (Json.compress r); loop h out s
      | .error e => do
        out.putStrLn (Json.compress (Json.mkObj [("outcome", Json.str ("driver-error:" ++ e))])); loop h out s
    else
    if (j.getObjVal? "op").toOption == some (Json.str "lineshape") then
      match lineshapeJ j with
      | .ok r => do out.putStrLn (Json.compress r); loop h out s
      | .error e => do
        out.putStrLn (Json.compress (Json.mkObj [("outcome", Json.str ("driver-error:" ++ e))])); loop h out s
    else
    if (j.getObjVal? "op").toOption == some (Json.str "window") then
      match windowJ j with
      | .ok r => do out.putStrLn (Json.compress r); loop h out s
      | .error e => do
        out.putStrLn (Json.compress (Json.mkObj [("outcome", Json.str ("driver-error:" ++ e))])); loop h out s
    else
    match stepJ s j with
    | .error e => do
      out.putStrLn (Json.compress (Json.mkObj [("outcome", Json.str ("driver-error:" ++ e)), ("store", storeJ s)]))
      loop h out s
    | .ok o => do
      let fields := [("outcome", Json.str o.outcome), ("store", storeJ o.store)] ++
        (match o.ret with | some r => [("ret", r)] | none => [])
      out.putStrLn (Json.compress (Json.mkObj fields))
      loop h out o.store

def main : IO Unit := do
  loop (← IO.getStdin) (← IO.getStdout) []
