import Lean.Data.Json
import DnpModel
/-
  JSON-lines driver: runs the Lean model on the operation stream the Python harness
  also runs on the real DNPLab code.  One JSON object in, one JSON object out per line.
  (Trusted glue: not part of any theorem.)
-/
open Lean Dnp Np

abbrev D := Data Rat GRat
abbrev Store := List (Nat × D)
abbrev M := Except String

def parseRat (s : String) : M Rat :=
  match s.splitOn "/" with
  | [a] => match a.trimAscii.toString.toInt? with
    | some n => pure (n : Rat)
    | none => throw s!"bad rational {s}"
  | [a, b] => match a.trimAscii.toString.toInt?, b.trimAscii.toString.toInt? with
    | some n, some d => pure ((n : Rat) / (d : Rat))
    | _, _ => throw s!"bad rational {s}"
  | _ => throw s!"bad rational {s}"

def parseGRat (s : String) : M GRat :=
  match s.splitOn "," with
  | [a] => do pure ⟨← parseRat a, 0⟩
  | [a, b] => do pure ⟨← parseRat a, ← parseRat b⟩
  | _ => throw s!"bad complex {s}"

def jStr (j : Json) : M String := j.getStr?
def jArr (j : Json) : M (List Json) := do pure (← j.getArr?).toList
def jNat (j : Json) : M Nat := j.getNat?
def jInt (j : Json) : M Int := j.getInt?
def jField (j : Json) (k : String) : M Json := j.getObjVal? k
def jFieldOpt (j : Json) (k : String) : Option Json :=
  match j.getObjVal? k with | .ok v => if v.isNull then none else some v | .error _ => none
def jRat (j : Json) : M Rat := do parseRat (← jStr j)
def jGRat (j : Json) : M GRat := do parseGRat (← jStr j)
def jOptInt (j : Json) : M (Option Int) := if j.isNull then pure none else some <$> jInt j
def jStrList (j : Json) : M (List String) := do (← jArr j).mapM jStr
def jRatList (j : Json) : M (List Rat) := do (← jArr j).mapM jRat
def jNatList (j : Json) : M (List Nat) := do (← jArr j).mapM jNat
def jDict (j : Json) : M (List (String × String)) := do
  let o ← j.getObj?
  let kvs := o.toList  -- sorted order; canonical output sorts anyway
  kvs.mapM (fun (k, v) => do pure (k, ← jStr v))
def jHist (j : Json) : M (List HistEntry) := do
  (← jArr j).mapM (fun e => do
    match ← jArr e with
    | [n, ks] => pure (← jStr n, ← jStrList ks)
    | _ => throw "bad hist entry")

def jSel (j : Json) : M (Sel Rat) := do
  if let some v := jFieldOpt j "int" then return .int (← jInt v)
  if let some v := jFieldOpt j "flt" then return .flt (← jRat v)
  if let some v := jFieldOpt j "tup1" then return .tup1 (← jRat v)
  if let some v := jFieldOpt j "range" then
    match ← jArr v with
    | [a, b] => return .range (← jRat a) (← jRat b)
    | _ => throw "bad range"
  if let some v := jFieldOpt j "slice" then
    match ← jArr v with
    | [a, b, c] => return .slice (← jOptInt a) (← jOptInt b) (← jOptInt c)
    | _ => throw "bad slice"
  throw "bad selector"

def jSels (j : Json) : M (List (String × Sel Rat)) := do
  (← jArr j).mapM (fun e => do
    match ← jArr e with
    | [d, s] => pure (← jStr d, ← jSel s)
    | _ => throw "bad sel pair")

/-! canonical output -/
def ratJ (q : Rat) : Json := Json.str (toString q)
def gJ (g : GRat) : Json := Json.str g.toStr
def dictJ (m : List (String × String)) : Json :=
  Json.mkObj (m.map (fun (k, v) => (k, Json.str v)))
def natsJ (l : List Nat) : Json := Json.arr (l.map (fun (n : Nat) => Json.num (Int.ofNat n))).toArray
def strsJ (l : List String) : Json := Json.arr (l.map Json.str).toArray

def canonShape (s : List Nat) : String := "[" ++ ",".intercalate (s.map toString) ++ "]"
def canonDims (s : List String) : String := "[" ++ ",".intercalate (s.map (fun x => "'" ++ x ++ "'")) ++ "]"

def objJ (d : D) : Json :=
  let attrs := match d.unf with
    | none => d.attrs
    | some (fs, fo) => Data.dictSet (Data.dictSet d.attrs "folded_shape" (canonShape fs)) "folded_order" (canonDims fo)
  Json.mkObj [
    ("dims", strsJ d.dims),
    ("coords", Json.arr (d.coords.map (fun c => Json.arr (c.map ratJ).toArray)).toArray),
    ("shape", natsJ d.values.shape),
    ("values", Json.arr (d.values.data.map gJ).toArray),
    ("attrs", dictJ attrs),
    ("dattrs", dictJ d.dattrs),
    ("hist", Json.arr (d.hist.map (fun (n, ks) => Json.arr #[Json.str n, strsJ ks])).toArray),
    ("folded", Json.bool d.folded)]

def storeJ (s : Store) : Json := Json.mkObj (s.map (fun (i, d) => (toString i, objJ d)))

def Store.get (s : Store) (i : Nat) : M D :=
  match s.find? (·.1 == i) with | some (_, d) => pure d | none => throw s!"no object {i}"
def Store.set (s : Store) (i : Nat) (d : D) : Store :=
  if s.any (·.1 == i) then s.map (fun p => if p.1 == i then (i, d) else p) else s ++ [(i, d)]

/-! scalar functions -/
def rdist (a b : Rat) : Rat := ratAbs (a - b)
def rlt (a b : Rat) : Bool := a < b
def rle (a b : Rat) : Bool := a ≤ b
/-- numpy.allclose element test with the default tolerances -/
def rclose (x y : Rat) : Bool := ratAbs (x - y) ≤ (1 : Rat) / 100000000 + (1 : Rat) / 100000 * ratAbs y

def binF : String → M (GRat → GRat → GRat)
  | "add" => pure (· + ·) | "sub" => pure (· - ·) | "mul" => pure (· * ·) | "truediv" => pure (· / ·)
  | "subtract" => pure (· - ·) | "multiply" => pure (· * ·) | "divide" => pure (· / ·)
  | "true_divide" => pure (· / ·)
  | f => throw s!"unknown binary {f}"

def unF : String → M (GRat → GRat)
  | "negative" => pure (fun x => -x) | "conj" => pure GRat.conj | "conjugate" => pure GRat.conj
  | "square" => pure (fun x => x * x) | "positive" => pure id
  | "real" => pure (fun x => ⟨x.re, 0⟩) | "imag" => pure (fun x => ⟨x.im, 0⟩)
  | "abs2" => pure (fun x => ⟨x.normSq, 0⟩)
  | "reciprocal" => pure (fun x => 1 / x)
  | f => throw s!"unknown unary {f}"

def gsum (l : List GRat) : GRat := l.foldl (· + ·) 0
def gmean (l : List GRat) : GRat := gsum l / ⟨(l.length : Rat), 0⟩
def gbest (lt : GRat → GRat → Bool) (l : List GRat) : GRat := l.getD (argBest lt l) default
def gvar (l : List GRat) : GRat :=
  let m := gmean l
  ⟨(l.foldl (fun acc x => acc + (x - m).normSq) 0) / (l.length : Rat), 0⟩
def gmedian (l : List GRat) : GRat :=
  let s := (sortKeyed (fun a b => !GRat.lt b a) (l.zip (List.range l.length))).map Prod.fst
  let n := s.length
  if n % 2 == 1 then s.getD (n / 2) default
  else (s.getD (n / 2 - 1) default + s.getD (n / 2) default) / ⟨2, 0⟩

def redF : String → M (List GRat → GRat)
  | "sum" => pure gsum | "mean" => pure gmean
  | "max" => pure (gbest (fun a b => GRat.lt b a)) | "amax" => pure (gbest (fun a b => GRat.lt b a))
  | "min" => pure (gbest GRat.lt) | "amin" => pure (gbest GRat.lt)
  | "prod" => pure (fun l => l.foldl (· * ·) 1)
  | "var" => pure gvar | "median" => pure gmedian
  | "ptp" => pure (fun l => gbest (fun a b => GRat.lt b a) l - gbest GRat.lt l)
  | "any" => pure (fun l => if l.any (· != (0 : GRat)) then 1 else 0)
  | "all" => pure (fun l => if l.all (· != (0 : GRat)) then 1 else 0)
  | f => throw s!"unknown reduction {f}"

/-- `ufunc.__name__` of the NumPy ufunc an operator or alias resolves to -/
def ufuncName : String → String
  | "conj" => "conjugate" | "sub" => "subtract" | "mul" => "multiply" | "truediv" => "divide"
  | "true_divide" => "divide" | s => s

def arangeR (n : Nat) : List Rat := (List.range n).map (fun (k : Nat) => (k : Rat))

structure Out where
  store : Store
  outcome : String := "ok"
  ret : Option Json := none

def fromExcept (s : Store) (r : Except Err Store) : Out :=
  match r with
  | .ok s' => { store := s' }
  | .error e => { store := s, outcome := "raise:" ++ e.toString }

def jAxis (j : Json) : M Data.Axis := do
  match jFieldOpt j "axis" with
  | none => pure .none
  | some v => match v.getStr? with
    | .ok s => pure (.name s)
    | .error _ => do pure (.pos (← jInt v))

def step (s : Store) (j : Json) : M Out := do
  let op ← jStr (← jField j "op")
  let objOf (k : String) : M (Nat × D) := do
    let i ← jNat (← jField j k); pure (i, ← s.get i)
  let outId : M Nat := do jNat (← jField j "out")
  -- in-place op on the receiver
  let inplace (f : D → Except Err D) : M Out := do
    let (i, d) ← objOf "obj"
    pure (fromExcept s ((f d).map (s.set i)))
  -- op producing a new object
  let produce (f : D → Except Err D) : M Out := do
    let (_, d) ← objOf "obj"
    let o ← outId
    pure (fromExcept s ((f d).map (s.set o)))
  match op with
  | "new" =>
    let i ← jNat (← jField j "id")
    let dims ← jStrList (← jField j "dims")
    let coords ← (← jArr (← jField j "coords")).mapM jRatList
    let shape ← jNatList (← jField j "shape")
    let vals ← (← jArr (← jField j "values")).mapM jGRat
    let attrs ← match jFieldOpt j "attrs" with | some a => jDict a | none => pure []
    let dattrs ← match jFieldOpt j "dattrs" with | some a => jDict a | none => pure []
    let hist ← match jFieldOpt j "hist" with | some a => jHist a | none => pure []
    pure { store := s.set i { dims, coords, values := ⟨shape, vals⟩, attrs, dattrs, hist } }
  | "copy" => produce (fun d => .ok d)
  | "reorder" => do let ds ← jStrList (← jField j "dims"); inplace (·.reorder ds)
  | "sort_dims" => inplace (fun d => .ok d.sortDims)
  | "rename" => do
    let a ← jStr (← jField j "dim"); let b ← jStr (← jField j "new"); inplace (·.rename a b)
  | "sort" => do let a ← jStr (← jField j "dim"); inplace (fun d => d.sort rle a)
  | "new_dim" => do
    let a ← jStr (← jField j "dim"); let c ← jRat (← jField j "coord"); inplace (·.newDim a c)
  | "squeeze" => inplace (fun d => .ok d.squeeze)
  | "split" => do
    let a ← jStr (← jField j "dim"); let b ← jStr (← jField j "new")
    let c ← jRatList (← jField j "coord"); inplace (·.split a b c)
  | "concatenate" => do
    let (_, b) ← objOf "other"; let a ← jStr (← jField j "dim"); inplace (·.concatenate b a)
  | "unfold" => do let a ← jStr (← jField j "dim"); inplace (fun d => d.unfold arangeR a)
  | "fold" => inplace (·.fold)
  | "getitem" => do let sels ← jSels (← jField j "sel"); produce (fun d => d.getitem rdist rlt sels)
  | "setitem" => do
    let sels ← jSels (← jField j "sel")
    let v ← jGRat (← jField j "value")
    inplace (fun d => d.setitemWith rdist rlt sels (fun _ => v))
  | "binop" => do
    let f ← binF (← jStr (← jField j "f"))
    let (_, a) ← objOf "lhs"; let (_, b) ← objOf "rhs"; let o ← outId
    pure (fromExcept s ((Data.binop rclose f a b).map (s.set o)))
  | "scalarop" => do
    let f ← binF (← jStr (← jField j "f"))
    let c ← jGRat (← jField j "scalar")
    let refl := (jFieldOpt j "refl").isSome
    produce (fun d => .ok (d.scalarOp (fun x => if refl then f c x else f x c)))
  | "arrayop" => do
    let f ← binF (← jStr (← jField j "f"))
    let shape ← jNatList (← jField j "shape")
    let vals ← (← jArr (← jField j "values")).mapM jGRat
    let refl := (jFieldOpt j "refl").isSome
    -- `ndarray ∘ data` is dispatched by NumPy to `__array_ufunc__`, which stamps the history
    let fname ← jStr (← jField j "f")
    produce (fun d => (d.arrayOp (fun x y => if refl then f y x else f x y) ⟨shape, vals⟩).map
      (fun r => if refl then r.addHist ("numpy." ++ ufuncName fname) ["args", "kwargs"] else r))
  | "method" => do
    let f ← jStr (← jField j "f"); let dim ← jStr (← jField j "dim")
    let ofR : Rat → GRat := GRat.ofRat
    let ofN (n : Nat) : GRat := ⟨(n : Rat), 0⟩
    match f with
    | "sum" => produce (·.reduceDim gsum dim)
    | "maximum" => produce (·.reduceDim (gbest (fun a b => GRat.lt b a)) dim)
    | "minimum" => produce (·.reduceDim (gbest GRat.lt) dim)
    | "argmax" => produce (·.argCoord ofR (fun a b => GRat.lt b a) dim)
    | "argmin" => produce (·.argCoord ofR GRat.lt dim)
    -- a 1-D object makes numpy.argmax return a NumPy integer scalar, which the values setter rejects
    | "argmax_index" => produce (fun d => if d.dims.length = 1 ∧ dim ∈ d.dims then .error .type else
        d.reduceDim (fun l => ofN (argBest (fun a b => GRat.lt b a) l)) dim)
    | "argmin_index" => produce (fun d => if d.dims.length = 1 ∧ dim ∈ d.dims then .error .type else
        d.reduceDim (fun l => ofN (argBest GRat.lt l)) dim)
    | "cumulative_sum" => produce (·.cumulativeSum dim)
    | _ => throw s!"unknown method {f}"
  | "np_reduce" => do
    let fname ← jStr (← jField j "f")
    let f ← redF fname
    let ax ← jAxis j
    let (_, d) ← objOf "obj"; let o ← outId
    match d.npReduce fname f ax with
    | .error e => pure { store := s, outcome := "raise:" ++ e.toString }
    | .ok (.inl r) => pure { store := s.set o r }
    | .ok (.inr v) => pure { store := s, ret := some (gJ v) }
  | "np_unary" => do
    let fname ← jStr (← jField j "f"); let f ← unF fname
    produce (fun d => .ok (d.npUnary (ufuncName fname) f))
  | "np_binary" => do
    let fname ← jStr (← jField j "f"); let f ← binF fname
    let (_, a) ← objOf "lhs"; let (_, b) ← objOf "rhs"; let o ← outId
    pure (fromExcept s ((Data.npBinaryData (ufuncName fname) f a b).map (s.set o)))
  | "np_scalar" => do
    let fname ← jStr (← jField j "f"); let f ← binF fname
    let c ← jGRat (← jField j "scalar")
    let refl := (jFieldOpt j "refl").isSome
    produce (fun d => .ok ((d.scalarOp (fun x => if refl then f c x else f x c)).addHist ("numpy." ++ ufuncName fname) ["args", "kwargs"]))
  | "concat" => do
    let ids ← (← jArr (← jField j "objs")).mapM jNat
    let ds ← ids.mapM s.get
    let dim ← jStr (← jField j "dim")
    let coord ← match jFieldOpt j "coord" with | some c => some <$> jRatList c | none => pure none
    let o ← outId
    pure (fromExcept s ((Data.concat arangeR ds dim coord).map (s.set o)))
  | "set_attr" => do
    let k ← jStr (← jField j "key"); let v ← jStr (← jField j "value")
    inplace (fun d => .ok { d with attrs := Data.dictSet d.attrs k v })
  | "set_dattr" => do
    let k ← jStr (← jField j "key"); let v ← jStr (← jField j "value")
    inplace (fun d => .ok { d with dattrs := Data.dictSet d.dattrs k v })
  | "add_hist" => do
    let n ← jStr (← jField j "name"); let ks ← jStrList (← jField j "keys")
    inplace (fun d => .ok (d.addHist n ks))
  | "set_value" => do
    let k ← jNat (← jField j "flat"); let v ← jGRat (← jField j "value")
    inplace (fun d => .ok { d with values := ⟨d.values.shape, setAt d.values.data k v⟩ })
  | "set_coord" => do
    let dim ← jStr (← jField j "dim"); let k ← jNat (← jField j "k"); let v ← jRat (← jField j "value")
    inplace (fun d => .ok { d with coords := setAt d.coords (d.index dim) (setAt (d.coord dim) k v) })
  | "del" => do
    let i ← jNat (← jField j "obj")
    pure { store := s.filter (·.1 != i) }
  | "reset" => pure { store := [] }
  | _ => throw s!"unknown op {op}"

partial def loop (h : IO.FS.Stream) (out : IO.FS.Stream) (s : Store) : IO Unit := do
  let line ← h.getLine
  if line.isEmpty then return ()
  if line.trimAscii.toString.isEmpty then loop h out s else
  match Json.parse line with
  | .error e => do
    out.putStrLn (Json.compress (Json.mkObj [("outcome", Json.str ("driver-error:" ++ e))]))
    loop h out s
  | .ok j =>
    match step s j with
    | .error e => do
      out.putStrLn (Json.compress (Json.mkObj [("outcome", Json.str ("driver-error:" ++ e)), ("store", storeJ s)]))
      loop h out s
    | .ok o => do
      let fields := [("outcome", Json.str o.outcome), ("store", storeJ o.store)] ++
        (match o.ret with | some r => [("ret", r)] | none => [])
      out.putStrLn (Json.compress (Json.mkObj fields))
      loop h out o.store

def main : IO Unit := do
  loop (← IO.getStdin) (← IO.getStdout) []
