import DnpModel.Np.Arr
import DnpModel.Np.Prim
import DnpModel.Data
import DnpModel.Ops
import DnpModel.Num
import DnpModel.Index
import DnpModel.Arith
import DnpModel.Reduce
