import DnpModel.Np.Prim
/-
  L1 (binary sections of the vendor importers): every format stores its samples as
     header ++ rows,  row = prefix ++ points ++ padding,  point = one or two scalars of w bytes,
  and the imported array is an axis transposition of the row-major grid read from the file.
  A `Layout` says how many bytes each part has and which transposition applies; `decode` is the
  strict reader (exact total length unless the format allows a trailer), `encode` the writer.
  Samples stay raw byte groups: "exactly the samples stored in the file" is literal.
-/
namespace Dnp.Layout
open Np

abbrev Byte := Nat
abbrev Point := List Byte          -- the bytes of one (real or complex) point, in file order

structure Layout where
  hdr : Nat                        -- bytes before the first row
  rowPrefix : Nat                  -- bytes at the start of every row (VnmrJ block header)
  rowPad : Nat                     -- bytes at the end of every row (TopSpin rows are padded)
  pointBytes : Nat                 -- w · (1 | 2)
  rowLen : Nat                     -- points per row
  outer : List Nat                 -- extents of the grid of rows, slowest first
  perm : List Nat                  -- logical array = transpose(file grid, perm)
  trailerOk : Bool                 -- bytes after the last row are allowed (TNMR sections)
deriving Repr

def Layout.fileShape (L : Layout) : List Nat := L.outer ++ [L.rowLen]
def Layout.rows (L : Layout) : Nat := size L.outer
def Layout.rowBytes (L : Layout) : Nat := L.rowPrefix + L.rowLen * L.pointBytes + L.rowPad
def Layout.total (L : Layout) : Nat := L.hdr + L.rows * L.rowBytes
def Layout.logicalShape (L : Layout) : List Nat := gather L.perm L.fileShape

/-- cut a byte list into n groups of w bytes (none if too short) -/
def takeGroups : Nat → Nat → List Byte → Option (List (List Byte))
  | 0, _, _ => some []
  | n + 1, w, bs =>
    if bs.length < w then none
    else (takeGroups n w (bs.drop w)).map (fun r => bs.take w :: r)

/-- read `rows` rows: skip prefix, take rowLen points, skip padding -/
def readRows (L : Layout) : Nat → List Byte → Option (List Point)
  | 0, _ => some []
  | r + 1, bs =>
    if bs.length < L.rowBytes then none
    else
      match takeGroups L.rowLen L.pointBytes (bs.drop L.rowPrefix), readRows L r (bs.drop L.rowBytes) with
      | some pts, some rest => some (pts ++ rest)
      | _, _ => none

inductive DecodeErr | short | long | inconsistent
deriving Repr, DecidableEq

/-- the strict reader -/
def decode (L : Layout) (bs : List Byte) : Except DecodeErr (Arr Point) :=
  if bs.length < L.total then .error .short
  else if bs.length > L.total ∧ ¬ L.trailerOk then .error .long
  else
    match readRows L L.rows (bs.drop L.hdr) with
    | none => .error .short
    | some pts => .ok (transpose ⟨L.fileShape, pts⟩ L.perm)

/-- bytes of the data section the extents imply -/
def Layout.dataBytes (L : Layout) : Nat := L.rows * L.rowBytes

/-- formats whose header ALSO states the byte length of the data section (TNMR's DATA tag): the stated
    length must be the one the extents imply, whatever follows the data -/
def decodeDeclared (L : Layout) (declared : Option Nat) (bs : List Byte) : Except DecodeErr (Arr Point) :=
  match declared with
  | some n => if n ≠ L.dataBytes then .error .inconsistent else decode L bs
  | none => decode L bs

/-- inverse permutation -/
def invPerm (p : List Nat) : List Nat := (List.range p.length).map (fun j => p.idxOf j)

/-- the writer: `fill` supplies header / prefix / padding bytes (their content is irrelevant to decode) -/
def writeRows (L : Layout) (fill : Byte) : List Point → Nat → List Byte
  | _, 0 => []
  | pts, r + 1 =>
    List.replicate L.rowPrefix fill ++ (pts.take L.rowLen).flatten ++ List.replicate L.rowPad fill ++
      writeRows L fill (pts.drop L.rowLen) r

def encode (L : Layout) (fill : Byte) (a : Arr Point) : List Byte :=
  List.replicate L.hdr fill ++ writeRows L fill (transpose a (invPerm L.perm)).data L.rows

end Dnp.Layout
