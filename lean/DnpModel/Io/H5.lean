/-
  L0 + L1 for HDF5 persistence (dnplab/io/h5.py, save.py).
  L0 = h5py's storage rules (what a Python value becomes as an attribute, iteration order of
       groups with / without track_order, dimension scales);
  L1 = DNPLab's layout: `__DNPDATA__`, `values` + attached scales in `dims/`, `attrs` (scalars as
       attributes, arrays as datasets), `dnplab_attrs`, `proc_attrs/<i>:<name>`, the None alias,
       and the temp-file + replace protocol of `save_h5` with a fault at any write position.
-/
namespace Dnp.H5

/-- Python scalars that occur in attribute dictionaries (floats / ints as exact rationals) -/
inductive Sc
  | none
  | bool (b : Bool)
  | num (q : Rat)          -- int or float: compared numerically
  | str (s : String)
deriving DecidableEq, Repr, Inhabited

/-- attribute / parameter values: a scalar, or a list / tuple / 1-D array of scalars -/
inductive PyVal
  | sc (s : Sc)
  | seq (xs : List Sc)
  | ndarr (xs : List Sc)     -- a numpy array (stored by DNPLab as a dataset, not as an attribute)
deriving DecidableEq, Repr, Inhabited

def noneAlias : String := "__PYTHON_NONE__"

/-- what is stored for one attribute -/
inductive Stored
  | scalar (s : Sc)           -- never `Sc.none`
  | array (xs : List Sc)
deriving DecidableEq, Repr, Inhabited

/-- HDF5 keeps attributes in the object header: one of 64 KiB or more (8192 doubles) is refused (OSError) -/
def attrMaxLen : Nat := 8192

/-- h5py: can this Python value be assigned to `group.attrs[key]`?  `None` (also inside a sequence) cannot,
    nor can a sequence too long for the object header -/
def h5Attr : PyVal → Option Stored
  | .sc .none => Option.none
  | .sc s => some (.scalar s)
  | .seq xs => if xs.any (· == Sc.none) ∨ attrMaxLen ≤ xs.length then Option.none else some (.array xs)
  | .ndarr xs => if xs.any (· == Sc.none) ∨ attrMaxLen ≤ xs.length then Option.none else some (.array xs)

/-- DNPLab's None ↔ alias mapping before handing a value to h5py -/
def toAlias : PyVal → PyVal
  | .sc .none => .sc (.str noneAlias)
  | v => v

def fromAlias : Stored → PyVal
  | .scalar (.str s) => if s = noneAlias then .sc .none else .sc (.str s)
  | .scalar s => .sc s
  | .array xs => .seq xs          -- lists, tuples and arrays all come back as arrays

/-- one data object as the persistence layer sees it -/
structure Obj where
  dtype : String
  shape : List Nat
  data : List String                 -- canonical sample strings, row-major
  dims : List String
  coords : List (List Rat)
  attrs : List (String × PyVal)
  dattrs : List (String × PyVal)
  hist : List (String × List (String × PyVal))
deriving DecidableEq, Repr, Inhabited

inductive Entry
  | data (o : Obj)
  | dict (kv : List (String × PyVal))
  | raw                                  -- anything else (a bare array, a list, a number): cannot be stored
deriving DecidableEq, Repr, Inhabited

abbrev Workspace := List (String × Entry)

/-- the h5 group written for one data object -/
structure DataGroup where
  dtype : String
  shape : List Nat
  data : List String
  scales : List (String × List Rat)                    -- attached to `values`, in axis order
  attrsA : List (String × Stored)                      -- attributes of `attrs`
  attrsD : List (String × List Sc)                     -- datasets of `attrs`
  dattrsA : List (String × Stored)
  dattrsD : List (String × List Sc)
  proc : List (String × List (String × Stored))        -- `proc_attrs/<i>:<name>`, creation order (track_order)
deriving DecidableEq, Repr, Inhabited

inductive Node
  | data (g : DataGroup)
  | dict (kv : List (String × Stored))
deriving DecidableEq, Repr, Inhabited

abbrev Tree := List (String × Node)

/-- write one attribute dictionary: arrays → datasets, everything else → attribute (None through the alias);
    `none` = h5py refused a value -/
def writeAttrs : List (String × PyVal) → Option (List (String × Stored) × List (String × List Sc))
  | [] => some ([], [])
  | (k, .ndarr xs) :: rest => (writeAttrs rest).map (fun p => (p.1, (k, xs) :: p.2))
  | (k, v) :: rest =>
    match h5Attr (toAlias v), writeAttrs rest with
    | some st, some p => some ((k, st) :: p.1, p.2)
    | _, _ => Option.none

def writeParams : List (String × PyVal) → Option (List (String × Stored))
  | [] => some []
  | (k, v) :: rest =>
    match h5Attr (toAlias (match v with | .ndarr xs => .seq xs | w => w)), writeParams rest with
    | some st, some p => some ((k, st) :: p)
    | _, _ => Option.none

def writeHist : Nat → List (String × List (String × PyVal)) → Option (List (String × List (String × Stored)))
  | _, [] => some []
  | i, (name, ps) :: rest =>
    match writeParams ps, writeHist (i + 1) rest with
    | some p, some r => some ((toString i ++ ":" ++ name, p) :: r)
    | _, _ => Option.none

def writeObj (o : Obj) : Option DataGroup := do
  let (aA, aD) ← writeAttrs o.attrs
  let (dA, dD) ← writeAttrs o.dattrs
  let pr ← writeHist 0 o.hist
  pure { dtype := o.dtype, shape := o.shape, data := o.data, scales := o.dims.zip o.coords,
         attrsA := aA, attrsD := aD, dattrsA := dA, dattrsD := dD, proc := pr }

def writeDict : List (String × PyVal) → Option (List (String × Stored))
  | [] => some []
  | (k, v) :: rest =>
    match h5Attr (match v with | .ndarr xs => .seq xs | w => w), writeDict rest with
    | some st, some p => some ((k, st) :: p)
    | _, _ => Option.none

def writeEntry : Entry → Option Node
  | .data o => (writeObj o).map Node.data
  | .dict kv => (writeDict kv).map Node.dict
  | .raw => Option.none                  -- save_h5 raises TypeError (repaired: the pinned tree warned and left a file that does not load)

/-- `save_h5`'s body: every workspace entry in order; `none` = some value could not be stored (raise) -/
def writeAll : Workspace → Option Tree
  | [] => some []
  | (k, e) :: rest =>
    match writeEntry e, writeAll rest with
    | some n, some t => some ((k, n) :: t)
    | _, _ => Option.none

/-- `save(data_object, …)`: a single object is wrapped under `__DNPDATA__` -/
def wrap (o : Obj) : Workspace := [("__DNPDATA__", .data o)]

/-! reading back -/

def readAttrs (a : List (String × Stored)) (d : List (String × List Sc)) : List (String × PyVal) :=
  a.map (fun kv => (kv.1, fromAlias kv.2)) ++ d.map (fun kv => (kv.1, PyVal.seq kv.2))

/-- name after the first ':' (`k.split(":", 1)[1]`) -/
def afterColon (s : String) : String :=
  String.ofList ((s.toList.dropWhile (· != ':')).drop 1)

def readObj (g : DataGroup) : Obj :=
  { dtype := g.dtype, shape := g.shape, data := g.data, dims := g.scales.map (·.1), coords := g.scales.map (·.2),
    attrs := readAttrs g.attrsA g.attrsD, dattrs := readAttrs g.dattrsA g.dattrsD,
    hist := g.proc.map (fun p => (afterColon p.1, p.2.map (fun kv => (kv.1, fromAlias kv.2)))) }

def readNode : Node → Entry
  | .data g => .data (readObj g)
  | .dict kv => .dict (kv.map (fun p => (p.1, match p.2 with | .scalar s => PyVal.sc s | .array xs => PyVal.seq xs)))

inductive Loaded
  | single (o : Obj)
  | ws (w : Workspace)
deriving DecidableEq, Repr, Inhabited

/-- `load_h5`: a file holding only `__DNPDATA__` returns the object itself -/
def load (t : Tree) : Loaded :=
  match t with
  | [("__DNPDATA__", .data g)] => .single (readObj g)
  | _ => .ws (t.map (fun p => (p.1, readNode p.2)))

/-! the destination on disk and the save protocol -/

inductive Disk
  | absent
  | holds (t : Tree)
  | other (tag : Nat)          -- some existing file that is not an HDF5 tree (text, empty stub, truncated file, …)
deriving DecidableEq, Repr, Inhabited

def Disk.exists : Disk → Bool
  | .absent => false
  | _ => true

structure SaveResult where
  disk : Disk
  raised : Bool
deriving DecidableEq, Repr

/-- `save_h5` as repaired: refuse before writing; write everything to a temporary file; replace on success only -/
def save (dest : Disk) (w : Workspace) (overwrite : Bool) : SaveResult :=
  if dest.exists ∧ overwrite = false then { disk := dest, raised := true }     -- os.path.exists, whatever the file is
  else
    match writeAll w with
    | some t => { disk := .holds t, raised := false }
    | Option.none => { disk := dest, raised := true }

/-- the pinned `save_h5`: mode "w" truncates first, entries written so far stay in the file -/
def writePrefix : Workspace → Tree
  | [] => []
  | (k, e) :: rest =>
    match writeEntry e with
    | some n => (k, n) :: writePrefix rest
    | Option.none => []      -- (a partially written group is ignored here: already enough to show the defect)

def savePinned (dest : Disk) (w : Workspace) (overwrite : Bool) : SaveResult :=
  if dest.exists ∧ overwrite = false then { disk := dest, raised := true }
  else
    match writeAll w with
    | some t => { disk := .holds t, raised := false }
    | Option.none => { disk := .holds (writePrefix w), raised := true }

end Dnp.H5
