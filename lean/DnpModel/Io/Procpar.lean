import DnpModel.Data
/-
  L1: dnplab/io/vnmrj.py — the text side of the VnmrJ importer:
    * `import_procpar`: the line-structured parameter file (name/type line, value line(s), enumeration line),
    * `array_coords`: which dimension name and which coordinate values the array axis of the experiment gets.

  Token level.  The importer reads a line with `line.rstrip().split(" ")`; the model works on the resulting token
  lists (L0, trusted: the split itself and `int()` / `float()` of a token — the harness performs them with the same Python
  calls).  A token is a non-negative integer literal (`num`) or any other text (`txt`); real values stay tokens, so "exactly the
  values written in the file, in file order" is literal.
-/
namespace Dnp.Procpar

inductive Tok
  | num (n : Nat)
  | txt (s : String)
deriving Repr, DecidableEq, Inhabited

abbrev Line := List Tok

def Tok.text : Tok → String
  | .num n => toString n
  | .txt s => s

/-- the value of one parameter as `import_procpar` stores it -/
inductive PVal
  | real (v : Tok)              -- basictype 1, one value  -> float
  | reals (vs : List Tok)       -- basictype 1, several    -> list of floats
  | str (s : String)            -- basictype 2, one value  -> str (double quotes removed)
  | strs (ss : List String)     -- basictype 2, several    -> list of str
deriving Repr, DecidableEq, Inhabited

/-- `s.replace('"', "")` -/
def unquote (s : String) : String := String.ofList (s.toList.filter (· ≠ '"'))

/-- a continuation line of a multi-valued string parameter is taken whole: `nextValueLine.strip()` -/
def lineText (l : Line) : String := " ".intercalate (l.map Tok.text)

def isNum : Tok → Bool
  | .num _ => true
  | .txt _ => false

/-- line 1: `name subtype basictype max min step Ggroup Dgroup protection active intptr` — eleven fields, the integer ones
    go through `int()` (anything else raises) -/
def headerOk (l : Line) : Bool :=
  match l with
  | _name :: _sub :: b :: _mx :: _mn :: _st :: g :: d :: p :: a :: i :: _ => isNum b && isNum g && isNum d && isNum p && isNum a && isNum i
  | _ => false

/-- the n−1 continuation lines of a multi-valued string (a missing line reads as the empty string, as `readline` at the end
    of the file does) -/
def takeStrs : Nat → List Line → List String × List Line
  | 0, rest => ([], rest)
  | k + 1, [] => let (ss, r) := takeStrs k []; ("" :: ss, r)
  | k + 1, l :: rest => let (ss, r) := takeStrs k rest; (unquote (lineText l) :: ss, r)

/-- one parameter: returns (name, value, remaining lines) -/
def parseOne (l1 l2 : Line) (rest : List Line) : Except Err (String × PVal × List Line) :=
  if !headerOk l1 then .error .value
  else
    match l1, l2 with
    | name :: _ :: .num basic :: _, .num n :: vals =>
      let value : Except Err (PVal × List Line) :=
        if basic = 1 then
          if n = 1 then (match vals with | v :: _ => .ok (.real v, rest) | [] => .error .index)
          else .ok (.reals vals, rest)                 -- every token after the count, whatever the count says
        else if basic = 2 then
          if n = 1 then (match vals with | v :: _ => .ok (.str (unquote v.text), rest) | [] => .error .index)
          else (match vals with
                | v :: _ => let (ss, r) := takeStrs (n - 1) rest; .ok (.strs (unquote v.text :: ss), r)
                | [] => .error .index)
        else .error .other                             -- no value is assigned for other basic types
      match value with
      | .error e => .error e
      | .ok (v, r) =>
        -- the enumeration line: its first field goes through `int()`
        match r with
        | (.num _ :: _) :: r' => .ok (name.text, v, r')
        | _ => .error .value
    | _, _ => .error .value

/-- `import_procpar`: parameters in file order (a later parameter of the same name overwrites an earlier one in the
    dictionary; `lookup` below reads the LAST one) -/
def parseFuel : Nat → List Line → Except Err (List (String × PVal))
  | 0, _ => .ok []
  | _ + 1, [] => .ok []
  | _ + 1, [_] => .error .index                        -- a name line without a value line
  | fuel + 1, l1 :: l2 :: rest =>
    match parseOne l1 l2 rest with
    | .error e => .error e
    | .ok (nm, v, r) =>
      match parseFuel fuel r with
      | .error e => .error e
      | .ok ps => .ok ((nm, v) :: ps)

def parse (ls : List Line) : Except Err (List (String × PVal)) := parseFuel ls.length ls

/-- the dictionary view: last assignment wins -/
def lookup (ps : List (String × PVal)) (k : String) : Option PVal :=
  (ps.reverse.find? (fun p => p.1 = k)).map (·.2)

/-! ### the writer (specification side): what a well-formed procpar looks like -/

def quote (s : String) : Tok := .txt ("\"" ++ s ++ "\"")

def headLine (name : String) (basic : Nat) : Line :=
  [.txt name, .num 1, .num basic, .txt "1e9", .txt "-1e9", .num 0, .num 2, .num 1, .num 0, .num 1, .num 64]

def printParam : String × PVal → List Line
  | (nm, .real v) => [headLine nm 1, [.num 1, v], [.num 0]]
  | (nm, .reals vs) => [headLine nm 1, .num vs.length :: vs, [.num 0]]
  | (nm, .str s) => [headLine nm 2, [.num 1, quote s], [.num 0]]
  | (nm, .strs []) => [headLine nm 2, [.num 0], [.num 0]]
  | (nm, .strs (s :: ss)) => [headLine nm 2, [.num (ss.length + 1), quote s]] ++ ss.map (fun x => [quote x]) ++ [[.num 0]]

def print (ps : List (String × PVal)) : List Line := ps.flatMap printParam

/-! ### array_coords -/

/-- the coordinate of the array axis: the values of a named parameter, or `numpy.r_[start : stop + delta : delta]` -/
inductive ArrayCoord
  | values (vs : List Tok)
  | range (start stop delta : Tok)
deriving Repr, DecidableEq

/-- the numeric readings of tokens that `array_coords` needs (L0: `float(token)` compared in Python) -/
structure Num where
  isOne : Tok → Bool            -- float(t) == 1
  gt : Tok → Tok → Bool         -- float(a) > float(b)

/-- `array_coords(attrs)` for the parameter dictionary `d`; `none` = no array dimension (the data are flattened).
    Modelled domain: the five describing parameters are single-valued (reals, `array` a string). -/
def arrayCoords (N : Num) (d : String → Option PVal) : Option (String × ArrayCoord) :=
  match d "arraydelta", d "arraydim", d "arraystart", d "arraystop", d "array" with
  | some (.real delta), some (.real dim), some (.real start), some (.real stop), some (.str arr) =>
    if N.isOne dim then none
    else if arr ≠ "" then
      match d arr with
      | some (.reals vs) => some (arr, .values vs)
      | some (.real v) => some (arr, .values [v])         -- numpy.array(scalar): a 0-d coordinate (refused later)
      | some _ => none                                     -- a string parameter: outside the modelled domain
      | none =>
        -- the named parameter is not in the file: fall back on the start/stop/delta description
        if N.gt stop start then some (arr, .range start stop delta)
        else match d "arraymax" with
          | some (.real mx) => some (arr, .range start mx delta)
          | _ => none
    else some ("t1", .range start stop delta)
  | _, _, _, _, _ => none

end Dnp.Procpar
