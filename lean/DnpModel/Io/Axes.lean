/-
  L1: the axis an importer gives an index-ordered dimension of a binary file (TNMR `_np.r_[0:pts] * dwell`, RS2D, SpecMan,
  WinEPR / BES3T linear axes): ONE coordinate per stored point, `start + k·step`.  Exact arithmetic: the coordinates are
  integers in a unit that divides start and step (nanoseconds, say); the float product itself is L0.

  `arangeLen` is `len(numpy.arange(start, stop, step))` in exact arithmetic — the other way such an axis gets written.
-/
namespace Dnp.ImportAxis

def indexAxis (n : Nat) (start step : Int) : List Int :=
  (List.range n).map (fun (k : Nat) => start + (k : Int) * step)

/-- ceil((stop − start) / step) for step > 0, 0 points when stop ≤ start; step ≤ 0 is outside the modelled domain -/
def arangeLen (start stop step : Int) : Nat :=
  if step ≤ 0 then 0 else ((stop - start + step - 1) / step).toNat

end Dnp.ImportAxis
