import DnpModel.Generated.Config
import DnpModel.Generated.LoadTable
import DnpModel.Ops
/-
  L1: dnplab/io/load.py — the autodetect decision chain, the dispatch table, the SI scaling of
  configured attributes — and dnplab/processing/conversion.py's dBm/W helpers (structure only;
  10^x and log10 are parameters).  Constant tables come from `DnpModel/Generated` (regenerated).
-/
namespace Dnp.Load

/-- what autodetect looks at: the extension of the path (after removing a trailing separator),
    whether it is a directory, and the directory listing -/
structure PathInfo where
  ext : String
  isDir : Bool
  listing : List String
deriving Repr, DecidableEq

inductive Detect
  | fmt (f : String)
  | typeError
deriving Repr, DecidableEq

/-- `autodetect`, the literal decision chain of load.py -/
def autodetect (p : PathInfo) : Detect :=
  let e := p.ext
  if e = ".DSC" ∨ e = ".DTA" ∨ e = ".YGF" then .fmt "xepr"
  else if e = ".par" ∨ e = ".spc" then .fmt "winepr"
  else if e = ".d01" ∨ e = ".exp" then .fmt "specman"
  else if e = ".jdf" then .fmt "delta"
  else if p.isDir ∧ ("acqu" ∈ p.listing ∨ "acqus" ∈ p.listing) then .fmt "topspin"
  else if p.isDir ∧ ("proc" ∈ p.listing ∨ "procss" ∈ p.listing) then .fmt "topspin pdata"
  else if p.isDir ∧ e = ".fid" then .fmt "vnmrj"
  else if e = ".1d" ∨ e = ".2d" ∨ e = ".3d" ∨ e = ".4d" then .fmt "prospa"
  else if e = ".tnt" then .fmt "tnmr"
  else if e = ".s1p" ∨ e = ".s2p" then .fmt "vna"
  else if p.isDir ∧ "acqu.par" ∈ p.listing ∧ "data.csv" ∈ p.listing then .fmt "prospa"
  else if e = ".h5" then .fmt "h5"
  else if e = ".xml" ∨ e = ".dat" then .fmt "rs2d"
  else if e = ".mat" then .fmt "mat"
  else .typeError

/-- does `load_file` have a branch for this format? (otherwise ValueError) -/
def dispatches (f : String) : Bool := Generated.dispatchFormats.contains f

/-- formats for which `_assign_dnplab_attrs` runs after the import -/
def assignsAttrs (f : String) : Bool := dispatches f && !(["h5", "power", "vna", "cnsi_powers", "mat"].contains f)

/-- Python's `u in unit` for strings -/
def isInfix (u unit : List Char) : Bool :=
  match unit with
  | [] => u.isEmpty
  | _ :: rest => u.isPrefixOf unit || isInfix u rest

def isSpace (c : Char) : Bool := c = ' ' || c = '\t' || c = '\n' || c = '\r'

/-- str.strip() on a character list (structural, so the kernel can evaluate it) -/
def trimL (l : List Char) : List Char := ((l.dropWhile isSpace).reverse.dropWhile isSpace).reverse

/-- str.split(c) -/
def splitL (c : Char) : List Char → List (List Char)
  | [] => [[]]
  | x :: xs =>
    match splitL c xs with
    | [] => [[x]]
    | h :: t => if x = c then [] :: h :: t else (x :: h) :: t

def lowerC (c : Char) : Char := if 'A'.toNat ≤ c.toNat ∧ c.toNat ≤ 'Z'.toNat then Char.ofNat (c.toNat + 32) else c

/-- `_scale_dnplab_attrs(unit)`: the power of ten the value is multiplied by -/
def scaleExpL (unit0 : List Char) : Int :=
  let unit := trimL unit0
  match Generated.units.find? (fun u => isInfix u.toList unit) with
  | none => 0                                            -- warning, factor 1
  | some u =>
    if u.toList = unit then 0
    else
      let c := unit.headD ' '
      let letter : List Char := if c = 'm' then ['m', 'm'] else [lowerC c]
      match Generated.siScaling.find? (fun p => p.1.toList = letter) with
      | some p => p.2
      | none => 0                                        -- warning, factor 1

def scaleExp (unit : String) : Int := scaleExpL unit.toList

/-- the (attribute names, power of ten) a mapping string `key[*key][, unit]` denotes -/
def parseMappingL (val : List Char) : List (List Char) × Int :=
  match splitL ',' val with
  | [params, unit] => ((splitL '*' params).map (fun k => k.filter (!isSpace ·)), scaleExpL unit)
  | _ => ((splitL '*' val).map (fun k => k.filter (!isSpace ·)), 0)

def parseMapping (val : String) : List String × Int :=
  let r := parseMappingL val.toList
  (r.1.map String.ofList, r.2)

/-- mapping of one DNPLab attribute for one format, as configured -/
def mappingOf (fmt key : String) : Option String :=
  (Generated.attrSections.find? (·.1 = fmt)).bind (fun s => (s.2.find? (·.1 = key)).map (·.2))

/-- the SI letters a user writes (upper/lower case significant) and their powers of ten -/
def siPrefixes : List (String × Int) :=
  [("T", 12), ("G", 9), ("M", 6), ("k", 3), ("m", -3), ("u", -6), ("n", -9), ("p", -12)]

/-- importer-native facts (read off the importer sources): the header key the importer derives
    `attrs["nmr_frequency"]` (Hz) from, and the power of ten it applies to it -/
def nativeFrequency : List (String × String × Int) :=
  [("prospa", "b1Freq", 6), ("topspin", "SFO1", 6), ("vnmrj", "H1reffrq", 6),
   ("delta", "nmr_frequency", 0), ("tnmr", "nmr_frequency", 0)]

/-! dBm ↔ W with the transcendental functions as parameters -/
structure PowFns (R : Type) where
  pow10 : R → R
  log10 : R → R

def dBm2w {R : Type} [Div R] [Mul R] [OfNat R 10] [OfNat R 1000] (F : PowFns R) (x : R) : R :=
  F.pow10 (x / 10) / 1000

def w2dBm {R : Type} [Mul R] [OfNat R 10] [OfNat R 1000] (F : PowFns R) (w : R) : R :=
  10 * F.log10 (1000 * w)

/-- `load([p₀, p₁, …], dim, coord)`: every path is loaded on its own (in the order GIVEN) and the objects are stacked
    along a new last dimension carrying the supplied coordinates -/
def loadMany {κ α : Type} [Inhabited α] [Inhabited κ] (loadOne : String → Except Err (Data κ α)) (arange : Nat → List κ)
    (paths : List String) (dim : Option String) (coord : List κ) : Except Err (Data κ α) :=
  if coord.length ≠ paths.length then .error .value
  else do
    let ds ← paths.mapM loadOne
    Data.concat arange ds (dim.getD "unnamed") (if coord.length = 0 then none else some coord)

/-- `load_file(path, data_format)` as `load` calls it for every single path: the format is the one given, else the one
    autodetect finds FOR THIS PATH; an undetectable path raises TypeError, a format without an importer ValueError -/
def loadOneAuto {κ α : Type} (info : String → PathInfo) (imp : String → String → Except Err (Data κ α))
    (fmt : Option String) (path : String) : Except Err (Data κ α) :=
  match fmt with
  | some f => if dispatches f then imp f path else .error .value
  | none =>
    match autodetect (info path) with
    | .fmt f => if dispatches f then imp f path else .error .value
    | .typeError => .error .type

end Dnp.Load
