import DnpModel.Data
/-
  L1: relabelling / structural operations of dnplab/core/base.py, data.py, util.py,
  mirrored statement by statement on top of the L0 primitives.
-/
namespace Dnp
open Np
namespace Data
variable {κ α : Type} [Inhabited α] [Inhabited κ]

/-- base.py `reorder` (and coord.py `Coords.reorder`) -/
def reorder (d : Data κ α) (ds : List String) : Except Err (Data κ α) :=
  if ¬ ds.Nodup then .error .type
  else if ¬ (∀ x ∈ ds, x ∈ d.dims) then .error .value
  else
    let ds' := dedup (ds ++ d.dims)
    let perm := ds'.map d.dims.idxOf
    .ok { d with dims := ds', coords := perm.map (fun k => d.coords.getD k []),
                 values := transpose d.values perm }

/-- sorted(range(n), key = dims[x]) -/
def sortedOrder (dims : List String) : List Nat := argsort strLe dims

/-- base.py `sort_dims` as repaired: coords.reorder_index + transpose by the same order -/
def sortDims (d : Data κ α) : Data κ α :=
  let o := sortedOrder d.dims
  { d with dims := o.map (fun k => d.dims.getD k ""), coords := o.map (fun k => d.coords.getD k []),
           values := transpose d.values o }

/-- base.py `sort_dims` of the pinned tree: `moveaxis(values, range n, sorted_order)` (inverse permutation) -/
def sortDimsPinned (d : Data κ α) : Data κ α :=
  let o := sortedOrder d.dims
  { d with dims := o.map (fun k => d.dims.getD k ""), coords := o.map (fun k => d.coords.getD k []),
           values := moveaxis d.values (List.range o.length) o }

/-- base.py `rename` -/
def rename (d : Data κ α) (dim new : String) : Except Err (Data κ α) :=
  if dim ∉ d.dims then .error .value
  else if new ≠ dim ∧ new ∈ d.dims then .error .value
  else .ok { d with dims := setAt d.dims (d.index dim) new }

/-- base.py `sort(dim)`: argsort of the coordinate, values taken along that axis -/
def sort (le : κ → κ → Bool) (d : Data κ α) (dim : String) : Except Err (Data κ α) :=
  if dim ∉ d.dims then .error .value
  else
    let ax := d.index dim
    let o := argsort le (d.coord dim)
    .ok { d with coords := setAt d.coords ax (o.map (fun k => (d.coord dim).getD k default)),
                 values := takeAxis d.values ax o }

/-- base.py `new_dim` -/
def newDim (d : Data κ α) (dim : String) (c : κ) : Except Err (Data κ α) :=
  if dim ∈ d.dims then .error .value
  else .ok { d with dims := d.dims ++ [dim], coords := d.coords ++ [[c]],
                    values := expandDims d.values d.values.shape.length }

/-- data.py `DNPData.squeeze` (in place): drop every dimension of length 1 -/
def squeeze (d : Data κ α) : Data κ α :=
  let keep := (List.range d.dims.length).filter (fun k => (d.coords.getD k []).length != 1)
  { d with dims := keep.map (fun k => d.dims.getD k ""), coords := keep.map (fun k => d.coords.getD k []),
           values := squeezeAll d.values }

/-- base.py `concatenate(b, dim)` on the receiver; `b` is aligned to the receiver's order by name -/
def concatenate (d b : Data κ α) (dim : String) : Except Err (Data κ α) :=
  if dim ∉ b.dims then .error .value
  else if dim ∉ d.dims then .error .value
  else do
    let b' ← b.reorder d.dims
    let ax := d.index dim
    -- numpy.concatenate: same rank, same extents off the axis
    if eraseAt b'.values.shape ax ≠ eraseAt d.values.shape ax then .error .value
    else
    .ok { d with values := concatAxis d.values b'.values ax,
                 coords := setAt d.coords ax (d.coord dim ++ b'.coord dim) }

/-- base.py `split(dim, new_dim, coord)` as repaired: move `dim` last, split it C-order into (rest, |coord|) -/
def split (d : Data κ α) (dim newDim : String) (c : List κ) : Except Err (Data κ α) :=
  if dim ∉ d.dims then .error .value
  else if newDim ∈ d.dims then .error .value
  else if c.length = 0 then .error .value
  else do
    let d1 ← d.reorder ((d.dims.filter (· != dim)) ++ [dim])
    let n := d1.values.shape.getLast?.getD 0
    if n % c.length ≠ 0 then .error .value
    else
      let m := n / c.length
      let ax := d1.dims.length - 1
      .ok { d1 with dims := d1.dims ++ [newDim],
                    coords := setAt d1.coords ax ((d1.coords.getD ax []).take m) ++ [c],
                    values := reshapeC d1.values (setAt d1.values.shape ax m ++ [c.length]) }

/-- base.py `unfold(dim)`: dim first, the rest flattened C-order; inverse kept (attrs in the code) -/
def unfold (arange : Nat → List κ) (d : Data κ α) (dim : String) : Except Err (Data κ α) :=
  if ¬ d.folded then .error .value
  else if "fold_index" ∈ d.dims then .error .value
  else do
    let d1 ← d.reorder [dim]
    let fshape := d1.values.shape
    .ok { d1 with values := reshapeC d1.values [fshape.headD 0, size fshape.tail],
                  dims := d1.dims ++ ["fold_index"], coords := d1.coords ++ [arange (size fshape.tail)],
                  unf := some (fshape, d.dims) }

/-- base.py `fold()` -/
def fold (d : Data κ α) : Except Err (Data κ α) :=
  if "fold_index" ∉ d.dims then .error .value
  else
    let k := d.index "fold_index"
    let d1 := { d with dims := eraseAt d.dims k, coords := eraseAt d.coords k }
    match d.unf with
    | none => .ok d1
    | some (fshape, forder) =>
      if size fshape ≠ d1.values.data.length then .error .value
      else ({ d1 with values := reshapeC d1.values fshape, unf := none }).reorder forder

/-- util.py `concat`: stack objects of one common shape along a new last dimension;
    labels, attributes come from the first object, the history starts empty (new object) -/
def concat (arange : Nat → List κ) (ds : List (Data κ α)) (dim : String) (coord : Option (List κ)) :
    Except Err (Data κ α) :=
  match ds with
  | [] => .error .index
  | d0 :: _ =>
    if ¬ ds.all (fun d => d.values.shape == d0.values.shape) then .error .index
    else if dim ∈ d0.dims then .error .type
    else .ok { dims := d0.dims ++ [dim], coords := d0.coords ++ [coord.getD (arange ds.length)],
               values := stackLast d0.values.shape (ds.map (·.values)),
               attrs := d0.attrs, dattrs := d0.dattrs, hist := [] }

end Data
end Dnp
