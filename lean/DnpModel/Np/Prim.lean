import DnpModel.Np.Arr
/-
  L0: NumPy primitives by their index-level specification.
  Each is `ofFn newShape (fun idx => a.get (φ idx))` for an explicit index map φ,
  except C-order reshape / expand_dims / squeeze which keep the flat data.
-/
namespace Np
open Arr
variable {α β : Type}

/-- `scatter p idx` = the source index `src` with `src[p[k]] = idx[k]` -/
def scatter (p : List Nat) (idx : List Nat) : List Nat :=
  (List.range p.length).map (fun j => idx.getD (p.idxOf j) 0)

/-- `gather p s` = `[s[p[0]], s[p[1]], …]` -/
def gather (p : List Nat) (s : List Nat) : List Nat := p.map (fun k => s.getD k 0)

/-- numpy.transpose(a, p): out.shape[k] = a.shape[p[k]], out[idx] = a[src], src[p[k]] = idx[k] -/
def transpose [Inhabited α] (a : Arr α) (p : List Nat) : Arr α :=
  ofFn (gather p a.shape) (fun idx => a.get (scatter p idx))

/-- insert `x` at position `k` (Python list.insert semantics, clipped) -/
def insertAt {γ : Type} : List γ → Nat → γ → List γ
  | xs, 0, x => x :: xs
  | [], _ + 1, x => [x]
  | y :: ys, k + 1, x => y :: insertAt ys k x

/-- insertion sort of (dest, src) pairs by dest then src (Python tuple order, stable) -/
def insertPair (p : Nat × Nat) : List (Nat × Nat) → List (Nat × Nat)
  | [] => [p]
  | q :: qs => if p.1 < q.1 ∨ (p.1 = q.1 ∧ p.2 ≤ q.2) then p :: q :: qs else q :: insertPair p qs

def sortPairs : List (Nat × Nat) → List (Nat × Nat)
  | [] => []
  | p :: ps => insertPair p (sortPairs ps)

/-- the permutation numpy.moveaxis builds: remaining axes, then insert(dest, src) by sorted dest -/
def moveaxisOrder (n : Nat) (src dst : List Nat) : List Nat :=
  let rest := (List.range n).filter (fun k => !src.contains k)
  (sortPairs (dst.zip src)).foldl (fun o ds => insertAt o ds.1 ds.2) rest

def moveaxis [Inhabited α] (a : Arr α) (src dst : List Nat) : Arr α :=
  transpose a (moveaxisOrder a.shape.length src dst)

/-- C-order reshape keeps the flat data -/
def reshapeC (a : Arr α) (s : List Nat) : Arr α := ⟨s, a.data⟩

/-- numpy.expand_dims(a, k) -/
def expandDims (a : Arr α) (k : Nat) : Arr α := ⟨insertAt a.shape k 1, a.data⟩

/-- numpy.squeeze(a): drop every axis of extent 1 -/
def squeezeAll (a : Arr α) : Arr α := ⟨a.shape.filter (· ≠ 1), a.data⟩

def setAt {γ : Type} : List γ → Nat → γ → List γ
  | [], _, _ => []
  | _ :: xs, 0, y => y :: xs
  | x :: xs, k + 1, y => x :: setAt xs k y

def eraseAt {γ : Type} : List γ → Nat → List γ
  | [], _ => []
  | _ :: xs, 0 => xs
  | x :: xs, k + 1 => x :: eraseAt xs k

/-- a[..., positions, ...] on axis `ax` (fancy / slice indexing on one axis) -/
def takeAxis [Inhabited α] (a : Arr α) (ax : Nat) (pos : List Nat) : Arr α :=
  ofFn (setAt a.shape ax pos.length)
    (fun idx => a.get (setAt idx ax (pos.getD (idx.getD ax 0) 0)))

/-- numpy.concatenate((a, b), axis=ax) -/
def concatAxis [Inhabited α] (a b : Arr α) (ax : Nat) : Arr α :=
  let na := a.shape.getD ax 0
  ofFn (setAt a.shape ax (na + b.shape.getD ax 0))
    (fun idx => let i := idx.getD ax 0
      if i < na then a.get idx else b.get (setAt idx ax (i - na)))

/-- numpy.stack(as, axis=-1) for arrays of one common shape `s` -/
def stackLast [Inhabited α] (s : List Nat) (as : List (Arr α)) : Arr α :=
  ofFn (s ++ [as.length])
    (fun idx => match as[idx.getLast?.getD 0]? with
      | some a => a.get idx.dropLast
      | none => default)

/-- reduce along axis `ax` with a list function -/
def reduceAxis [Inhabited α] (f : List α → β) (a : Arr α) (ax : Nat) : Arr β :=
  ofFn (eraseAt a.shape ax)
    (fun idx => f ((List.range (a.shape.getD ax 0)).map (fun i => a.get (insertAt idx ax i))))

/-- map a list function along axis `ax`; the function may change the length to `m` — the SPECIFICATION: every output
    element is read off `f` applied to the trace through it -/
def mapAxisSpec [Inhabited α] [Inhabited β] (f : List α → List β) (m : Nat) (a : Arr α) (ax : Nat) : Arr β :=
  ofFn (setAt a.shape ax m)
    (fun idx =>
      (f ((List.range (a.shape.getD ax 0)).map (fun i => a.get (setAt idx ax i)))).getD (idx.getD ax 0) default)

/-- the same array, computed with ONE application of `f` per trace (the traces are numbered by the row-major offset of
    the remaining axes); equal to `mapAxisSpec` for every in-range axis (`mapAxis_eq_spec`) -/
def mapAxis [Inhabited α] [Inhabited β] (f : List α → List β) (m : Nat) (a : Arr α) (ax : Nat) : Arr β :=
  let n := a.shape.getD ax 0
  let outer := eraseAt a.shape ax
  let table : Array (List β) :=
    ((Arr.indices outer).map (fun o => f ((List.range n).map (fun i => a.get (insertAt o ax i))))).toArray
  ofFn (setAt a.shape ax m)
    (fun idx => (table.getD (ravel (eraseAt idx ax) outer) []).getD (idx.getD ax 0) default)

/-- multiply along an axis by a per-position factor (broadcast of a 1-D array) -/
def zipAxis [Inhabited α] [Inhabited β] {γ : Type} (g : α → β → γ) (a : Arr α) (ax : Nat) (w : List β) : Arr γ :=
  ofFn a.shape (fun idx => g (a.get idx) (w.getD (idx.getD ax 0) default))

/-- elementwise binary op with NumPy broadcasting where `b` may have extent-1 axes (same rank) -/
def zipBroadcast [Inhabited α] [Inhabited β] {γ : Type} (g : α → β → γ) (a : Arr α) (b : Arr β) : Arr γ :=
  let s := List.zipWith (fun na nb => if na = 1 then nb else na) a.shape b.shape
  ofFn s (fun idx =>
    g (a.get (List.zipWith (fun i n => if n = 1 then 0 else i) idx a.shape))
      (b.get (List.zipWith (fun i n => if n = 1 then 0 else i) idx b.shape)))

/-- CPython slice normalisation (PySlice_AdjustIndices) → list of positions -/
def sliceStart (n : Nat) (start : Option Int) (step : Int) : Int :=
  match start with
  | none => if step < 0 then (n : Int) - 1 else 0
  | some s =>
    if s < 0 then
      let s' := s + n
      if s' < 0 then (if step < 0 then -1 else 0) else s'
    else if s ≥ n then (if step < 0 then (n : Int) - 1 else n) else s

def sliceStop (n : Nat) (stop : Option Int) (step : Int) : Int :=
  match stop with
  | none => if step < 0 then -1 else n
  | some s =>
    if s < 0 then
      let s' := s + n
      if s' < 0 then (if step < 0 then -1 else 0) else s'
    else if s ≥ n then (if step < 0 then (n : Int) - 1 else n) else s

def sliceLen (start stop step : Int) : Nat :=
  if step > 0 then (if start < stop then ((stop - start - 1) / step + 1).toNat else 0)
  else if step < 0 then (if stop < start then ((start - stop - 1) / (-step) + 1).toNat else 0)
  else 0

/-- positions selected by `slice(start, stop, step)` on an axis of length n (step ≠ 0) -/
def pySlice (n : Nat) (start stop : Option Int) (step : Option Int) : List Nat :=
  let st := step.getD 1
  let a := sliceStart n start st
  let b := sliceStop n stop st
  (List.range (sliceLen a b st)).map (fun (k : Nat) => (a + (k : Int) * st).toNat)

/-- first index of a minimum w.r.t. a strict order `lt` (numpy.argmin) -/
def argBest {γ : Type} (lt : γ → γ → Bool) : List γ → Nat
  | [] => 0
  | x :: xs => go x 0 1 xs
where
  go (best : γ) (bi : Nat) (i : Nat) : List γ → Nat
    | [] => bi
    | y :: ys => if lt y best then go y i (i + 1) ys else go best bi (i + 1) ys

/-- stable insertion argsort -/
def insertKey {γ : Type} (le : γ → γ → Bool) (p : γ × Nat) : List (γ × Nat) → List (γ × Nat)
  | [] => [p]
  | q :: qs => if le p.1 q.1 then p :: q :: qs else q :: insertKey le p qs

def sortKeyed {γ : Type} (le : γ → γ → Bool) : List (γ × Nat) → List (γ × Nat)
  | [] => []
  | p :: ps => insertKey le p (sortKeyed le ps)

/-- numpy.argsort (stable for equal keys: position order) -/
def argsort {γ : Type} (le : γ → γ → Bool) (xs : List γ) : List Nat :=
  (sortKeyed le (xs.zip (List.range xs.length))).map Prod.snd

/-- numpy.roll(x, k) on a list -/
def roll {γ : Type} (xs : List γ) (k : Nat) : List γ :=
  if xs.length = 0 then xs
  else xs.drop (xs.length - k % xs.length) ++ xs.take (xs.length - k % xs.length)

end Np
