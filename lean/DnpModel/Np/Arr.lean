/-
  L0: N-dimensional arrays as (shape, row-major data).  Core Lean only.
  Everything is structurally recursive so that `decide +kernel` can evaluate it.
-/
namespace Np

/-- number of elements of a shape -/
def size : List Nat → Nat
  | [] => 1
  | n :: s => n * size s

/-- row-major flat offset of a multi-index -/
def ravel : List Nat → List Nat → Nat
  | i :: idx, _ :: s => i * size s + ravel idx s
  | _, _ => 0

/-- inverse of `ravel` on in-bounds offsets -/
def unravel : Nat → List Nat → List Nat
  | _, [] => []
  | k, _ :: s => (k / size s) :: unravel (k % size s) s

/-- `idx` is a valid multi-index for shape `s` -/
def InB : List Nat → List Nat → Prop
  | [], [] => True
  | i :: idx, n :: s => i < n ∧ InB idx s
  | _, _ => False

instance : (idx s : List Nat) → Decidable (InB idx s)
  | [], [] => isTrue trivial
  | i :: idx, n :: s =>
    match Nat.decLt i n, instDecidableInB idx s with
    | isTrue h1, isTrue h2 => isTrue ⟨h1, h2⟩
    | isFalse h1, _ => isFalse (fun h => h1 h.1)
    | _, isFalse h2 => isFalse (fun h => h2 h.2)
  | [], _ :: _ => isFalse (fun h => h)
  | _ :: _, [] => isFalse (fun h => h)

structure Arr (α : Type) where
  shape : List Nat
  data : List α
deriving Repr, DecidableEq

namespace Arr
variable {α β : Type}

/-- the array is well formed: data length matches the shape -/
def WF (a : Arr α) : Prop := a.data.length = size a.shape

instance (a : Arr α) : Decidable a.WF := inferInstanceAs (Decidable (_ = _))

def ofFn (s : List Nat) (f : List Nat → α) : Arr α :=
  ⟨s, (List.range (size s)).map (fun k => f (unravel k s))⟩

def get [Inhabited α] (a : Arr α) (idx : List Nat) : α :=
  a.data.getD (ravel idx a.shape) default

def get? (a : Arr α) (idx : List Nat) : Option α :=
  if InB idx a.shape then a.data[ravel idx a.shape]? else none

def map (f : α → β) (a : Arr α) : Arr β := ⟨a.shape, a.data.map f⟩

def ndim (a : Arr α) : Nat := a.shape.length

/-- all multi-indices of a shape in row-major order -/
def indices (s : List Nat) : List (List Nat) :=
  (List.range (size s)).map (fun k => unravel k s)

def scalar (x : α) : Arr α := ⟨[], [x]⟩

def of1 (xs : List α) : Arr α := ⟨[xs.length], xs⟩

end Arr
end Np
