import DnpModel.Index
/-
  L1: `align` and the operator methods of base.py (841-909, 518-624).
-/
namespace Dnp
open Np
namespace Data
variable {κ α : Type} [Inhabited α] [Inhabited κ]

/-- numpy.allclose on two coordinate lists of equal length (`close x y` = |x−y| ≤ atol + rtol·|y|) -/
def coordsClose (close : κ → κ → Bool) (x y : List κ) : Bool :=
  x.length == y.length && (List.zipWith close x y).all id

/-- merge_attrs: keys of b that a lacks are added -/
def mergeAttrs (a b : List (String × String)) : List (String × String) :=
  b.foldl (fun acc kv => if acc.any (·.1 == kv.1) then acc else acc ++ [kv]) a

/-- base.py `align`: the union dims (a's, then b-only in b's order), `b` moved to that order,
    missing dims inserted with extent 1, shared coords compared -/
def align (close : κ → κ → Bool) (a b : Data κ α) : Except Err (Data κ α × Data κ α) :=
  let allDims := dedup (a.dims ++ b.dims)
  let newBOrder := allDims.filter (fun x => b.dims.contains x)
  let newOrder := newBOrder.map b.index
  let va : Arr α := reshapeC a.values (allDims.map (fun x => if a.dims.contains x then a.ext x else 1))
  let vb0 := transpose b.values newOrder      -- moveaxis(b.values, new_order, range(k))
  let vb : Arr α := reshapeC vb0 (allDims.map (fun x => if b.dims.contains x then b.ext x else 1))
  if allDims.any (fun x => a.dims.contains x && b.dims.contains x &&
        !coordsClose close (a.coord x) (b.coord x)) then .error .value
  else
    let coords := a.coords ++ (newBOrder.filter (fun x => !a.dims.contains x)).map b.coord
    .ok ({ a with dims := allDims, coords := coords, values := va, attrs := mergeAttrs a.attrs b.attrs },
         { b with dims := allDims, coords := coords, values := vb })

/-- `a ∘ b` for two data objects -/
def binop (close : κ → κ → Bool) (f : α → α → α) (a b : Data κ α) : Except Err (Data κ α) := do
  let (a', b') ← align close a b
  .ok { a' with values := zipBroadcast f a'.values b'.values }

/-- `a ∘ scalar`, `scalar ∘ a` -/
def scalarOp (f : α → α) (a : Data κ α) : Data κ α := { a with values := a.values.map f }

/-- `a ∘ ndarray` (NumPy broadcasting of a plain array against the values; same-shape case) -/
def arrayOp (f : α → α → α) (a : Data κ α) (arr : Arr α) : Except Err (Data κ α) :=
  if arr.shape ≠ a.values.shape then .error .value
  else .ok { a with values := ⟨a.values.shape, List.zipWith f a.values.data arr.data⟩ }

end Data
end Dnp
