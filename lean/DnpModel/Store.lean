import DnpModel.Reduce
/-
  The workspace of data objects and the call semantics of the public operation alphabet:
  which object an operation may change (`Op.target`) and what it computes (`step`).
  Python objects are mutable and shared by reference; the model's store holds immutable values,
  so "a call never modifies its arguments" (C03) is the statement that `step` changes at most
  the entry named by `Op.target` – and the correspondence check is what shows the real code
  behaves like that.
-/
namespace Dnp
open Np

/-- scalar functions the operations are parameterised by (instantiated by the driver at ℚ / ℚ[i]) -/
structure Scalars (κ α : Type) where
  dist : κ → κ → κ
  lt : κ → κ → Bool
  le : κ → κ → Bool
  close : κ → κ → Bool
  arange : Nat → List κ
  ofκ : κ → α
  ofNat : Nat → α
  ltα : α → α → Bool
  add : α → α → α

abbrev Store (κ α : Type) := List (Nat × Data κ α)

namespace Store
variable {κ α : Type}

def get? : Store κ α → Nat → Option (Data κ α)
  | [], _ => none
  | (k, d) :: s, i => if k = i then some d else get? s i

/-- overwrite in place, or append a new entry (Python dict semantics) -/
def set : Store κ α → Nat → Data κ α → Store κ α
  | [], i, d => [(i, d)]
  | (k, e) :: s, i, d => if k = i then (i, d) :: s else (k, e) :: set s i d

def del : Store κ α → Nat → Store κ α
  | [], _ => []
  | (k, e) :: s, i => if k = i then del s i else (k, e) :: del s i

end Store

/-- the public operation alphabet (Appendix B of DESIGN.md); `obj` is the receiver of an in-place
    method, `out` the id under which a returned object is stored -/
inductive Op (κ α : Type)
  | new (id : Nat) (d : Data κ α)
  | copy (obj out : Nat)
  | reorder (obj : Nat) (ds : List String)
  | sortDims (obj : Nat)
  | rename (obj : Nat) (dim new : String)
  | sort (obj : Nat) (dim : String)
  | newDim (obj : Nat) (dim : String) (c : κ)
  | squeeze (obj : Nat)
  | split (obj : Nat) (dim new : String) (c : List κ)
  | concatenate (obj other : Nat) (dim : String)
  | unfold (obj : Nat) (dim : String)
  | fold (obj : Nat)
  | unfoldFold (obj : Nat) (dim : String)
  | getitem (obj : Nat) (sels : List (String × Sel κ)) (out : Nat)
  | setitem (obj : Nat) (sels : List (String × Sel κ)) (v : α)
  | binop (f : α → α → α) (lhs rhs out : Nat)
  | scalarOp (f : α → α) (obj out : Nat)
  | arrayOp (f : α → α → α) (stamp : Option String) (obj : Nat) (arr : Arr α) (out : Nat)
  | reduce (f : List α → α) (obj : Nat) (dim : String) (out : Nat)
  | argCoord (lt : α → α → Bool) (obj : Nat) (dim : String) (out : Nat)
  | argIndex (lt : α → α → Bool) (obj : Nat) (dim : String) (out : Nat)
  | cumsum (obj : Nat) (dim : String) (out : Nat)
  | npReduce (fname : String) (f : List α → α) (obj : Nat) (ax : Data.Axis) (out : Nat)
  | npUnary (fname : String) (f : α → α) (obj out : Nat)
  | npBinary (fname : String) (f : α → α → α) (lhs rhs out : Nat)
  | concat (objs : List Nat) (dim : String) (coord : Option (List κ)) (out : Nat)
  | setAttr (obj : Nat) (k v : String)
  | setDattr (obj : Nat) (k v : String)
  | addHist (obj : Nat) (name : String) (keys : List String)
  | setValue (obj : Nat) (flat : Nat) (v : α)
  | setCoord (obj : Nat) (dim : String) (k : Nat) (v : κ)
  | del (obj : Nat)
  | proc (F : Data κ α → Except Err (Data κ α)) (obj out : Nat)   -- a processing function: new object

namespace Op
variable {κ α : Type}

/-- the only store entry an operation may change or create -/
def target : Op κ α → Nat
  | new id _ => id | copy _ out => out | reorder obj _ => obj | sortDims obj => obj
  | rename obj _ _ => obj | sort obj _ => obj | newDim obj _ _ => obj | squeeze obj => obj
  | split obj _ _ _ => obj | concatenate obj _ _ => obj | unfold obj _ => obj | fold obj => obj
  | unfoldFold obj _ => obj | getitem _ _ out => out | setitem obj _ _ => obj | binop _ _ _ out => out
  | scalarOp _ _ out => out | arrayOp _ _ _ _ out => out | reduce _ _ _ out => out
  | argCoord _ _ _ out => out | argIndex _ _ _ out => out | cumsum _ _ out => out
  | npReduce _ _ _ _ out => out | npUnary _ _ _ out => out | npBinary _ _ _ _ out => out
  | concat _ _ _ out => out | setAttr obj _ _ => obj | setDattr obj _ _ => obj | addHist obj _ _ => obj
  | setValue obj _ _ => obj | setCoord obj _ _ _ => obj | del obj => obj | proc _ _ out => out

end Op

/-- result of one call: the new store, the exception class if it raised, a returned scalar if any -/
structure StepOut (κ α : Type) where
  store : Store κ α
  err : Option Err := none
  ret : Option α := none

section
variable {κ α : Type} [Inhabited α] [Inhabited κ]

/-- missing operand: the harness never refers to an unknown id; modelled as a KeyError that changes nothing -/
def withObj (s : Store κ α) (i : Nat) (k : Data κ α → StepOut κ α) : StepOut κ α :=
  match s.get? i with
  | some d => k d
  | none => { store := s, err := some .key }

/-- store the result of `r` under `i`, or report the raise and leave the store as it was -/
def putResult (s : Store κ α) (i : Nat) (r : Except Err (Data κ α)) : StepOut κ α :=
  match r with
  | .ok d => { store := s.set i d }
  | .error e => { store := s, err := some e }

def allObjs (s : Store κ α) : List Nat → Option (List (Data κ α))
  | [] => some []
  | i :: is => match s.get? i, allObjs s is with
    | some d, some ds => some (d :: ds)
    | _, _ => none

/-- one public call -/
def step (sc : Scalars κ α) (s : Store κ α) : Op κ α → StepOut κ α
  | .new id d => { store := s.set id d }
  | .copy obj out => withObj s obj fun d => { store := s.set out d }
  | .reorder obj ds => withObj s obj fun d => putResult s obj (d.reorder ds)
  | .sortDims obj => withObj s obj fun d => { store := s.set obj d.sortDims }
  | .rename obj dim new => withObj s obj fun d => putResult s obj (d.rename dim new)
  | .sort obj dim => withObj s obj fun d => putResult s obj (d.sort sc.le dim)
  | .newDim obj dim c => withObj s obj fun d => putResult s obj (d.newDim dim c)
  | .squeeze obj => withObj s obj fun d => { store := s.set obj d.squeeze }
  | .split obj dim new c => withObj s obj fun d => putResult s obj (d.split dim new c)
  | .concatenate obj other dim => withObj s obj fun d => withObj s other fun b =>
      putResult s obj (d.concatenate b dim)
  | .unfold obj dim => withObj s obj fun d => putResult s obj (d.unfold sc.arange dim)
  | .fold obj => withObj s obj fun d => putResult s obj d.fold
  | .unfoldFold obj dim => withObj s obj fun d => putResult s obj (d.unfold sc.arange dim >>= Data.fold)
  | .getitem obj sels out => withObj s obj fun d => putResult s out (d.getitem sc.dist sc.lt sels)
  | .setitem obj sels v => withObj s obj fun d =>
      putResult s obj (d.setitemWith sc.dist sc.lt sels (fun _ => v))
  | .binop f lhs rhs out => withObj s lhs fun a => withObj s rhs fun b =>
      putResult s out (Data.binop sc.close f a b)
  | .scalarOp f obj out => withObj s obj fun d => { store := s.set out (d.scalarOp f) }
  | .arrayOp f stamp obj arr out => withObj s obj fun d =>
      putResult s out ((d.arrayOp f arr).map fun r =>
        match stamp with | some nm => r.addHist nm ["args", "kwargs"] | none => r)
  | .reduce f obj dim out => withObj s obj fun d => putResult s out (d.reduceDim f dim)
  | .argCoord lt obj dim out => withObj s obj fun d => putResult s out (d.argCoord sc.ofκ lt dim)
  | .argIndex lt obj dim out => withObj s obj fun d =>
      -- a 1-D object makes numpy.argmax return a NumPy integer scalar, which the values setter rejects
      putResult s out (if d.dims.length = 1 ∧ dim ∈ d.dims then .error .type
                       else d.reduceDim (fun l => sc.ofNat (argBest lt l)) dim)
  | .cumsum obj dim out => withObj s obj fun d =>
      putResult s out (d.cumulativeSum sc.add dim)
  | .npReduce fname f obj ax out => withObj s obj fun d =>
      match d.npReduce fname f ax with
      | .error e => { store := s, err := some e }
      | .ok (.inl r) => { store := s.set out r }
      | .ok (.inr v) => { store := s, ret := some v }
  | .npUnary fname f obj out => withObj s obj fun d => { store := s.set out (d.npUnary fname f) }
  | .npBinary fname f lhs rhs out => withObj s lhs fun a => withObj s rhs fun b =>
      putResult s out (Data.npBinaryData fname f a b)
  | .concat objs dim coord out =>
      match allObjs s objs with
      | some ds => putResult s out (Data.concat sc.arange ds dim coord)
      | none => { store := s, err := some .key }
  | .setAttr obj k v => withObj s obj fun d => { store := s.set obj { d with attrs := Data.dictSet d.attrs k v } }
  | .setDattr obj k v => withObj s obj fun d => { store := s.set obj { d with dattrs := Data.dictSet d.dattrs k v } }
  | .addHist obj name keys => withObj s obj fun d => { store := s.set obj (d.addHist name keys) }
  | .setValue obj flat v => withObj s obj fun d =>
      { store := s.set obj { d with values := ⟨d.values.shape, setAt d.values.data flat v⟩ } }
  | .setCoord obj dim k v => withObj s obj fun d =>
      { store := s.set obj { d with coords := setAt d.coords (d.index dim) (setAt (d.coord dim) k v) } }
  | .del obj => { store := s.del obj }
  | .proc F obj out => withObj s obj fun d => putResult s out (F d)

/-- a whole history -/
def run (sc : Scalars κ α) (s : Store κ α) (ops : List (Op κ α)) : Store κ α :=
  ops.foldl (fun st op => (step sc st op).store) s

end
end Dnp
