import DnpModel.Ops
/-
  L1: `__getitem__` / `__setitem__` of base.py: selector → slice conversion and the cut.
-/
namespace Dnp
open Np

inductive Sel (κ : Type)
  | int (i : Int)
  | flt (t : κ)
  | tup1 (t : κ)
  | range (lo hi : κ)
  | slice (start stop step : Option Int)
deriving Repr

/-- Python `slice(start, stop, step)` -/
structure PySl where
  start : Option Int
  stop : Option Int
  step : Option Int := none
deriving Repr, DecidableEq

section
variable {κ : Type} (dist : κ → κ → κ) (lt : κ → κ → Bool)

/-- numpy.argmin(abs(t - coord)) -/
def nearest (t : κ) (c : List κ) : Nat := argBest lt (c.map (fun x => dist t x))

/-- is `hi` beyond the last coordinate, in the direction the axis runs
    (repaired test; the pinned tree used `hi > c[-1]` whatever the direction) -/
def beyondEnd [Inhabited κ] (hi : κ) (c : List κ) : Bool :=
  let last := c.getLast?.getD default
  let first := c.headD default
  if lt last first then lt hi last else lt last hi

/-- pinned-tree test of base.py:304 -/
def beyondEndPinned [Inhabited κ] (hi : κ) (c : List κ) : Bool :=
  lt (c.getLast?.getD default) hi

/-- selector → slice, the conversion shared by `__getitem__` and `__setitem__` -/
def selToSlice [Inhabited κ] (c : List κ) : Sel κ → PySl
  | .tup1 t => let s := nearest dist lt t c; ⟨some s, some (s + 1), none⟩
  | .range lo hi =>
    let start := nearest dist lt lo c
    if beyondEnd lt hi c then ⟨some start, none, none⟩
    else
      let stop := nearest dist lt hi c
      let stop := if start = stop then start + 1 else stop
      if stop < start then ⟨some stop, some start, none⟩ else ⟨some start, some stop, none⟩
  | .int i => if i ≠ -1 then ⟨some i, some (i + 1), none⟩ else ⟨some (-1), none, none⟩
  | .flt t => let s := nearest dist lt t c; ⟨some s, some (s + 1), none⟩
  | .slice a b st => ⟨a, b, st⟩

/-- the pinned read path (base.py:294-323) -/
def selToSlicePinnedRead [Inhabited κ] (c : List κ) : Sel κ → PySl
  | .range lo hi =>
    let start := nearest dist lt lo c
    if beyondEndPinned lt hi c then ⟨some start, none, none⟩
    else
      let stop := nearest dist lt hi c
      let stop := if start = stop then start + 1 else stop
      if stop < start then ⟨some stop, some start, none⟩ else ⟨some start, some stop, none⟩
  | s => selToSlice dist lt c s

/-- the pinned write path (base.py:408-434): no beyond-the-end branch -/
def selToSlicePinnedWrite [Inhabited κ] (c : List κ) : Sel κ → PySl
  | .range lo hi =>
    let start := nearest dist lt lo c
    let stop := nearest dist lt hi c
    let stop := if start = stop then start + 1 else stop
    if stop < start then ⟨some stop, some start, none⟩ else ⟨some start, some stop, none⟩
  | s => selToSlice dist lt c s

def PySl.positions (n : Nat) (s : PySl) : List Nat := pySlice n s.start s.stop s.step

/-- positions selected on an axis with coordinates `c` -/
def selPositions [Inhabited κ] (c : List κ) (s : Sel κ) : List Nat :=
  (selToSlice dist lt c s).positions c.length

end

namespace Data
variable {κ α : Type} [Inhabited α] [Inhabited κ]

/-- apply one positions list per axis (none = untouched) to values and coords alike -/
def cut (d : Data κ α) (pos : List (Option (List Nat))) : Data κ α :=
  let rec go (k : Nat) (ps : List (Option (List Nat))) (v : Arr α) : Arr α :=
    match ps with
    | [] => v
    | none :: ps => go (k + 1) ps v
    | some p :: ps => go (k + 1) ps (takeAxis v k p)
  { d with values := go 0 pos d.values,
           coords := List.zipWith (fun c p => match p with
                        | none => c
                        | some p => p.map (fun i => c.getD i default)) d.coords pos }

/-- last selector given for a dimension wins (dict(zip(...))) -/
def selFor {σ : Type} (sels : List (String × σ)) (dim : String) : Option σ :=
  (sels.reverse.find? (·.1 == dim)).map (·.2)

/-- base.py `__getitem__` in the folded state -/
def getitem (dist : κ → κ → κ) (lt : κ → κ → Bool) (d : Data κ α) (sels : List (String × Sel κ)) :
    Except Err (Data κ α) :=
  if ¬ (∀ s ∈ sels, s.1 ∈ d.dims) then .error .value
  else if sels.any (fun s => match s.2 with | .slice _ _ (some 0) => true | _ => false) then .error .value
  else
    .ok (d.cut (d.dims.map (fun dim =>
      (selFor sels dim).map (fun s => selPositions dist lt (d.coord dim) s))))

/-- write `f idx` at every selected index; positions outside are kept -/
def setitemWith (dist : κ → κ → κ) (lt : κ → κ → Bool) (d : Data κ α)
    (sels : List (String × Sel κ)) (newv : List Nat → α) : Except Err (Data κ α) :=
  if ¬ (∀ s ∈ sels, s.1 ∈ d.dims) then .error .value
  else
    let pos := d.dims.map (fun dim =>
      (selFor sels dim).map (fun s => selPositions dist lt (d.coord dim) s))
    .ok { d with values := Arr.ofFn d.values.shape (fun idx =>
      let hit := (List.zipWith (fun i p => match p with
                    | none => some i
                    | some (p : List Nat) => let k := p.idxOf i; if k < p.length then some k else none) idx pos)
      if hit.all Option.isSome then newv (hit.map (·.getD 0)) else d.values.get idx) }

end Data
end Dnp
