import DnpModel.Generated.Hydration
/-
  L1: the closed-form part of dnplab/analysis/hydration.py (everything except the three external
  numerical routines: curve_fit/least_squares (Levenberg–Marquardt), brentq, polyfit), generic in
  the number type: exact rationals in the driver, ℝ in the proofs.
-/
namespace Dnp.Hydration

variable {K : Type} [Add K] [Sub K] [Mul K] [Div K] [OfNat K 1] [OfNat K 3] [OfNat K 5] [OfNat K 7]

/-- (Eq. 41) kσ·s(p) from the enhancement and T1 arrays -/
def ksigmaArray (E T1p : List K) (spinC omegaRatio : K) : List K :=
  List.zipWith (fun e t => (1 - e) / (spinC * omegaRatio * t)) E T1p

/-- (Eq. 36) self relaxivity -/
def krho (T10 T100 spinC : K) : K := (1 / T10 - 1 / T100) / spinC

def couplingFactor (ksigma krho : K) : K := ksigma / krho

/-- (Eq. 13) -/
def klow (ksigma krho : K) : K := (5 * krho - 7 * ksigma) / 3

/-- (Eq. 19-20) -/
def dlocal (tcorrBulk tcorr dH2O dSL : K) : K := tcorrBulk / tcorr * (dH2O + dSL)

/-- the right-hand side of Eq. 42: kσ·smax·p/(p½ + p) -/
def ksigmaFit (ksigmaSmax p12 : K) (p : K) : K := ksigmaSmax * p / (p12 + p)

/-- forward model of the enhancement (Eq. 41 solved for E) -/
def enhancement (ksigmaSmax p12 spinC omegaRatio : K) (p t1 : K) : K :=
  1 - ksigmaFit ksigmaSmax p12 p * spinC * omegaRatio * t1

/-- linear T1 interpolation (Eq. 39): the quantity that is linear in power … -/
def linearT1 (T10 T100 t1 : K) : K := 1 / (1 / t1 - 1 / T10 + 1 / T100)
/-- … and its inverse -/
def fromLinearT1 (T10 T100 l : K) : K := l / (1 + l / T10 - l / T100)

/-- second-order T1 interpolation (Eq. 22/23): the relaxivity that is fitted by a parabola in power … -/
def secondOrderKrp (t1 t1w dT1w p kHH macroC spinC : K) : K := (1 / t1 - 1 / (t1w + dT1w * p) - kHH * macroC) / spinC
/-- … and the way back to T1 -/
def fromSecondOrderKrp (krp t1w dT1w p kHH macroC spinC : K) : K := 1 / (spinC * krp + 1 / (t1w + dT1w * p) + kHH * macroC)

/-- calculate_smax (free spin probe) -/
def smaxFree [OfNat K 2] (spinC c1987 : K) : K := 1 - 2 / (3 + 3 * (spinC * c1987))

/-- legacy-unit detection: a value above the threshold is taken to be in the legacy unit and rescaled -/
def normUnit (lt : K → K → Bool) (threshold factor x : K) : K := if lt threshold x then x * factor else x

end Dnp.Hydration

namespace Dnp.Hydration

def ratLt (a b : Rat) : Bool := decide (a < b)

/-- rule (threshold, factor) registered for a key of the data / constants dictionaries -/
def ruleFor (rules : List (String × Rat × Rat)) (key : String) : Option (Rat × Rat) :=
  match rules.find? (fun r => r.1 == key) with
  | some r => some r.2
  | none => none

/-- the unit normalisation `hydration` applies to one entry -/
def normalise (rules : List (String × Rat × Rat)) (key : String) (x : Rat) : Rat :=
  match ruleFor rules key with
  | some (thr, fac) => normUnit ratLt thr fac x
  | none => x

/-- the property's quantifier: SI range of every quantity that may also be supplied in a legacy unit
    (fields 0.3–15 T; concentrations 50 µM – 10 mM; correlation times 1 – 1e5 ps) -/
def siRanges : List (String × Rat × Rat) :=
  [("magnetic_field", (3 : Rat) / 10, 15),
   ("spin_C", (50 : Rat) / 1000000, (10 : Rat) / 1000),
   ("macro_C", (50 : Rat) / 1000000, (10 : Rat) / 1000),
   ("tcorr_bulk", (1 : Rat) / 1000000000000, (1 : Rat) / 10000000)]

/-- a rule separates the SI range from the same range expressed in the legacy unit -/
def separatesOne (rules : List (String × Rat × Rat)) (r : String × Rat × Rat) : Bool :=
  match ruleFor rules r.1 with
  | some (thr, fac) => decide (0 < fac) && decide (r.2.2 ≤ thr) && decide (thr * fac < r.2.1)
  | none => false

def separates (rules : List (String × Rat × Rat)) : Bool := siRanges.all (separatesOne rules)

end Dnp.Hydration
