import DnpModel.Arith
/-
  L1: named reductions of base.py (sum, maximum, minimum, arg*), cumulative_sum, and the
  NumPy protocol (`__array_ufunc__`, `__array_function__`) with the axis handling.
-/
namespace Dnp
open Np
namespace Data
variable {κ α : Type} [Inhabited α] [Inhabited κ]

def addHist (d : Data κ α) (name : String) (keys : List String) : Data κ α :=
  { d with hist := d.hist ++ [(name, keys)] }

/-- drop a named dimension and its coordinate -/
def popDim (d : Data κ α) (dim : String) : Data κ α :=
  let k := d.index dim
  { d with dims := eraseAt d.dims k, coords := eraseAt d.coords k }

/-- reduction along a named dimension: values reduced, the dim and its coord removed -/
def reduceDim {β : Type} (f : List α → β) (d : Data κ α) (dim : String) :
    Except Err (Data κ β) :=
  if dim ∉ d.dims then .error .value
  else
    let k := d.index dim
    .ok { dims := eraseAt d.dims k, coords := eraseAt d.coords k,
          values := reduceAxis f d.values k, attrs := d.attrs, dattrs := d.dattrs,
          hist := d.hist, unf := d.unf }

/-- base.py argmax/argmin: *coordinate value* at the extremum -/
def argCoord (ofκ : κ → α) (lt : α → α → Bool) (d : Data κ α) (dim : String) : Except Err (Data κ α) :=
  reduceDim (fun tr => ofκ ((d.coord dim).getD (argBest lt tr) default)) d dim

def cumsumList (add : α → α → α) : List α → List α
  | [] => []
  | x :: xs => x :: (cumsumList add xs).map (add x ·)

/-- base.py cumulative_sum -/
def cumulativeSum (add : α → α → α) (d : Data κ α) (dim : String) : Except Err (Data κ α) :=
  if dim ∉ d.dims then .error .value
  else .ok { d with values := mapAxis (cumsumList add) (d.ext dim) d.values (d.index dim) }

/-- one entry of a tuple-valued `axis` argument -/
inductive AxItem | nm (s : String) | ix (i : Int)
deriving Repr

/-- axis argument of a NumPy call -/
inductive Axis | none | name (s : String) | pos (i : Int) | tuple (items : List AxItem)
deriving Repr

/-- the loop of `__array_function__` over a tuple axis: every entry becomes the NAME of the dimension it
    consumes; the first offending entry raises (unknown name → ValueError, position out of range → IndexError) -/
def resolveItems (dims : List String) : List AxItem → Except Err (List String)
  | [] => .ok []
  | .nm s :: r => if s ∉ dims then .error .value else (resolveItems dims r).map (s :: ·)
  | .ix i :: r =>
    let n : Int := dims.length
    if i ≥ n ∨ i < -n then .error .index
    else (resolveItems dims r).map (dims.getD (if i < 0 then i + n else i).toNat "" :: ·)

/-- joint reduction over several named dimensions: they are moved last, flattened C-order into one axis and
    reduced; exactly those names and their coordinates disappear -/
def reduceDims (f : List α → α) (d : Data κ α) (names : List String) : Except Err (Data κ α) := do
  let keep := d.dims.filter (fun x => x ∉ names)
  let d1 ← d.reorder (keep ++ names)
  let kshape := d1.values.shape.take keep.length
  let rshape := d1.values.shape.drop keep.length
  .ok { d1 with dims := keep, coords := d1.coords.take keep.length,
                values := reduceAxis f (reshapeC d1.values (kshape ++ [size rshape])) keep.length }

/-- `__array_function__` for a reduction: axis by name or position removes exactly that
    dimension (repaired: the pinned tree kept the dimension for an integer axis) -/
def npReduce (fname : String) (f : List α → α) (d : Data κ α) (ax : Axis) :
    Except Err (Data κ α ⊕ α) :=
  match ax with
  | .none => .ok (.inr (f d.values.data))
  | .name s =>
    if s ∉ d.dims then .error .value
    else if d.dims.length = 1 then .ok (.inr (f d.values.data))   -- NumPy returns a scalar, passed through
    else (reduceDim f d s).map (fun r => .inl (r.addHist ("numpy." ++ fname) ["axis"]))
  | .pos i =>
    let n : Int := d.dims.length
    if i ≥ n ∨ i < -n then .error .index
    else if d.dims.length = 1 then .ok (.inr (f d.values.data))
    else
      let k := (if i < 0 then i + n else i).toNat
      (reduceDim f d (d.dims.getD k "")).map (fun r => .inl (r.addHist ("numpy." ++ fname) ["axis"]))
  | .tuple items =>
    if items = [] then .error .other      -- `axis=()` is outside the modelled alphabet (never generated)
    else do
      let names ← resolveItems d.dims items
      if ¬ names.Nodup then .error .value           -- NumPy: duplicate value in 'axis'
      else if names.length = d.dims.length then .ok (.inr (f d.values.data))
      else (reduceDims f d names).map (fun r => .inl (r.addHist ("numpy." ++ fname) ["axis"]))

def npReduceOld (fname : String) (f : List α → α) (d : Data κ α) (ax : Axis) :
    Except Err (Data κ α ⊕ α) :=
  match ax with
  | .none => .ok (.inr (f d.values.data))
  | .name s =>
    if s ∉ d.dims then .error .value
    else (reduceDim f d s).map (fun r => .inl (r.addHist ("numpy." ++ fname) ["axis"]))
  | .pos i =>
    let n : Int := d.dims.length
    if i ≥ n ∨ i < -n then .error .index
    else
      let k := (if i < 0 then i + n else i).toNat
      (reduceDim f d (d.dims.getD k "")).map (fun r => .inl (r.addHist ("numpy." ++ fname) ["axis"]))
  | .tuple _ => .error .other

/-- `__array_ufunc__`, unary -/
def npUnary (fname : String) (f : α → α) (d : Data κ α) : Data κ α :=
  (d.scalarOp f).addHist ("numpy." ++ fname) ["args", "kwargs"]

/-- `__array_ufunc__`, binary, both operands data objects of identical dims: every operand
    contributes its *own* values (repaired: the pinned tree substituted the first operand's) -/
def npBinaryData (fname : String) (f : α → α → α) (a b : Data κ α) : Except Err (Data κ α) :=
  if a.values.shape ≠ b.values.shape then .error .value
  else .ok ({ a with values := ⟨a.values.shape, List.zipWith f a.values.data b.values.data⟩ }.addHist
        ("numpy." ++ fname) ["args", "kwargs"])

def npBinaryDataPinned (fname : String) (f : α → α → α) (a b : Data κ α) : Except Err (Data κ α) :=
  if a.values.shape ≠ b.values.shape then .error .value
  else .ok ({ a with values := ⟨a.values.shape, List.zipWith f a.values.data a.values.data⟩ }.addHist
        ("numpy." ++ fname) ["args", "kwargs"])

end Data
end Dnp
