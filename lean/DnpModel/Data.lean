import DnpModel.Np.Prim
/-
  L1: the labelled data object of dnplab/core (ABCData / DNPData / Coords).
  κ = coordinate scalar, α = value scalar.
-/
namespace Dnp
open Np

/-- exception classes, the only thing the correspondence compares about a raise -/
inductive Err | value | type | index | key | io | other
deriving Repr, DecidableEq, Inhabited

def Err.toString : Err → String
  | .value => "value" | .type => "type" | .index => "index"
  | .key => "key" | .io => "io" | .other => "other"

/-- one processing-history entry: step name and the sorted parameter keys -/
abbrev HistEntry := String × List String

structure Data (κ α : Type) where
  dims : List String
  coords : List (List κ)
  values : Arr α
  attrs : List (String × String) := []      -- canonical strings, insertion order
  dattrs : List (String × String) := []     -- dnplab_attrs
  hist : List HistEntry := []               -- proc_attrs
  unf : Option (List Nat × List String) := none   -- folded_shape / folded_order while unfolded
deriving Repr

namespace Data
variable {κ α : Type}

/-- structural consistency (property C01): unique dims, one coord per axis, lengths match -/
def Consistent (d : Data κ α) : Prop :=
  d.dims.Nodup ∧ d.coords.length = d.dims.length ∧
  d.values.shape = d.coords.map List.length ∧ d.values.WF

instance [DecidableEq κ] (d : Data κ α) : Decidable d.Consistent := by
  unfold Consistent; exact inferInstance

def folded (d : Data κ α) : Bool := d.unf.isNone

def index (d : Data κ α) (dim : String) : Nat := d.dims.idxOf dim

def coord (d : Data κ α) (dim : String) : List κ := d.coords.getD (d.index dim) []

/-- extent of a named dimension -/
def ext (d : Data κ α) (dim : String) : Nat := d.values.shape.getD (d.index dim) 0

/-- lookup by a *named* index assignment: the order-free reading of the object -/
def getN [Inhabited α] (d : Data κ α) (ℓ : String → Nat) : α := d.values.get (d.dims.map ℓ)

/-- association-list helpers (Python dict semantics: overwrite keeps position, new key appends) -/
def dictSet (m : List (String × String)) (k v : String) : List (String × String) :=
  if m.any (·.1 == k) then m.map (fun kv => if kv.1 == k then (k, v) else kv) else m ++ [(k, v)]

def dictGet (m : List (String × String)) (k : String) : Option String :=
  (m.find? (·.1 == k)).map (·.2)

def dictPop (m : List (String × String)) (k : String) : List (String × String) :=
  m.filter (·.1 != k)

end Data

/-- Python string order (code points), structural so the kernel can evaluate it -/
def listNatLe : List Nat → List Nat → Bool
  | [], _ => true
  | _ :: _, [] => false
  | a :: as, b :: bs => if a < b then true else if b < a then false else listNatLe as bs

def strLe (a b : String) : Bool := listNatLe (a.toList.map Char.toNat) (b.toList.map Char.toNat)

/-- dedupe keeping first occurrences (OrderedDict.fromkeys) -/
def dedup : List String → List String
  | [] => []
  | x :: xs => x :: (dedup xs).filter (· != x)

end Dnp
