import DnpModel.Proc.Window
/-
  L1: the closed-form lineshapes of dnplab/math/lineshape.py (Gaussian, Lorentzian and the
  Lorentzian derivative), generic in the number type like the window formulas: evaluated in
  Float by the driver, reasoned about in ℝ by the proofs.  The Voigt profile needs the Faddeeva
  function (scipy.special.wofz) and is not modelled.
-/
namespace Dnp.Lineshape
open Dnp.Window

variable {R : Type} [Add R] [Sub R] [Mul R] [Div R] [Neg R] (T : Transc R)

/-- gaussian(x, x0, sigma, integral) = integral / (σ √(2π)) · exp(−(x − x0)² / (2σ²)) -/
def gaussian (x x0 sigma integral : R) : R :=
  integral / (sigma * T.sqrt (T.ofNat 2 * T.pi)) * T.exp (-((x - x0) * (x - x0)) / (T.ofNat 2 * (sigma * sigma)))

/-- lorentzian(x, x0, gamma, integral) = integral · 1/(πγ) · γ² / ((x − x0)² + γ²) -/
def lorentzian (x x0 gamma integral : R) : R :=
  integral * (T.ofNat 1 / (T.pi * gamma)) * (gamma * gamma) / ((x - x0) * (x - x0) + gamma * gamma)

/-- lorentzian(..., deriv=True) = integral · (−1/(πγ)) · γ² / ((x − x0)² + γ²)² · 2 · (x − x0) -/
def lorentzianDeriv (x x0 gamma integral : R) : R :=
  integral * (-(T.ofNat 1) / (T.pi * gamma)) * (gamma * gamma) /
    (((x - x0) * (x - x0) + gamma * gamma) * ((x - x0) * (x - x0) + gamma * gamma)) * T.ofNat 2 * (x - x0)

end Dnp.Lineshape
