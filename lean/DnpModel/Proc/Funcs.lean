import DnpModel.Proc.Core
/-
  L1: the processing functions of dnplab/processing, mirrored on top of `bracket` / `mapAlong` /
  `reduceDim` / `getitem` / `concat`.  Arithmetic is generic (any type with + − × ÷); transcendental
  factors (window values, phase factors, DFT twiddles) are *parameters* supplied as tables.
-/
namespace Dnp
open Np
namespace Data
variable {κ α : Type} [Inhabited α] [Inhabited κ]

/-- arithmetic the processing functions need on values, and the embedding of coordinates -/
structure Arith (κ α : Type) where
  add : α → α → α
  sub : α → α → α
  mul : α → α → α
  div : α → α → α
  zero : α
  two : α
  ofκ : κ → α
  ofNat : Nat → α
  ksub : κ → κ → κ
  kadd : κ → κ → κ
  kmul : κ → κ → κ
  kdiv : κ → κ → κ
  kofNat : Nat → κ
  klt : κ → κ → Bool
  abs : α → α            -- |x| (exact for real data)
  ltα : α → α → Bool     -- NumPy ordering on values

variable (A : Arith κ α)

/-- scipy.integrate.trapezoid(y, x) -/
def trapz : List κ → List α → α
  | x0 :: x1 :: xs, y0 :: y1 :: ys =>
    A.add (A.div (A.mul (A.ofκ (A.ksub x1 x0)) (A.add y0 y1)) A.two) (trapz (x1 :: xs) (y1 :: ys))
  | _, _ => A.zero

/-- scipy.integrate.cumulative_trapezoid(y, x, initial=0) -/
def cumtrapzFrom (acc : α) : List κ → List α → List α
  | x0 :: x1 :: xs, y0 :: y1 :: ys =>
    let acc' := A.add acc (A.div (A.mul (A.ofκ (A.ksub x1 x0)) (A.add y0 y1)) A.two)
    acc' :: cumtrapzFrom acc' (x1 :: xs) (y1 :: ys)
  | _, _ => []

def cumtrapz (x : List κ) (y : List α) : List α :=
  match y with
  | [] => []
  | _ => A.zero :: cumtrapzFrom A acc0 x y
where acc0 := A.zero

/-- integrate(data, dim) over the whole axis -/
def integrateAll (d : Data κ α) (dim : String) : Except Err (Data κ α) := do
  let d1 := { d with attrs := dictSet d.attrs "experiment_type" "'integrals'" }
  let r ← d1.reduceDim (trapz A (d.coord dim)) dim
  .ok (r.addHist "integrate" ["dim", "regions"])

/-- integrate(data, dim, regions): one entry per region in request order, stacked on a new last
    dimension `integrals`; the history of the input is kept (repaired) -/
def integrateRegions (arange : Nat → List κ) (dist : κ → κ → κ) (d : Data κ α) (dim : String)
    (regions : List (κ × κ)) : Except Err (Data κ α) := do
  let d1 := { d with attrs := dictSet d.attrs "experiment_type" "'integrals'" }
  if dim ∉ d.dims then .error .value else
  let parts ← regions.mapM (fun r => do
    let sub ← d1.getitem dist A.klt [(dim, Sel.range r.1 r.2)]
    integrateAll A sub dim)
  let c ← Data.concat arange parts "integrals" (some (arange parts.length))
  .ok ({ c with hist := d.hist }.addHist "integrate" ["dim", "regions"])

/-- pinned behaviour of the region branch: the object is rebuilt by `concat`, history lost -/
def integrateRegionsPinned (arange : Nat → List κ) (dist : κ → κ → κ) (d : Data κ α) (dim : String)
    (regions : List (κ × κ)) : Except Err (Data κ α) := do
  let d1 := { d with attrs := dictSet d.attrs "experiment_type" "'integrals'" }
  if dim ∉ d.dims then .error .value else
  let parts ← regions.mapM (fun r => do
    let sub ← d1.getitem dist A.klt [(dim, Sel.range r.1 r.2)]
    integrateAll A sub dim)
  let c ← Data.concat arange parts "integrals" (some (arange parts.length))
  .ok (c.addHist "integrate" ["dim", "regions"])

/-- cumulative_integrate(data, dim) -/
def cumulativeIntegrate (d : Data κ α) (dim : String) : Except Err (Data κ α) := do
  let r ← d.mapAlong dim (cumtrapz A (d.coord dim)) (d.ext dim) none
  .ok (r.addHist "cumlative_integrate" ["dim", "regions"])

/-- left_shift(data, dim, n): data[dim, n:] -/
def leftShift (dist : κ → κ → κ) (d : Data κ α) (dim : String) (n : Int) : Except Err (Data κ α) := do
  let r ← d.getitem dist A.klt [(dim, Sel.slice (some n) none none)]
  .ok (r.addHist "left_shift" ["dim", "points"])

/-- reference(data, dim, old_ref, new_ref): shift the coordinate; the step is stamped (repaired) -/
def reference (d : Data κ α) (dim : String) (shift : κ) : Except Err (Data κ α) :=
  if dim ∉ d.dims then .error .value
  else .ok ({ d with coords := setAt d.coords (d.index dim) ((d.coord dim).map (fun c => A.ksub c shift)) }.addHist
        "reference" ["dim", "new_ref", "old_ref"])

def maxAbs (xs : List α) : α :=
  let ab := xs.map A.abs
  ab.getD (argBest (fun a b => A.ltα b a) ab) default

/-- normalize(data) / normalize(data, dim=dim): largest magnitude overall or per trace becomes 1 -/
def normalize (arange : Nat → List κ) (d : Data κ α) (dim : Option String) : Except Err (Data κ α) :=
  match dim with
  | none =>
    let f := maxAbs A d.values.data
    .ok ((d.scalarOp (fun x => A.div x f)).addHist "normalized" ["amplitude"])
  | some dm =>
    if dm ∉ d.dims then .error .value
    else do
      let r ← d.bracket arange dm (fun _ c => let f := maxAbs A c; c.map (fun x => A.div x f)) (d.ext dm) none
      .ok (r.addHist "normalized" ["amplitude"])

/-- numpy.interp(x, xp, fp) for increasing xp; values outside are clamped to the end values -/
def interp1 (xp : List κ) (fp : List α) (x : κ) : α :=
  match xp, fp with
  | [], _ => default
  | _, [] => default
  | x0 :: xs, f0 :: fs =>
    if A.klt x x0 ∨ xs = [] then f0 else go x0 f0 xs fs
where
  go (xa : κ) (fa : α) : List κ → List α → α
    | xb :: xs, fb :: fs =>
      if A.klt x xb then
        -- fa + (fb − fa) · (x − xa) / (xb − xa)
        A.add fa (A.div (A.mul (A.sub fb fa) (A.ofκ (A.ksub x xa))) (A.ofκ (A.ksub xb xa)))
      else if xs = [] then fb else go xb fb xs fs
    | _, _ => fa

/-- interp(data, dim, new_coord) -/
def interp (arange : Nat → List κ) (d : Data κ α) (dim : String) (newc : List κ) : Except Err (Data κ α) := do
  let r ← d.bracket arange dim (fun _ c => newc.map (interp1 A (d.coord dim) c)) newc.length (some newc)
  .ok (r.addHist "interp" ["dim", "left", "new_coord", "right"])

/-- pinned `interp`: patches folded_shape at the position `dim` has in the ORIGINAL order -/
def interpPinned (arange : Nat → List κ) (d : Data κ α) (dim : String) (newc : List κ) : Except Err (Data κ α) := do
  let u ← d.unfold arange dim
  let u' := { u with values := mapCols (fun _ c => newc.map (interp1 A (d.coord dim) c)) newc.length u.values,
                     coords := replaceCoord0 (some newc) u.coords,
                     unf := u.unf.map (fun (p : List Nat × List String) => (setAt p.1 (d.index dim) newc.length, p.2)) }
  let r ← u'.fold
  .ok (r.addHist "interp" ["dim", "left", "new_coord", "right"])

/-- average(data, axis): numpy.mean along a named axis, history = input history + "average" -/
def average (mean : List α → α) (d : Data κ α) (ax : Axis) : Except Err (Data κ α) :=
  match d.npReduce "mean" mean ax with
  | .error e => .error e
  | .ok (.inr _) => .error .other       -- a scalar has no proc_attrs (AttributeError)
  | .ok (.inl r) => .ok ({ r with hist := d.hist }.addHist "average" ["axis"])

/-- calculate_enhancement(data, off_spectrum_index): first dim must be Power -/
def enhancement (d : Data κ α) (idx : Int) (realPart : α → α) : Except Err (Data κ α) :=
  match dictGet d.attrs "experiment_type" with
  | none => .error .key
  | some t =>
    if t ≠ "'integrals'" then .error .value
    else if d.dims.head? = some "Power" then
      let n : Int := d.ext "Power"
      if idx ≥ n ∨ idx < -n then .error .index
      else
        let k := (if idx < 0 then idx + n else idx).toNat
        let v := mapAxis (fun tr => tr.map (fun x => A.div x (tr.getD k default))) (d.ext "Power") d.values 0
        .ok (({ d with values := v, attrs := dictSet d.attrs "experiment_type" "'enhancements_P'" }.addHist
              "calculate_enhancement" ["off_spectrum_index", "return_complex_values"]).scalarOp realPart)
    else if d.dims.head? = some "B0" then
      .ok (({ d with attrs := dictSet d.attrs "experiment_type" "'enhancements_B0'" }.addHist
              "calculate_enhancement" ["off_spectrum_index", "return_complex_values"]).scalarOp realPart)
    else .error .type

/-- apodize(data, dim, kind, **kw): multiply along dim by the window evaluated on coords[dim] -/
def apodize (validKinds : List String) (d : Data κ α) (dim kind : String) (histKeys : List String) (w : List α) :
    Except Err (Data κ α) :=
  if dim ∉ d.dims then .error .value
  else if kind.toLower ∉ validKinds then .error .value      -- kind = str(kind).lower()
  else do
    let r ← d.scaleAlong A.mul dim w
    .ok (r.addHist "window" histKeys)

/-- phase(data, dim, p0, p1) for |p| < 360: trace j is multiplied point by point by the factor table
    `cis j k` = exp(i·π/180·(p0ⱼ + p1ⱼ·k/N)) -/
def phase (arange : Nat → List κ) (d : Data κ α) (dim : String) (cis : Nat → Nat → α) : Except Err (Data κ α) := do
  let r ← d.bracket arange dim (fun j c => (List.zipWith (fun x k => A.mul x (cis j k)) c (List.range c.length)))
    (d.ext dim) none
  .ok (r.addHist "phase_correction" ["p0", "p1", "pivot"])

/-- autophase(data, dim) without a reference slice: the optimiser's angles are RECORDED per trace (history entry
    `autophase`, parameter `phasetuples`) and applied through `phase`, trace by trace — so the result is the input
    multiplied by the factor table of the recorded angles (`cis j k`, computed from the recorded tuples exactly as `phase`
    would) and nothing else -/
def autophase (arange : Nat → List κ) (d : Data κ α) (dim : String) (cis : Nat → Nat → α) : Except Err (Data κ α) := do
  let r ← d.bracket arange dim (fun j c => (List.zipWith (fun x k => A.mul x (cis j k)) c (List.range c.length)))
    (d.ext dim) none
  .ok (r.addHist "autophase" ["deriv", "dim", "gamma", "phasetuples", "reference_slice"])

/-- phase_cycle(data, dim, receiver_phase): slice k gets exp(−iπ/2·r[k mod len]) = (−i)^r -/
def phaseCycle (d : Data κ α) (dim : String) (rp : List Nat) (negIpow : Nat → α) : Except Err (Data κ α) :=
  if dim ∉ d.dims then .error .value
  else if rp.length = 0 then .error .value
  else if d.ext dim % rp.length ≠ 0 then .error .value
  else do
    let w := (List.range (d.ext dim)).map (fun k => negIpow (rp.getD (k % rp.length) 0))
    let r ← d.scaleAlong A.mul dim w
    .ok (r.addHist "phasecycle" ["dim", "receiver_phase"])

/-- a trace-local function given as a finite table of (input trace, output trace) pairs:
    used for steps whose numerics are external (Savitzky–Golay, Bessel functions, optimisers) -/
def tableFn [BEq α] (tbl : List (List α × List α)) (c : List α) : List α :=
  match tbl.find? (fun p => p.1 == c) with
  | some p => p.2
  | none => []

def traceLocal [BEq α] (arange : Nat → List κ) (d : Data κ α) (dim : String) (tbl : List (List α × List α)) (n' : Nat)
    (newCoord : Option (List κ)) (name : String) (keys : List String) : Except Err (Data κ α) := do
  let r ← d.bracket arange dim (fun _ c => tableFn tbl c) n' newCoord
  .ok (r.addHist name keys)

/-- numpy.correlate(a, v, mode="same") for real sequences of equal length L:
    full[k] = Σ_j a[j]·v[j − k + L − 1],  same = full[(L−1)/2 : (L−1)/2 + L] -/
def correlateSame (a v : List α) : List α :=
  let L := a.length
  (List.range L).map (fun i =>
    let k := i + (L - 1) / 2
    (List.range L).foldl (fun acc j =>
      -- index into v: j − k + L − 1 (skip when out of range)
      if j + (L - 1) < k then acc
      else
        let q := j + (L - 1) - k
        if q < v.length then A.add acc (A.mul (a.getD j default) (v.getD q default)) else acc) A.zero)

def argmaxL (xs : List α) : Nat := argBest (fun a b => A.ltα b a) xs

/-- roll by a signed amount (numpy.roll(x, s)) -/
def rollInt {γ : Type} (xs : List γ) (s : Int) : List γ :=
  if xs.length = 0 then xs else roll xs (s % (xs.length : Int)).toNat

/-- ndalign(data, dim) over the whole range: every trace is circularly shifted so that the maximum of
    its cross-correlation with the reference (the LAST trace, without its final point, in magnitude)
    lines up with that of the first trace -/
def ndalignCols (cs : List (List α)) : List (List α) :=
  let temp := cs.map (fun c => (c.dropLast).map A.abs)      -- out[dim, (c[-1], c[0])] drops the last point
  let ref := temp.getLast?.getD []
  let refMax : Int := argmaxL A ref
  let deltas := temp.map (fun t => (argmaxL A (correlateSame A t ref) : Int) - refMax)
  let first := deltas.headD 0
  List.zipWith (fun c dl => rollInt c (-(dl - first))) cs deltas

def ndalign (arange : Nat → List κ) (d : Data κ α) (dim : String) : Except Err (Data κ α) := do
  if dim ∉ d.dims then .error .value else
  let r ← d.bracketAll arange dim (ndalignCols A)
  .ok (r.addHist "ndalign" ["dim"])

/-- fit(f, data, dim, p0)["popt"]: per trace along `dim` the parameter vector the solver returns, labelled by
    a leading dimension `popt` followed by the remaining dimensions with their coordinates (as repaired).
    `solve` is scipy.optimize.curve_fit as a parameter. -/
def fitPopt (arange : Nat → List κ) (d : Data κ α) (dim : String) (np : Nat) (solve : List α → List α) :
    Except Err (Data κ α) := do
  if "popt" ∈ d.dims ∧ dim ≠ "popt" then .error .type else
  let b ← d.bracket arange dim (fun _ => solve) np (some (arange np))
  let b1 ← b.reorder [dim]
  let b2 ← b1.rename dim "popt"
  .ok { b2 with attrs := [], dattrs := [], hist := [] }

/-- the discrete Fourier transform of x zero-filled to n points; `tw m` = ω^m -/
def dftList (tw : Nat → α) (n : Nat) (x : List α) : List α :=
  (List.range n).map (fun k =>
    (List.zipWith (fun xj j => A.mul xj (tw ((j * k) % n))) x (List.range x.length)).foldl A.add A.zero)

/-- numpy.fft.fftshift on a list: rotate right by ⌊n/2⌋ -/
def fftshiftL {γ : Type} (xs : List γ) : List γ := roll xs (xs.length / 2)
/-- numpy.fft.ifftshift: rotate left by ⌊n/2⌋ -/
def ifftshiftL {γ : Type} (xs : List γ) : List γ := roll xs (xs.length - xs.length / 2)

/-- rename_ft_dim(dim, "t", "f"): `t<digits>` ↦ `f<digits>` -/
def renameFt (old new : Char) (dim : String) : String :=
  match dim.toList with
  | c :: rest => if c = old ∧ rest.all Char.isDigit then String.ofList (new :: rest) else dim
  | [] => dim

/-- fourier_transform(data, dim, zero_fill_factor, shift, convert_to_ppm) (repaired axis for odd n) -/
def fourierTransform (d : Data κ α) (dim : String) (zff : Nat) (shift : Bool) (ppmFreq : Option κ)
    (tw : Nat → α) : Except Err (Data κ α) :=
  if dim ∉ d.dims then .error .value
  else
    let c := d.coord dim
    if c.length < 2 then .error .index
    else
      let zf := if zff = 0 then 1 else zff
      let dt := A.ksub (c.getD 1 default) (c.getD 0 default)
      let n := zf * c.length
      let off := if shift then n / 2 else 0
      -- f_k = (k − ⌊n/2⌋)/(n·dt) when shifted
      let f0 := (List.range n).map (fun k =>
        A.ksub (A.kdiv (A.kofNat k) (A.kmul (A.kofNat n) dt)) (A.kdiv (A.kofNat off) (A.kmul (A.kofNat n) dt)))
      let f := match ppmFreq with
        | some fr => f0.map (fun x => A.kdiv x (A.kdiv fr (A.kofNat 1000000)))
        | none => f0
      let h := fun (tr : List α) => let y := dftList A tw n tr; if shift then fftshiftL y else y
      let newName := renameFt 't' 'f' dim
      if newName ≠ dim ∧ newName ∈ d.dims then .error .value
      else
        .ok ({ d with values := mapAxis h n d.values (d.index dim),
                      coords := setAt d.coords (d.index dim) f,
                      dims := setAt d.dims (d.index dim) newName }.addHist
              "fourier_transform" ["convert_to_ppm", "dim", "shift", "zero_fill_factor"])

/-- inverse_fourier_transform (repaired: ifftshift undoes fftshift for every length) -/
def inverseFourierTransform (d : Data κ α) (dim : String) (zff : Nat) (shift : Bool) (ppmFreq : Option κ)
    (twInv : Nat → α) : Except Err (Data κ α) :=
  if dim ∉ d.dims then .error .value
  else
    let c := d.coord dim
    if c.length < 2 then .error .index
    else
      let zf := if zff = 0 then 1 else zff
      let df0 := A.ksub (c.getD 1 default) (c.getD 0 default)
      let df := match ppmFreq with
        | some fr => A.kmul df0 (A.kdiv fr (A.kofNat 1000000))
        | none => df0
      let n := zf * c.length
      let t := (List.range n).map (fun k => A.kdiv (A.kofNat k) (A.kmul (A.kofNat n) df))
      let h := fun (tr : List α) =>
        let x := if shift then ifftshiftL tr else tr
        (dftList A twInv n x).map (fun y => A.div y (A.ofNat n))
      let newName := renameFt 'f' 't' dim
      if newName ≠ dim ∧ newName ∈ d.dims then .error .value
      else
        .ok ({ d with values := mapAxis h n d.values (d.index dim),
                      coords := setAt d.coords (d.index dim) t,
                      dims := setAt d.dims (d.index dim) newName }.addHist
              "inverse_fourier_transform" ["convert_from_ppm", "dim", "shift", "zero_fill_factor"])

end Data
end Dnp
