import DnpModel.Store
/-
  L1: the two mechanisms every processing function uses to act along a named dimension:
  (a) unfold(dim) → work on the (N, M) matrix column by column → fold()      [`bracket`]
  (b) look the axis index up by name and apply a NumPy function along it       [`mapAlong`, `reduceAlong`]
-/
namespace Dnp
open Np
namespace Data
variable {κ α : Type} [Inhabited α] [Inhabited κ]

/-- column j of an (N, M) matrix -/
def col (m : Arr α) (j : Nat) : List α := (List.range (m.shape.headD 0)).map (fun i => m.get [i, j])

/-- apply `h` to every column of an (N, M) matrix; the result has n' rows -/
def mapCols (h : Nat → List α → List α) (n' : Nat) (m : Arr α) : Arr α :=
  Arr.ofFn [n', m.shape.getD 1 0] (fun idx => (h (idx.getD 1 0) (col m (idx.getD 1 0))).getD (idx.getD 0 0) default)

/-- coords[dim] ← newCoord on the unfolded object (dim is first) -/
def replaceCoord0 (nc : Option (List κ)) (cs : List (List κ)) : List (List κ) :=
  match nc with | some c => setAt cs 0 c | none => cs

/-- unfold(dim); values[:, j] ← h j values[:, j]; coords[dim] ← newCoord; (folded_shape patched when the
    length changes); fold().  `h` also receives the column number (for per-trace parameters). -/
def bracket (arange : Nat → List κ) (d : Data κ α) (dim : String) (h : Nat → List α → List α) (n' : Nat)
    (newCoord : Option (List κ)) : Except Err (Data κ α) := do
  let u ← d.unfold arange dim
  let u' := { u with values := mapCols h n' u.values,
                     coords := replaceCoord0 newCoord u.coords,
                     unf := u.unf.map (fun (p : List Nat × List String) => (setAt p.1 0 n', p.2)) }
  u'.fold

/-- all columns of an (N, M) matrix -/
def cols (m : Arr α) : List (List α) := (List.range (m.shape.getD 1 0)).map (col m)

/-- rebuild an (N', M) matrix from its columns -/
def ofCols (n' : Nat) (cs : List (List α)) : Arr α :=
  Arr.ofFn [n', cs.length] (fun idx => (cs.getD (idx.getD 1 0) []).getD (idx.getD 0 0) default)

/-- unfold(dim); the whole matrix is replaced by H applied to the list of its columns; fold().
    For steps that are not trace-local (ndalign uses the last trace as reference). -/
def bracketAll (arange : Nat → List κ) (d : Data κ α) (dim : String) (H : List (List α) → List (List α)) :
    Except Err (Data κ α) := do
  let u ← d.unfold arange dim
  let u' := { u with values := ofCols (u.values.shape.headD 0) (H (cols u.values)) }
  u'.fold

/-- numpy function applied along the axis of a named dimension (length may change to m) -/
def mapAlong (d : Data κ α) (dim : String) (h : List α → List α) (m : Nat) (newCoord : Option (List κ)) :
    Except Err (Data κ α) :=
  if dim ∉ d.dims then .error .value
  else .ok { d with values := mapAxis h m d.values (d.index dim),
                    coords := match newCoord with
                      | some c => setAt d.coords (d.index dim) c
                      | none => d.coords }

/-- the 1-D trace along `dim` at the by-name position ℓ of the other dimensions -/
def trace (d : Data κ α) (dim : String) (ℓ : String → Nat) : List α :=
  (List.range (d.ext dim)).map (fun i => d.getN (fun x => if x = dim then i else ℓ x))

/-- multiply along a named dimension by a per-position factor -/
def scaleAlong (mul : α → α → α) (d : Data κ α) (dim : String) (w : List α) : Except Err (Data κ α) :=
  if dim ∉ d.dims then .error .value
  else if w.length ≠ d.ext dim then .error .value
  else .ok { d with values := zipAxis mul d.values (d.index dim) w }

end Data
end Dnp
