/-
  L1: the grid on which dnplab.fitting.general.fit evaluates the fitted curve:
  the data axis itself when fit_points is None, else numpy.r_[min:max:1j*fit_points] = linspace(min, max, fit_points).
-/
namespace Dnp.Fit
variable {K : Type} [Add K] [Sub K] [Mul K] [Div K]

/-- numpy.linspace(lo, hi, n) (endpoint included) -/
def linspace (ofNat : Nat → K) (lo hi : K) (n : Nat) : List K :=
  if n = 1 then [lo]
  else (List.range n).map (fun k => lo + (hi - lo) * ofNat k / ofNat (n - 1))

def fitGrid (ofNat : Nat → K) (coord : List K) (lo hi : K) : Option Nat → List K
  | none => coord
  | some n => linspace ofNat lo hi n

end Dnp.Fit
