import DnpModel.Generated.ProcStamps
/-
  The history entry each processing function of the model appends: (source function, step name, recorded parameter
  keys).  `Funcs.lean` writes these literals at its `addHist` calls; `DnpProofs/Props/C11.lean` proves, function by
  function, that exactly this entry is appended (`model_procs_stamp`) and that every row occurs in the table regenerated
  from /repo's `add_proc_attrs` calls (`model_stamps_in_source`).
-/
namespace Dnp

def modelStamps : List (String × String × List String) := [
  ("phase", "phase_correction", ["p0", "p1", "pivot"]),
  ("autophase", "autophase", ["deriv", "dim", "gamma", "phasetuples", "reference_slice"]),
  ("phase_cycle", "phasecycle", ["dim", "receiver_phase"]),
  ("fourier_transform", "fourier_transform", ["convert_to_ppm", "dim", "shift", "zero_fill_factor"]),
  ("inverse_fourier_transform", "inverse_fourier_transform", ["convert_from_ppm", "dim", "shift", "zero_fill_factor"]),
  ("integrate", "integrate", ["dim", "regions"]),
  ("cumulative_integrate", "cumlative_integrate", ["dim", "regions"]),
  ("left_shift", "left_shift", ["dim", "points"]),
  ("reference", "reference", ["dim", "new_ref", "old_ref"]),
  ("normalize", "normalized", ["amplitude"]),
  ("interp", "interp", ["dim", "left", "new_coord", "right"]),
  ("average", "average", ["axis"]),
  ("ndalign", "ndalign", ["dim"]),
  ("calculate_enhancement", "calculate_enhancement", ["off_spectrum_index", "return_complex_values"])]

end Dnp
