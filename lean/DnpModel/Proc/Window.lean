/-
  L1: the window formulas of dnplab/math/window.py, generic in the number type so that the SAME
  definitions are evaluated in `Float` by the driver (compared with the real code) and reasoned
  about in ℝ by the proofs.  Transcendental functions are fields of `Transc`.
-/
namespace Dnp.Window

structure Transc (R : Type) where
  exp : R → R
  cos : R → R
  sqrt : R → R
  log : R → R
  pi : R
  ofNat : Nat → R
  half : R          -- 0.5
  hamA : R          -- 0.53836
  hamB : R          -- 0.46164
  c06 : R           -- 0.6

variable {R : Type} [Add R] [Sub R] [Mul R] [Div R] [Neg R] (T : Transc R)

/-- exponential(x, lw) = exp(−π·(x − x₀)·lw) -/
def exponential (x : List R) (lw : R) : List R :=
  match x with
  | [] => []
  | x0 :: _ => x.map (fun t => T.exp (-(T.pi) * (t - x0) * lw))

/-- gaussian(x, lw): σ = lw / (2·√(2·ln 2));  exp(−2·π²·x²·σ²) -/
def gaussian (x : List R) (lw : R) : List R :=
  let two := T.ofNat 2
  let sigma := lw / (two * T.sqrt (two * T.log two))
  x.map (fun t => T.exp (-(T.ofNat 1) * two * (T.pi * T.pi) * (t * t) * (sigma * sigma)))

/-- n/(N−1)·π for n = 0 … N−1 -/
def ramp (N : Nat) : List R := (List.range N).map (fun n => T.pi * T.ofNat n / T.ofNat (N - 1))

def hann (N : Nat) : List R := (ramp T N).map (fun a => T.half + T.half * T.cos a)

def hamming (N : Nat) : List R := (ramp T N).map (fun a => T.hamA + T.hamB * T.cos a)

/-- sin2: cos(−0.5·π·n/(N−1) + π)² -/
def sin2 (N : Nat) : List R :=
  (ramp T N).map (fun a => let c := T.cos (-(T.half) * a + T.pi); c * c)

/-- traf(x, lw) -/
def traf (x : List R) (lw : R) (tmax : R) : List R :=
  let t2 := T.ofNat 1 / (T.pi * lw)
  x.map (fun t =>
    let E := T.exp (-(T.ofNat 1) * t / t2)
    let e := T.exp (-(T.ofNat 1) * (tmax - t) / t2)
    E * (E + e) / (E * E + e * e))

/-- lorentz_gauss(x, lw, gauss_lw, gaussian_max) -/
def lorentzGauss (x : List R) (lw gaussLw gmax : R) : List R :=
  let N := x.length
  x.map (fun t =>
    let expo := T.pi * t * lw
    let gaus := T.c06 * T.pi * gaussLw * (gmax * T.ofNat (N - 1) - t)
    T.exp (expo - gaus * gaus))

end Dnp.Window
