/-
  Exact scalars used by the driver: Gaussian rationals (complex numbers with rational parts).
-/
namespace Dnp

structure GRat where
  re : Rat
  im : Rat := 0
deriving DecidableEq, Repr, Inhabited

namespace GRat
instance : Add GRat := ⟨fun a b => ⟨a.re + b.re, a.im + b.im⟩⟩
instance : Sub GRat := ⟨fun a b => ⟨a.re - b.re, a.im - b.im⟩⟩
instance : Neg GRat := ⟨fun a => ⟨-a.re, -a.im⟩⟩
instance : Mul GRat := ⟨fun a b => ⟨a.re * b.re - a.im * b.im, a.re * b.im + a.im * b.re⟩⟩
instance : Div GRat := ⟨fun a b =>
  let n := b.re * b.re + b.im * b.im
  ⟨(a.re * b.re + a.im * b.im) / n, (a.im * b.re - a.re * b.im) / n⟩⟩
instance : OfNat GRat n := ⟨⟨(n : Rat), 0⟩⟩
def ofRat (q : Rat) : GRat := ⟨q, 0⟩
def conj (a : GRat) : GRat := ⟨a.re, -a.im⟩
def normSq (a : GRat) : Rat := a.re * a.re + a.im * a.im
def isReal (a : GRat) : Bool := a.im == 0
/-- NumPy's complex ordering: lexicographic on (re, im) -/
def lt (a b : GRat) : Bool := a.re < b.re || (a.re == b.re && a.im < b.im)
def smul (q : Rat) (a : GRat) : GRat := ⟨q * a.re, q * a.im⟩
def toStr (a : GRat) : String :=
  if a.im == 0 then toString a.re else toString a.re ++ "," ++ toString a.im
end GRat

def ratAbs (q : Rat) : Rat := if q < 0 then -q else q

end Dnp
