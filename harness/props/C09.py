"""C09 — Fourier transform pair: exact DFT, calibrated axis, exact inverse."""
import random
from gen import *
from gen_proc import *
from oracles import FourierOracle, ConsistencyOracle
from propbase import StreamProperty

RULE = ("fourier_transform / inverse_fourier_transform for every length n in a tier-dependent set (quick: 2..12 and "
        "{15,16,17,31,32,33}; thorough: every n in 2..64 plus {127,128,129,255,256,257}), zero-fill factors 1-3, shift "
        "on/off, ppm conversion on/off, the transformed dimension in every position of 1-3-D objects, random complex "
        "signals; correspondence with the Lean DFT model (twiddle table as parameter) and, on the real code, a direct "
        "O(n^2) DFT, on-grid tones at bins {0,1,N/2,(N-1)/2,N-1}, the exact axis spacing, linearity, renaming and the "
        "round trip; non-trivial = odd length or zero-fill > 1 or dimension not first")


def lengths(tier):
    if tier == "quick":
        return list(range(2, 13)) + [15, 16, 17, 31, 32, 33]
    return list(range(2, 65)) + [127, 128, 129, 255, 256, 257]


def streams(tier, seed):
    rng = random.Random(seed * 7919 + 9)
    out = []
    att = {"nmr_frequency": "400000000"}; datt = {"frequency": "400000000"}
    for n in lengths(tier):
        for shift in (True, False):
            zff = rng.choice([1, 1, 2, 3]) if n <= 64 else 1
            conv = rng.random() < 0.5
            # dwell times that are and are not binary fractions (0.1 s, 1 ms, 25 us are not exact doubles)
            dt = Fraction(1, rng.choice([1, 2, 8, 1024, 10, 1000, 40000, 3]))
            # the time axis need not start at zero (acquisition delay, leading points cut off)
            x0 = rng.choice([Fraction(0), Fraction(0), dt * 8, Fraction(3, 2), -dt * 2])
            a = uniform_new(rng, 0, ["t2"], [n], "t2", x0=x0, dt=dt, cplx=True, attrs=dict(att), dattrs=dict(datt),
                            rand_values=True)
            style = [None, "np", "int"][(n + int(shift)) % 3]     # the flags as builtin bool, numpy.bool_, 0/1
            out.append([a, op_ft(a, "t2", zff=zff, shift=shift, convert=conv, ppm=400000000 if conv else None, style=style)])
            b = uniform_new(rng, 0, ["f2"], [n], "f2", x0=Fraction(-n // 2), dt=Fraction(1, 4), cplx=True, attrs=dict(att),
                            dattrs=dict(datt), rand_values=True)
            out.append([b, op_ft(b, "f2", zff=1, shift=shift, convert=conv, inverse=True, ppm=400000000 if conv else None,
                              style=style)])
    # a DESCENDING axis (negative step): the forward transform of a signal on t = 0, -dt, -2dt, …, and the inverse transform of a
    # spectrum stored high-to-low — the reconstructed axis keeps the sign of the step
    for n in (4, 5, 8, 9):
        for shift in (True, False):
            dtn = -Fraction(1, rng.choice([2, 8, 10]))
            a = uniform_new(rng, 0, ["t2"], [n], "t2", x0=Fraction(0), dt=dtn, cplx=True, attrs=dict(att), dattrs=dict(datt), rand_values=True)
            f1 = op_ft(a, "t2", zff=1, shift=shift)
            out.append([a, f1, dict(op_ft(a, "f2", zff=1, shift=shift, inverse=True, out=2, n_in=n), obj=1)])
            b = uniform_new(rng, 0, ["f2"], [n], "f2", x0=Fraction(n // 2), dt=-Fraction(1, 4), cplx=True, attrs=dict(att), dattrs=dict(datt),
                            rand_values=True)
            out.append([b, op_ft(b, "f2", zff=1, shift=shift, inverse=True)])
    # N-D: the transformed dimension in every position
    for _ in range(1 if tier == "quick" else 4):
        for dims, shape, dim in shapes_with_dim_everywhere(rng, (2, 3), lo=2, hi=6):
            dims = [("t%d" % (j + 1)) for j in range(len(dims))]
            rng.shuffle(dims)
            dim = dims[shape.index(shape[0])] if False else dims[rng.randrange(len(dims))]
            a = uniform_new(rng, 0, dims, shape, dim, dt=Fraction(1, 4), cplx=True, rand_values=True)
            for shift in (True, False):
                out.append([a, op_ft(a, dim, zff=rng.choice([1, 2]), shift=shift)])
    return out


P = StreamProperty("C09", [FourierOracle, ConsistencyOracle], streams, RULE, ("C09",),
                   lambda ops: ops[0]["shape"][ops[0]["dims"].index(ops[-1]["kw"]["dim"])] % 2 == 1 or ops[-1]["kw"]["zff"] > 1
                   or ops[0]["dims"][0] != ops[-1]["kw"]["dim"])
replay = P.replay


def sequence_oracle(tier, seed):
    """transforms applied one after another to the same object (2-D: t2 then t1; forward, inverse, forward again), with the
    spectrometer frequency held the way each source leaves it — Python float, NumPy scalar, 0-d array, 1-element array (an HDF5
    round trip gives arrays): every kind gives the same result, every axis is k/(N dt) − shift (in ppm when converted), the
    inverse restores values and time axis, and the stored frequency is still the number that was given"""
    import warnings
    from common import np, dnp
    rng = random.Random(seed * 7919 + 909)
    fails, n_eval = [], 0
    # the spectrometer frequency over the range instruments have: high field, low field, Earth's field (kHz), EPR (GHz), one drawn
    for F0 in (400.0e6, 14.8e6, 2.0e3, 9.4e9, float(10 ** rng.uniform(3.0, 10.0))):
      kinds = {"float": lambda: F0, "np.float64": lambda: np.float64(F0), "array0d": lambda: np.array(F0), "array1": lambda: np.array([F0])}
      for n2, n1 in ((7, 12), (8, 5)):
          dt2, dt1 = 1.0e-3, 2.5e-4
          vals = (np.arange(n2 * n1, dtype=float).reshape(n2, n1) % 7 - 3.0) + 1j * (np.arange(n2 * n1, dtype=float).reshape(n2, n1) % 5 - 2.0)
          for ppm in (True, False):
              ref = None
              for kname, mk in kinds.items():
                  d = dnp.DNPData(vals.copy(), ["t2", "t1"], [np.arange(n2) * dt2, np.arange(n1) * dt1],
                                  attrs={"nmr_frequency": mk()}, dnplab_attrs={"frequency": mk()})
                  n_eval += 1
                  try:
                      with warnings.catch_warnings():
                          warnings.simplefilter("ignore")
                          a = dnp.fourier_transform(d, "t2", convert_to_ppm=ppm)
                          b = dnp.fourier_transform(a, "t1", convert_to_ppm=ppm)
                          back = dnp.inverse_fourier_transform(dnp.inverse_fourier_transform(b, "f1", convert_from_ppm=ppm), "f2", convert_from_ppm=ppm)
                          again = dnp.fourier_transform(back, "t2", convert_to_ppm=ppm)
                  except Exception as e:  # noqa: BLE001
                      key = "C09:transform-sequence-raises:" + kname
                      fails.append({"key": key, "clause": key, "ops": [{"frequency": F0, "frequency_kind": kname, "ppm": ppm, "error": type(e).__name__}]}); continue
                  sig = "%s:%s:%s" % (kname, "ppm" if ppm else "hz", "F0<1e4" if F0 < 1e4 else "F0<1e8" if F0 < 1e8 else "F0>=1e8")
                  want = np.fft.fftshift(np.fft.fft2(vals))
                  f2 = (np.arange(n2) / (n2 * dt2) - (n2 // 2) / (n2 * dt2)) / (F0 / 1e6 if ppm else 1.0)
                  f1 = (np.arange(n1) / (n1 * dt1) - (n1 // 2) / (n1 * dt1)) / (F0 / 1e6 if ppm else 1.0)
                  ok = (list(b.dims) == ["f2", "f1"] and np.allclose(b.values, want, rtol=1e-9, atol=1e-9)
                        and np.allclose(b.coords["f2"], f2, rtol=1e-9, atol=1e-9 * np.abs(f2).max()) and np.allclose(b.coords["f1"], f1, rtol=1e-9, atol=1e-9 * np.abs(f1).max()))
                  if not ok:
                      key = "C09:second-transform-wrong:" + sig
                      fails.append({"key": key, "clause": key, "ops": [{"frequency": F0, "frequency_kind": kname, "ppm": ppm, "shape": [n2, n1]}]})
                  if not (list(back.dims) == ["t2", "t1"] and np.allclose(back.values, vals, rtol=1e-9, atol=1e-9)
                          and np.allclose(back.coords["t2"], np.arange(n2) * dt2, rtol=1e-9, atol=1e-15)
                          and np.allclose(back.coords["t1"], np.arange(n1) * dt1, rtol=1e-9, atol=1e-15)):
                      key = "C09:inverse-of-sequence-wrong:" + sig
                      fails.append({"key": key, "clause": key, "ops": [{"frequency": F0, "frequency_kind": kname, "ppm": ppm}]})
                  if not (np.allclose(again.values, a.values, rtol=1e-9, atol=1e-9) and np.allclose(again.coords["f2"], a.coords["f2"], rtol=1e-9, atol=1e-9 * np.abs(f2).max())):
                      key = "C09:forward-after-inverse-differs:" + sig
                      fails.append({"key": key, "clause": key, "ops": [{"frequency": F0, "frequency_kind": kname, "ppm": ppm}]})
                  for obj, nm in ((d, "input"), (a, "first-result"), (b, "second-result"), (again, "last-result")):
                      for store in (obj.attrs.get("nmr_frequency"), obj.dnplab_attrs.get("frequency")):
                          if store is not None and not np.allclose(np.asarray(store, dtype=float), F0, rtol=1e-12):
                              key = "C09:stored-frequency-changed:%s:%s" % (nm, kname)
                              fails.append({"key": key, "clause": key, "ops": [{"frequency": F0, "frequency_kind": kname, "ppm": ppm, "stored": np.asarray(store).tolist()}]})
    seen, uniq = set(), []
    for f in fails:
        if f["key"] not in seen:
            seen.add(f["key"]); uniq.append(f)
    return uniq, n_eval


def run(tier, seed, escalate=False):
    from oracles import merge_oracle as _merge
    res = P.run(tier, seed, escalate)
    f, n = sequence_oracle(tier, seed)
    return _merge(res, f, n, "transform_sequences")


# ------------------------------------------------------------------ the same numbers stored in another dtype
from oracles import dtype_independence, merge_oracle, history_independence
from common import np, dnp
DTYPE_CASES = [("fourier_transform", lambda d, dim: dnp.fourier_transform(d, dim), "t2"),
    ("fourier_transform-noshift-zf2", lambda d, dim: dnp.fourier_transform(d, dim, zero_fill_factor=2, shift=False), "t2"),
    ("fourier_transform-ppm-noshift", lambda d, dim: dnp.fourier_transform(d, dim, shift=False, convert_to_ppm=True), "t2"),
    ("fourier_transform-hz-noshift", lambda d, dim: dnp.fourier_transform(d, dim, shift=False, convert_to_ppm=False), "t2"),
    ("inverse_fourier_transform", lambda d, dim: dnp.inverse_fourier_transform(d, dim), "f2"),
    ("roundtrip", lambda d, dim: dnp.inverse_fourier_transform(dnp.fourier_transform(d, dim), "f2"), "t2")]
_run_before_dtype = run


def run(tier, seed, escalate=False):
    """… plus: integer / single-precision / complex storage of the values and integer / unsigned / single-precision storage of
    the processed axis give the result of the float64 object (a dtype the function refuses is not judged)"""
    res = _run_before_dtype(tier, seed, escalate)
    f, n = dtype_independence("C09", DTYPE_CASES, seed, dim_positions=(1,) if tier == "quick" and not escalate else (0, 1, 2))
    res = merge_oracle(res, f, n, "storage_dtype_variants")
    f, n = history_independence("C09", DTYPE_CASES, seed)
    return merge_oracle(res, f, n, "call_history_cases")


# ------------------------------------------------------------------ the same argument values in another container / number type
from oracles import argform_independence
ARGFORM_CASES = [("ft-flags", "t2", [(lab, (lambda s, c: lambda d, dim: dnp.fourier_transform(d, dim, shift=s, convert_to_ppm=c))(s, c)) for lab, s, c in (
        ("bool", True, False), ("numpy-bool", np.bool_(True), np.bool_(False)), ("ints", 1, 0))]),
    ("ft-zero-fill", "t2", [(lab, (lambda z: lambda d, dim: dnp.fourier_transform(d, dim, zero_fill_factor=z))(z)) for lab, z in (
        ("int", 2), ("numpy-int", np.int64(2)), ("numpy-int32", np.int32(2)))])]
_run_before_argform = run


def run(tier, seed, escalate=False):
    """… plus: sequence arguments as tuple / list / ndarray, numbers as Python / NumPy scalars, flags as bool / numpy.bool_ / 0-1"""
    res = _run_before_argform(tier, seed, escalate)
    f, n = argform_independence("C09", ARGFORM_CASES, seed)
    return merge_oracle(res, f, n, "argument_form_variants")
