"""C18 — fits recover model parameters and label them; lineshapes are normalised."""
import random, struct, warnings
from fractions import Fraction
from gen import *
from gen_proc import *
from oracles import ConsistencyOracle, label_dict
from propbase import StreamProperty
from common import np, dnp, run_model

RULE = ("fit on noise-free data generated from every shipped model (mono/bi-exponential, T1 recovery, T2 decay, build-up, "
        "Gaussian, Lorentzian, Voigt) with parameter vectors differing per trace, 1-3-D objects with the fitted dimension in "
        "every position, the fitted axis ascending, descending or unordered, fit_points given or not: (a) placement of the per-trace parameters — correspondence of fit()['popt'] "
        "with the Lean model fed the solver's own per-trace outputs; (b) on the real code: parameters recovered per label, "
        "fitted curve = model(popt) on the requested grid, dims/coords of popt; (c) lineshapes: Lean Float evaluation of the "
        "Gaussian/Lorentzian formulas vs dnplab.math.lineshape, numerical area = integral argument, symmetry, Voigt limits, "
        "derivative variants vs numerical derivative, widths over three decades; non-trivial = >=2 dims and dimension not first")


def lin(x, a, b):
    return a * x + b


def streams(tier, seed):
    """placement: popt of a linear model (exactly solvable) on integer-valued traces"""
    rng = random.Random(seed * 7919 + 18)
    from scipy.optimize import curve_fit
    out = []
    reps = 1 if tier == "quick" else 5
    for _ in range(reps):
        for dims, shape, dim in shapes_with_dim_everywhere(rng, (1, 2, 3), lo=4, hi=7):
            a = uniform_new(rng, 0, dims, shape, dim, x0=Fraction(0), dt=Fraction(1, 2), cplx=False, rand_values=True)
            x = coord_of(a, dim)
            table = []
            for tr in traces_of(a, dim):
                popt = curve_fit(lin, x, tr, p0=(1.0, 0.0))[0]
                table.append([glist(tr), glist(popt)])
            out.append([a, {"op": "proc", "f": "fit_popt", "obj": 0, "out": 1, "kw": {"dim": dim, "table": table, "np": 2}}])
    return out


def impl_fit(d, kw):
    return dnp.fit(lin, d, kw["dim"], (1.0, 0.0))["popt"]


MODELS = None


def models():
    from dnplab.math import relaxation as R, lineshape as LS
    x_t = np.geomspace(0.01, 5.0, 40)         # log-spaced delays, the usual T1 / T2 list: NOT an equally spaced grid
    x_f = np.linspace(-20.0, 20.0, 161)
    return [
        ("t1", R.t1, x_t, [(1.2, -3.0, 3.0), (0.7, -5.0, 5.5), (2.5, 0.0, 1.0)], (1.0, -1.0, 1.0)),
        ("t2", R.t2, x_t, [(3.0, 1.2, 1.0), (5.0, 0.7, 1.0)], (1.0, 1.0, 1.0)),
        ("general_exp", R.general_exp, x_t, [(1.0, 2.0, 1.5), (0.5, 3.0, 0.8)], (0.1, 1.0, 1.0)),
        ("general_biexp", R.general_biexp, x_t, [(0.5, 2.0, 0.3, 1.0, 2.0), (0.1, 1.0, 0.2, 3.0, 1.5)], (0.3, 1.5, 0.25, 1.5, 1.8)),
        ("buildup", R.buildup_function, np.linspace(0.0, 2.0, 25), [(30.0, 0.3), (12.0, 0.8)], (10.0, 0.5)),
        ("gaussian", LS.gaussian, x_f, [(1.5, 2.0, 3.0), (-4.0, 1.0, 1.0)], (0.0, 1.5, 1.0)),
        # narrow lines many widths apart, each reachable from the caller's start values but not from the other's optimum
        ("gaussian-far-apart", LS.gaussian, x_f, [(-6.0, 0.8, 2.0), (6.0, 0.8, 2.0), (-6.0, 0.8, 1.0)], (0.0, 4.0, 1.0)),
        ("lorentzian", LS.lorentzian, x_f, [(1.5, 2.0, 3.0), (-4.0, 1.0, 1.0)], (0.0, 1.5, 1.0)),
        ("voigtian", LS.voigtian, x_f, [(1.5, 2.0, 1.0, 3.0), (-2.0, 1.0, 2.0, 1.0)], (0.0, 1.5, 1.5, 1.0)),
    ]


def fit_placement_3d(pid):
    """fit on 3-D data: parameters differ along BOTH remaining dimensions, the fitted dimension in every position"""
    fails, n_eval = [], 0
    # two remaining dimensions: parameters differ along BOTH, the fitted dimension sits in every position
    lin = lambda x, a, b: a * x + b
    xs = np.linspace(0.0, 2.0, 9)
    A, B = 3, 4
    pa = np.array([[1.0 + ia + 10.0 * ib for ib in range(B)] for ia in range(A)])       # slope at label (ia, ib)
    pb = np.array([[-2.0 + 0.5 * ia - 3.0 * ib for ib in range(B)] for ia in range(A)])  # offset at label (ia, ib)
    cube = pa[None, :, :] * xs[:, None, None] + pb[None, :, :]                            # (t, a, b)
    for pos in (0, 1, 2):
        order = [1, 2]; order.insert(pos, 0)                     # where 't' goes among ('a', 'b')
        names = ["t", "a", "b"]
        dims = [names[k] for k in order]
        vals = np.transpose(cube, order)
        coords = [{"t": xs, "a": np.arange(A) * 1.0 + 7, "b": np.arange(B) * 2.0 - 1}[d] for d in dims]
        d = dnp.DNPData(vals.copy(), dims, coords)
        n_eval += 1
        try:
            with warnings.catch_warnings():
                warnings.simplefilter("ignore")
                out = dnp.fit(lin, d, "t", (0.5, 0.5))
        except Exception as e:  # noqa: BLE001
            key = "%s:fit-raises:3d:pos%d" % (pid, pos)
            fails.append({"key": key, "clause": key, "ops": [{"dim_pos": pos, "error": type(e).__name__}]}); continue
        po = out["popt"]
        ok = list(po.dims)[0] == "popt" and set(po.dims[1:]) == {"a", "b"}
        if ok:
            ia_ax, ib_ax = list(po.dims).index("a"), list(po.dims).index("b")
            got = np.moveaxis(np.asarray(po.values), [0, ia_ax, ib_ax], [0, 1, 2])
            ok = got.shape == (2, A, B) and np.allclose(got[0], pa, rtol=1e-6, atol=1e-8) and np.allclose(got[1], pb, rtol=1e-6, atol=1e-8) \
                and np.array_equal(po.coords["a"], np.arange(A) * 1.0 + 7) and np.array_equal(po.coords["b"], np.arange(B) * 2.0 - 1)
        if not ok:
            key = "%s:popt-labels:3d:pos%d" % (pid, pos)
            fails.append({"key": key, "clause": key, "ops": [{"dim_pos": pos, "dims": list(po.dims), "shape": list(po.shape)}]})
    return fails, n_eval


def recovery_oracle(tier, seed):
    """noise-free data from every model, per-trace parameters, dim in every position"""
    rng = random.Random(seed * 7919 + 118)
    fails, n_eval = [], 0
    for name, f, x0, plist, p0 in models():
      # the fitted axis as acquired: ascending, descending (a long-to-short delay list), or in no order at all
      for order in ("asc", "desc", "shuffled"):
        x = x0 if order == "asc" else (x0[::-1].copy() if order == "desc" else np.random.RandomState(seed + 5).permutation(x0))
        for pos in ((0, 1) if order == "asc" else (1,)):
            for fit_points in ((None, 55, len(x)) if order == "asc" else (None, 55)):
                m = len(plist)
                mat = np.stack([f(x, *p) for p in plist], axis=1)        # (n, m)
                vals = mat if pos == 0 else mat.T
                dims = ["t", "k"] if pos == 0 else ["k", "t"]
                kc = np.arange(m) * 10.0 + 5.0
                coords = [x, kc] if pos == 0 else [kc, x]
                d = dnp.DNPData(vals.copy(), dims, coords)
                n_eval += 1
                try:
                    with warnings.catch_warnings():
                        warnings.simplefilter("ignore")
                        out = dnp.fit(f, d, "t", p0, fit_points=fit_points)
                except Exception as e:  # noqa: BLE001
                    key = "C18:fit-raises:%s:pos%d" % (name, pos)
                    fails.append({"key": key, "clause": key, "ops": [{"model": name, "dim_pos": pos, "error": type(e).__name__}]}); continue
                po = out["popt"]
                if list(po.dims) != ["popt", "k"] or not np.array_equal(po.coords["k"], kc) or po.shape != (len(p0), m):
                    key = "C18:popt-labels:pos%d" % pos
                    fails.append({"key": key, "clause": key, "ops": [{"model": name, "dims": list(po.dims), "shape": list(po.shape)}]}); continue
                want = np.array(plist).T
                if not np.allclose(po.values, want, rtol=1e-4, atol=1e-6):
                    key = "C18:parameters-not-recovered:%s:pos%d%s" % (name, pos, "" if order == "asc" else ":" + order)
                    fails.append({"key": key, "clause": key, "ops": [{"model": name, "got": po.values.tolist(), "want": want.tolist()}]})
                fo = out["fit"]
                grid = np.asarray(fo.coords["t"])
                k_ax = list(fo.dims).index("t")
                # the grid of the fitted curve: the data axis when fit_points is None, else fit_points equally spaced points
                # from min to max of the axis
                want_grid = np.asarray(x) if fit_points is None else np.linspace(np.min(x), np.max(x), fit_points)
                ok = list(fo.dims) == dims and len(grid) == len(want_grid) and np.allclose(grid, want_grid, rtol=1e-12, atol=1e-15)
                for j in range(m):
                    curve = np.take(np.asarray(fo.values), j, axis=1 - k_ax)
                    if not np.allclose(curve, f(grid, *po.values[:, j]), rtol=1e-9, atol=1e-12):
                        ok = False
                if not ok:
                    key = "C18:fit-curve:%s:pos%d%s" % (name, pos, "" if order == "asc" else ":" + order)
                    fails.append({"key": key, "clause": key, "ops": [{"model": name, "dim_pos": pos, "fit_points": fit_points}]})
    f3, n3 = fit_placement_3d("C18")
    fails += f3; n_eval += n3
    return fails, n_eval


def lineshape_checks(tier, seed):
    from dnplab.math import lineshape as LS
    rng = random.Random(seed * 7919 + 218)
    fails, mism, n_eval = [], [], 0
    widths = [0.05, 0.2, 1.0, 5.0, 20.0, 50.0]
    ops, wants = [], []
    for w in widths:
        for x0 in (0.0, -3.5, 12.0):
            for integ in (1.0, 2.5):
                xs = [Fraction(int(round((x0 + t * w) * 1024)), 1024) for t in (-6, -2.5, -1, -0.25, 0, 0.25, 1, 2.5, 6)]
                xf = np.array([float(v) for v in xs])
                wq, x0q, iq = Fraction(w).limit_denominator(1 << 20), Fraction(x0), Fraction(integ)
                for kind, fn in (("gaussian", lambda x: LS.gaussian(x, float(x0q), float(wq), float(iq))),
                                 ("lorentzian", lambda x: LS.lorentzian(x, float(x0q), float(wq), float(iq))),
                                 ("lorentzian_deriv", lambda x: LS.lorentzian(x, float(x0q), float(wq), float(iq), deriv=True))):
                    ops.append({"op": "lineshape", "kind": kind, "x": [str(v) for v in xs], "x0": str(x0q), "width": str(wq), "integral": str(iq)})
                    wants.append(fn(xf))
                # properties on the real code
                n_eval += 1
                grid = np.linspace(x0 - 4000 * w, x0 + 4000 * w, 2_000_001)
                for nm, y in (("gaussian", LS.gaussian(np.linspace(x0 - 12 * w, x0 + 12 * w, 20001), x0, w, integ)),):
                    area = np.trapz(y, np.linspace(x0 - 12 * w, x0 + 12 * w, 20001))
                    if abs(area - integ) > 1e-6 * integ:
                        fails.append({"key": "C18:area:gaussian", "clause": "C18:area:gaussian", "ops": [{"w": w, "x0": x0, "area": area}]})
                yl = LS.lorentzian(grid, x0, w, integ)
                area = np.trapz(yl, grid) + 2 * integ * w / (np.pi * 4000 * w)      # analytic tail correction
                if abs(area - integ) > 2e-5 * integ:
                    fails.append({"key": "C18:area:lorentzian", "clause": "C18:area:lorentzian", "ops": [{"w": w, "x0": x0, "area": area}]})
                t = np.linspace(0, 8 * w, 50)
                for nm, fn2 in (("gaussian", lambda x: LS.gaussian(x, x0, w, integ)), ("lorentzian", lambda x: LS.lorentzian(x, x0, w, integ)),
                                ("voigtian", lambda x: LS.voigtian(x, x0, w, w / 2, integ))):
                    if not np.allclose(fn2(x0 + t), fn2(x0 - t), rtol=1e-9, atol=1e-300):
                        fails.append({"key": "C18:symmetry:" + nm, "clause": "C18:symmetry:" + nm, "ops": [{"w": w, "x0": x0}]})
                xg = np.linspace(x0 - 10 * w, x0 + 10 * w, 4001)
                yv = LS.voigtian(xg, x0, w, w / 2, integ)
                av = np.trapz(yv, xg)
                # Voigt limits
                if not np.allclose(LS.voigtian(xg, x0, w, 1e-9 * w, integ), LS.gaussian(xg, x0, w, integ), rtol=1e-5, atol=1e-9 * integ / w):
                    fails.append({"key": "C18:voigt-gaussian-limit", "clause": "C18:voigt-gaussian-limit", "ops": [{"w": w, "x0": x0}]})
                # the EXACT Gaussian limit (Lorentzian width zero), for every integral argument
                with np.errstate(all="ignore"):
                    v0 = LS.voigtian(xg, x0, w, 0.0, integ)
                if np.all(np.isfinite(v0)) and not np.allclose(v0, LS.gaussian(xg, x0, w, integ), rtol=1e-9, atol=1e-12 * integ / w):
                    fails.append({"key": "C18:voigt-gaussian-limit-exact", "clause": "C18:voigt-gaussian-limit-exact", "ops": [{"w": w, "x0": x0, "integral": integ}]})
                if not np.allclose(LS.voigtian(xg, x0, 1e-4 * w, w, integ), LS.lorentzian(xg, x0, w, integ), rtol=1e-4, atol=1e-7 * integ / w):
                    fails.append({"key": "C18:voigt-lorentzian-limit", "clause": "C18:voigt-lorentzian-limit", "ops": [{"w": w, "x0": x0}]})
                # derivative variants vs numerical derivative
                h = w * 1e-5
                xm = np.linspace(x0 - 5 * w, x0 + 5 * w, 41)
                numd = (LS.lorentzian(xm + h, x0, w, integ) - LS.lorentzian(xm - h, x0, w, integ)) / (2 * h)
                if not np.allclose(LS.lorentzian(xm, x0, w, integ, deriv=True), numd, rtol=1e-5, atol=1e-8 * integ / w ** 2):
                    fails.append({"key": "C18:lorentzian-derivative", "clause": "C18:lorentzian-derivative", "ops": [{"w": w, "x0": x0}]})
                numv = (LS.voigtian(xm + h, x0, w, w / 2, integ) - LS.voigtian(xm - h, x0, w, w / 2, integ)) / (2 * h)
                if not np.allclose(LS.voigtian(xm, x0, w, w / 2, integ, deriv=True), numv, rtol=1e-4, atol=1e-7 * integ / w ** 2):
                    fails.append({"key": "C18:voigtian-derivative", "clause": "C18:voigtian-derivative", "ops": [{"w": w, "x0": x0}]})
    outs, _ = run_model(ops)
    for op, o, w in zip(ops, outs, wants):
        n_eval += 1
        got = np.array([struct.unpack("<d", struct.pack("<Q", int(b)))[0] for b in o.get("bits", [])])
        if o.get("outcome") != "ok" or got.shape != np.asarray(w).shape or not np.allclose(got, w, rtol=1e-11, atol=1e-300):
            mism.append({"diffs": ["lineshape-formula:" + op["kind"]], "ops": [op], "stream": -1, "explained_by_known": False})
    return fails, mism, n_eval


class FitProperty(StreamProperty):
    pass


def _patch_impl():
    """teach the real-code runner the fit_popt op"""
    import implstore
    orig = implstore.ImplStore._proc
    def _proc(self, f, d, kw):
        if f == "fit_popt":
            return impl_fit(d, kw)
        return orig(self, f, d, kw)
    implstore.ImplStore._proc = _proc


_patch_impl()
P = StreamProperty("C18", [ConsistencyOracle], streams, RULE, ("C18",),
                   lambda ops: len(ops[0]["dims"]) >= 2 and ops[-1]["kw"]["dim"] != ops[0]["dims"][0])


def grid_correspondence(tier, seed):
    """the grid of the fitted curve: Lean `fitGrid` (the definition the C18 grid theorems are about) vs fit()['fit'].coords"""
    from fractions import Fraction
    from common import rstr
    rng = random.Random(seed * 7919 + 218)
    lin = lambda x, a, b: a * x + b
    ops, got, bad = [], [], []
    axes = [np.linspace(0.0, 3.0, 7), np.geomspace(0.01, 5.0, 9), np.linspace(4.0, -2.0, 6), np.array([0.5, 0.1, 2.0, 1.0, 3.5])]
    for x in axes:
        for fp in (None, 2, 5, len(x), 17):
            d = dnp.DNPData(2.0 * x + 1.0, ["t"], [x.copy()])
            with warnings.catch_warnings():
                warnings.simplefilter("ignore")
                out = dnp.fit(lin, d, "t", (1.0, 0.0), fit_points=fp)
            ops.append(dict({"op": "fitgrid", "coord": [rstr(v) for v in x]}, **({} if fp is None else {"fit_points": fp})))
            got.append(np.asarray(out["fit"].coords["t"], dtype=float))
            if not np.allclose(np.asarray(out["popt"].values).reshape(-1), [2.0, 1.0], rtol=1e-7, atol=1e-9):
                bad.append({"diffs": ["straight-line-not-recovered"], "ops": [ops[-1]], "stream": -1, "explained_by_known": False})
    outs, _ = run_model(ops)
    for op, o, g in zip(ops, outs, got):
        if o.get("outcome") != "ok":
            bad.append({"diffs": [o.get("outcome")], "ops": [op], "stream": -1, "explained_by_known": False}); continue
        m = np.array([float(Fraction(v)) for v in o["grid"]])
        if m.shape != g.shape or not np.allclose(m, g, rtol=1e-12, atol=1e-15):
            bad.append({"diffs": ["fit-grid"], "ops": [op], "stream": -1, "explained_by_known": False})
    return len(ops), bad


def run(tier, seed, escalate=False):
    res = P.run(tier, seed, escalate)
    ng, mg = grid_correspondence(tier, seed)
    res["mismatches"] += mg
    res["evaluations"] += ng
    f1, n1 = recovery_oracle(tier, seed)
    f2, m2, n2 = lineshape_checks(tier, seed)
    seen = {f["key"] for f in res["impl_failures"]}
    for f in f1 + f2:
        if f["key"] not in seen:
            seen.add(f["key"]); res["impl_failures"].append(f)
    res["mismatches"] += m2
    res["evaluations"] += n1 + n2
    res["unproved_clauses"] = ["that scipy.optimize.curve_fit recovers the generating parameters (external optimiser): oracle only",
                               "every clause about the Voigt profile (scipy.special.wofz): oracle only",
                               "the Lorentzian area over R is checked numerically (the Gaussian area is a theorem)"]
    return res


replay = P.replay


# ------------------------------------------------------------------ the same numbers stored in another dtype
from oracles import dtype_independence, merge_oracle, history_independence
from common import np, dnp
from dnplab.math import relaxation as _R
DTYPE_CASES = [("fit-t1", lambda d, dim: dnp.fit(_R.t1, d, dim, (1.0, -3.0, 3.0)), "t2"),
    ("fit-general_exp", lambda d, dim: dnp.fit(_R.general_exp, d, dim, (0.0, 2.0, 5.0)), "t2"),
    ("fit-t1-grid", lambda d, dim: dnp.fit(_R.t1, d, dim, (1.0, -3.0, 3.0), fit_points=11), "t2"),
    ("fit-line", lambda d, dim: dnp.fit(lambda x, a, b: a * x + b, d, dim, (1.0, 0.0)), "t2")]
_run_before_dtype = run


def run(tier, seed, escalate=False):
    """… plus: integer / single-precision / complex storage of the values and integer / unsigned / single-precision storage of
    the processed axis give the result of the float64 object (a dtype the function refuses is not judged)"""
    res = _run_before_dtype(tier, seed, escalate)
    f, n = dtype_independence("C18", DTYPE_CASES, seed, dim_positions=(1,) if tier == "quick" and not escalate else (0, 1, 2))
    res = merge_oracle(res, f, n, "storage_dtype_variants")
    f, n = history_independence("C18", DTYPE_CASES, seed)
    return merge_oracle(res, f, n, "call_history_cases")


# ------------------------------------------------------------------ the same argument values in another container / number type
from oracles import argform_independence
ARGFORM_CASES = [("fit-p0", "t2", [(lab, (lambda p: lambda d, dim: dnp.fit(_R.t1, d.real, dim, p))(p)) for lab, p in (
        ("tuple", (1.0, -3.0, 3.0)), ("list", [1.0, -3.0, 3.0]), ("array", np.array([1.0, -3.0, 3.0])), ("ints", (1, -3, 3)))]),
    ("fit-points", "t2", [(lab, (lambda k: lambda d, dim: dnp.fit(_R.t1, d.real, dim, (1.0, -3.0, 3.0), fit_points=k))(k)) for lab, k in (
        ("int", 11), ("numpy-int", np.int64(11)))])]
_run_before_argform = run


def run(tier, seed, escalate=False):
    """… plus: sequence arguments as tuple / list / ndarray, numbers as Python / NumPy scalars, flags as bool / numpy.bool_ / 0-1"""
    res = _run_before_argform(tier, seed, escalate)
    f, n = argform_independence("C18", ARGFORM_CASES, seed)
    return merge_oracle(res, f, n, "argument_form_variants")
