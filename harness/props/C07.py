"""C07 — HDF5 save followed by load returns the same object."""
import random, tempfile, shutil, os, glob, warnings
from h5harness import *
from common import REPO

RULE = ("objects with 1-4 dimensions, six numeric dtypes, unicode / spaced dimension names, attribute dictionaries drawn from "
        "the value grammar (numbers, strings, booleans, None, lists / tuples / arrays of numbers or strings), histories of "
        "0-30 steps with parameters from the same grammar, workspaces of 1-4 entries, and every shipped sample file that "
        "imports; each case is saved and loaded by the real code, the real file is dumped through h5py and compared with the "
        "Lean model's tree, the loaded object with the model's load(save(x)), and (model-independent) with x itself; "
        "non-trivial = history longer than 10, or a None / sequence / array attribute, or a workspace")


def eq_roundtrip(src, loaded):
    """the property itself: loaded == saved, field by field (containers one class, numbers numeric)"""
    want = {"dtype": src["dtype"], "shape": src["shape"], "data": src["data"], "dims": src["dims"], "coords": src["coords"],
            "attrs": {k: strip_flags(v if v["t"] != "ndarr" else {"t": "seq", "v": v["v"]}) for k, v in src["attrs"]},
            "dattrs": {k: strip_flags(v if v["t"] != "ndarr" else {"t": "seq", "v": v["v"]}) for k, v in src["dattrs"]},
            "hist": [[n, {k: strip_flags(v if v["t"] != "ndarr" else {"t": "seq", "v": v["v"]}) for k, v in ps}] for n, ps in src["hist"]]}
    bad = [k for k in want if not num_eq(want[k], loaded.get(k))]
    return bad


def cases(tier, seed):
    rng = random.Random(seed * 7919 + 7)
    out = []
    n = 40 if tier == "quick" else 400
    for i in range(n):
        o = rand_obj(rng, hist=rng.choice([0, 1, 3, 11, 12, 30]) if i % 4 == 0 else None)
        out.append({"single": o, "overwrite": True})
    for dt in DTYPES:
        for nd in (1, 2, 3, 4):
            out.append({"single": rand_obj(rng, nd=nd, dtype=dt), "overwrite": True})
    for _ in range(10 if tier == "quick" else 80):
        out.append({"ws": rand_ws(rng), "overwrite": True})
    # how the object came to hold its parts must not matter: every third object is built with other attributes / history that
    # are then replaced as a whole through the public setters (directly, on a copy, or copied afterwards)
    hows = ("setters", "copy-then-setters", "copy-after-setters")
    k = 0
    for c in out:
        objs = [c["single"]] if "single" in c else [e[1]["obj"] for e in c["ws"] if e[1].get("kind") == "data"]
        for o in objs:
            k += 1
            if k % 3 == 0:
                o["assembly"] = hows[(k // 3) % 3]
    return out


def sample_files(tier):
    """every shipped sample that imports: load(save(x)) == x on the real code"""
    base = os.path.join(REPO, "data")
    paths = [("topspin", "topspin/1"), ("topspin", "topspin/5"), ("prospa", "prospa/toluene_10mM_Tempone/1"),
             ("vnmrj", "vnmrj/10mM_tempol_in_water_mw_40dBm.fid"), ("specman", "specman/test_specman_1D.exp"),
             ("xepr", "bes3t/1D_CW.DSC"), ("xepr", "bes3t/2D_CW.DTA"), ("winepr", "parspc/ExampleCW.par"),
             ("delta", "delta/50percentCHCL3inCDCl3-1-4.jdf")]
    return [(f, os.path.join(base, p)) for f, p in paths if os.path.exists(os.path.join(base, p))]


def run(tier, seed, escalate=False):
    if escalate:
        tier = "thorough"
    cs = cases(tier, seed)
    work = tempfile.mkdtemp(prefix="verif_c07_")
    mism, fails = [], []
    try:
        impl = [impl_case(c, work) for c in cs]
        model = model_cases(cs)
        for c, i, m in zip(cs, impl, model):
            if m.get("outcome") != "ok":
                mism.append({"diffs": [m.get("outcome")], "ops": [c], "stream": -1, "explained_by_known": False}); continue
            md = m["disk"]
            diffs = []
            if bool(m["raised"]) != bool(i["raised"]):
                diffs.append("raised:%s!=%s" % (m["raised"], i["raised"]))
            elif not m["raised"]:
                if not i["loads"]:
                    diffs.append("impl-does-not-load:" + str(i.get("load_error")))
                else:
                    if not num_eq(md["tree"], i["tree"]):
                        diffs.append("tree")
                    if not num_eq(md["loaded"], i["loaded"]):
                        diffs.append("loaded")
            if diffs:
                mism.append({"diffs": diffs, "ops": [c], "model": md, "impl": {"tree": i["tree"], "loaded": i["loaded"]},
                             "stream": -1, "explained_by_known": False})
            # the property, directly on the real code
            if not i["raised"]:
                if not i["loads"]:
                    fails.append({"key": "C07:saved-file-does-not-load", "clause": "C07:saved-file-does-not-load", "ops": [c]})
                elif "single" in c:
                    bad = eq_roundtrip(c["single"], i["loaded"].get("single", {}))
                    if bad:
                        key = "C07:roundtrip-differs:" + "+".join(bad)
                        fails.append({"key": key, "clause": key, "ops": [c]})
                else:
                    got = i["loaded"].get("ws") or ({"__DNPDATA__": {"kind": "data", "obj": i["loaded"]["single"]}} if "single" in i["loaded"] else {})
                    for k, e in c["ws"]:
                        g = got.get(k)
                        if g is None or g["kind"] != e["kind"]:
                            fails.append({"key": "C07:workspace-entry-lost", "clause": "C07:workspace-entry-lost", "ops": [c]}); break
                        if e["kind"] == "data":
                            bad = eq_roundtrip(e["obj"], g["obj"])
                        else:
                            # containers are one class on the way back (list / tuple / array), as for the attributes of data objects
                            bad = [] if num_eq({kk: strip_flags(v if v["t"] != "ndarr" else {"t": "seq", "v": v["v"]}) for kk, v in e["kv"]},
                                               g["kv"]) else ["dict"]
                        if bad:
                            key = "C07:roundtrip-differs:ws:" + "+".join(bad)
                            fails.append({"key": key, "clause": key, "ops": [c]}); break
            else:
                key = "C07:storable-object-refused"
                fails.append({"key": key, "clause": key, "ops": [c]})
        # shipped samples through the real importers
        n_files = 0
        for fmt, p in sample_files(tier):
            with warnings.catch_warnings():
                warnings.simplefilter("ignore")
                try:
                    d = dnp.load(p, data_format=fmt)
                except Exception:
                    continue
                n_files += 1
                path = os.path.join(work, "sample.h5")
                try:
                    dnp.save(d, path, overwrite=True)
                    back = dnp.load(path)
                    a, b = canon_loaded_obj(d), canon_loaded_obj(back)
                    bad = [k for k in a if not num_eq(a[k], b[k])]
                except BaseException as e:  # noqa: BLE001
                    bad = ["raises:" + type(e).__name__]
                if bad:
                    key = "C07:importer-object-roundtrip:%s:%s" % (fmt, "+".join(bad))
                    fails.append({"key": key, "clause": key, "ops": [{"file": p, "format": fmt}]})
    finally:
        shutil.rmtree(work, ignore_errors=True)
    seen, uniq = set(), []
    for f in fails:
        if f["key"] not in seen:
            seen.add(f["key"]); uniq.append(f)
    nt = sum(1 for c in cs if "ws" in c or len(c["single"]["hist"]) > 10 or
             any(v["t"] in ("none", "seq", "ndarr") for _, v in c["single"]["attrs"]))
    return {"evaluations": len(cs) + n_files, "distinct_nontrivial": nt, "rule": RULE,
            "samples": [strip_flags(cs[0]), strip_flags(cs[-1])], "traces_validated": len(cs) - len(mism),
            "mismatches": mism, "impl_failures": uniq,
            "distribution": {"cases": len(cs), "sample_files": n_files,
                             "hist_lengths": sorted({len(c["single"]["hist"]) for c in cs if "single" in c})},
            "trusted_extra": ["h5py storage rules (attribute typing, track_order iteration, dimension scales) are L0: compared, not proved"]}


def replay(rp):
    c = rp["ops"][0]
    work = tempfile.mkdtemp(prefix="verif_c07_")
    try:
        i = impl_case(c, work)
        m = model_cases([c])[0]
    finally:
        shutil.rmtree(work, ignore_errors=True)
    return {"fails": not num_eq(m["disk"]["loaded"], i["loaded"]), "impl": i, "model": m}
