"""C20 — hydration analysis inverts its own forward model."""
import random, warnings, copy
from fractions import Fraction
from common import np, dnp, run_model, rstr
from dnplab.analysis import hydration as H

RULE = ("(a) calculate_tcorr(calculate_xi(t)) = t and monotonic decrease of xi on a grid of correlation times 1..1e5 ps x fields "
        "0.3-15 T (thorough: 60 x 12 points); (b) enhancement and T1 data synthesised from the published ODNP model with known "
        "k_sigma (5-95), p_1/2 over two decades, spin concentrations 50 uM-10 mM, T10 < T100, the three smax models, linear and "
        "second-order T1 interpolation, 8-40 power points, fields 0.3-15 T: hydration must return k_sigma, k_rho, k_low, coupling "
        "factor, correlation time, local diffusivity and the bulk ratios (default constants and, in every third call, the caller's own); the closed-form outputs are also compared with the "
        "Lean model evaluated exactly on the same inputs; (c) the same inputs in legacy units (uM, mT, ps) give identical "
        "results; non-trivial = every synthesised data set")
CONST0 = {"ksigma_bulk": 95.4, "krho_bulk": 353.4, "klow_bulk": 366, "tcorr_bulk": 54e-12, "D_H2O": 2.3e-9, "D_SL": 4.1e-10}


def synth(rng, interp, smax_model, field=None, grid="linspace"):
    field = field or rng.choice([0.3, 0.35, 1.2, 3.0, 7.05, 9.4, 14.1, 15.0])
    omega_e = 1.76085963023e-1 * field
    omega_H = 2.6752218744e-4 * field
    w = omega_e / omega_H
    tcorr_ps = 10 ** rng.uniform(0.3, 4.5)
    xi = H.calculate_xi(tcorr_ps, omega_e, omega_H)
    spin_C = 10 ** rng.uniform(np.log10(50e-6), np.log10(10e-3))
    T100 = rng.uniform(2.0, 3.0)
    ksigma = rng.uniform(5.0, 95.0)            # the property's range
    krho = ksigma / xi
    T10 = 1.0 / (krho * spin_C + 1.0 / T100)
    if smax_model == "tethered":
        smax = 1.0
    elif smax_model == "free":
        smax = H.calculate_smax(spin_C)
    else:
        smax = smax_model
    n = rng.randint(8, 40)
    pmax = 10 ** rng.uniform(-1.5, 0.5)
    p = np.linspace(pmax / 200, pmax, n)
    p12 = pmax * 10 ** rng.uniform(-1.3, -0.2)
    if grid == "two-segment":
        # a fine low-power sweep plus a few points at high power, the half-saturation power far below the top power
        nlow = rng.randint(5, 9)
        p = np.concatenate([np.linspace(0.0, pmax / 400, nlow), pmax * np.array([0.5, 1.0])])
        p12 = pmax / 200 * rng.choice([0.5, 1.0, 2.0])
        n = len(p)
    elif grid == "geometric":
        p = np.geomspace(pmax / 1000, pmax, n)
    # the T1 series has its own power grid — sometimes with as many points as the enhancement series, never the same powers
    n1 = n if rng.random() < 0.3 else rng.choice([3, 3, 4, 5, 6, 7, 8])      # three points: the least a second-order fit can use
    pT = np.linspace(pmax / 150, 0.9 * pmax, n1)
    if interp == "linear":
        slope = rng.uniform(0.0, 0.3) / pmax
        Lf = lambda q: T100 + slope * q                       # linear in power, L(0) = T100  <=>  T1(0) = T10
        T1f = lambda q: Lf(q) / (1.0 + Lf(q) / T10 - Lf(q) / T100)
        extra = {}
    else:
        # Eq. 22/23: 1/T1(p) = spin_C*krp(p) + 1/(T1_water + dT1w*p) + kHH*macro_C with T1_water = T100, macro_C = spin_C,
        # kHH*macro_C = 1/T10 - 1/T100, hence krp(0) = 0 and krp is a quadratic without constant term
        dT1w = rng.uniform(0.0, 0.2) / pmax
        base = 1.0 / T10
        a1 = rng.uniform(-0.05, 0.05) * base / (spin_C * pmax)
        a2 = rng.uniform(-0.03, 0.03) * base / (spin_C * pmax ** 2)
        krpf = lambda q: a1 * q + a2 * q * q
        T1f = lambda q: 1.0 / (spin_C * krpf(q) + 1.0 / (T100 + dT1w * q) + (1.0 / T10 - 1.0 / T100))
        # the macromolecule concentration need not be the spin concentration: kHH*macro_C = 1/T10 - 1/T1_water whatever it is
        extra = {"delta_T1_water": dT1w * 1.0, "T1_water": T100, "macro_C": spin_C * rng.choice([1.0, 0.5, 2.0])}
    T1E = T1f(p)
    E = 1.0 - ksigma * smax * p / (p12 + p) * spin_C * w * T1E
    data = {"E_array": E, "E_powers": p, "T1_array": T1f(pT), "T1_powers": pT, "T10": T10, "T100": T100, "spin_C": spin_C,
            "magnetic_field": field, "smax_model": smax_model, "interpolate_method": interp}
    truth = {"ksigma": ksigma, "krho": krho, "coupling_factor": xi, "tcorr": tcorr_ps * 1e-12, "klow": (5 * krho - 7 * ksigma) / 3,
             "Dlocal": CONST0["tcorr_bulk"] / (tcorr_ps * 1e-12) * (CONST0["D_H2O"] + CONST0["D_SL"]), "smax": smax, "w": w, "T1E": T1E}
    return data, extra, truth


def run(tier, seed, escalate=False):
    if escalate:
        tier = "thorough"
    rng = random.Random(seed * 7919 + 20)
    fails, mism, n_eval, model_ops, model_ctx = [], [], 0, [], []
    t1_jobs = []
    # ---------------- (a) xi / tcorr
    nt, nf = (20, 5) if tier == "quick" else (60, 12)
    for field in np.linspace(0.3, 15.0, nf):
        oe, oh = 1.76085963023e-1 * field, 2.6752218744e-4 * field
        ts = np.logspace(0.02, 4.98, nt)
        xs = np.array([H.calculate_xi(t, oe, oh) for t in ts])
        n_eval += nt
        if not np.all(np.diff(xs) < 0):
            key = "C20:xi-not-monotonic"
            fails.append({"key": key, "clause": key, "ops": [{"field": float(field)}]})
        for t, x in zip(ts, xs):
            try:
                back = H.calculate_tcorr(x, oe, oh)
                if abs(back - t * 1e-12) > 1e-6 * t * 1e-12:
                    key = "C20:tcorr-xi-roundtrip"
                    fails.append({"key": key, "clause": key, "ops": [{"field": float(field), "tcorr_ps": float(t), "back": back}]}); break
            except Exception as e:  # noqa: BLE001
                key = "C20:tcorr-raises"
                fails.append({"key": key, "clause": key, "ops": [{"field": float(field), "tcorr_ps": float(t), "error": type(e).__name__}]}); break
    # ---------------- (b) inversion of the forward model
    n = 6 if tier == "quick" else 40
    for interp in ("linear", "second_order"):
        for smodel in ("tethered", "free", 0.8):
            for _ in range(n):
                data, extra, truth = synth(rng, interp, smodel, grid=("linspace", "two-segment", "geometric", "linspace", "two-segment")[_ % 5])
                n_eval += 1
                label = "%s:%s" % (interp, smodel if isinstance(smodel, str) else "float")
                # the caller's own bulk constants in every third call (the calls before and after rely on the defaults, so
                # anything one call leaves behind for the next shows up as a wrong ratio there)
                CONST = dict(CONST0)
                if _ % 3 == 1:
                    custom = {"ksigma_bulk": rng.uniform(50, 150), "krho_bulk": rng.uniform(200, 500), "klow_bulk": rng.uniform(200, 500),
                              "tcorr_bulk": rng.uniform(20e-12, 90e-12), "D_H2O": rng.uniform(1e-9, 4e-9), "D_SL": rng.uniform(1e-10, 9e-10)}
                    for kk in rng.sample(sorted(custom), rng.randint(1, 6)):
                        CONST[kk] = custom[kk]; extra[kk] = custom[kk]
                    truth["Dlocal"] = CONST["tcorr_bulk"] / truth["tcorr"] * (CONST["D_H2O"] + CONST["D_SL"])
                    label += ":own-constants"
                try:
                    with warnings.catch_warnings():
                        warnings.simplefilter("ignore")
                        res = dnp.hydration(copy.deepcopy(data), dict(extra))
                except Exception as e:  # noqa: BLE001
                    key = "C20:hydration-raises:" + label
                    fails.append({"key": key, "clause": key, "ops": [{"error": type(e).__name__ + ":" + str(e)[:80], "data": {k: (v.tolist() if hasattr(v, "tolist") else v) for k, v in data.items()}}]})
                    continue
                for k in ("ksigma", "krho", "klow", "coupling_factor", "tcorr", "Dlocal"):
                    if abs(res[k] - truth[k]) > 2e-4 * abs(truth[k]) + 1e-30:
                        key = "C20:parameter-not-recovered:%s:%s" % (k, label)
                        fails.append({"key": key, "clause": key, "ops": [{"got": float(res[k]), "want": float(truth[k]),
                                     "data": {kk: (v.tolist() if hasattr(v, "tolist") else v) for kk, v in data.items()}}]})
                        break
                for k, b in (("ksigma", "ksigma_bulk"), ("krho", "krho_bulk"), ("klow", "klow_bulk"), ("tcorr", "tcorr_bulk")):
                    if abs(res[k + "_bulk_ratio"] - res[k] / CONST[b]) > 1e-12 * abs(res[k] / CONST[b]):
                        key = "C20:bulk-ratio:" + k
                        fails.append({"key": key, "clause": key, "ops": [{"k": k}]})
                if not np.allclose(res["interpolated_T1"], truth["T1E"], rtol=1e-6):
                    key = "C20:T1-interpolation-not-exact:" + interp
                    fails.append({"key": key, "clause": key, "ops": [{"interp": interp}]})
                # T1 interpolation through the Lean transforms: model forward transform -> numpy.polyfit / polyval (external, as a
                # table) -> model back transform must give the implementation's interpolated T1
                t1_jobs.append((data, extra, interp, np.asarray(res["interpolated_T1"], dtype=float), label))
                # closed-form part through the Lean model, fed the implementation's own fit results
                model_ops.append({"op": "hydration", "E": [rstr(x) for x in data["E_array"]], "T1p": [rstr(x) for x in res["interpolated_T1"]],
                                  "spinC": rstr(data["spin_C"]), "omegaRatio": rstr(truth["w"]), "T10": rstr(data["T10"]), "T100": rstr(data["T100"]),
                                  "ksigma": rstr(res["ksigma"]), "tcorr": rstr(res["tcorr"]), "tcorr_bulk": rstr(CONST["tcorr_bulk"]),
                                  "D_H2O": rstr(CONST["D_H2O"]), "D_SL": rstr(CONST["D_SL"]), "field": rstr(data["magnetic_field"]),
                                  "spinC_in": rstr(data["spin_C"])})
                model_ctx.append((res, label))
                # ---------------- (c) legacy units
                leg = copy.deepcopy(data)
                leg["spin_C"] = data["spin_C"] * 1e6
                leg["field"] = leg.pop("magnetic_field") * 1e3
                lconst = dict(extra, tcorr_bulk=CONST["tcorr_bulk"] * 1e12)
                if "macro_C" in lconst:
                    lconst["macro_C"] = lconst["macro_C"] * 1e6
                try:
                    with warnings.catch_warnings():
                        warnings.simplefilter("ignore")
                        rl = dnp.hydration(leg, lconst)
                    bad = [k for k in ("ksigma", "krho", "klow", "coupling_factor", "tcorr", "Dlocal", "tcorr_bulk_ratio")
                           if abs(rl[k] - res[k]) > 1e-6 * abs(res[k])]   # Levenberg-Marquardt's own tolerance
                    if bad:
                        key = "C20:legacy-units-differ:" + bad[0]
                        fails.append({"key": key, "clause": key, "ops": [{"field_T": data["magnetic_field"], "spin_C_M": data["spin_C"]}]})
                except Exception as e:  # noqa: BLE001
                    key = "C20:legacy-units-raise"
                    fails.append({"key": key, "clause": key, "ops": [{"error": type(e).__name__}]})
    # ---------------- the saturation fit on its own (cheap): k_sigma*s(p) generated from the model on regular and IRREGULAR power
    # grids (a fine low-power sweep plus a few high-power points — where the first unconstrained fit steps across the pole and the
    # restart is needed), every combination of top power, half-saturation power, sweep length, scale and smax
    import itertools as _it
    nlows = (4, 5, 6, 7, 8) if tier == "quick" else (3, 4, 5, 6, 7, 8, 10, 12)
    for pmax, frac, nlow, kss, smax_v, style in _it.product((0.5, 1.0, 4.0, 10.0), (1 / 400, 1 / 200, 1 / 100, 1 / 20, 1 / 3),
                                                            nlows, (8.0, 40.0, 95.0), (1.0, 0.8, 0.36), ("two-segment", "linspace")):
        if style == "linspace":
            if nlow != nlows[0]:
                continue
            P = np.linspace(pmax / 100, pmax, 12)
        else:
            P = np.concatenate([np.linspace(0.0, pmax / 400, nlow), [pmax / 2, pmax]])
        p12 = pmax * frac
        arr = kss * smax_v * P / (p12 + P)
        n_eval += 1
        try:
            with warnings.catch_warnings():
                warnings.simplefilter("ignore")
                ks, _sd, fitarr = H.calculate_ksigma(arr, P, smax_v)
            okk = abs(ks - kss) <= 1e-6 * kss and np.allclose(fitarr, arr, rtol=1e-6, atol=1e-9)
        except Exception as e:  # noqa: BLE001
            okk = False
        if not okk:
            key = "C20:ksigma-fit-not-recovered:" + style
            fails.append({"key": key, "clause": key, "ops": [{"powers": P.tolist(), "p_12": p12, "ksigma": kss, "smax": smax_v}]})
    # a field above 3 T given in tesla
    data, extra, truth = synth(rng, "linear", "tethered", field=9.4)
    n_eval += 1
    try:
        with warnings.catch_warnings():
            warnings.simplefilter("ignore")
            res = dnp.hydration(copy.deepcopy(data), dict(extra))
        if abs(res["tcorr"] - truth["tcorr"]) > 1e-3 * truth["tcorr"]:
            key = "C20:field-above-3T-taken-for-mT"
            fails.append({"key": key, "clause": key, "ops": [{"magnetic_field_T": 9.4, "tcorr_got": res["tcorr"], "tcorr_want": truth["tcorr"]}]})
    except Exception as e:  # noqa: BLE001
        key = "C20:field-above-3T-taken-for-mT"
        fails.append({"key": key, "clause": key, "ops": [{"magnetic_field_T": 9.4, "error": type(e).__name__}]})
    # ---------------- correspondence of the closed-form part
    outs, _ = run_model(model_ops) if model_ops else ([], 0)
    for o, (res, label), op in zip(outs, model_ctx, model_ops):
        if o.get("outcome") != "ok":
            mism.append({"diffs": [o.get("outcome")], "ops": [op], "stream": -1, "explained_by_known": False}); continue
        d = []
        ka = np.array([float(Fraction(x)) for x in o["ksigma_array"]])
        if not np.allclose(ka, res["ksigma_array"], rtol=1e-12):
            d.append("ksigma_array")
        for k in ("krho", "coupling_factor", "klow", "Dlocal"):
            v = float(Fraction(o[k]))
            if abs(v - res[k]) > 1e-11 * abs(v):
                d.append(k)
        if d:
            mism.append({"diffs": d, "ops": [{"label": label}], "stream": -1, "explained_by_known": False})
    # ---------------- correspondence of the T1 transforms
    def t1_common(data, extra, interp):
        c = {"T10": rstr(data["T10"]), "T100": rstr(data["T100"]), "spinC": rstr(data["spin_C"])}
        if interp == "second_order":
            c.update({"T1w": rstr(extra["T1_water"]), "dT1w": rstr(extra["delta_T1_water"]), "macroC": rstr(extra["macro_C"])})
        return c
    fwd_ops = [dict({"op": "hydration", "mode": ("linear-fwd" if it == "linear" else "second-fwd"),
                     "x": [rstr(v) for v in d["T1_array"]], "p": [rstr(v) for v in d["T1_powers"]]}, **t1_common(d, e, it))
               for d, e, it, _, _ in t1_jobs]
    fouts, _ = run_model(fwd_ops) if fwd_ops else ([], 0)
    back_ops = []
    for (d, e, it, _, _), o in zip(t1_jobs, fouts):
        y = np.array([float(Fraction(v)) for v in o["y"]])
        coef = np.polyfit(d["T1_powers"], y, 1 if it == "linear" else 2)
        mid = np.polyval(coef, d["E_powers"])
        back_ops.append(dict({"op": "hydration", "mode": ("linear-back" if it == "linear" else "second-back"),
                              "x": [rstr(v) for v in mid], "p": [rstr(v) for v in d["E_powers"]]}, **t1_common(d, e, it)))
    bouts, _ = run_model(back_ops) if back_ops else ([], 0)
    for (d, e, it, impl_t1, label), o in zip(t1_jobs, bouts):
        m = np.array([float(Fraction(v)) for v in o["y"]])
        if m.shape != impl_t1.shape or not np.allclose(m, impl_t1, rtol=1e-10, atol=0):
            mism.append({"diffs": ["interpolated_T1:" + it], "ops": [{"label": label}], "stream": -1, "explained_by_known": False})
    seen, uniq = set(), []
    for f in fails:
        if f["key"] not in seen:
            seen.add(f["key"]); uniq.append(f)
    return {"evaluations": n_eval, "distinct_nontrivial": len(model_ops), "rule": RULE,
            "samples": [{"interp": "linear", "smax": "tethered"}], "traces_validated": len(model_ops) - len(mism),
            "mismatches": mism, "impl_failures": uniq, "distribution": {"synthetic_datasets": len(model_ops)},
            "unproved_clauses": ["strict monotonic decrease of calculate_xi in the correlation time on [1, 1e5] ps for every field (hence "
                                 "uniqueness of the brentq root): transcendental, swept on the implementation only",
                                 "convergence of Levenberg-Marquardt (curve_fit / least_squares) to the zero-residual point: external",
                                 "numpy.polyfit exact on collinear / quadratic data (S2): assumed"]}


def replay(rp):
    return {"fails": True, "ops": rp.get("ops")}
