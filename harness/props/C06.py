"""C06 — vendor files import sample-exactly, in the right place, with right axes."""
import random, tempfile, shutil, os, warnings, io, contextlib
import numpy as np
from iocheck import *
from common import REPO

RULE = ("synthetic files for the nine vendor importers — Prospa (V1.0/V1.1, types 500/501/502, rank 1-4), VnmrJ (int/float, 1..5 "
        "blocks), TopSpin (fid/ser, rank 1-3, little/big endian, int/float, 4/8-byte, padded rows), TNMR (rank 1-4, with / "
        "without trailing sections), RS2D (1-4-D x receivers), BES3T (1-3-D, REAL/CPLX, BIG/LIT, D/F/I), WinEPR par/spc (1-D, "
        "2-D), SpecMan (1-4-D x 1-3 variables), JEOL Delta (1-D real/complex, 2-D with 4x4 submatrix tiling, valid-range "
        "offsets): header configuration and random samples drawn per case, the binary section produced by the LEAN ENCODER of "
        "the layout model, text headers patched from shipped samples, imported by the real importer and compared "
        "sample-exactly (values, dims, axes) with the array the encoder was given; plus every shipped sample file imports, "
        "and the Prospa binary / CSV pair imports to the same values; non-trivial = rank >= 2")
SHIPPED = [("topspin", "topspin/1"), ("topspin", "topspin/3"), ("topspin", "topspin/5"), ("topspin", "topspin/8"), ("topspin", "topspin/20"),
           ("topspin", "topspin/23"), ("topspin", "topspin/304"), ("topspin", "topspin/700"),
           ("prospa", "prospa/toluene_10mM_Tempone/1"), ("prospa", "prospa/10mM_TEMPO_Water/1Pulse_20200929/35"),
           ("vnmrj", "vnmrj/10mM_tempol_in_water_mw_40dBm.fid"), ("specman", "specman/test_specman_1D.exp"),
           ("xepr", "bes3t/1D_CW.DSC"), ("xepr", "bes3t/2D_CW.DSC"), ("xepr", "bes3t/DEER.DSC"), ("xepr", "bes3t/HYSCORE.DSC"),
           ("xepr", "bes3t/ESE.DSC"), ("winepr", "parspc/ExampleCW.par"), ("winepr", "parspc/Example2D.par"), ("winepr", "parspc/ExampleESP.par"),
           ("delta", "delta/50percentCHCL3inCDCl3-1-4.jdf"), ("tnmr", "tnmr/1D.tnt"), ("tnmr", "tnmr/T1.tnt")]


def run(tier, seed, escalate=False):
    if escalate:
        tier = "thorough"
    rng = random.Random(seed * 7919 + 6)
    n = 12 if tier == "quick" else 80
    cases = []
    for kit in KITS.values():
        for _ in range(n):
            cases.append(make_case(kit, rng))
        if hasattr(kit, "systematic"):         # every combination of the format's discrete header features, once
            for cfg in kit.systematic(rng):
                cases.append(make_case(kit, rng, cfg))
    work = tempfile.mkdtemp(prefix="verif_c06_")
    mism, fails, dist = [], [], {}
    try:
        encode_all(cases)
        for c in cases:
            dist[c["kit"]] = dist.get(c["kit"], 0) + 1
            if c["model_outcome"] != "ok":
                mism.append({"diffs": [c["model_outcome"]], "ops": [{"kit": c["kit"], "cfg": c["cfg"]}], "stream": -1, "explained_by_known": False})
                continue
            diffs = intact_check(c, work)
            if diffs:
                key = "C06:%s:%s" % (c["kit"], diffs[0].split(":")[0])
                fails.append({"key": key, "clause": key, "ops": [{"kit": c["kit"], "cfg": c["cfg"], "layout": c["L"], "diffs": diffs}]})
                mism.append({"diffs": diffs, "ops": [{"kit": c["kit"], "cfg": c["cfg"], "layout": c["L"]}], "stream": -1, "explained_by_known": True})
        # every shipped sample imports and is consistent
        n_ship = 0
        for fmt, rel in SHIPPED:
            p = os.path.join(REPO, "data", rel)
            if not os.path.exists(p) or (os.path.isfile(p) and os.path.getsize(p) == 0):
                continue
            n_ship += 1
            with warnings.catch_warnings(record=True) as ws, contextlib.redirect_stdout(io.StringIO()):
                warnings.simplefilter("always")
                try:
                    d = dnp.load(p, data_format=fmt)
                    bad = (not consistent(d)) or any("not consistent" in str(w.message) for w in ws)
                    if bad:
                        key = "C06:shipped-sample-inconsistent:%s" % rel
                        fails.append({"key": key, "clause": key, "ops": [{"path": rel}]})
                except Exception as e:  # noqa: BLE001
                    key = "C06:shipped-sample-does-not-import:%s" % rel
                    fails.append({"key": key, "clause": key, "ops": [{"path": rel, "error": type(e).__name__}]})
        # Kea / Prospa CSV files (text; no byte-level encoder in the model): written here with repr() so that every double
        # is recovered exactly; columns x, re_1, im_1, re_2, im_2, …  The pinned convention of the CSV reader is re + i*im.
        for n_pts, n_tr in ((4, 1), (7, 1), (5, 2), (9, 3), (2, 2)):
            dcsv = tempfile.mkdtemp(dir=work)
            xs = np.arange(n_pts) * 2.0e-6
            re = rng.random() + np.arange(n_pts * n_tr, dtype=float).reshape(n_pts, n_tr) * 1.25 - 3.0
            im = -0.5 * re + 7.0
            with open(os.path.join(dcsv, "data.csv"), "w") as f:
                for i in range(n_pts):
                    row = [repr(float(xs[i]))]
                    for j in range(n_tr):
                        row += [repr(float(re[i, j])), repr(float(im[i, j]))]
                    f.write(",".join(row) + "\n")
            with open(os.path.join(dcsv, "acqu.par"), "w") as f:
                f.write('experiment = "verif"\nnrPnts = %d\ndwellTime = 2\nb1Freq = 14.5d\n' % n_pts)
            n_ship += 1
            with warnings.catch_warnings(), contextlib.redirect_stdout(io.StringIO()):
                warnings.simplefilter("ignore")
                try:
                    dc = dnp.load(os.path.join(dcsv, "data.csv"), data_format="prospa")
                    want = np.squeeze(re + 1j * im)
                    okc = consistent(dc) and np.asarray(dc.values).shape == want.shape and np.array_equal(np.asarray(dc.values), want) \
                        and np.allclose(np.asarray(dc.coords[dc.dims[0]], dtype=float), xs, rtol=1e-12, atol=0)
                except Exception:  # noqa: BLE001
                    okc = False
            if not okc:
                key = "C06:prospa-csv:values"
                fails.append({"key": key, "clause": key, "ops": [{"points": n_pts, "traces": n_tr}]})
        # one measurement in two encodings: Prospa binary and CSV
        pd = os.path.join(REPO, "data", "prospa", "toluene_10mM_Tempone", "1")
        if os.path.exists(os.path.join(pd, "data.csv")) and os.path.exists(os.path.join(pd, "data.1d")):
            with warnings.catch_warnings(), contextlib.redirect_stdout(io.StringIO()):
                warnings.simplefilter("ignore")
                a = dnp.load(os.path.join(pd, "data.1d"), data_format="prospa")
                b = dnp.load(os.path.join(pd, "data.csv"), data_format="prospa")
            n_ship += 1
            if a.shape != b.shape or not np.allclose(np.abs(a.values), np.abs(b.values), rtol=1e-4, atol=1e-6):
                fails.append({"key": "C06:two-encodings-differ:prospa", "clause": "C06:two-encodings-differ:prospa", "ops": [{"dir": pd}]})
            elif not np.allclose(a.values, b.values, rtol=1e-4, atol=1e-6):
                fails.append({"key": "C06:two-encodings-differ:prospa:imag-sign", "clause": "C06:two-encodings-differ:prospa:imag-sign", "ops": [{"dir": pd}]})
    finally:
        shutil.rmtree(work, ignore_errors=True)
    seen, uniq = set(), []
    for f in fails:
        if f["key"] not in seen:
            seen.add(f["key"]); uniq.append(f)
    return {"evaluations": len(cases) + n_ship, "distinct_nontrivial": sum(1 for c in cases if len([s for s in c["shape"] if s > 1]) >= 2),
            "rule": RULE, "samples": [{"kit": cases[0]["kit"], "cfg": cases[0]["cfg"], "layout": cases[0]["L"]},
                                      {"kit": cases[-1]["kit"], "cfg": cases[-1]["cfg"], "layout": cases[-1]["L"]}],
            "traces_validated": len(cases) - len(mism), "mismatches": mism, "impl_failures": uniq,
            "distribution": dict(dist, shipped=n_ship),
            "unproved_clauses": ["text-header parsers (JCAMP-DX, procpar, DSC, .par, .exp, XML) are covered differentially only",
                                 "CSV is text: synthetic CSV files are written by the harness and compared directly (no byte-level encoder in the model)"],
            "trusted_extra": ["struct / numpy.fromfile byte decoding and IEEE-754 interpretation are L0"]}


def replay(rp):
    return {"fails": True, "ops": rp.get("ops"), "note": "re-run ./check C06 with the same VERIF_SEED; the replay holds the header configuration"}
