"""C06 — vendor files import sample-exactly, in the right place, with right axes."""
import random, tempfile, shutil, os, warnings, io, contextlib
import numpy as np
from iocheck import *
from common import REPO

RULE = ("synthetic files for the nine vendor importers — Prospa (V1.0/V1.1, types 500/501/502, rank 1-4), VnmrJ (int/float, 1..5 "
        "blocks), TopSpin (fid/ser, rank 1-3, little/big endian, int/float, 4/8-byte, padded rows), TNMR (rank 1-4, with / "
        "without trailing sections), RS2D (1-4-D x receivers), BES3T (1-3-D, REAL/CPLX, BIG/LIT, D/F/I), WinEPR par/spc (1-D, "
        "2-D), SpecMan (1-4-D x 1-3 variables), JEOL Delta (1-D real/complex, 2-D with 4x4 submatrix tiling, valid-range "
        "offsets): header configuration and random samples drawn per case, the binary section produced by the LEAN ENCODER of "
        "the layout model, text headers patched from shipped samples, imported by the real importer and compared "
        "sample-exactly (values, dims, axes) with the array the encoder was given; plus every shipped sample file imports, "
        "and the Prospa binary / CSV pair imports to the same values; VnmrJ parameter files: random parameter lists (single / multi-valued reals, single / multi-line strings, six array styles) written by the Lean writer, read by import_procpar and by the Lean reader, array_coords on both sides, files cut short refused by both; non-trivial = rank >= 2")
SHIPPED = [("topspin", "topspin/1"), ("topspin", "topspin/3"), ("topspin", "topspin/5"), ("topspin", "topspin/8"), ("topspin", "topspin/20"),
           ("topspin", "topspin/23"), ("topspin", "topspin/304"), ("topspin", "topspin/700"),
           ("prospa", "prospa/toluene_10mM_Tempone/1"), ("prospa", "prospa/10mM_TEMPO_Water/1Pulse_20200929/35"),
           ("vnmrj", "vnmrj/10mM_tempol_in_water_mw_40dBm.fid"), ("specman", "specman/test_specman_1D.exp"),
           ("xepr", "bes3t/1D_CW.DSC"), ("xepr", "bes3t/2D_CW.DSC"), ("xepr", "bes3t/DEER.DSC"), ("xepr", "bes3t/HYSCORE.DSC"),
           ("xepr", "bes3t/ESE.DSC"), ("winepr", "parspc/ExampleCW.par"), ("winepr", "parspc/Example2D.par"), ("winepr", "parspc/ExampleESP.par"),
           ("delta", "delta/50percentCHCL3inCDCl3-1-4.jdf"), ("tnmr", "tnmr/1D.tnt"), ("tnmr", "tnmr/T1.tnt")]


def procpar_correspondence(tier, seed, work):
    """VnmrJ parameter files: random parameter lists are WRITTEN by the Lean writer (`Procpar.print`), read by the real
    `import_procpar`, and the same token lines are read by the Lean reader (`Procpar.parse`); then `array_coords` on both sides.
    Also files cut short, which both readers must refuse."""
    from common import run_model
    from dnplab.io.vnmrj import import_procpar, array_coords
    rng = random.Random(seed * 7919 + 606)
    mism, fails, n_eval = [], [], 0
    realpool = ["0", "1", "3", "7", "0.5", "0.1", "2.0", "2.5e-3", "-1.25", "1e3", "12", "400.0", "1.0"]
    words = ["abc", "s2pul", "two words", "H1", "", "a b c", "x"]

    def rnd_param(name):
        k = rng.choice(["real", "real", "reals", "str", "strs"])
        if k == "real":
            return {"name": name, "k": "real", "v": [rng.choice(realpool)]}
        if k == "reals":
            return {"name": name, "k": "reals", "v": [rng.choice(realpool) for _ in range(rng.choice([2, 3, 5, 8]))]}
        if k == "str":
            return {"name": name, "k": "str", "v": [rng.choice([w for w in words if " " not in w])]}
        return {"name": name, "k": "strs", "v": [rng.choice(words) if i else rng.choice([w for w in words if " " not in w])
                                                 for i in range(rng.choice([2, 3, 4]))]}

    n_files = 40 if tier == "quick" else 400
    jobs = []
    for fidx in range(n_files):
        ps = [rnd_param(nm) for nm in rng.sample(["sw", "np", "nt", "d1", "pw", "tpwr", "seqfil", "comment", "temp", "tn", "gain"], rng.randint(2, 7))]
        style = fidx % 6     # 0 named array, 1 unnamed, 2 arraydim 1, 3 a describing key missing, 4 named but parameter absent, 5 no array keys
        nblk = rng.choice([2, 3, 5])
        if style != 5:
            name = rng.choice(["d2", "pw", "tpwr"])
            desc = [{"name": "arraydim", "k": "real", "v": ["1" if style == 2 else rng.choice([str(nblk), "%d.0" % nblk])]},
                    {"name": "array", "k": "str", "v": [name if style in (0, 4) or (style in (2, 3) and rng.random() < 0.5) else ""]},
                    {"name": "arraystart", "k": "real", "v": [rng.choice(["0", "1", "0.5"])]},
                    {"name": "arraystop", "k": "real", "v": [rng.choice([str(nblk - 1), "0", "%d.5" % nblk])]},
                    {"name": "arraydelta", "k": "real", "v": [rng.choice(["1", "0.5"])]}]
            if style == 3:
                desc.pop(rng.randrange(len(desc)))
            if style == 4 and rng.random() < 0.6:
                desc.append({"name": "arraymax", "k": "real", "v": [str(nblk + 1)]})
            ps = [q for q in ps if q["name"] not in ("d2", "pw", "tpwr")]
            if style in (0, 2, 3):
                ps.append({"name": name, "k": "reals", "v": rng.sample(["0.5", "0.1", "2.0", "0.25", "4.0", "1.5", "8.0", "3"], nblk)})
            ps += desc
            rng.shuffle(ps)
        jobs.append(ps)
    outs, _ = run_model([{"op": "procpar", "mode": "print", "params": ps} for ps in jobs])
    parse_ops, ctx = [], []
    for ps, o in zip(jobs, outs):
        n_eval += 1
        if o.get("outcome") != "ok":
            mism.append({"diffs": [o.get("outcome")], "ops": [{"procpar": ps}], "stream": -1, "explained_by_known": False}); continue
        for cut in (0, 1, 2):        # the whole file; the last line missing; the last two lines missing
            lines = o["lines"][: len(o["lines"]) - cut]
            d = tempfile.mkdtemp(dir=work)
            with open(os.path.join(d, "procpar"), "w") as f:
                for l in lines:
                    f.write(" ".join(l) + "\n")
            try:
                attrs = import_procpar(d)
                err = None
            except Exception as e:  # noqa: BLE001
                attrs, err = None, type(e).__name__
            toks = [ln.rstrip().split(" ") for ln in open(os.path.join(d, "procpar")).read().split("\n")[:-1]]
            ones = sorted({t for l in toks for t in l if _is_one(t)})
            gt = False
            if attrs is not None:
                try:
                    gt = bool(attrs["arraystop"] > attrs["arraystart"])
                except Exception:  # noqa: BLE001
                    gt = False
            parse_ops.append({"op": "procpar", "mode": "parse", "lines": toks, "ones": ones, "stop_gt_start": gt})
            try:
                ac = array_coords(attrs) if attrs is not None else None
            except Exception as e:  # noqa: BLE001
                ac = ("raise", type(e).__name__)
            ctx.append((ps, cut, attrs, err, ac))
    pouts, _ = run_model(parse_ops)
    for (ps, cut, attrs, err, ac), o, op in zip(ctx, pouts, parse_ops):
        n_eval += 1
        diffs = []
        if o.get("outcome", "").startswith("driver-error"):
            diffs.append(o["outcome"])
        elif (err is not None) != o.get("outcome", "").startswith("raise"):
            diffs.append("raise:impl-%s-model-%s" % (err, o.get("outcome")))
        elif err is None:
            want = {}
            for q in o["params"]:
                k, v = q["val"]["k"], q["val"]["v"]
                want[q["name"]] = float(v[0]) if k == "real" else [float(x) for x in v] if k == "reals" else v[0] if k == "str" else list(v)
            if set(want) != set(attrs):
                diffs.append("names")
            else:
                for nm, wv in want.items():
                    if attrs[nm] != wv:
                        diffs.append("value:" + nm); break
            # the written parameters come back (C06: the header is read as written) — only for the intact file
            if cut == 0:
                for q in ps:
                    wv = float(q["v"][0]) if q["k"] == "real" else [float(x) for x in q["v"]] if q["k"] == "reals" else q["v"][0] if q["k"] == "str" else list(q["v"])
                    last = [r for r in ps if r["name"] == q["name"]][-1]
                    if last is q and attrs.get(q["name"]) != wv:
                        key = "C06:vnmrj-procpar:parameter-not-read-as-written"
                        fails.append({"key": key, "clause": key, "ops": [{"parameter": q, "got": repr(attrs.get(q["name"]))[:80]}]}); break
            # array_coords
            ma = o.get("array")
            if isinstance(ac, tuple) and ac[0] == "raise":
                pass      # outside the modelled domain (comparisons between lists …)
            elif ma is None:
                if ac is not None and ac[0] is not None:
                    diffs.append("array:model-none-impl-%s" % ac[0])
            else:
                dim, kind, vals = ma
                if kind == "values":
                    wc = np.array([float(x) for x in vals]) if len(vals) != 1 or True else None
                else:
                    a0, a1, a2 = (float(x) for x in vals)
                    wc = np.r_[a0: a1 + a2: a2]
                if ac is None or ac[0] != dim or np.asarray(ac[1]).shape != np.asarray(wc).shape and np.asarray(ac[1]).ndim > 0 \
                        or (np.asarray(ac[1]).ndim > 0 and not np.array_equal(np.asarray(ac[1], dtype=float), wc)):
                    diffs.append("array:model-%s-impl-%s" % (ma, None if ac is None else (ac[0], np.asarray(ac[1]).tolist())))
        if diffs:
            mism.append({"diffs": diffs, "ops": [{"procpar": ps, "cut": cut}], "stream": -1, "explained_by_known": False})
    return mism, fails, n_eval


def _is_one(t):
    try:
        return float(t) == 1
    except ValueError:
        return False


def axis_correspondence(tier, seed, work):
    """the index axes of TNMR files against the Lean `ImportAxis.indexAxis` (one coordinate per stored point, k·dwell): files with
    every extent 2..9 and dwell times that are whole numbers of nanoseconds are imported by the real importer, the coordinates
    are read in nanoseconds (rounded to the nearest integer — the float product is L0) and compared with the model's integers"""
    import numpy as np, struct, warnings
    from common import run_model
    from formats import KITS
    from dnplab.io.tnmr import import_tnmr
    rng = random.Random(seed * 7919 + 616)
    kit = KITS["tnmr"]
    mism, fails, n_eval = [], [], 0
    cases = []
    dws = [d for d in kit.DWELLS] + [round(rng.randint(1, 999) * 10 ** rng.choice([-9, -8, -6, -4]), 9) for _ in range(4 if tier == "quick" else 20)]
    for n in range(2, 10):
        for dw in dws:
            cases.append((n, rng.choice([1, 2, 3]), dw, rng.choice(dws)))
    jobs = [{"op": "indexaxis", "n": n, "start": 0, "step": int(round(dw / 1e-9))} for n, _, dw, _ in cases] + \
           [{"op": "indexaxis", "n": m, "start": 0, "step": int(round(dw1 / 1e-9))} for _, m, _, dw1 in cases]
    outs, _ = run_model(jobs)
    for i, (n, m, dw, dw1) in enumerate(cases):
        c = {"ext": [n, m, 1, 1], "trailer": 0, "dwell": [dw, dw1, 0.0, 0.0]}
        d = os.path.join(work, "axis_%d" % i); os.makedirs(d, exist_ok=True)
        body = bytes(20 + 1024 + 12) + np.arange(2 * n * m, dtype="<f4").tobytes()
        path = kit.write(c, d, body)
        n_eval += 1
        try:
            with warnings.catch_warnings():
                warnings.simplefilter("ignore")
                r = import_tnmr(path, squeeze=False)
            got = {dim: [str(int(v)) for v in np.rint(np.asarray(r.coords[dim], dtype=float) / 1e-9)] for dim in ("t2", "t1")}
        except Exception as e:  # noqa: BLE001
            got = {"t2": ["raise:" + type(e).__name__], "t1": []}
        want = {"t2": outs[i].get("axis"), "t1": outs[len(cases) + i].get("axis")}
        for dim in ("t2", "t1"):
            if got[dim] != want[dim]:
                key = "C06:tnmr:index-axis:" + ("length" if len(got[dim]) != len(want[dim] or []) else "coordinates")
                fails.append({"key": key, "clause": key, "ops": [{"kit": "tnmr", "extent": [n, m], "dwell": [dw, dw1], "dim": dim, "imported_ns": got[dim], "model_ns": want[dim]}]})
                mism.append({"diffs": ["axis:" + dim], "ops": [{"kit": "tnmr", "extent": [n, m], "dwell": [dw, dw1]}], "stream": -1, "explained_by_known": True})
                break
    seen, uniq = set(), []
    for f in fails:
        if f["key"] not in seen:
            seen.add(f["key"]); uniq.append(f)
    return mism[:3], uniq, n_eval


def run(tier, seed, escalate=False):
    if escalate:
        tier = "thorough"
    rng = random.Random(seed * 7919 + 6)
    n = 12 if tier == "quick" else 80
    cases = []
    for kit in KITS.values():
        for _ in range(n):
            cases.append(make_case(kit, rng))
        if hasattr(kit, "systematic"):         # every combination of the format's discrete header features, once
            for cfg in kit.systematic(rng):
                cases.append(make_case(kit, rng, cfg))
    work = tempfile.mkdtemp(prefix="verif_c06_")
    mism, fails, dist = [], [], {}
    try:
        encode_all(cases)
        for c in cases:
            dist[c["kit"]] = dist.get(c["kit"], 0) + 1
            if c["model_outcome"] != "ok":
                mism.append({"diffs": [c["model_outcome"]], "ops": [{"kit": c["kit"], "cfg": c["cfg"]}], "stream": -1, "explained_by_known": False})
                continue
            diffs = intact_check(c, work)
            if diffs:
                key = "C06:%s:%s" % (c["kit"], diffs[0].split(":")[0])
                fails.append({"key": key, "clause": key, "ops": [{"kit": c["kit"], "cfg": c["cfg"], "layout": c["L"], "diffs": diffs}]})
                mism.append({"diffs": diffs, "ops": [{"kit": c["kit"], "cfg": c["cfg"], "layout": c["L"]}], "stream": -1, "explained_by_known": True})
        # VnmrJ parameter files through the Lean writer / reader and array_coords
        pm, pf, pn = procpar_correspondence(tier, seed, work)
        mism += pm; fails += pf; dist["procpar_files"] = pn
        am, af, an = axis_correspondence(tier, seed, work)
        mism += am; fails += af; dist["tnmr_index_axis_files"] = an
        # every shipped sample imports and is consistent
        n_ship = 0
        for fmt, rel in SHIPPED:
            p = os.path.join(REPO, "data", rel)
            if not os.path.exists(p) or (os.path.isfile(p) and os.path.getsize(p) == 0):
                continue
            n_ship += 1
            with warnings.catch_warnings(record=True) as ws, contextlib.redirect_stdout(io.StringIO()):
                warnings.simplefilter("always")
                try:
                    d = dnp.load(p, data_format=fmt)
                    bad = (not consistent(d)) or any("not consistent" in str(w.message) for w in ws)
                    if bad:
                        key = "C06:shipped-sample-inconsistent:%s" % rel
                        fails.append({"key": key, "clause": key, "ops": [{"path": rel}]})
                except Exception as e:  # noqa: BLE001
                    key = "C06:shipped-sample-does-not-import:%s" % rel
                    fails.append({"key": key, "clause": key, "ops": [{"path": rel, "error": type(e).__name__}]})
        # Kea / Prospa CSV files (text; no byte-level encoder in the model): written here with repr() so that every double
        # is recovered exactly; columns x, re_1, im_1, re_2, im_2, …  The pinned convention of the CSV reader is re + i*im.
        for n_pts, n_tr in ((4, 1), (7, 1), (5, 2), (9, 3), (2, 2)):
            dcsv = tempfile.mkdtemp(dir=work)
            xs = np.arange(n_pts) * 2.0e-6
            re = rng.random() + np.arange(n_pts * n_tr, dtype=float).reshape(n_pts, n_tr) * 1.25 - 3.0
            im = -0.5 * re + 7.0
            with open(os.path.join(dcsv, "data.csv"), "w") as f:
                for i in range(n_pts):
                    row = [repr(float(xs[i]))]
                    for j in range(n_tr):
                        row += [repr(float(re[i, j])), repr(float(im[i, j]))]
                    f.write(",".join(row) + "\n")
            with open(os.path.join(dcsv, "acqu.par"), "w") as f:
                f.write('experiment = "verif"\nnrPnts = %d\ndwellTime = 2\nb1Freq = 14.5d\n' % n_pts)
            n_ship += 1
            with warnings.catch_warnings(), contextlib.redirect_stdout(io.StringIO()):
                warnings.simplefilter("ignore")
                try:
                    dc = dnp.load(os.path.join(dcsv, "data.csv"), data_format="prospa")
                    want = np.squeeze(re + 1j * im)
                    okc = consistent(dc) and np.asarray(dc.values).shape == want.shape and np.array_equal(np.asarray(dc.values), want) \
                        and np.allclose(np.asarray(dc.coords[dc.dims[0]], dtype=float), xs, rtol=1e-12, atol=0)
                except Exception:  # noqa: BLE001
                    okc = False
            if not okc:
                key = "C06:prospa-csv:values"
                fails.append({"key": key, "clause": key, "ops": [{"points": n_pts, "traces": n_tr}]})
        # one measurement in two encodings: Prospa binary and CSV
        pd = os.path.join(REPO, "data", "prospa", "toluene_10mM_Tempone", "1")
        if os.path.exists(os.path.join(pd, "data.csv")) and os.path.exists(os.path.join(pd, "data.1d")):
            with warnings.catch_warnings(), contextlib.redirect_stdout(io.StringIO()):
                warnings.simplefilter("ignore")
                a = dnp.load(os.path.join(pd, "data.1d"), data_format="prospa")
                b = dnp.load(os.path.join(pd, "data.csv"), data_format="prospa")
            n_ship += 1
            if a.shape != b.shape or not np.allclose(np.abs(a.values), np.abs(b.values), rtol=1e-4, atol=1e-6):
                fails.append({"key": "C06:two-encodings-differ:prospa", "clause": "C06:two-encodings-differ:prospa", "ops": [{"dir": pd}]})
            elif not np.allclose(a.values, b.values, rtol=1e-4, atol=1e-6):
                fails.append({"key": "C06:two-encodings-differ:prospa:imag-sign", "clause": "C06:two-encodings-differ:prospa:imag-sign", "ops": [{"dir": pd}]})
    finally:
        shutil.rmtree(work, ignore_errors=True)
    seen, uniq = set(), []
    for f in fails:
        if f["key"] not in seen:
            seen.add(f["key"]); uniq.append(f)
    return {"evaluations": len(cases) + n_ship + dist.get("procpar_files", 0), "distinct_nontrivial": sum(1 for c in cases if len([s for s in c["shape"] if s > 1]) >= 2),
            "rule": RULE, "samples": [{"kit": cases[0]["kit"], "cfg": cases[0]["cfg"], "layout": cases[0]["L"]},
                                      {"kit": cases[-1]["kit"], "cfg": cases[-1]["cfg"], "layout": cases[-1]["L"]}],
            "traces_validated": len(cases) - len(mism), "mismatches": mism, "impl_failures": uniq,
            "distribution": dict(dist, shipped=n_ship),
            "unproved_clauses": ["text-header parsers (JCAMP-DX, DSC, .par, .exp, XML) are covered differentially only; the VnmrJ procpar reader and array_coords are modelled (token level) and proved",
                                 "CSV is text: synthetic CSV files are written by the harness and compared directly (no byte-level encoder in the model)"],
            "trusted_extra": ["struct / numpy.fromfile byte decoding and IEEE-754 interpretation are L0"]}


def replay(rp):
    return {"fails": True, "ops": rp.get("ops"), "note": "re-run ./check C06 with the same VERIF_SEED; the replay holds the header configuration"}
