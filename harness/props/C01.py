"""C01 — every produced data object is structurally consistent (histories over the whole alphabet)."""
import random
from fractions import Fraction
from gen import *
from oracles import ConsistencyOracle
from propbase import StreamProperty

RULE = ("random operation histories (length 3-14, up to 4 live objects) over the public alphabet "
        "(indexing, arithmetic, reorder/rename/sort/sort_dims, reductions, new_dim/concatenate/squeeze/split, "
        "unfold+fold, NumPy ufuncs/reductions with name/positional/None axis, concat), 1-4-D objects with pairwise "
        "distinct extents including 1; plus every single op on every 3-D naming order; non-trivial = the history "
        "contains >=3 ops on an object with >=2 dims; distinct by canonical stream; plus the importers: every shipped sample, "
        "synthetic files of the nine vendor kits, and HDF5 files with non-alphabetical dimension names")


def streams(tier, seed):
    rng = random.Random(seed * 7919 + 1)
    out = []
    for dims in perms(["c", "a", "b"]):
        base = lambda: new_op(rng, 0, dims=dims, shape=[2, 3, 4], cplx=False)
        for ax in (0, 1, 2, -1, "a", "b", "c", None):
            for f in ("sum", "max", "mean"):
                out.append([base(), {"op": "np_reduce", "f": f, "obj": 0, "axis": ax, "out": 1}])
        for dm in dims:
            for f in ("sum", "maximum", "argmax", "argmin_index", "cumulative_sum"):
                out.append([base(), {"op": "method", "f": f, "obj": 0, "dim": dm, "out": 1}])
        out.append([base(), {"op": "sort_dims", "obj": 0}])
        out.append([base(), new_op(rng, 1, dims=dims, shape=[2, 3, 4], salt=9),
                    {"op": "concat", "objs": [0, 1], "dim": "n", "coord": None, "out": 2}])
    # concatenate with the operand in every axis order, its extent along the concatenation dim EQUAL to the receiver's
    # (so that a join along a wrong axis would still be accepted by NumPy) — 2-D and 3-D, square and not
    import itertools as _it
    for nd, shape in ((2, [2, 3]), (2, [3, 3]), (3, [2, 3, 4]), (3, [2, 2, 3])):
        dims = ["c", "a", "b"][:nd]
        for k, dm in enumerate(dims):
            for perm in _it.permutations(dims):
                a = new_op(rng, 0, dims=dims, shape=shape, cplx=False, kinds=["asc"] * 4)
                b = new_op(rng, 1, dims=dims, shape=shape, cplx=False, kinds=["asc"] * 4, salt=5000)
                b["coords"] = [list(c) for c in a["coords"]]
                last = Fraction(a["coords"][k][-1])
                b["coords"][k] = [str(last + 1 + i) for i in range(shape[k])]
                out.append([a, b, {"op": "reorder", "obj": 1, "dims": list(perm)},
                            {"op": "concatenate", "obj": 0, "other": 1, "dim": dm}])
    # a transform whose new dimension name is ALREADY in use (t2 -> f2 next to an f2, f2 -> t2 next to a t2), reached directly
    # and through a history (transform, rename the remaining time axis, transform again): refused, or at least never an
    # object with a repeated dimension name
    from gen_proc import uniform_new, op_ft
    for dims, dim, inv in ((["t2", "f2"], "t2", False), (["f2", "t2"], "t2", False), (["t2", "f2"], "f2", True), (["x", "f2", "t2"], "t2", False)):
        shape = [4, 3, 2][: len(dims)]
        a = uniform_new(rng, 0, dims, shape, dim, cplx=True, rand_values=True)
        out.append([a, op_ft(a, dim, inverse=inv)])
    a = uniform_new(rng, 0, ["t2", "t1"], [4, 4], "t2", cplx=True, rand_values=True)
    a["coords"][1] = list(a["coords"][0])
    f1 = op_ft(a, "t2", out=1)
    out.append([a, f1, {"op": "rename", "obj": 1, "dim": "t1", "new": "t2"},
                dict(op_ft(a, "t2", out=2), obj=1)])
    # an index expression that names the SAME dimension more than once (with different selectors), reading and writing: values
    # and the coordinate array of that dimension are cut alike
    for sel in ([["x", {"slice": [0, 6, None]}], ["x", {"slice": [4, 9, None]}]],
                [["y", {"int": 3}], ["z", {"int": 0}], ["y", {"slice": [0, 2, None]}]],
                [["x", {"slice": [None, None, 2]}], ["x", {"int": 1}]],
                [["z", {"slice": [1, None, None]}], ["x", {"int": -1}], ["z", {"slice": [0, 2, None]}]]):
        a = new_op(rng, 0, dims=["x", "y", "z"], shape=[9, 5, 4], cplx=False, kinds=["asc"] * 4)
        out.append([a, {"op": "getitem", "obj": 0, "sel": sel, "out": 1}])
        out.append([a, {"op": "setitem", "obj": 0, "sel": sel, "value": "99999"}])
    n = 80 if tier == "quick" else 1200
    for _ in range(n):
        out.append(history(rng, rng.randint(3, 14)))
    return out


P = StreamProperty("C01", [ConsistencyOracle], streams, RULE, ("C01",),
                   lambda ops: len(ops) >= 4 and any(len(o.get("dims", [])) >= 2 for o in ops if o["op"] == "new"))
replay = P.replay


def importer_consistency(tier, seed):
    """'… or file importer': every importer on well-formed files — shipped samples, synthetic files of the nine vendor kits
    (bytes from the Lean encoder), and HDF5 files written by save (dimension names in non-alphabetical order, pairwise
    distinct extents)"""
    import tempfile, shutil, os, warnings, io, contextlib
    import numpy as np
    from common import dnp, consistent, REPO
    from iocheck import make_case, encode_all, KITS, do_import
    from props.C06 import SHIPPED
    rng = random.Random(seed * 7919 + 101)
    fails, n_eval = [], 0
    work = tempfile.mkdtemp(prefix="verif_c01_")
    try:
        cases = [make_case(kit, rng) for kit in KITS.values() for _ in range(2 if tier == "quick" else 10)]
        encode_all(cases)
        for c in cases:
            if c.get("model_outcome") != "ok":
                continue
            kit = KITS[c["kit"]]
            path = kit.write(c["cfg"], tempfile.mkdtemp(dir=work), c["bytes"])
            d, err, winc = do_import(kit, path)
            n_eval += 1
            if err is None and (winc or not consistent(d)):
                key = "C01:importer-inconsistent:" + c["kit"]
                fails.append({"key": key, "clause": key, "ops": [{"kit": c["kit"], "cfg": c["cfg"]}]})
        for fmt, rel in SHIPPED:
            p = os.path.join(REPO, "data", rel)
            if not os.path.exists(p) or (os.path.isfile(p) and os.path.getsize(p) == 0):
                continue
            with warnings.catch_warnings(record=True) as ws, contextlib.redirect_stdout(io.StringIO()):
                warnings.simplefilter("always")
                try:
                    d = dnp.load(p, data_format=fmt)
                except Exception:  # noqa: BLE001
                    continue
                n_eval += 1
                if not consistent(d) or any("not consistent" in str(w.message) for w in ws):
                    key = "C01:importer-inconsistent:shipped:" + rel
                    fails.append({"key": key, "clause": key, "ops": [{"path": rel}]})
        names = [["t2", "Average"], ["y", "x"], ["t2", "t1", "B0"], ["zeta", "alpha", "mu", "beta"], ["f2"]]
        for dims in names:
            shape = [3, 7, 2, 5][: len(dims)]
            d0 = dnp.DNPData(np.arange(float(np.prod(shape))).reshape(shape), list(dims), [np.arange(float(k)) + 0.5 for k in shape])
            p = os.path.join(work, "c01_%d.h5" % len(dims) + dims[0] + ".h5")
            with warnings.catch_warnings(record=True) as ws, contextlib.redirect_stdout(io.StringIO()):
                warnings.simplefilter("always")
                try:
                    dnp.save(d0, p, overwrite=True)
                    d = dnp.load(p)
                except Exception:  # noqa: BLE001
                    continue
                n_eval += 1
                if not consistent(d) or any("not consistent" in str(w.message) for w in ws):
                    key = "C01:importer-inconsistent:h5"
                    fails.append({"key": key, "clause": key, "ops": [{"dims": dims, "shape": shape}]})
    finally:
        shutil.rmtree(work, ignore_errors=True)
    return fails, n_eval


def length_changing_consistency(tier, seed):
    """functions that BUILD a new coordinate array for the axis they act on (both Fourier transforms, interp, left_shift,
    fit curves): the new array must be as long as the new axis for every length and every spacing, including spacings
    that are not exact doubles (0.1 s, 1 ms, 25 us), where a step-accumulating construction gains or loses a point"""
    import numpy as np, warnings
    from common import dnp, consistent
    fails, n_eval = [], 0
    lens = list(range(2, 70)) + ([98, 103, 107, 127, 128, 129] if tier == "quick" else list(range(70, 260)))
    for dt in (0.1, 1e-3, 1.0, 2.5e-5, 1.0 / 3.0, 0.25):
        for n in lens:
            for zff in ((1,) if n > 70 else (1, 2)):
                x = np.arange(n) * dt
                d0 = dnp.DNPData(np.exp(-x / (dt * n))[:, None] * np.array([[1.0, 2.0]]), ["t2", "b"], [x, np.arange(2.0)])
                for name, fn in (("fourier_transform", lambda d: dnp.fourier_transform(d, "t2", zero_fill_factor=zff)),
                                 ("inverse_fourier_transform", lambda d: dnp.inverse_fourier_transform(
                                     dnp.DNPData(d.values, ["f2", "b"], [d.coords["t2"], d.coords["b"]]), "f2", zero_fill_factor=zff)),
                                 ("interp", lambda d: dnp.interp(d, "t2", np.linspace(x[0], x[-1], 2 * n - 1))),
                                 ("left_shift", lambda d: dnp.left_shift(d, "t2", n // 3))):
                    n_eval += 1
                    with warnings.catch_warnings():
                        warnings.simplefilter("ignore")
                        try:
                            r = fn(d0)
                        except Exception:  # noqa: BLE001  (raising is not an inconsistent object)
                            continue
                    if not consistent(r):
                        key = "C01:inconsistent:%s:new-axis-length" % name
                        fails.append({"key": key, "clause": key, "ops": [{"function": name, "n": n, "dt": dt, "zero_fill_factor": zff}]})
    return fails, n_eval


def registry_consistency(tier, seed):
    """'… processing/analysis function': every function of the public registry (shared with C03 / C08 / C11) on 1-D, 2-D and
    3-D inputs with pairwise distinct extents, the dimension acted on in every position: a returned data object is consistent"""
    import numpy as np, warnings, io, contextlib, itertools
    import matplotlib
    matplotlib.use("Agg")
    import matplotlib.pyplot as plt
    from common import dnp, consistent
    from props.C03 import _registry
    rng = random.Random(seed * 7919 + 107)
    fails, n_eval, seen = [], 0, set()
    shapes = [([8], 0), ([3, 8], 1), ([8, 2], 0), ([2, 8, 3], 1), ([8, 2, 3], 0), ([3, 2, 8], 2)]
    for shape, k in shapes:
        for name, fn, _ in _registry(rng):
            dims = ["t2" if i == k else ("Average" if i == 0 else "x%d" % i) for i in range(len(shape))]
            if name.startswith("inverse"):
                dims = [("f2" if dm == "t2" else dm) for dm in dims]
            vals = (np.arange(1, int(np.prod(shape)) + 1, dtype=float).reshape(shape) ** 1.5) * np.exp(0.3j)
            coords = [np.linspace(0.0, 2.0, s_) if i == k else np.arange(s_, dtype=float) for i, s_ in enumerate(shape)]
            d = dnp.DNPData(vals, list(dims), coords, attrs={"nmr_frequency": 4e8, "experiment_type": "nmr_spectrum"},
                            dnplab_attrs={"frequency": 4e8})
            res = None
            with warnings.catch_warnings():
                warnings.simplefilter("ignore")
                with contextlib.redirect_stdout(io.StringIO()):
                    try:
                        res = fn(d, dims[k])
                    except Exception:  # noqa: BLE001
                        res = None
            plt.close("all")
            n_eval += 1
            for obj, what in ((res, "result"), (d, "argument")):
                if isinstance(obj, dnp.DNPData) and not consistent(obj) and (name, what) not in seen:
                    seen.add((name, what))
                    key = "C01:inconsistent-object:registry:%s:%s" % (name, what)
                    fails.append({"key": key, "clause": key, "ops": [{"function": name, "shape": shape, "dim_pos": k}]})
    return fails, n_eval


def bystander_consistency(seed):
    """'… after every step of any sequence': objects that are NOT the receiver or the result of a step are re-checked too —
    objects built from one caller-owned dims / coords list, objects built with no arguments, and the objects one call returns
    together (fit's parameters, errors and curve) must each stay consistent while another of them is changed in place"""
    import warnings
    import numpy as np
    from common import dnp, consistent
    fails, n_eval = [], 0
    inplace = {"new_dim": lambda o: o.new_dim("n", 5.0), "squeeze": lambda o: o.squeeze(), "rename": lambda o: o.rename(o.dims[0], "renamed"),
               "coords-pop": lambda o: o.coords.pop(o.dims[-1]), "reorder": lambda o: o.reorder([o.dims[-1]]),
               "new_dim+squeeze": lambda o: (o.new_dim("n", 5.0), o.squeeze()), "coords-append": lambda o: o.coords.append("extra", np.arange(3.0))}

    def groups():
        dl = ["x", "y", "z"]; cl = [np.arange(2.0), np.array([5.0, 3.0, 4.0]), np.array([7.0])]
        yield "one-dims-list", [dnp.DNPData(np.arange(6.0).reshape(2, 3, 1), dl, cl), dnp.DNPData(-np.arange(6.0).reshape(2, 3, 1), dl, cl)]
        yield "default-constructed", [dnp.DNPData(), dnp.DNPData()]
        xs = np.linspace(0.0, 2.0, 12)
        fd = dnp.DNPData(np.stack([2.0 * xs + 1.0, -xs + 3.0, 0.5 * xs], axis=1).reshape(12, 3, 1), ["t", "rep", "run"], [xs, np.arange(3.0), np.arange(1.0)])
        with warnings.catch_warnings():
            warnings.simplefilter("ignore")
            fo = dnp.fit(lambda x, p, q: p * x + q, fd, "t", (1.0, 0.0))
        yield "fit-results", [v for v in fo.values() if isinstance(v, dnp.DNPData)]

    for nm, act in inplace.items():
        try:
            gs = list(groups())
        except Exception:  # noqa: BLE001
            continue
        for gname, objs in gs:
            for k in range(len(objs)):
                try:
                    fresh = dict(groups())[gname]
                except Exception:  # noqa: BLE001
                    continue
                with warnings.catch_warnings():
                    warnings.simplefilter("ignore")
                    try:
                        act(fresh[k])
                    except Exception:  # noqa: BLE001
                        pass
                n_eval += 1
                others = [o for j, o in enumerate(fresh) if j != k] + ([dnp.DNPData()] if gname == "default-constructed" else [])
                if gname == "default-constructed":
                    # an object built with no arguments has no dimensions and no coordinates — before and after (its empty
                    # 1-D values placeholder is the constructor's own convention, not judged here)
                    bad = [j for j, o in enumerate(others) if list(o.dims) or len(o.coords.coords)]
                else:
                    bad = [j for j, o in enumerate(others) if not consistent(o)]
                if bad:
                    key = "C01:inconsistent-bystander:%s:%s" % (gname, nm)
                    fails.append({"key": key, "clause": key, "ops": [{"group": gname, "action": nm, "changed_object": k,
                                                                      "bystander_dims": [list(others[j].dims) for j in bad]}]})
                    break
    seen, uniq = set(), []
    for f in fails:
        if f["key"] not in seen:
            seen.add(f["key"]); uniq.append(f)
    return uniq, n_eval


def concat_unsafe_consistency(seed):
    """concat(..., casting='unsafe'): objects whose extents differ are padded — for every order of three extents (and two
    differing axes) the result is consistent and each input sits, label for label, in its own slice"""
    import itertools, warnings
    import numpy as np
    from common import dnp, consistent
    fails, n_eval = [], 0
    for exts in itertools.permutations((3, 5, 4)):
        for lead in ((2,), (2, 3)):
            objs = []
            for j, n in enumerate(exts):
                shp = lead + (n,)
                objs.append(dnp.DNPData(np.arange(float(np.prod(shp))).reshape(shp) + 100 * j, ["x", "y", "f2"][3 - len(shp):],
                                        [np.arange(float(m)) for m in lead] + [np.arange(n) * 0.5]))
            n_eval += 1
            with warnings.catch_warnings():
                warnings.simplefilter("ignore")
                try:
                    r = dnp.concat(objs, "rep", casting="unsafe")
                except Exception:  # noqa: BLE001  (a padding the function refuses is not an inconsistent result)
                    continue
            ok = consistent(r)
            if ok:
                for j, o in enumerate(objs):
                    n = o.shape[-1]
                    sl = np.asarray(r["rep", j].values).reshape(r.shape[:-1])
                    if not np.array_equal(sl[..., :n], o.values) or not np.all(np.isnan(sl[..., n:])) or \
                            not np.array_equal(np.asarray(r.coords["f2"])[:n], o.coords["f2"]):
                        ok = False
            if not ok:
                key = "C01:inconsistent-object:concat-unsafe" if not consistent(r) else "C01:concat-unsafe-values-misplaced"
                fails.append({"key": key, "clause": key, "ops": [{"extents": list(exts), "leading": list(lead),
                                                                  "coord_lengths": [len(c) for c in r.coords.coords], "shape": list(np.shape(r.values))}]})
    seen, uniq = set(), []
    for f in fails:
        if f["key"] not in seen:
            seen.add(f["key"]); uniq.append(f)
    return uniq, n_eval


def run(tier, seed, escalate=False):
    res = P.run(tier, seed, escalate)
    fc, nc = concat_unsafe_consistency(seed)
    res["impl_failures"] += [f for f in fc if f["key"] not in {g["key"] for g in res["impl_failures"]}]
    res["evaluations"] += nc
    fb, nb = bystander_consistency(seed)
    res["impl_failures"] += [f for f in fb if f["key"] not in {g["key"] for g in res["impl_failures"]}]
    res["evaluations"] += nb
    res["distribution"]["bystander_cases"] = nb
    f3, n3 = registry_consistency("thorough" if escalate else tier, seed)
    res["impl_failures"] += [f for f in f3 if f["key"] not in {g["key"] for g in res["impl_failures"]}]
    res["evaluations"] += n3
    res["distribution"]["registry_calls"] = n3
    fails, n_eval = importer_consistency("thorough" if escalate else tier, seed)
    f2, n2 = length_changing_consistency("thorough" if escalate else tier, seed)
    fails += f2; n_eval += n2
    res["distribution"]["axis_length_cases"] = n2
    seen = {f["key"] for f in res["impl_failures"]}
    for f in fails:
        if f["key"] not in seen:
            seen.add(f["key"]); res["impl_failures"].append(f)
    res["evaluations"] += n_eval
    res["distribution"]["importer_files"] = n_eval
    return res
