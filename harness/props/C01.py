"""C01 — every produced data object is structurally consistent (histories over the whole alphabet)."""
import random
from gen import *
from oracles import ConsistencyOracle
from propbase import StreamProperty

RULE = ("random operation histories (length 3-14, up to 4 live objects) over the public alphabet "
        "(indexing, arithmetic, reorder/rename/sort/sort_dims, reductions, new_dim/concatenate/squeeze/split, "
        "unfold+fold, NumPy ufuncs/reductions with name/positional/None axis, concat), 1-4-D objects with pairwise "
        "distinct extents including 1; plus every single op on every 3-D naming order; non-trivial = the history "
        "contains >=3 ops on an object with >=2 dims; distinct by canonical stream")


def streams(tier, seed):
    rng = random.Random(seed * 7919 + 1)
    out = []
    for dims in perms(["c", "a", "b"]):
        base = lambda: new_op(rng, 0, dims=dims, shape=[2, 3, 4], cplx=False)
        for ax in (0, 1, 2, -1, "a", "b", "c", None):
            for f in ("sum", "max", "mean"):
                out.append([base(), {"op": "np_reduce", "f": f, "obj": 0, "axis": ax, "out": 1}])
        for dm in dims:
            for f in ("sum", "maximum", "argmax", "argmin_index", "cumulative_sum"):
                out.append([base(), {"op": "method", "f": f, "obj": 0, "dim": dm, "out": 1}])
        out.append([base(), {"op": "sort_dims", "obj": 0}])
        out.append([base(), new_op(rng, 1, dims=dims, shape=[2, 3, 4], salt=9),
                    {"op": "concat", "objs": [0, 1], "dim": "n", "coord": None, "out": 2}])
    n = 80 if tier == "quick" else 1200
    for _ in range(n):
        out.append(history(rng, rng.randint(3, 14)))
    return out


P = StreamProperty("C01", [ConsistencyOracle], streams, RULE, ("C01",),
                   lambda ops: len(ops) >= 4 and any(len(o.get("dims", [])) >= 2 for o in ops if o["op"] == "new"))
run, replay = P.run, P.replay
