"""C08 — processing acts along the named dimension only."""
import random
from gen import *
from gen_proc import *
from oracles import PermOracle, ConsistencyOracle
from propbase import StreamProperty

RULE = ("every function of the processing registry on 1-3-D objects (thorough: up to 4-D) with pairwise distinct extents and "
        "the processed dimension in every position; correspondence with the Lean model (bracket / mapAlong) and, on the "
        "real code, f(permute x) vs permute(f x) for every rotation and the reversal of the axes plus "
        "f(x)[others=k] vs f(x[others=k]); non-trivial = >=2 dims and the dimension not first; distinct by stream")


def proc_cases(rng, tier):
    out = []
    nds = (1, 2, 3) if tier == "quick" else (1, 2, 3, 4)
    reps = 1 if tier == "quick" else 3
    for _ in range(reps):
        for dims, shape, dim in shapes_with_dim_everywhere(rng, nds, lo=2, hi=6):
            k = dims.index(dim)
            mk = lambda **kw: uniform_new(rng, 0, dims, shape, dim, x0=Fraction(rng.randint(-2, 2)),
                                          dt=Fraction(1, rng.choice([1, 2, 4])), **kw)
            n = shape[k]
            a = mk(cplx=rng.random() < 0.4)
            out.append([a, op_integrate(a, dim)])
            c = [Fraction(x) for x in a["coords"][k]]
            regs = [(c[0], c[-1]), (c[min(1, n - 1)], c[-1] + 5), (c[0] - 1, c[n // 2])][: rng.randint(1, 3)]
            out.append([a, op_integrate(a, dim, regs)])
            out.append([a, op_simple("cumulative_integrate", a, dim=dim)])
            out.append([a, op_simple("left_shift", a, dim=dim, n=rng.randint(0, n - 1))])
            out.append([a, op_simple("reference", a, dim=dim, old_ref="3/2", new_ref="1/4", shift="5/4")])
            b = mk(cplx=False, rand_values=True)
            out.append([b, op_simple("normalize", b, dim=dim)])
            out.append([b, op_simple("normalize", b, dim=None)])
            newc = [c[0] + (c[-1] - c[0]) * Fraction(t, 8) for t in range(9)]
            out.append([a, op_simple("interp", a, dim=dim, new_coord=[str(x) for x in newc])])
            # … and reaching beyond the axis on both sides: the held edge value is that of the trace itself
            wide = [c[0] - 2, c[0] - Fraction(1, 2)] + newc + [c[-1] + Fraction(1, 3), c[-1] + 5]
            out.append([a, op_simple("interp", a, dim=dim, new_coord=[str(x) for x in wide])])
            if len(dims) >= 2:
                out.append([a, op_simple("average", a, axis=dim)])
                out.append([a, op_simple("average", a, axis=k)])
            out.append([a, op_apodize(a, dim, rng.choice(["exponential", "gaussian"]), {"lw": rng.choice(["1", "1/2", "3"])})])
            out.append([a, op_apodize(a, dim, rng.choice(["hann", "hamming", "sin2"]), {})])
            ac = mk(cplx=True)
            out.append([ac, op_phase(ac, dim, Fraction(rng.randint(-359, 359)), Fraction(rng.randint(0, 359)))])
            rp = rng.choice([[0, 1, 2, 3], [0, 2], [1], [0, 1]])
            if n % len(rp) == 0:
                out.append([ac, op_simple("phase_cycle", ac, dim=dim, rp=rp)])
            for shift in (True, False):
                out.append([ac, op_ft(ac, dim, zff=rng.choice([1, 2]), shift=shift)])
                ai = dict(ac); ai["dims"] = [("f2" if d == dim else d) for d in dims]
                if "f2" not in [d for d in dims if d != dim]:
                    out.append([ai, op_ft(ai, "f2", zff=1, shift=shift, inverse=True)])
            # steps with external numerics: the routine is applied to each 1-D trace here
            from scipy.signal import savgol_filter
            if n >= 5:
                out.append([b, op_trace_local(b, dim, "smooth", {"window_length": 5, "polyorder": 2},
                                              lambda t: savgol_filter(t, 5, 2), "smooth", ["dim", "polyorder", "window_length"])])
            cc = coord_of(b, dim)
            out.append([b, op_trace_local(b, dim, "remove_background", {"deg": 1, "regions": None},
                                          lambda t: t - np.polyval(np.polyfit(cc, t, 1), cc), "remove_background",
                                          ["deg", "dim", "func", "regions"])])
            # enhancement: Power must be first
            if dim == dims[0]:
                e = dict(a); e["dims"] = ["Power"] + dims[1:] if "Power" not in dims[1:] else dims
                if e["dims"][0] == "Power":
                    e["attrs"] = {"experiment_type": "'integrals'"}
                    out.append([e, op_simple("calculate_enhancement", e, idx=rng.randint(-n, n - 1))])
    return out


def streams(tier, seed):
    rng = random.Random(seed * 7919 + 8)
    return proc_cases(rng, tier)


P = StreamProperty("C08", [PermOracle, ConsistencyOracle], streams, RULE, ("C08",),
                   lambda ops: len(ops[0]["dims"]) >= 2 and ops[-1]["kw"].get("dim") not in (None, ops[0]["dims"][0]))
replay = P.replay


def registry_equivariance(tier, seed):
    """every public processing / fitting function of the registry on the real code: the same 3-D object stored in every
    axis order must give the same result READ BY LABELS (pairwise distinct extents, so a transposed result has another shape,
    and a second object with two equal extents, where only the values can tell)"""
    import warnings, io, contextlib, itertools, copy
    import numpy as np
    from common import dnp
    from oracles import label_dict, dict_close
    from props.C03 import _registry
    rng = random.Random(seed * 7919 + 108)
    lin = lambda x, a, b: a * x + b
    extra = [("fit-popt", lambda d, dim: dnp.fit(lin, d.real, dim, (1.0, 0.0))["popt"], None),
             ("fit-curve", lambda d, dim: dnp.fit(lin, d.real, dim, (1.0, 0.0))["fit"], None),
             ("signal_to_noise-2-regions", lambda d, dim: dnp.signal_to_noise(d, [(0.0, 0.8), (1.0, 2.0)], [(0.0, 0.5)], dim=dim), None)]
    skip = {"plot", "plot-bad", "fancy_plot", "fancy_plot-bad", "update_axis", "create_complex-arrays", "create_complex-kept",
            "copy", "real", "pow", "np.abs", "unknown-dim", "unknown-dim-s2n"}
    fails, n_eval = [], 0
    for shape in ([3, 8, 2], [3, 8, 3]):
        names = ["Average", "t2", "x2"]
        base_vals = (np.arange(1, int(np.prod(shape)) + 1, dtype=float).reshape(shape) ** 1.3)
        base_vals = base_vals + 0.7 * np.sin(base_vals) + (0.25j * np.cos(base_vals))
        coords = {"Average": np.arange(shape[0], dtype=float), "t2": np.linspace(0.0, 2.0, shape[1]), "x2": np.arange(shape[2], dtype=float) * 2 + 1}
        for name, fn, _ in list(_registry(rng)) + extra:
            if name in skip or name.endswith("-bad") or name.startswith("dBm2w") or name.startswith("w2dBm") or name.startswith("convert_power"):
                continue
            dimname = "f2" if name.startswith("inverse") else "t2"
            results = []
            for perm in itertools.permutations(range(3)):
                dims = [("f2" if names[k] == "t2" and dimname == "f2" else names[k]) for k in perm]
                vals = np.transpose(base_vals, perm).copy()
                d = dnp.DNPData(vals, dims, [coords[names[k]].copy() for k in perm])
                try:
                    with warnings.catch_warnings():
                        warnings.simplefilter("ignore")
                        with contextlib.redirect_stdout(io.StringIO()):
                            r = fn(d, dimname)
                except Exception as e:  # noqa: BLE001
                    results.append(("raise", type(e).__name__)); continue
                if not isinstance(r, dnp.DNPData):
                    results.append(("other", None)); continue
                results.append(("ok", label_dict(r)))
            n_eval += 1
            kinds = {k for k, _ in results}
            if kinds == {"ok"}:
                ref = results[0][1]
                if ref is None or not all(dict_close(ref, x[1]) for x in results[1:]):
                    key = "C08:result-depends-on-axis-order:" + name
                    fails.append({"key": key, "clause": key, "ops": [{"function": name, "shape": shape}]})
            elif "ok" in kinds and "raise" in kinds:
                key = "C08:raises-for-some-axis-orders:" + name
                fails.append({"key": key, "clause": key, "ops": [{"function": name, "shape": shape,
                                                                 "outcomes": [k if k != "raise" else "raise:" + str(v) for k, v in results]}]})
    return fails, n_eval


def run(tier, seed, escalate=False):
    res = P.run(tier, seed, escalate)
    fails, n_eval = registry_equivariance("thorough" if escalate else tier, seed)
    seen = {f["key"] for f in res["impl_failures"]}
    for f in fails:
        if f["key"] not in seen:
            seen.add(f["key"]); res["impl_failures"].append(f)
    res["evaluations"] += n_eval
    res["distribution"]["registry_equivariance_cases"] = n_eval
    return res
