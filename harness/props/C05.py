"""C05 — indexing by position, coordinate value or range selects the right block."""
import random, itertools
from gen import *
from oracles import IndexOracle, ConsistencyOracle
from propbase import StreamProperty

RULE = ("1-3-D objects; four axis kinds (ascending, descending, non-uniform ascending, negative); every in-range integer, an "
        "11-point float grid inside and outside the axis range, every (lo,hi) pair of that grid, all slices with "
        "start/stop in {None,-3..3} and step in {None,1,2,-1,-2} (thorough; a seeded sample in quick), selector pairs on "
        "two dims at once, and the same selectors through __setitem__; non-trivial = range/float/slice selector or >=2 "
        "selectors; the same axis and selectors at scales 1e-9 … 1e9 and with integer / float coordinate dtype must select the same positions; distinct by canonical stream")


def axis(kind, n):
    if kind == "asc":
        return [str(Fraction(k, 2)) for k in range(n)]
    if kind == "desc":
        return [str(Fraction(3 * (n - 1 - k), 2)) for k in range(n)]
    if kind == "nonuni":
        c, x = [], Fraction(-1)
        for k in range(n):
            c.append(str(x)); x += Fraction([1, 3, 1, 5, 2, 7][k % 6], 4)
        return c
    return [str(-n + k) for k in range(n)]


def grid(coords):
    cs = [Fraction(x) for x in coords]
    lo, hi = min(cs), max(cs)
    w = hi - lo if hi > lo else Fraction(1)
    return [lo - w, lo - Fraction(1, 8), lo, lo + w / 7, lo + w / 3, lo + w / 2 + Fraction(1, 16), hi - w / 3, hi - w / 9, hi,
            hi + Fraction(1, 8), hi + w]


def streams(tier, seed):
    rng = random.Random(seed * 7919 + 5)
    out = []
    for kind in ("asc", "desc", "nonuni", "neg"):
        for n in ((1, 2, 5, 6) if tier == "thorough" else (1, 5)):
            c = axis(kind, n)
            base1 = lambda: {"op": "new", "id": 0, "dims": ["x"], "shape": [n], "coords": [list(c)],
                             "values": selfdesc_values([n])}
            base2 = lambda: {"op": "new", "id": 0, "dims": ["y", "x"], "shape": [3, n], "coords": [["0", "1", "2"], list(c)],
                             "values": selfdesc_values([3, n])}
            sels = [{"int": i} for i in range(-n, n)]
            g = grid(c)
            sels += [{"flt": str(t)} for t in g] + [{"tup1": str(g[3])}]
            pairs = [(a, b) for a in g for b in g]
            if tier == "quick":
                pairs = rng.sample(pairs, 40)
            sels += [{"range": [str(a), str(b)]} for a, b in pairs]
            vals = [None, -3, -2, -1, 0, 1, 2, 3]
            sl = [(a, b, s) for a in vals for b in vals for s in (None, 1, 2, -1, -2)]
            if tier == "quick":
                sl = rng.sample(sl, 30)
            sels += [{"slice": list(x)} for x in sl]
            for k, s in enumerate(sels):
                base = base2 if k % 3 == 0 else base1
                out.append([base(), {"op": "getitem", "obj": 0, "sel": [["x", s]], "out": 1}])
                if k % 2 == 0:
                    out.append([base(), {"op": "setitem", "obj": 0, "sel": [["x", s]], "value": "99999"}])
    # selectors on two or three dims at once, dim in every position
    for _ in range(150 if tier == "quick" else 2500):
        nd = rng.randint(2, 3)
        a = new_op(rng, 0, ndim=nd, cplx=rng.random() < 0.2)
        dims = a["dims"]
        chosen = rng.sample(dims, rng.randint(2, nd))
        sel = [[d, rand_sel(rng, a["coords"][dims.index(d)])] for d in chosen]
        if rng.random() < 0.7:
            out.append([a, {"op": "getitem", "obj": 0, "sel": sel, "out": 1}])
        else:
            out.append([a, {"op": "setitem", "obj": 0, "sel": sel, "value": "99999"}])
    return out


P = StreamProperty("C05", [IndexOracle, ConsistencyOracle], streams, RULE, ("C05",),
                   lambda ops: len(ops[-1].get("sel", [])) >= 2 or any(k in s for _, s in ops[-1].get("sel", []) for k in ("range", "flt", "slice")))
replay = P.replay


def dtype_independence(tier, seed):
    """the coordinate array's dtype must not matter: an axis built from integers (np.arange) selects the same positions as the
    same axis in floats, for float / tuple / range selectors with fractional targets, reading and writing"""
    import numpy as np
    from common import dnp
    rng = random.Random(seed * 7919 + 105)
    fails, n_eval = [], 0
    for n, desc in ((10, False), (7, True)):
        ci = np.arange(n)[::-1].copy() if desc else np.arange(n)
        vals = np.arange(n * 3, dtype=float).reshape(n, 3)
        targets = [-1.3, 0.4, 0.6, 2.5, 2.6, 3.49, 6.8, 7.7, n - 0.6, n + 2.2]
        sels = [t for t in targets] + [(t,) for t in targets] + [(a, b) for a in targets[1:8:2] for b in targets[2:9:2]]
        for sel in sels:
            outs = []
            for dt in (np.int64, np.int32, float):
                d = dnp.DNPData(vals.copy(), ["x", "y"], [ci.astype(dt), np.arange(3.0)])
                w = d.copy()
                try:
                    r = d["x", sel]
                    w["x", sel] = -1.0
                    outs.append((list(np.asarray(r.coords["x"], dtype=float)), np.asarray(r.values).tolist(), np.asarray(w.values).tolist()))
                except Exception as e:  # noqa: BLE001
                    outs.append(("raise", type(e).__name__))
            n_eval += 1
            if any(o != outs[-1] for o in outs[:-1]):
                key = "C05:selection-depends-on-coord-dtype:" + ("range" if isinstance(sel, tuple) and len(sel) == 2 else "tuple1" if isinstance(sel, tuple) else "float")
                fails.append({"key": key, "clause": key, "ops": [{"n": n, "descending": desc, "selector": list(sel) if isinstance(sel, tuple) else sel}]})
    return fails, n_eval


def scale_independence(tier, seed):
    """the UNIT of an axis must not matter: the same axis (uniform and non-uniform, ascending and descending) expressed at
    scales 1e-9 … 1e9, with every selector target scaled alike, selects the same positions — float, 1-tuple and (lo, hi)
    selectors, reading and writing.  Targets keep clear of midpoints, so rounding of the scaled numbers cannot move a nearest
    position."""
    import numpy as np
    from common import dnp
    fails, n_eval = [], 0
    axes = {"nonuniform": np.array([0.0, 1.0, 2.0, 4.0, 7.0, 11.0]), "uniform": np.arange(7.0) * 2.0,
            "nonuniform-desc": np.array([11.0, 7.0, 4.0, 2.0, 1.0, 0.0]), "almost-uniform": np.array([0.0, 1.0, 2.0, 3.0, 4.1, 5.0, 6.0])}
    targets = [-20.0, -0.3, 0.2, 1.3, 2.8, 3.3, 5.0, 5.8, 6.2, 8.0, 9.4, 10.7, 12.2, 30.0]
    for aname, ax in axes.items():
        vals = np.arange(len(ax) * 2, dtype=float).reshape(len(ax), 2)
        sels = [t for t in targets] + [(t,) for t in targets[1::3]] + [(a, b) for a in targets[::3] for b in targets[1::3]]
        ref = None
        for scale in (1.0, 1e-9, 1e-6, 1e-3, 1e3, 1e9):
            outs = []
            for sel in sels:
                ss = tuple(t * scale for t in sel) if isinstance(sel, tuple) else sel * scale
                d = dnp.DNPData(vals.copy(), ["x", "y"], [ax * scale, np.arange(2.0)])
                w = d.copy()
                try:
                    r = d["x", ss]
                    w["x", ss] = -1.0
                    outs.append((np.asarray(r.values).tolist(), np.asarray(w.values).tolist()))
                except Exception as e:  # noqa: BLE001
                    outs.append(("raise", type(e).__name__))
                n_eval += 1
            if ref is None:
                ref = outs
                continue
            for sel, o, r0 in zip(sels, outs, ref):
                if o != r0:
                    kind = "range" if isinstance(sel, tuple) and len(sel) == 2 else "tuple1" if isinstance(sel, tuple) else "float"
                    key = "C05:selection-depends-on-axis-scale:%s:%s" % (kind, aname)
                    fails.append({"key": key, "clause": key, "ops": [{"axis": (ax * scale).tolist(), "scale": scale,
                                                                      "selector": [t * scale for t in sel] if isinstance(sel, tuple) else sel * scale}]})
                    break
    seen, uniq = set(), []
    for f in fails:
        if f["key"] not in seen:
            seen.add(f["key"]); uniq.append(f)
    return uniq, n_eval


def run(tier, seed, escalate=False):
    res = P.run(tier, seed, escalate)
    f2, n2 = scale_independence(tier, seed)
    res["impl_failures"] += [f for f in f2 if f["key"] not in {g["key"] for g in res["impl_failures"]}]
    res["evaluations"] += n2
    res["distribution"]["axis_scale_cases"] = n2
    fails, n_eval = dtype_independence(tier, seed)
    seen = {f["key"] for f in res["impl_failures"]}
    for f in fails:
        if f["key"] not in seen:
            seen.add(f["key"]); res["impl_failures"].append(f)
    res["evaluations"] += n_eval
    res["distribution"]["coord_dtype_cases"] = n_eval
    return res
