"""C14 — baseline removal, normalisation, resampling and alignment laws."""
import random
from gen import *
from common import rstr
from gen_proc import *
from oracles import BaselineOracle, ConsistencyOracle
from propbase import StreamProperty
from common import np, dnp

RULE = ("remove_background for polynomial degrees 0-4 with and without region lists on random polynomial and non-polynomial "
        "real/complex traces; normalize overall and per trace; interp on own coordinates and on refined grids (ascending, descending, unordered) inside the "
        "source range; left_shift for every shift count 0..n-1; ndalign on data with one peak per trace circularly shifted "
        "by every integer shift; 1-3-D objects with the processed dimension in every position; correspondence with the "
        "Lean model (exact for normalize/interp/left_shift/ndalign, per-trace table for the least-squares fit) and the "
        "algebraic laws on the real code; non-trivial = >=2 dims or degree >= 1")


def peak_traces(rng, n, m, width=1):
    """m traces of length n: one triangular peak each, circularly shifted"""
    base = [0] * n
    c = n // 2
    base[c] = 8; base[(c - 1) % n] = 3; base[(c + 1) % n] = 2
    shifts = [rng.randrange(n) for _ in range(m)]
    return [[base[(i - s) % n] for i in range(n)] for s in shifts], shifts


def streams(tier, seed):
    rng = random.Random(seed * 7919 + 14)
    out = []
    reps = 1 if tier == "quick" else 4
    for _ in range(reps):
        for dims, shape, dim in shapes_with_dim_everywhere(rng, (1, 2, 3), lo=6, hi=9):
            k = dims.index(dim); n = shape[k]
            b = uniform_new(rng, 0, dims, shape, dim, x0=Fraction(-1), dt=Fraction(1, 2), cplx=rng.random() < 0.4, rand_values=True)
            cc = coord_of(b, dim)
            for deg in ((0, 1, 2) if tier == "quick" else (0, 1, 2, 3, 4)):
                regs = rng.choice([None, [(Fraction(-1), Fraction(1, 2)), (Fraction(3, 2), Fraction(9))]])
                if regs is None:
                    mask = np.ones(n, dtype=bool)
                else:
                    mask = np.zeros(n, dtype=bool)
                    for lo, hi in regs:
                        mask |= (cc >= float(lo)) & (cc <= float(hi))
                if mask.sum() < deg + 1:
                    continue

                def fn(t, deg=deg, mask=mask):
                    if np.iscomplexobj(t):
                        pr = np.polyfit(cc[mask], t.real[mask], deg); pi = np.polyfit(cc[mask], t.imag[mask], deg)
                        return t - (np.polyval(pr, cc) + 1j * np.polyval(pi, cc))
                    return t - np.polyval(np.polyfit(cc[mask], t[mask], deg), cc)
                out.append([b, op_trace_local(b, dim, "remove_background",
                                              {"deg": deg, "regions": None if regs is None else [[str(x), str(y)] for x, y in regs]},
                                              fn, "remove_background", ["deg", "dim", "func", "regions"])])
                if "," in str(b["values"][0]) and len(shape) >= 2 and regs is None:
                    # a complex object in which SOME traces are real (zero imaginary part) next to traces with an imaginary
                    # background: every trace is fitted on its own
                    b2 = dict(b, values=list(b["values"]))
                    other = 1
                    for d_, e_ in zip(dims, shape):
                        if d_ != dim:
                            other *= e_
                    vals2 = np.array([complex(*[float(Fraction(p)) for p in v.split(",")]) if "," in v else float(Fraction(v)) for v in b2["values"]],
                                     dtype=complex).reshape(shape)
                    mv = np.moveaxis(vals2, k, 0).reshape(n, other).copy()
                    for j in range(1, other, 2):
                        mv[:, j] = mv[:, j].real
                    vals2 = np.moveaxis(mv.reshape([n] + [e_ for d_, e_ in zip(dims, shape) if d_ != dim]), 0, k)
                    b2["values"] = ["%s,%s" % (rstr(z.real), rstr(z.imag)) for z in vals2.reshape(-1)]
                    out.append([b2, op_trace_local(b2, dim, "remove_background",
                                                   {"deg": deg, "regions": None}, fn, "remove_background", ["deg", "dim", "func", "regions"])])
            r = uniform_new(rng, 0, dims, shape, dim, cplx=False, rand_values=True)
            out.append([r, op_simple("normalize", r, dim=dim)])
            out.append([r, op_simple("normalize", r, dim=None)])
            c = [Fraction(x) for x in r["coords"][k]]
            out.append([r, op_simple("interp", r, dim=dim, new_coord=[str(x) for x in c])])
            fine = sorted(set(c + [(c[i] + c[i + 1]) / 2 for i in range(n - 1)] + [c[0] + Fraction(1, 8)]))
            out.append([r, op_simple("interp", r, dim=dim, new_coord=[str(x) for x in fine])])
            # a target grid reaching BEYOND the axis on both sides (edge values are held, per trace)
            wide = sorted(set(fine + [c[0] - 1, c[0] - Fraction(1, 3), c[-1] + Fraction(1, 2), c[-1] + 2]))
            out.append([r, op_simple("interp", r, dim=dim, new_coord=[str(x) for x in wide])])
            # target grids that are NOT ascending (a high-to-low axis, an unordered list): each value belongs to its own label
            out.append([r, op_simple("interp", r, dim=dim, new_coord=[str(x) for x in reversed(fine)])])
            shuf = list(fine); rng.shuffle(shuf)
            out.append([r, op_simple("interp", r, dim=dim, new_coord=[str(x) for x in shuf])])
            # the same on a NON-uniform source axis (quadratically spaced): identity on its own coordinates, exact midpoints
            rq = dict(r, coords=[list(cc_) for cc_ in r["coords"]])
            cq = [Fraction(i * i + 2 * i, 4) + Fraction(1, 2) for i in range(n)]
            rq["coords"][k] = [str(x) for x in cq]
            out.append([rq, op_simple("interp", rq, dim=dim, new_coord=[str(x) for x in cq])])
            fineq = sorted(set(cq + [(cq[i] + cq[i + 1]) / 2 for i in range(n - 1)]))
            out.append([rq, op_simple("interp", rq, dim=dim, new_coord=[str(x) for x in fineq])])
            for s in (range(n) if tier == "thorough" else rng.sample(range(n), 3)):
                out.append([r, op_simple("left_shift", r, dim=dim, n=s)])
            # ndalign: integer peaks, every trace a circular shift of one shape
            m = 1
            for d, e in zip(dims, shape):
                if d != dim:
                    m *= e
            tr, _ = peak_traces(rng, n, m)
            arr = np.moveaxis(np.array(tr, dtype=float).T.reshape([n] + [e for d, e in zip(dims, shape) if d != dim]), 0, k)
            a = dict(r); a["values"] = [str(int(v)) for v in arr.reshape(-1)]
            out.append([a, op_simple("ndalign", a, dim=dim)])
    return out


def align_oracle(tier, seed):
    """shift-equivariance of ndalign: circularly shifted copies of one peak are mapped onto each other"""
    rng = random.Random(seed * 7919 + 114)
    fails, n_eval = [], 0
    for n in ((16, 21) if tier == "quick" else (12, 16, 21, 32, 45)):
        x = np.arange(n, dtype=float)
        base0 = np.exp(-0.5 * ((x - n // 2) / 1.3) ** 2)
        for pos, cplx in ((0, False), (1, False), (0, True), (1, True), (0, "neg"), (1, 2.5), (0, -2.0)):
            # real peaks, inverted real peaks, and complex peaks of ANY phase (mild, beyond +-90 degrees): the alignment may only
            # roll a trace, never change its values, and it goes by the magnitude of the peak
            base = (-base0 if cplx == "neg" else base0 * np.exp(1j * (0.7 if cplx is True else float(cplx)))) if cplx else base0
            # the lag between any trace and the reference (last) trace is at most 2R
            # the peak sits anywhere on the axis (not only at its centre) as long as every shifted copy stays clear of the ends
            R0 = max(1, n // 8)
            placed = [(R0, "lag<=n/4", off) for off in range(R0 + 4 - n // 2, n - R0 - 5 - n // 2 + 1)]
            if (R0, "lag<=n/4", 0) not in placed:
                placed.append((R0, "lag<=n/4", 0))
            for R, label, off in placed + [(n // 3, "lag>n/2", 0)]:
                shifts = list(range(-R, R + 1))
                if off and rng.random() < 0.5:
                    shifts = shifts[::-1]                                          # the first trace leads or trails
                mat = np.stack([np.roll(base, s + off) for s in shifts], axis=1)    # (n, M)
                vals = mat if pos == 0 else mat.T
                dims = ["f2", "k"] if pos == 0 else ["k", "f2"]
                coords = [x, np.arange(len(shifts), dtype=float)] if pos == 0 else [np.arange(len(shifts), dtype=float), x]
                d = dnp.DNPData(vals.copy(), dims, coords)
                r = dnp.ndalign(d, "f2")
                n_eval += 1
                got = np.asarray(r.values) if pos == 0 else np.asarray(r.values).T
                if not all(np.allclose(got[:, j], got[:, 0]) for j in range(got.shape[1])):
                    key = "C14:ndalign-shifted-peaks-not-aligned:" + label
                    fails.append({"key": key, "clause": key, "ops": [{"n": n, "dim_pos": pos, "max_shift": R, "peak_offset_from_centre": off}]})
                if not np.allclose(got[:, 0], mat[:, 0]):
                    fails.append({"key": "C14:ndalign-first-trace-touched", "clause": "C14:ndalign-first-trace-touched", "ops": [{"n": n, "complex": cplx}]})
                # every output trace is a circular shift of the corresponding input trace (same multiset of values, rolled)
                for j in range(got.shape[1]):
                    if not any(np.allclose(got[:, j], np.roll(mat[:, j], s)) for s in range(n)):
                        key = "C14:ndalign-not-a-roll"
                        fails.append({"key": key, "clause": key, "ops": [{"n": n, "dim_pos": pos, "complex": cplx, "trace": j}]})
                        break
    return fails, n_eval


P = StreamProperty("C14", [BaselineOracle, ConsistencyOracle], streams, RULE, ("C14",),
                   lambda ops: len(ops[0]["dims"]) >= 2 or ops[-1]["kw"].get("deg", 0) >= 1)


def run(tier, seed, escalate=False):
    res = P.run(tier, seed, escalate)
    fails, n_eval = align_oracle("thorough" if escalate else tier, seed)
    seen = {f["key"] for f in res["impl_failures"]}
    for f in fails:
        if f["key"] not in seen:
            seen.add(f["key"]); res["impl_failures"].append(f)
    res["evaluations"] += n_eval
    res["unproved_clauses"] = ["numpy.polyfit is assumed to meet its documented contract (it returns a polynomial of degree <= deg minimising the "
                               "squared error on the fitting points): a theorem HYPOTHESIS from which linearity and exactness on polynomials are "
                               "derived (lsq_linear, lsq_exact); that NumPy's SVD routine meets it is exercised by the oracle only",
                               "shift-equivariance of ndalign is checked on the implementation for single-peak traces only"]
    return res


replay = P.replay


# ------------------------------------------------------------------ the same numbers stored in another dtype
from oracles import dtype_independence, merge_oracle, history_independence
from common import np, dnp
DTYPE_CASES = [("remove_background", lambda d, dim: dnp.remove_background(d, dim, deg=1), "t2"),
    ("remove_background-regions", lambda d, dim: dnp.remove_background(d, dim, deg=2, regions=[(0.0, 4.0), (8.0, 14.0)]), "t2"),
    ("background", lambda d, dim: dnp.background(d, dim, deg=1), "t2"),
    ("normalize", lambda d, dim: dnp.normalize(d, dim=dim), "t2"), ("normalize-all", lambda d, dim: dnp.normalize(d), "t2"),
    ("interp", lambda d, dim: dnp.interp(d, dim, np.linspace(0.0, 14.0, 29)), "t2"),
    ("left_shift", lambda d, dim: dnp.left_shift(d, dim, 2), "t2"), ("ndalign", lambda d, dim: dnp.ndalign(d, dim), "t2")]
_run_before_dtype = run


def run(tier, seed, escalate=False):
    """… plus: integer / single-precision / complex storage of the values and integer / unsigned / single-precision storage of
    the processed axis give the result of the float64 object (a dtype the function refuses is not judged)"""
    res = _run_before_dtype(tier, seed, escalate)
    f, n = dtype_independence("C14", DTYPE_CASES, seed, dim_positions=(1,) if tier == "quick" and not escalate else (0, 1, 2))
    res = merge_oracle(res, f, n, "storage_dtype_variants")
    f, n = history_independence("C14", DTYPE_CASES, seed)
    return merge_oracle(res, f, n, "call_history_cases")


# ------------------------------------------------------------------ the same axis in another unit
from oracles import axis_scale_independence
SCALE_CASES = [("interp", lambda d, dim, s: dnp.interp(d, dim, np.array([0.0, 0.4, 1.0, 1.3, 2.2, 3.0, 4.4, 5.0, 6.9, 8.5, 9.0]) * s), "t2", lambda s: 1.0, lambda s: s),
    ("interp-same-length-shifted", lambda d, dim, s: dnp.interp(d, dim, np.minimum(np.asarray(d.coords[dim]) + 0.25 * s, d.coords[dim][-1])), "t2", lambda s: 1.0, lambda s: s),
    ("remove_background-regions", lambda d, dim, s: dnp.remove_background(d, dim, deg=1, regions=[(0.0, 2.2 * s), (5.5 * s, 9.5 * s)]), "t2", lambda s: 1.0, lambda s: s),
    ("left_shift", lambda d, dim, s: dnp.left_shift(d, dim, 3), "t2", lambda s: 1.0, lambda s: s),
    ("normalize", lambda d, dim, s: dnp.normalize(d, dim=dim), "t2", lambda s: 1.0, lambda s: s)]
_run_before_scale = run


def run(tier, seed, escalate=False):
    """… plus: the processed axis expressed at scales 1e-9 … 1e6 (coordinate-valued arguments scaled alike)"""
    res = _run_before_scale(tier, seed, escalate)
    f, n = axis_scale_independence("C14", SCALE_CASES, seed)
    return merge_oracle(res, f, n, "axis_scale_variants")


# ------------------------------------------------------------------ the same argument values in another container / number type
from oracles import argform_independence
ARGFORM_CASES = [("interp-grid", "t2", [(lab, (lambda g: lambda d, dim: dnp.interp(d, dim, g))(g)) for lab, g in (
        ("array", np.linspace(0.0, 14.0, 15)), ("list", list(np.linspace(0.0, 14.0, 15))), ("tuple", tuple(np.linspace(0.0, 14.0, 15))),
        ("int-array", np.arange(0, 15)), ("range", range(0, 15)))]),
    ("remove_background-regions", "t2", [(lab, (lambda r: lambda d, dim: dnp.remove_background(d, dim, deg=1, regions=r))(r)) for lab, r in (
        ("list-of-tuples", [(0.0, 4.0), (8.0, 14.0)]), ("list-of-lists", [[0.0, 4.0], [8.0, 14.0]]), ("ints", [(0, 4), (8, 14)]),
        ("tuple-of-tuples", ((0.0, 4.0), (8.0, 14.0))))]),
    ("left_shift", "t2", [(lab, (lambda k: lambda d, dim: dnp.left_shift(d, dim, k))(k)) for lab, k in (("int", 3), ("numpy-int", np.int64(3)), ("numpy-int32", np.int32(3)))]),
    ("remove_background-deg", "t2", [(lab, (lambda k: lambda d, dim: dnp.remove_background(d, dim, deg=k))(k)) for lab, k in (("int", 2), ("numpy-int", np.int64(2)))])]
_run_before_argform = run


def run(tier, seed, escalate=False):
    """… plus: sequence arguments as tuple / list / ndarray, numbers as Python / NumPy scalars, flags as bool / numpy.bool_ / 0-1"""
    res = _run_before_argform(tier, seed, escalate)
    f, n = argform_independence("C14", ARGFORM_CASES, seed)
    return merge_oracle(res, f, n, "argument_form_variants")
