"""C15 — apodization multiplies by a coordinate-only window that starts at 1."""
import random, struct
from gen import *
from gen_proc import *
from oracles import ApodOracle, ConsistencyOracle, DECAYING
from propbase import StreamProperty
from common import np, dnp, run_model, rstr

RULE = ("every window kind (and unknown / mixed-case kinds), line widths over six decades, axis lengths 2..512 (quick: a "
        "subset), uniform axes with arbitrary positive dwell, 1-3-D real and complex objects with the apodized dimension in "
        "every position; (a) correspondence of apodize with the Lean model (multiply along the named dim), (b) the Lean "
        "window formulas evaluated in Float against dnplab.math.window (rel. 1e-11), (c) on the real code: window identical "
        "for every trace, first point 1 and non-increasing for the decaying kinds, exponential closed form, unknown kinds "
        "rejected; non-trivial = >=2 dims or length > 8")
LWS = ["0", "1/1000", "1/100", "1/10", "1", "10", "100", "1000", "1/1000000", "1/100000000"]   # incl. very weak broadening (pi*lw*T ~ 1e-6 … 1e-8)


X0S = [Fraction(0), Fraction(0), Fraction(1, 20), Fraction(3), Fraction(-1, 4)]


def streams(tier, seed):
    rng = random.Random(seed * 7919 + 15)
    out = []
    kinds = window_kinds()
    reps = 1 if tier == "quick" else 4
    for _ in range(reps):
        for dims, shape, dim in shapes_with_dim_everywhere(rng, (1, 2, 3), lo=2, hi=6):
            for kind in kinds + ["Hann", "bogus"]:
                # the axis may start at zero, after zero (acquisition delay) or before zero
                a = uniform_new(rng, 0, dims, shape, dim, x0=rng.choice(X0S), dt=Fraction(1, rng.choice([1, 4, 1024])),
                                cplx=rng.random() < 0.4)
                kwargs = {}
                if kind in ("exponential", "gaussian", "traf"):
                    kwargs = {"lw": rng.choice(LWS if kind != "traf" else LWS[1:])}      # traf divides by the line width
                if kind == "lorentz_gauss":
                    kwargs = {"lw": rng.choice(LWS[1:5]), "gauss_lw": rng.choice(LWS[1:5])}
                o = op_apodize(a, dim, kind, kwargs)
                if o is not None:
                    out.append([a, o])
    ns = [2, 3, 16, 65, 512] if tier == "quick" else [2, 3, 4, 5, 7, 8, 16, 31, 64, 65, 128, 257, 512]
    for n in ns:
        for kind in DECAYING:
            for lw in (LWS if tier == "thorough" else rng.sample(LWS, 2)):
                a = uniform_new(rng, 0, ["t2"], [n], "t2", x0=rng.choice(X0S), dt=Fraction(1, rng.choice([1, 8, 4096])))
                o = op_apodize(a, "t2", kind, {"lw": lw} if kind in ("exponential", "gaussian") else {})
                if o is not None:
                    out.append([a, o])
    # the SAME kind, length, axis start and parameters on axes of DIFFERENT spacing, one call after the other in one process:
    # the window is evaluated on the coordinates of the object at hand, every time
    for kind in DECAYING:
        for n in (8, 16):
            for x0 in (Fraction(0), Fraction(1, 2)):
                for dt in (Fraction(1, 4), Fraction(1, 2), Fraction(1, 64), Fraction(3)):
                    a = uniform_new(rng, 0, ["t2"], [n], "t2", x0=x0, dt=dt)
                    o = op_apodize(a, "t2", kind, {"lw": "1/10"} if kind in ("exponential", "gaussian") else {})
                    if o is not None:
                        out.append([a, o])
    return out


def formula_check(tier, seed):
    """Lean Float evaluation of the generic window definitions vs dnplab.math.window"""
    from dnplab.math import window as W
    rng = random.Random(seed * 7919 + 115)
    ops, wants = [], []
    del FAILS[:]
    ns = [2, 3, 9, 64] if tier == "quick" else [2, 3, 4, 5, 9, 16, 64, 257, 512]
    for n in ns:
        for dtq in (Fraction(1), Fraction(1, 8), Fraction(1, 4096)):
            x0 = rng.choice(X0S)
            x = [x0 + dtq * k for k in range(n)]
            xf = np.array([float(v) for v in x])
            for lw in LWS:
                for kind, par in (("exponential", {"lw": lw}), ("gaussian", {"lw": lw}), ("traf", {"lw": lw}),
                                  ("hann", {}), ("hamming", {}), ("sin2", {}),
                                  ("lorentz_gauss", {"lw": lw, "gauss_lw": "1/10", "gaussian_max": "0"})):
                    if kind in ("traf", "lorentz_gauss") and lw == "0":
                        continue      # no broadening is a statement about the decaying kinds (traf divides by the line width)
                    if kind in ("hann", "hamming", "sin2") and lw != LWS[0]:
                        continue
                    ops.append(dict({"op": "window", "kind": kind, "x": [str(v) for v in x]}, **par))
                    with np.errstate(all="ignore"):
                        try:
                            wv = getattr(W, kind)(xf, **{k: float(Fraction(v)) for k, v in par.items()})
                        except Exception as e:  # noqa: BLE001  (a window of the decaying kinds is defined for every line width >= 0)
                            key = "C15:window-raises:%s" % kind
                            if key not in {f["key"] for f in FAILS}:
                                FAILS.append({"key": key, "clause": key, "ops": [{"kind": kind, "par": par, "n": n, "error": type(e).__name__}]})
                            ops.pop()
                            continue
                    wants.append(wv)
                    # the property's own clauses on the window the implementation evaluates (all parameters >= 0, ascending axis):
                    # a decaying window lies in [0, 1], so it is finite for ANY line width and axis start; first point 1; no increase
                    if kind in ("exponential", "hann", "hamming", "sin2") or (kind == "gaussian" and x0 == 0):
                        wv = np.asarray(wv, dtype=float)
                        why = None
                        if not np.all(np.isfinite(wv)):
                            why = "window-not-finite"
                        elif abs(wv[0] - 1.0) > 1e-12:
                            why = "first-point-not-one"
                        elif np.any(np.diff(wv) > 1e-12):
                            why = "window-increases"
                        if why:
                            key = "C15:%s:window.%s" % (why, kind)
                            if key not in {f["key"] for f in FAILS}:
                                FAILS.append({"key": key, "clause": key, "ops": [dict({"kind": kind, "x0": str(x0), "dt": str(dtq), "n": n}, **par)]})
    outs, _ = run_model(ops)
    bad = []
    for op, o, w in zip(ops, outs, wants):
        if o.get("outcome") != "ok":
            bad.append({"diffs": [o.get("outcome")], "ops": [op]}); continue
        got = np.array([struct.unpack("<d", struct.pack("<Q", int(b)))[0] for b in o["bits"]])
        w = np.asarray(w, dtype=float)
        ok = got.shape == w.shape and np.allclose(got, w, rtol=1e-11, atol=1e-300, equal_nan=True)
        if not ok:
            bad.append({"diffs": ["window-formula:" + op["kind"]], "ops": [op], "model": got.tolist()[:5], "impl": w.tolist()[:5], "stream": -1})
    return len(ops), bad


P = StreamProperty("C15", [ApodOracle, ConsistencyOracle], streams, RULE, ("C15",),
                   lambda ops: len(ops[0]["dims"]) >= 2 or ops[0]["shape"][0] > 8)


FAILS = []


def run(tier, seed, escalate=False):
    res = P.run(tier, seed, escalate)
    n, bad = formula_check("thorough" if escalate else tier, seed)
    res["impl_failures"] += [f for f in FAILS if f["key"] not in {g["key"] for g in res["impl_failures"]}]
    res["evaluations"] += n
    for b in bad:
        b.setdefault("stream", -1); b["explained_by_known"] = False
        res["mismatches"].append(b)
    res["distribution"]["window_formula_cases"] = n
    return res


replay = P.replay


# ------------------------------------------------------------------ the same numbers stored in another dtype
from oracles import dtype_independence, merge_oracle, history_independence
from common import np, dnp
DTYPE_CASES = [("apodize-" + k, (lambda k, kw: lambda d, dim: dnp.apodize(d, dim, kind=k, **kw))(k, kw), "t2")
    for k, kw in (("exponential", {"lw": 0.05}), ("gaussian", {"lw": 0.05}), ("traf", {"lw": 0.05}), ("hann", {}), ("hamming", {}), ("sin2", {}))]
_run_before_dtype = run


def run(tier, seed, escalate=False):
    """… plus: integer / single-precision / complex storage of the values and integer / unsigned / single-precision storage of
    the processed axis give the result of the float64 object (a dtype the function refuses is not judged)"""
    res = _run_before_dtype(tier, seed, escalate)
    f, n = dtype_independence("C15", DTYPE_CASES, seed, dim_positions=(1,) if tier == "quick" and not escalate else (0, 1, 2))
    res = merge_oracle(res, f, n, "storage_dtype_variants")
    f, n = history_independence("C15", DTYPE_CASES, seed)
    return merge_oracle(res, f, n, "call_history_cases")


# ------------------------------------------------------------------ the same axis in another unit
from oracles import axis_scale_independence
SCALE_CASES = [("apodize-exponential", lambda d, dim, s: dnp.apodize(d, dim, kind="exponential", lw=0.07 / s), "t2", lambda s: 1.0, lambda s: s),
    ("apodize-gaussian", lambda d, dim, s: dnp.apodize(d, dim, kind="gaussian", lw=0.07 / s), "t2", lambda s: 1.0, lambda s: s),
    ("apodize-hann", lambda d, dim, s: dnp.apodize(d, dim, kind="hann"), "t2", lambda s: 1.0, lambda s: s)]
_run_before_scale = run


def run(tier, seed, escalate=False):
    """… plus: the processed axis expressed at scales 1e-9 … 1e6 (coordinate-valued arguments scaled alike)"""
    res = _run_before_scale(tier, seed, escalate)
    f, n = axis_scale_independence("C15", SCALE_CASES, seed)
    return merge_oracle(res, f, n, "axis_scale_variants")


# ------------------------------------------------------------------ the same argument values in another container / number type
from oracles import argform_independence
ARGFORM_CASES = [("apodize-lw", "t2", [(lab, (lambda w: lambda d, dim: dnp.apodize(d, dim, kind="exponential", lw=w))(w)) for lab, w in (
        ("float", 2.0), ("int", 2), ("numpy-float", np.float64(2.0)), ("numpy-int", np.int64(2)), ("0-d array", np.array(2.0)))]),
    ("apodize-kind-case", "t2", [(lab, (lambda k: lambda d, dim: dnp.apodize(d, dim, kind=k))(k)) for lab, k in (("lower", "hamming"), ("upper", "HAMMING"), ("mixed", "Hamming"))])]
_run_before_argform = run


def run(tier, seed, escalate=False):
    """… plus: sequence arguments as tuple / list / ndarray, numbers as Python / NumPy scalars, flags as bool / numpy.bool_ / 0-1"""
    res = _run_before_argform(tier, seed, escalate)
    f, n = argform_independence("C15", ARGFORM_CASES, seed)
    return merge_oracle(res, f, n, "argument_form_variants")


# ------------------------------------------------------------------ windows on integer-typed axes with LARGE coordinates
def integer_axis_windows(seed):
    """every window kind evaluated on an axis stored as int16 / uint16 / int32 / int64 whose coordinates are large enough that
    squares and products overflow the narrow type, with line widths small enough that the window has not decayed: the same
    numbers as on the float64 axis (a kind that refuses the dtype is not judged)"""
    import warnings
    from dnplab.math import window as W
    fails, n_eval = [], 0
    axes = [("int16", np.int16, np.arange(0, 320, 20)), ("uint16", np.uint16, np.arange(0, 640, 40)), ("int32", np.int32, np.arange(0, 66000, 5500)),
            ("int64", np.int64, np.arange(0, 66000, 5500)), ("int16-negative-start", np.int16, np.arange(-200, 200, 25))]
    for label, dt, ax in axes:
        span = float(ax.max() - ax.min())
        kinds = [("exponential", {"lw": 0.3 / span}), ("gaussian", {"lw": 0.6 / span}), ("traf", {"lw": 0.3 / span}),
                 ("lorentz_gauss", {"lw": 0.2 / span, "gauss_lw": 0.5 / span}), ("hann", {}), ("hamming", {}), ("sin2", {})]
        for kind, kw in kinds:
            for via in ("window", "apodize"):
                n_eval += 1
                with warnings.catch_warnings():
                    warnings.simplefilter("ignore")
                    with np.errstate(all="ignore"):
                        try:
                            if via == "window":
                                f = getattr(W, kind)
                                arg = (lambda a: (a,) if kind not in ("hann", "hamming", "sin2") else (len(a),))
                                want = np.asarray(f(*arg(ax.astype(float)), **kw), dtype=complex)
                                got = np.asarray(f(*arg(ax.astype(dt)), **kw), dtype=complex)
                            else:
                                v = np.ones((len(ax), 2))
                                want = np.asarray(dnp.apodize(dnp.DNPData(v.copy(), ["t2", "k"], [ax.astype(float), np.arange(2.0)]), "t2", kind=kind, **kw).values, dtype=complex)
                                got = np.asarray(dnp.apodize(dnp.DNPData(v.copy(), ["t2", "k"], [ax.astype(dt), np.arange(2.0)]), "t2", kind=kind, **kw).values, dtype=complex)
                        except Exception:  # noqa: BLE001
                            continue
                if got.shape != want.shape or not np.allclose(got, want, rtol=1e-9, atol=1e-12, equal_nan=True):
                    key = "C15:window-depends-on-axis-dtype:%s:%s" % (kind, label)
                    fails.append({"key": key, "clause": key, "ops": [{"kind": kind, "axis_dtype": label, "via": via, "axis": ax.tolist()[:6]}]})
    seen, uniq = set(), []
    for f_ in fails:
        if f_["key"] not in seen:
            seen.add(f_["key"]); uniq.append(f_)
    return uniq, n_eval


_run_before_intaxis = run


def run(tier, seed, escalate=False):
    res = _run_before_intaxis(tier, seed, escalate)
    f, n = integer_axis_windows(seed)
    return merge_oracle(res, f, n, "integer_axis_windows")
