"""C16 — format dispatch, SI-normalised metadata and exact unit conversion."""
import os, random, tempfile, shutil, itertools, warnings, configparser, io, contextlib
from fractions import Fraction
from common import np, dnp, run_model, REPO
from dnplab.io import load as L
from dnplab.config.config import DNPLAB_CONFIG

RULE = ("(a) autodetect: EXHAUSTIVE over the abstract domain {22 extensions} x {file, directory} x {2^6 listings}, paths created "
        "on disk, real autodetect vs the Lean decision chain; (b) every unit string prefix x unit (and bare / padded units) "
        "through the real _scale_dnplab_attrs vs the model; (c) every key of every DNPLAB_ATTRS section of the live "
        "configuration with header values across magnitudes (numbers and number-carrying strings) through the real "
        "_assign_dnplab_attrs: value = raw x 10^prefix; (d) every shipped sample: load(p) = load(p, data_format), path forms "
        "(file / directory / trailing separator), frequency = importer's nmr_frequency; (e) multi-path load of 1-5 paths = "
        "concat with the supplied coords; (f) dBm<->W round trips and closed forms for scalars, lists, int and float arrays "
        "and the power axis of data objects from -100 to +60 dBm")
NAMES = ["acqu", "acqus", "proc", "procss", "acqu.par", "data.csv"]
PREFIX = {"T": 12, "G": 9, "M": 6, "k": 3, "m": -3, "u": -6, "n": -9, "p": -12}


def known_exts():
    import ast
    src = open(os.path.join(REPO, "dnplab", "io", "load.py")).read()
    ex = []
    for n in ast.walk(ast.parse(src)):
        if isinstance(n, ast.FunctionDef) and n.name == "autodetect":
            for c in ast.walk(n):
                if isinstance(c, ast.Constant) and isinstance(c.value, str) and c.value.startswith(".") and len(c.value) <= 5:
                    ex.append(c.value)
    return list(dict.fromkeys(ex)) + [".xyz", ""]


def autodetect_cases(work):
    cases = []
    k = 0
    for ext in known_exts():
        for is_dir in (True, False):
            for r in range(len(NAMES) + 1):
                for listing in itertools.combinations(NAMES, r):
                    if not is_dir and listing:
                        continue
                    k += 1
                    p = os.path.join(work, "c%d" % k, "name" + ext)
                    os.makedirs(os.path.dirname(p))
                    if is_dir:
                        os.makedirs(p)
                        for nm in listing:
                            open(os.path.join(p, nm), "w").close()
                    else:
                        open(p, "w").close()
                    cases.append({"op": "load", "q": "autodetect", "ext": ext, "listing": list(listing), "path": p,
                                  **({"isDir": True} if is_dir else {})})
    return cases


def real_autodetect(p, trailing=False):
    try:
        f = L.autodetect(p + (os.sep if trailing else ""))
    except TypeError:
        return "TypeError"
    except Exception as e:  # noqa: BLE001
        return "other:" + type(e).__name__
    # does load_file dispatch on it?
    import ast
    return f


def dispatch_formats():
    import ast
    src = open(os.path.join(REPO, "dnplab", "io", "load.py")).read()
    fm = []
    for n in ast.walk(ast.parse(src)):
        if isinstance(n, ast.FunctionDef) and n.name == "load_file":
            for c in ast.walk(n):
                if isinstance(c, ast.Compare) and isinstance(c.left, ast.Name) and c.left.id == "data_format":
                    for q in c.comparators:
                        if isinstance(q, ast.Constant) and isinstance(q.value, str) and isinstance(c.ops[0], ast.Eq):
                            fm.append(q.value)
                        if isinstance(q, ast.List) and isinstance(c.ops[0], ast.In):
                            fm += [e.value for e in q.elts if isinstance(e, ast.Constant)]
    return set(fm)


SAMPLES = [("topspin", "topspin/1"), ("topspin", "topspin/5"), ("topspin", "topspin/20"),
           ("prospa", "prospa/toluene_10mM_Tempone/1"), ("prospa", "prospa/toluene_10mM_Tempone/1/data.1d"),
           ("vnmrj", "vnmrj/10mM_tempol_in_water_mw_40dBm.fid"), ("specman", "specman/test_specman_1D.exp"),
           ("specman", "specman/test_specman_1D.d01"), ("xepr", "bes3t/1D_CW.DSC"), ("xepr", "bes3t/1D_CW.DTA"),
           ("xepr", "bes3t/2D_CW.DSC"), ("winepr", "parspc/ExampleCW.par"), ("winepr", "parspc/ExampleCW.spc"),
           ("delta", "delta/50percentCHCL3inCDCl3-1-4.jdf"), ("tnmr", "tnmr/1D.tnt"), ("tnmr", "tnmr/T1.tnt")]


def same_obj(a, b):
    from common import canon_obj
    ca, cb = canon_obj(a), canon_obj(b)
    return all(ca[k] == cb[k] for k in ca)


def run(tier, seed, escalate=False):
    rng = random.Random(seed * 7919 + 16)
    mism, fails, n_eval = [], [], 0
    dist = {}
    work = tempfile.mkdtemp(prefix="verif_c16_")
    try:
        # ---------------- (a) autodetect, exhaustive
        cases = autodetect_cases(work)
        disp = dispatch_formats()
        outs, _ = run_model([{k: v for k, v in c.items() if k != "path"} for c in cases])
        for c, o in zip(cases, outs):
            got = real_autodetect(c["path"])
            got_t = real_autodetect(c["path"], trailing=True) if c.get("isDir") else got
            want = o.get("result")
            gg = got if (got in disp or got in ("TypeError",)) else got + "!nodispatch"
            n_eval += 1
            if gg != want or got_t != got:
                mism.append({"diffs": ["autodetect:%s!=%s (trailing sep: %s)" % (want, gg, got_t)], "ops": [{k: v for k, v in c.items() if k != "path"}],
                             "stream": -1, "explained_by_known": False})
        dist["autodetect_cases"] = len(cases)
        # ONE directory path whose contents change between calls (written into, emptied, refilled with another format): every
        # call sees the directory as it is NOW — the decision depends on the path and the current listing, nothing else
        reuse = os.path.join(work, "reused_dir")
        os.makedirs(reuse)
        listings = [[], ["acqu.par", "data.csv"], ["acqus", "fid"], [], ["proc", "1r"], ["acqu.par", "data.csv"], ["other.txt"], ["acqu"]]
        seq_ops = []
        seq_got = []
        for listing in listings:
            for nm in os.listdir(reuse):
                os.remove(os.path.join(reuse, nm))
            for nm in listing:
                open(os.path.join(reuse, nm), "w").close()
            seq_got.append(real_autodetect(reuse))
            seq_ops.append({"op": "load", "q": "autodetect", "ext": "", "listing": list(listing), "isDir": True})
        souts, _ = run_model(seq_ops)
        for k_, (o, got) in enumerate(zip(souts, seq_got)):
            n_eval += 1
            want = o.get("result")
            gg = got if (got in disp or got in ("TypeError",)) else got + "!nodispatch"
            if gg != want:
                key = "C16:autodetect-depends-on-earlier-calls"
                fails.append({"key": key, "clause": key, "ops": [{"step": k_, "listing_now": listings[k_], "listings_before": listings[:k_], "got": got, "want": want}]})
        # ---------------- (b) unit scaling, exhaustive over prefix x unit
        units = [u.strip() for u in DNPLAB_CONFIG.getlist("UNITS", "units")]
        unit_strings = units + [p + u for p in PREFIX for u in units] + [" " + p + u + " " for p in ("M", "m") for u in units]
        outs, _ = run_model([{"op": "load", "q": "scale", "unit": u} for u in unit_strings])
        for u, o in zip(unit_strings, outs):
            with warnings.catch_warnings():
                warnings.simplefilter("ignore")
                got = L._scale_dnplab_attrs(u)
            n_eval += 1
            want_model = 10.0 ** o["result"]
            if abs(got - want_model) > 1e-12 * want_model:
                mism.append({"diffs": ["scale:%s" % u], "ops": [{"unit": u}], "stream": -1, "explained_by_known": False,
                             "model": o["result"], "impl": got})
            us = u.strip()
            expect = 1.0 if us in units else 10.0 ** PREFIX[us[0]]
            if abs(got - expect) > 1e-12 * expect:
                key = "C16:si-prefix-wrong:" + us
                fails.append({"key": key, "clause": key, "ops": [{"unit": u, "factor": got}]})
        dist["unit_strings"] = len(unit_strings)
        # ---------------- (c) every section / key of the live configuration
        label = DNPLAB_CONFIG.get("DNPLAB_ATTRS_COMMON", "dnplab_attrs_label", fallback="DNPLAB_ATTRS")
        info = [x.strip() for x in DNPLAB_CONFIG.getlist("DNPLAB_ATTRS_COMMON", "dnplab_attrs_data_info")]
        sections = [s for s in DNPLAB_CONFIG.sections() if s.startswith(label + ":")]
        vals_q = [{"op": "load", "q": "mapping", "val": v} for s in sections for k, v in DNPLAB_CONFIG[s].items()
                  if v != "None" and k not in info]
        outs, _ = run_model(vals_q)
        mi = 0
        for s in sections:
            fmt = s.split(":", 1)[1]
            for k, v in DNPLAB_CONFIG[s].items():
                if v == "None" or k in info:
                    continue
                o = outs[mi]; mi += 1
                for mag, as_str in ((3.25, False), (4.0e8, False), (7, False), ("12.5", True), ("300", True)):
                    attrs = {hk: (mag if not as_str else mag) for hk in o["keys"]}
                    d = dnp.DNPData(np.zeros(2), ["x"], [np.arange(2.0)], attrs=attrs)
                    with warnings.catch_warnings():
                        warnings.simplefilter("ignore")
                        d = L._assign_dnplab_attrs(d, fmt)
                    n_eval += 1
                    raw = float(mag)
                    want = (raw ** len(o["keys"])) * 10.0 ** o["exp"]
                    got = d.dnplab_attrs.get(k)
                    ok = got is not None and abs(float(got) - want) <= 1e-9 * abs(want)
                    if not ok:
                        mism.append({"diffs": ["attr:%s:%s" % (fmt, k)], "ops": [{"format": fmt, "key": k, "mapping": v, "raw": mag}],
                                     "model": want, "impl": repr(got), "stream": -1, "explained_by_known": False})
                    # the property: raw value times the SI prefix of the declared unit
                    unit = v.split(",")[1].strip() if "," in v else None
                    fac = 1.0 if unit is None or unit in units else 10.0 ** PREFIX.get(unit[0], 0)
                    if got is None or abs(float(got) - raw ** len(o["keys"]) * fac) > 1e-9 * abs(raw ** len(o["keys"]) * fac):
                        key = "C16:attr-not-si:%s:%s" % (fmt, k)
                        fails.append({"key": key, "clause": key, "ops": [{"format": fmt, "key": k, "mapping": v, "raw": mag, "got": repr(got)}]})
        dist["config_keys"] = mi
        # ---------------- (c2) mapping strings the shipped configuration does not happen to contain: products of several
        # header keys with and without a prefixed unit (a user's own configuration file may use any of them); every key
        # carries a different value, so using one key for all or applying the prefix per factor shows
        synth = []
        for nk in (1, 2, 3):
            for unit in (None, "Hz", "MHz", "ms", "kHz", "us", "GHz", "T", "mT"):
                for spaced in (False, True):
                    names = ["hk%d" % i for i in range(nk)]
                    txt = (" * " if spaced else "*").join(names) + (("" if unit is None else (" , " if spaced else ", ") + unit))
                    synth.append((names, unit, txt))
        outs2, _ = run_model([{"op": "load", "q": "mapping", "val": t} for _, _, t in synth])
        for (names, unit, txt), o in zip(synth, outs2):
            for trial in range(2):
                raws = [rng.choice([3.25, 7, 12.5, 300, 4.0e8, 0.5]) * (i + 1) for i in range(len(names))]
                as_str = trial == 1
                attrs = {nm: (repr(float(r)) if as_str and float(r) != int(r) else (str(int(r)) if as_str else r)) for nm, r in zip(names, raws)}
                d = dnp.DNPData(np.zeros(2), ["x"], [np.arange(2.0)], attrs=attrs)
                n_eval += 1
                try:
                    got = L._convert_dnplab_attrs(d, txt)
                except Exception as e:  # noqa: BLE001
                    got = None
                prod = 1.0
                for r in raws:
                    prod *= float(r)
                fac = 1.0 if unit is None or unit in units else 10.0 ** PREFIX.get(unit[0], 0)
                want_model = prod * 10.0 ** o["exp"] if o.get("keys") == names else None
                if want_model is None or got is None or abs(float(got) - want_model) > 1e-9 * abs(want_model):
                    mism.append({"diffs": ["attr:synthetic:%s" % txt], "ops": [{"mapping": txt, "raw": raws}],
                                 "model": want_model, "impl": repr(got), "stream": -1, "explained_by_known": False})
                if got is None or abs(float(got) - prod * fac) > 1e-9 * abs(prod * fac):
                    key = "C16:attr-not-si:product-of-%d:%s" % (len(names), unit)
                    fails.append({"key": key, "clause": key, "ops": [{"mapping": txt, "raw": raws, "got": repr(got)}]})
        dist["synthetic_mappings"] = len(synth)
        # ---------------- (d) shipped samples
        base = os.path.join(REPO, "data")
        n_s = 0
        for fmt, rel in SAMPLES:
            p = os.path.join(base, rel)
            if not os.path.exists(p):
                continue
            with warnings.catch_warnings(), contextlib.redirect_stdout(io.StringIO()):
                warnings.simplefilter("ignore")
                try:
                    a = dnp.load(p, data_format=fmt)
                except Exception as e:  # noqa: BLE001
                    key = "C16:sample-does-not-import:%s" % rel
                    fails.append({"key": key, "clause": key, "ops": [{"path": rel, "error": type(e).__name__}]}); continue
                forms = [p] + ([p + os.sep] if os.path.isdir(p) else [])
                for q in forms:
                    n_eval += 1; n_s += 1
                    try:
                        b = dnp.load(q)
                        if not same_obj(a, b):
                            key = "C16:autodetected-load-differs:%s" % fmt
                            fails.append({"key": key, "clause": key, "ops": [{"path": rel, "form": q[-6:]}]})
                    except Exception as e:  # noqa: BLE001
                        key = "C16:autodetect-rejects-sample:%s" % fmt
                        fails.append({"key": key, "clause": key, "ops": [{"path": rel, "error": type(e).__name__}]})
                if "nmr_frequency" in a.attrs and "frequency" in a.dnplab_attrs:
                    f1, f2 = float(np.asarray(a.attrs["nmr_frequency"]).reshape(-1)[0]), float(np.asarray(a.dnplab_attrs["frequency"]).reshape(-1)[0])
                    if abs(f1 - f2) > 1e-6 * abs(f1):
                        key = "C16:frequency-disagrees:%s" % fmt
                        fails.append({"key": key, "clause": key, "ops": [{"path": rel, "nmr_frequency": f1, "frequency": f2}]})
        dist["sample_path_forms"] = n_s
        # ---------------- (e) multi-path load
        pbase = os.path.join(base, "topspin")
        # same shape, different data, NOT in lexicographic order of the paths
        plist = [os.path.join(pbase, x) for x in ("8", "20", "5", "23", "6") if os.path.exists(os.path.join(pbase, x))]
        for n in range(1, len(plist) + 1):
            with warnings.catch_warnings(), contextlib.redirect_stdout(io.StringIO()):
                warnings.simplefilter("ignore")
                try:
                    parts = [dnp.load(p) for p in plist[:n]]
                    if len({x.shape for x in parts}) != 1 or any(np.array_equal(parts[0].values, x.values) for x in parts[1:]):
                        fails.append({"key": "C16:multi-path-samples-unsuitable", "clause": "C16:multi-path-samples-unsuitable", "ops": [{"n": n}]})
                        continue
                    coord = np.arange(n) * 0.5 + 1.0
                    m = dnp.load(plist[:n], dim="tx", coord=coord)
                    n_eval += 1
                    ok = (list(m.dims) == list(parts[0].dims) + ["tx"] and np.array_equal(m.coords["tx"], coord) and
                          all(np.array_equal(np.asarray(m.values)[..., j], parts[j].values) for j in range(n)))
                    if not ok:
                        fails.append({"key": "C16:multi-path-load", "clause": "C16:multi-path-load", "ops": [{"n": n}]})
                except Exception as e:  # noqa: BLE001
                    fails.append({"key": "C16:multi-path-load-raises", "clause": "C16:multi-path-load-raises", "ops": [{"n": n, "error": type(e).__name__}]})
        # multi-path load through the Lean model (`loadMany`): small synthetic Prospa files, every list length 1-5, paths
        # in non-lexicographic order, with and without an explicit dimension name
        import tempfile as _tf, shutil as _sh
        from iocheck import make_case, encode_all, KITS
        from common import canon_obj, diff_obj, rstr
        work_m = _tf.mkdtemp(prefix="verif_c16_")
        kit = KITS["prospa"]
        cs = []
        try:
            files = []
            from formats import logical_shape, rand_scalars, np_dtype, points_bytes
            for _ in range(5):
                cfg = {"ext": [4, 1, 1, 1], "dtype": 501, "v10": False, "rank": 1}
                Lq = kit.layout(cfg); kind, width, big, cplx = kit.sample(cfg); shape = logical_shape(Lq)
                nsc = int(np.prod(shape)) * 2
                raw = rand_scalars(rng, nsc, kind, width).reshape(shape + [2])
                cs.append({"kit": "prospa", "cfg": cfg, "L": Lq, "raw": raw, "points": points_bytes(raw, cplx, np_dtype(kind, width, big)), "shape": shape})
            encode_all(cs)
            names = ["9", "10", "2", "31", "4"]                    # as strings NOT in lexicographic order: 9 > 10 > 2 …
            for nm, c in zip(names, cs):
                d0 = os.path.join(work_m, nm); os.makedirs(d0)
                files.append(kit.write(c["cfg"], d0, c["bytes"]))
            with warnings.catch_warnings(), contextlib.redirect_stdout(io.StringIO()):
                warnings.simplefilter("ignore")
                singles = [canon_obj(dnp.load(f, data_format="prospa")) for f in files]
                mops, impls = [], []
                for n in range(1, 6):
                    for dimname in ("tx", None):
                        coord = [1.0 + 0.5 * k for k in range(n)]
                        kw = {} if dimname is None else {"dim": dimname}
                        try:
                            m = dnp.load(files[:n], data_format="prospa", coord=np.array(coord), **kw)
                            impls.append(canon_obj(m))
                        except Exception as e:  # noqa: BLE001
                            impls.append({"raise": type(e).__name__})
                        mops.append(dict({"op": "load", "q": "many", "paths": files[:n], "coord": [rstr(x) for x in coord],
                                          "files": [{"path": f, "obj": {k: so[k] for k in ("dims", "shape", "coords", "values")}}
                                                    for f, so in zip(files, singles)]}, **kw))
                        n_eval += 1
            # a list whose entries are of DIFFERENT formats (no data_format given): each path is detected on its own and slice k is
            # still the k-th path as given
            with warnings.catch_warnings(), contextlib.redirect_stdout(io.StringIO()):
                warnings.simplefilter("ignore")
                loaded = [dnp.load(f, data_format="prospa") for f in files[:3]]
                h5s = []
                for k_, ob in enumerate(loaded):
                    hp = os.path.join(work_m, "stored_%d.h5" % k_)
                    dnp.save(ob, hp, overwrite=True); h5s.append(hp)
                for mix in ([files[0], h5s[1]], [h5s[0], files[1], h5s[2]], [files[2], files[0], h5s[1]], [h5s[2], h5s[0]]):
                    idx = [(files.index(p_) if p_ in files else h5s.index(p_)) for p_ in mix]
                    n_eval += 1
                    try:
                        m = dnp.load(list(mix), coord=np.arange(len(mix)) * 2.0 + 1.0, dim="mixed")
                        ok = list(m.dims)[-1] == "mixed" and m.shape[-1] == len(mix) and all(
                            np.array_equal(np.asarray(m.values)[..., j], np.asarray(loaded[i_].values)) for j, i_ in enumerate(idx))
                        err = None
                    except Exception as e:  # noqa: BLE001
                        ok, err = False, type(e).__name__
                    if not ok:
                        key = "C16:multi-path-load-mixed-formats"
                        fails.append({"key": key, "clause": key, "ops": [{"kinds": ["h5" if p_.endswith(".h5") else "prospa" for p_ in mix], "error": err}]})
            outs, _ = run_model(mops)
            for o, i, op in zip(outs, impls, mops):
                if "raise" in i or o.get("outcome") != "ok":
                    if not ("raise" in i and str(o.get("outcome", "")).startswith("raise")):
                        mism.append({"diffs": ["multi-load-outcome"], "ops": [{"n": len(op["paths"]), "dim": op.get("dim")}], "stream": -1,
                                     "explained_by_known": False})
                    continue
                d = [f for f in diff_obj(o["obj"], i) if f in ("dims", "shape", "coords", "values")]
                if d:
                    mism.append({"diffs": ["multi-load:" + "+".join(d)], "ops": [{"n": len(op["paths"]), "dim": op.get("dim")}], "stream": -1,
                                 "explained_by_known": False})
                    fails.append({"key": "C16:multi-path-load", "clause": "C16:multi-path-load", "ops": [{"n": len(op["paths"]), "dim": op.get("dim")}]})
        finally:
            _sh.rmtree(work_m, ignore_errors=True)
        # ---------------- (f) dBm <-> W
        from dnplab.processing.conversion import dBm2w, w2dBm, convert_power
        levels = [-100, -63, -30, -10, -3, 0, 1, 7, 10, 20, 33, 45, 60]
        conts = {"scalar-int": lambda v: v[3], "scalar-float": lambda v: float(v[4]) + 0.5, "list": lambda v: list(v),
                 "list-float": lambda v: [x + 0.25 for x in v], "int-array": lambda v: np.array(v, dtype=int), "int32-array": lambda v: np.array(v, dtype=np.int32), "int16-array": lambda v: np.array(v, dtype=np.int16),
                 "int8-array": lambda v: np.array([x for x in v if -100 <= x <= 100], dtype=np.int8),
                 "float-array": lambda v: np.array(v, dtype=float) + 0.5}
        for name, mk in conts.items():
            try:
                x = mk(levels)
                n_eval += 1
                w = dBm2w(x)
                xf = np.asarray(x, dtype=float)
                want = 10.0 ** (xf / 10.0) / 1000.0
                if not np.allclose(np.asarray(w, dtype=float), want, rtol=1e-12, atol=0):
                    key = "C16:dBm2w-closed-form:" + name
                    fails.append({"key": key, "clause": key, "ops": [{"container": name, "got": np.asarray(w).tolist()[:4]}]})
                back = w2dBm(w)
                if not np.allclose(np.asarray(back, dtype=float), xf, rtol=1e-9, atol=1e-9):
                    key = "C16:dBm-roundtrip:" + name
                    fails.append({"key": key, "clause": key, "ops": [{"container": name}]})
                wi = mk([1, 2, 5, 10, 20, 50, 100, 200, 500, 1000, 2000, 3000, 4000])
                d2 = w2dBm(wi)
                wf = np.asarray(wi, dtype=float)
                if not np.allclose(np.asarray(d2, dtype=float), 10 * np.log10(1000 * wf), rtol=1e-12):
                    key = "C16:w2dBm-closed-form:" + name
                    fails.append({"key": key, "clause": key, "ops": [{"container": name}]})
                if not np.allclose(np.asarray(dBm2w(d2), dtype=float), wf, rtol=1e-9):
                    key = "C16:W-roundtrip:" + name
                    fails.append({"key": key, "clause": key, "ops": [{"container": name}]})
            except Exception as e:  # noqa: BLE001
                key = "C16:conversion-raises:%s" % name
                fails.append({"key": key, "clause": key, "ops": [{"container": name, "error": type(e).__name__}]})
        for dt in (int, float):
            d = dnp.DNPData(np.arange(len(levels) * 2.0).reshape(len(levels), 2), ["Power", "x"], [np.array(levels, dtype=dt), np.arange(2.0)])
            n_eval += 1
            r = convert_power(d, "dBm2W")
            if not np.allclose(r.coords["Power"], 10.0 ** (np.array(levels) / 10.0) / 1000.0, rtol=1e-12):
                key = "C16:power-axis:%s" % dt.__name__
                fails.append({"key": key, "clause": key, "ops": [{"dtype": dt.__name__}]})
            rr = convert_power(r, "W2dBm")
            if not np.allclose(rr.coords["Power"], levels, atol=1e-9):
                key = "C16:power-axis-roundtrip:%s" % dt.__name__
                fails.append({"key": key, "clause": key, "ops": [{"dtype": dt.__name__}]})
        # the power axis of a data object is found BY NAME (power / powers, any case), wherever it sits and whatever the
        # other dimensions are called (names that are fragments of "powers" included); every other axis and the values stay
        for pname in ("Power", "power", "powers", "POWERS"):
            for others in (["s", "t2"], ["p", "er"], ["we", "o"], ["pow", "x"], ["r", "w"]):
                for pos in range(3):
                    dims = list(others); dims.insert(pos, pname)
                    shape = [2, 3]; shape.insert(pos, len(levels))
                    coords = [np.array([1.0, 20.0]), np.array([-10.0, 0.0, 30.0])]; coords.insert(pos, np.array(levels, dtype=float))
                    vals = np.arange(float(np.prod(shape))).reshape(shape)
                    d = dnp.DNPData(vals.copy(), list(dims), [c.copy() for c in coords])
                    n_eval += 1
                    sig = "%s:%s:pos%d" % (pname.lower(), "+".join(others), pos)
                    try:
                        r = convert_power(d, "dBm2W")
                        ok = (list(r.dims) == dims and np.allclose(r.coords[pname], 10.0 ** (np.array(levels) / 10.0) / 1000.0, rtol=1e-12)
                              and all(np.array_equal(r.coords[o], d.coords[o]) for o in others) and np.array_equal(r.values, vals)
                              and r.dnplab_attrs.get("power_unit") == "W")
                        rr = convert_power(r)       # the mode now comes from power_unit
                        ok = ok and np.allclose(rr.coords[pname], levels, atol=1e-9) and rr.dnplab_attrs.get("power_unit") == "dBm" \
                            and all(np.array_equal(rr.coords[o], d.coords[o]) for o in others)
                    except BaseException as e:  # noqa: BLE001
                        ok = False
                    if not ok:
                        key = "C16:power-axis-by-name:" + sig
                        fails.append({"key": key, "clause": key, "ops": [{"dims": dims}]})
        for dims in (["s", "t2"], ["p"], ["er", "x"], ["pow", "w"]):
            d = dnp.DNPData(np.zeros([3] * len(dims)), list(dims), [np.arange(3.0) for _ in dims])
            n_eval += 1
            try:
                convert_power(d, "dBm2W")
                key = "C16:no-power-dimension-not-refused:" + "+".join(dims)
                fails.append({"key": key, "clause": key, "ops": [{"dims": dims}]})
            except BaseException:  # noqa: BLE001
                pass
    finally:
        shutil.rmtree(work, ignore_errors=True)
    seen, uniq = set(), []
    for f in fails:
        if f["key"] not in seen:
            seen.add(f["key"]); uniq.append(f)
    return {"evaluations": n_eval, "distinct_nontrivial": dist.get("autodetect_cases", 0) + dist.get("config_keys", 0), "rule": RULE,
            "samples": [{"autodetect": {"ext": ".fid", "isDir": True, "listing": ["acqus"]}}, {"unit": "MHz"}],
            "traces_validated": n_eval - len(mism), "mismatches": mism, "impl_failures": uniq, "exhaustive": True,
            "distribution": dist,
            "trusted_extra": ["configparser and os.path/os.listdir are L0; 10^x and log10 in ℝ vs IEEE double outside the theorems"]}


def replay(rp):
    return {"fails": True, "note": "re-run ./check C16; the replay names the failing unit / key / path", "ops": rp.get("ops")}
