"""C13 — phase corrections form a group action and autophase is replayable."""
import random
from common import rstr, gstr, warnings
from gen import *
from gen_proc import *
from oracles import PhaseOracle, ConsistencyOracle
from propbase import StreamProperty
from common import np, dnp

RULE = ("phase with p0, p1 drawn from (-360, 360) in all four sign combinations plus zeros, scalars and per-trace arrays (also arrays in which only some entries are zero, scalar with array), "
        "trace lengths 2..64 (quick: a subset), 1-3-D complex data with the phased dimension in every position; "
        "phase_cycle with every receiver-phase list of length 1-8 dividing the cycled extent; correspondence with the Lean "
        "model (closed-form factor table) and, on the real code, closed form, |out|=|in|, additivity, inverse, "
        "360-periodicity of p0; autophase on synthetic mis-phased Lorentzians: magnitudes kept, recorded angles replay the "
        "output through phase(), reference-slice mode applies that slice's angles to every trace, a second autophase on data that already carries an autophase record behaves as on data without history; non-trivial = a negative "
        "angle, an array angle or dimension not first")


def streams(tier, seed):
    rng = random.Random(seed * 7919 + 13)
    out = []
    angles = [Fraction(0), Fraction(30), Fraction(-30), Fraction(359), Fraction(-359), Fraction(180), Fraction(-45, 2), Fraction(725, 4)]
    ns = [2, 3, 5, 8, 17, 64] if tier == "quick" else list(range(2, 65))
    for n in ns:
        for _ in range(2 if tier == "quick" else 4):
            a = uniform_new(rng, 0, ["f2"], [n], "f2", cplx=True, rand_values=True)
            out.append([a, op_phase(a, "f2", rng.choice(angles), rng.choice(angles))])
    # the ramp is k/N by POINT INDEX: an unevenly spaced, a descending and a repeated-first-value axis give the same factors
    for axis_kind, ax in (("uneven", ["0", "1", "3", "7/2", "8", "9"]), ("descending", ["5", "4", "3", "2", "1", "0"]),
                          ("repeated-start", ["2", "2", "3", "5", "6", "9"]), ("negative-uneven", ["-7", "-3", "-2", "0", "1/2", "4"])):
        for p0, p1 in ((Fraction(30), Fraction(-120)), (Fraction(0), Fraction(300)), (Fraction(-45, 2), Fraction(77))):
            a = uniform_new(rng, 0, ["x", "f2"], [3, 6], "f2", cplx=True, rand_values=True)
            a["coords"][1] = list(ax)
            out.append([a, op_phase(a, "f2", p0, p1)])
            b = uniform_new(rng, 0, ["f2", "x"], [6, 2], "f2", cplx=True, rand_values=True)
            b["coords"][0] = list(ax)
            out.append([b, op_phase(b, "f2", p0, p1)])
    for p0 in angles[:6]:
        for p1 in angles[:6]:
            a = uniform_new(rng, 0, ["x", "f2"], [3, 4], "f2", cplx=True, rand_values=True)
            out.append([a, op_phase(a, "f2", p0, p1)])
    for _ in range(2 if tier == "quick" else 10):
        for dims, shape, dim in shapes_with_dim_everywhere(rng, (1, 2, 3), lo=2, hi=5):
            a = uniform_new(rng, 0, dims, shape, dim, cplx=True, rand_values=True)
            m = 1
            for d, s in zip(dims, shape):
                if d != dim:
                    m *= s
            out.append([a, op_phase(a, dim, Fraction(rng.randint(-359, 359)), Fraction(rng.randint(-359, 359)))])
            out.append([a, op_phase(a, dim, [Fraction(rng.randint(-359, 359)) for _ in range(m)],
                            [Fraction(rng.randint(-359, 359)) for _ in range(m)])])
            if m > 1:
                # per-trace arrays in which SOME entries are exactly zero (none / one / all but one), for either angle
                for zp in range(3):
                    def arr(zero_at):
                        return [Fraction(0) if (i in zero_at) else Fraction(rng.choice([-1, 1]) * rng.randint(1, 359)) for i in range(m)]
                    z1 = {rng.randrange(m)} if zp == 0 else (set(range(m)) - {rng.randrange(m)} if zp == 1 else set())
                    z0 = {rng.randrange(m)} if zp != 1 else set()
                    out.append([a, op_phase(a, dim, arr(z0), arr(z1))])
                out.append([a, op_phase(a, dim, Fraction(rng.randint(1, 359)), arr({0}))])
                out.append([a, op_phase(a, dim, arr({m - 1}), Fraction(-rng.randint(1, 359)))])
            n = shape[dims.index(dim)]
            for L in range(1, 9):
                if n % L == 0:
                    out.append([a, op_simple("phase_cycle", a, dim=dim, rp=[rng.randint(0, 3) for _ in range(L)])])
    # autophase: mis-phased lines, the dimension in every position; the model applies the RECORDED angles through the
    # factor table of `phase`
    for shape, k in ([([24], 0), ([16, 2], 0), ([3, 16], 1)] + ([([2, 16, 2], 1), ([32], 0)] if tier == "thorough" else [])):
        dims = ["f2" if i == k else "d%d" % i for i in range(len(shape))]
        x, vals = lorentz_data(rng, shape, k, [25.0, -40.0, 70.0, 10.0, 200.0, -310.0])
        a = {"op": "new", "id": 0, "dims": dims, "shape": list(shape),
             "coords": [[rstr(v) for v in (x if i == k else np.arange(s, dtype=float))] for i, s in enumerate(shape)],
             "values": [gstr(v) for v in vals.reshape(-1)]}
        out.append([a, op_autophase(a, "f2")])
    return out


def lorentz_data(rng, shape, k, phases):
    """mis-phased Lorentzian absorption lines along axis k"""
    n = shape[k]
    x = np.linspace(-50, 50, n)
    base = 1.0 / (1.0 + 1j * (x - 3.0) / 2.0) * 2.0     # complex Lorentzian (absorptive real part when phased)
    vals = np.zeros(shape, dtype=complex)
    it = np.ndindex(*[s for i, s in enumerate(shape) if i != k])
    for j, idx in enumerate(it):
        sl = list(idx); sl.insert(k, slice(None))
        vals[tuple(sl)] = base * np.exp(-1j * np.deg2rad(phases[j % len(phases)]))
    return x, vals


def autophase_oracle(tier, seed):
    """model-independent check of the autophase clauses on the real code"""
    rng = random.Random(seed * 7919 + 113)
    fails, n_eval = [], 0
    cases = [([128], 0), ([96, 2], 0), ([3, 96], 1), ([2, 64, 3], 1)] + ([([2, 80, 2], 1)] if tier == "thorough" else [])
    for shape, k in cases:
        dims = ["f2" if i == k else "d%d" % i for i in range(len(shape))]
        x, vals = lorentz_data(rng, shape, k, [25.0, -40.0, 70.0, 10.0])
        d = dnp.DNPData(vals, dims, [x if i == k else np.arange(s) for i, s in enumerate(shape)])
        with warnings.catch_warnings():
            warnings.simplefilter("ignore")
            r = dnp.autophase(d, dim="f2")
        n_eval += 1
        if not np.allclose(np.abs(r.values), np.abs(vals), rtol=1e-9, atol=1e-12):
            fails.append({"key": "C13:autophase-magnitude", "clause": "C13:autophase-magnitude", "ops": [{"shape": shape, "dim_pos": k}]})
        tuples = r.proc_attrs[-1][1].get("phasetuples", [])
        m = int(np.prod([s for i, s in enumerate(shape) if i != k])) if len(shape) > 1 else 1
        if len(tuples) != m:
            fails.append({"key": "C13:autophase-tuples-missing", "clause": "C13:autophase-tuples-missing", "ops": [{"shape": shape}]})
        else:
            p0 = np.array([t[0] for t in tuples]); p1 = np.array([t[1] for t in tuples])
            if m == 1:
                p0, p1 = float(p0[0]), float(p1[0])
            rep = dnp.phase(d, "f2", p0, p1)
            if not np.allclose(rep.values, r.values, rtol=1e-7, atol=1e-9):
                fails.append({"key": "C13:autophase-replay", "clause": "C13:autophase-replay", "ops": [{"shape": shape, "dim_pos": k}]})
        # autophase applied AGAIN to data that already carries an autophase record (autophase -> further drift -> autophase):
        # the second pass must behave as on data without history — its own record holds its own angles, which replay its output
        with warnings.catch_warnings():
            warnings.simplefilter("ignore")
            drift = dnp.phase(r, "f2", 35.0, -60.0)
            bare = dnp.DNPData(np.array(drift.values, copy=True), list(drift.dims), [np.array(drift.coords[dm], copy=True) for dm in drift.dims])
            r2 = dnp.autophase(drift, dim="f2")
            r2b = dnp.autophase(bare, dim="f2")
        n_eval += 1
        t2 = r2.proc_attrs[-1][1].get("phasetuples", []) if r2.proc_attrs and r2.proc_attrs[-1][0] == "autophase" else None
        if t2 is None or len(t2) != m:
            fails.append({"key": "C13:autophase-second-pass-record", "clause": "C13:autophase-second-pass-record", "ops": [{"shape": shape, "dim_pos": k}]})
        else:
            q0 = np.array([t[0] for t in t2]); q1 = np.array([t[1] for t in t2])
            if m == 1:
                q0, q1 = float(q0[0]), float(q1[0])
            rep2 = dnp.phase(drift, "f2", q0, q1)
            if not np.allclose(rep2.values, r2.values, rtol=1e-7, atol=1e-9):
                fails.append({"key": "C13:autophase-second-pass-replay", "clause": "C13:autophase-second-pass-replay", "ops": [{"shape": shape, "dim_pos": k}]})
        if not np.allclose(r2.values, r2b.values, rtol=1e-9, atol=1e-12):
            fails.append({"key": "C13:autophase-depends-on-earlier-history", "clause": "C13:autophase-depends-on-earlier-history", "ops": [{"shape": shape, "dim_pos": k}]})
        if len(shape) == 2:
            with warnings.catch_warnings():
                warnings.simplefilter("ignore")
                rs2 = dnp.autophase(drift, dim="f2", reference_slice=(dims[1 - k], shape[1 - k] - 1))
                rs2b = dnp.autophase(bare, dim="f2", reference_slice=(dims[1 - k], shape[1 - k] - 1))
            n_eval += 1
            if not np.allclose(rs2.values, rs2b.values, rtol=1e-9, atol=1e-12):
                fails.append({"key": "C13:autophase-reference-slice-depends-on-earlier-history",
                              "clause": "C13:autophase-reference-slice-depends-on-earlier-history", "ops": [{"shape": shape, "dim_pos": k}]})
        if len(shape) == 2:
            other = dims[1 - k]
            for ref_idx, deriv in [(r_, dv) for r_ in range(shape[1 - k]) for dv in (1, 2, 3)]:
                with warnings.catch_warnings():
                    warnings.simplefilter("ignore")
                    rr = dnp.autophase(d, dim="f2", reference_slice=(other, ref_idx), deriv=deriv)
                    single = dnp.autophase(d[other, ref_idx], dim="f2", deriv=deriv)
                n_eval += 1
                t0, t1 = single.proc_attrs[-1][1]["phasetuples"][0]
                want = dnp.phase(d, "f2", t0, t1)
                if not np.allclose(rr.values, want.values, rtol=1e-6, atol=1e-8):
                    fails.append({"key": "C13:autophase-reference-slice", "clause": "C13:autophase-reference-slice",
                                  "ops": [{"shape": shape, "dim_pos": k, "ref": ref_idx, "deriv": deriv}]})
                    break
        if len(shape) == 3:
            # a reference slice that names BOTH other dimensions (in either order of the pairs): every trace receives the
            # correction found for exactly that one trace
            o1, o2 = [dm for dm in dims if dm != "f2"]
            e1, e2 = [s_ for i, s_ in enumerate(shape) if i != k]
            done = False
            for i1 in range(e1):
                for i2 in range(e2):
                    for ref in ((o1, i1, o2, i2), (o2, i2, o1, i1)):
                        with warnings.catch_warnings():
                            warnings.simplefilter("ignore")
                            rr = dnp.autophase(d, dim="f2", reference_slice=ref)
                            single = dnp.autophase(d[o1, i1, o2, i2], dim="f2")
                        n_eval += 1
                        t0, t1 = single.proc_attrs[-1][1]["phasetuples"][0]
                        want = dnp.phase(d, "f2", t0, t1)
                        if not np.allclose(rr.values, want.values, rtol=1e-6, atol=1e-8):
                            fails.append({"key": "C13:autophase-reference-slice", "clause": "C13:autophase-reference-slice",
                                          "ops": [{"shape": shape, "dim_pos": k, "ref": list(ref)}]})
                            done = True
                            break
                    if done:
                        break
                if done:
                    break
    # strongly mis-phased short spectra: the minimiser may end with a first-order angle beyond +-360 degrees; whatever it
    # records must reproduce its own output when replayed through phase()
    xs = np.linspace(-16.0, 15.0, 32)
    for p1 in ([200.0, 310.0, 330.0, 350.0, -320.0, -345.0] if tier == "quick" else list(np.arange(180.0, 360.0, 10.0)) + list(-np.arange(180.0, 360.0, 10.0))):
        for centre in (-5.0, 4.0):
            for p0 in (40.0, -110.0):
                spec = 1.0 / (1.0 + 1j * (xs - centre) / 1.5)
                ramp = np.exp(1j * np.deg2rad(p0 + p1 * np.arange(32) / 32.0))
                d = dnp.DNPData(spec * ramp, ["f2"], [xs.copy()])
                with warnings.catch_warnings():
                    warnings.simplefilter("ignore")
                    r = dnp.autophase(d, dim="f2")
                n_eval += 1
                t = r.proc_attrs[-1][1].get("phasetuples", [])
                if len(t) != 1:
                    fails.append({"key": "C13:autophase-tuples-missing", "clause": "C13:autophase-tuples-missing", "ops": [{"p1": p1}]}); continue
                rep = dnp.phase(d, "f2", float(t[0][0]), float(t[0][1]))
                if not np.allclose(rep.values, r.values, rtol=1e-7, atol=1e-9):
                    fails.append({"key": "C13:autophase-replay", "clause": "C13:autophase-replay",
                                  "ops": [{"p0": p0, "p1": p1, "centre": centre, "recorded": [float(t[0][0]), float(t[0][1])]}]})
    return fails, n_eval


P = StreamProperty("C13", [PhaseOracle, ConsistencyOracle], streams, RULE, ("C13",),
                   lambda ops: "phase" == ops[-1]["f"] and ("-" in json_dumps(ops[-1]["kw"].get("p0")) or "-" in json_dumps(ops[-1]["kw"].get("p1"))
                                                          or ops[0]["dims"][0] != ops[-1]["kw"]["dim"]))


def json_dumps(x):
    import json
    return json.dumps(x)


def run(tier, seed, escalate=False):
    res = P.run(tier, seed, escalate)
    fails, n_eval = autophase_oracle(tier, seed)
    seen = set()
    for f in fails:
        if f["key"] not in seen:
            seen.add(f["key"]); res["impl_failures"].append(f)
    res["evaluations"] += n_eval
    res["unproved_clauses"] = ["that the entropy minimiser (scipy.optimize.fmin) finds the correct phase: external optimiser, "
                               "exercised on the implementation only"]
    return res


replay = P.replay


# ------------------------------------------------------------------ the same numbers stored in another dtype
from oracles import dtype_independence, merge_oracle, history_independence
from common import np, dnp
DTYPE_CASES = [("phase", lambda d, dim: dnp.phase(d, dim, 30.0, -45.0), "f2"),
    ("phase-arrays", lambda d, dim: dnp.phase(d, dim, np.arange(6) * 20.0 - 40.0, np.arange(6) * -15.0 + 30.0), "f2"),
    ("phase_cycle", lambda d, dim: dnp.phase_cycle(d, dim, [0, 1, 2, 3]), "t2")]
_run_before_dtype = run


def run(tier, seed, escalate=False):
    """… plus: integer / single-precision / complex storage of the values and integer / unsigned / single-precision storage of
    the processed axis give the result of the float64 object (a dtype the function refuses is not judged)"""
    res = _run_before_dtype(tier, seed, escalate)
    f, n = dtype_independence("C13", DTYPE_CASES, seed, dim_positions=(1,) if tier == "quick" and not escalate else (0, 1, 2))
    res = merge_oracle(res, f, n, "storage_dtype_variants")
    f, n = history_independence("C13", DTYPE_CASES, seed)
    return merge_oracle(res, f, n, "call_history_cases")


# ------------------------------------------------------------------ the same argument values in another container / number type
from oracles import argform_independence
ARGFORM_CASES = [("phase-angles", "f2", [(lab, (lambda a, b: lambda d, dim: dnp.phase(d, dim, a, b))(a, b)) for lab, a, b in (
        ("floats", 30.0, -45.0), ("ints", 30, -45), ("numpy-floats", np.float64(30.0), np.float64(-45.0)), ("0-d arrays", np.array(30.0), np.array(-45.0)))]),
    ("phase-per-trace", "f2", [(lab, (lambda a, b: lambda d, dim: dnp.phase(d, dim, a, b))(a, b)) for lab, a, b in (
        ("arrays", np.arange(6) * 20.0 - 40.0, np.arange(6) * -15.0 + 30.0), ("lists", list(np.arange(6) * 20.0 - 40.0), list(np.arange(6) * -15.0 + 30.0)),
        ("int-arrays", np.arange(6) * 20 - 40, np.arange(6) * -15 + 30), ("tuples", tuple(np.arange(6) * 20.0 - 40.0), tuple(np.arange(6) * -15.0 + 30.0)))]),
    ("phase_cycle", "t2", [(lab, (lambda r: lambda d, dim: dnp.phase_cycle(d, dim, r))(r)) for lab, r in (
        ("list", [0, 1, 2, 3]), ("tuple", (0, 1, 2, 3)), ("array", np.array([0, 1, 2, 3])), ("float-list", [0.0, 1.0, 2.0, 3.0]))])]
_run_before_argform = run


def run(tier, seed, escalate=False):
    """… plus: sequence arguments as tuple / list / ndarray, numbers as Python / NumPy scalars, flags as bool / numpy.bool_ / 0-1"""
    res = _run_before_argform(tier, seed, escalate)
    f, n = argform_independence("C13", ARGFORM_CASES, seed)
    return merge_oracle(res, f, n, "argument_form_variants")
