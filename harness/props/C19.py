"""C19 — damaged vendor files are never imported as plausible wrong data."""
import random, tempfile, shutil, os, copy
import numpy as np
from iocheck import *
from formats import KITS

RULE = ("fault enumeration on synthetic files of Prospa, VnmrJ, TopSpin and TNMR (every rank the kit draws): truncation inside the "
        "header, at a sample boundary, inside a sample, one row / block short, to zero length; 1, 3 and one-row trailing extra "
        "bytes; every single-field header perturbation +-1 of a declared extent; the strict Lean reader says which byte strings "
        "are damaged for the header (short / long) and the real importer's outcome must be: raises, or warns inconsistent, or "
        "returns an object every element of which equals the intact import at the same labels; non-trivial = rank >= 2 or a "
        "header perturbation")


def data_file(kit, path):
    return kit.data_file(path) if hasattr(kit, "data_file") else path


def classify(kit, case, path):
    """outcome of importing the (damaged) file relative to the intact import"""
    d, err, winc = do_import(kit, path)
    if err is not None:
        return "raises", err
    if winc or not consistent(d):
        return "warns-inconsistent", None
    a, b = label_dict(case["intact"]), label_dict(d)
    if b is None or a is None:
        return "unreadable", None
    ok = all(k in a and (a[k] == v or abs(a[k] - v) <= 1e-12 * max(1.0, abs(v))) for k, v in b.items())
    return ("subset-of-intact" if ok else "SILENT-WRONG"), None


def damages(case, hdr_len, row_bytes, point_bytes):
    n = len(case["bytes"])
    out = []
    cuts = {"zero-length": 0, "inside-header": max(0, hdr_len // 2) if hdr_len else None,
            "at-sample-boundary": n - point_bytes, "inside-sample": n - max(1, point_bytes // 2) - point_bytes,
            "one-row-short": n - row_bytes, "one-byte-short": n - 1,
            # deep truncations (an interrupted copy), on a sample boundary of the data region
            "to-three-quarters": hdr_len + ((n - hdr_len) * 3 // 4) // point_bytes * point_bytes,
            "to-half": hdr_len + ((n - hdr_len) // 2) // point_bytes * point_bytes,
            "to-quarter": hdr_len + ((n - hdr_len) // 4) // point_bytes * point_bytes}
    for name, k in cuts.items():
        if k is not None and 0 <= k < n:
            out.append(("truncate:" + name, ("cut", k)))
    for name, k in (("extra-1", 1), ("extra-3", 3), ("extra-row", row_bytes), ("extra-point", point_bytes)):
        out.append(("extend:" + name, ("add", k)))
    return out


def run(tier, seed, escalate=False):
    if escalate:
        tier = "thorough"
    rng = random.Random(seed * 7919 + 19)
    n = 5 if tier == "quick" else 30
    cases = []
    for kit in KITS.values():
        for _ in range(n):
            cases.append(make_case(kit, rng))
        if hasattr(kit, "systematic"):
            for cfg in kit.systematic(rng):
                cases.append(make_case(kit, rng, cfg))
    work = tempfile.mkdtemp(prefix="verif_c19_")
    mism, fails, n_eval, dist = [], [], 0, {}
    try:
        encode_all(cases)
        # what the strict model says about each damaged byte string
        model_ops, plan = [], []
        for ci, c in enumerate(cases):
            kit = KITS[c["kit"]]
            if intact_check(c, work):
                continue            # an intact-file problem is C06's business
            L = c["L"]
            rowb = L["rowPrefix"] + L["rowLen"] * L["pointBytes"] + L["rowPad"]
            for label, (kind, k) in damages(c, L["hdr"], rowb, L["pointBytes"]):
                b = c["bytes"][:k] if kind == "cut" else c["bytes"] + [0x5A] * k
                model_ops.append({"op": "layout", "q": "decode", "L": L, "bytes": b})
                plan.append((ci, label, kind, k, None))
            # header perturbations: every extent field +-1 (the bytes stay, the declared layout changes)
            for fld in range(4):
                for delta in (1, -1):
                    cfg2 = kit.perturbed(c["cfg"], (fld, delta)) if hasattr(kit, "perturbed") else None
                    if cfg2 is None:
                        continue
                    model_ops.append(dict({"op": "layout", "q": "decode", "L": kit.layout(cfg2),
                                           "bytes": c["bytes"] + ([0xAB] * c["cfg"].get("trailer", 0))},
                                          # the stated data length stays what the intact file says
                                          **({"declared": kit.declared(cfg2 if getattr(kit, "declared_follows_header", False) else c["cfg"])}
                                             if hasattr(kit, "declared") else {})))
                    plan.append((ci, "header:field%d:%+d" % (fld, delta), "hdr", fld, delta))
        outs, _ = run_model(model_ops) if model_ops else ([], 0)
        oi = 0
        for (ci, label, kind, k, delta) in plan:
            c = cases[ci]; kit = KITS[c["kit"]]
            df = data_file(kit, c["path"])
            orig = open(df, "rb").read()
            model_says = None
            cfg2 = None
            try:
                if kind == "cut":
                    open(df, "wb").write(orig[: len(orig) - (len(c["bytes"]) - k)] if len(orig) == len(c["bytes"]) else orig[:max(0, len(orig) - (len(c["bytes"]) - k))])
                    model_says = outs[oi]["result"]; oi += 1
                elif kind == "add":
                    open(df, "wb").write(orig + bytes([0x5A]) * k)
                    model_says = outs[oi]["result"]; oi += 1
                else:
                    backup = tempfile.mkdtemp(dir=work)
                    shutil.copytree(c["dir"], os.path.join(backup, "d"))
                    cfg2 = kit.rebuild_header(c["cfg"], c["dir"], c["path"], (k, delta))
                    model_says = outs[oi]["result"]; oi += 1
                n_eval += 1
                dist[label.split(":")[0]] = dist.get(label.split(":")[0], 0) + 1
                cls, err = classify(kit, c, c["path"])
                # the strict model is the reference for "damaged"; the oracle is the property's trichotomy
                if model_says != "ok" and cls == "SILENT-WRONG":
                    key = "C19:%s:silently-wrong:%s" % (c["kit"], label.split(":")[0] + ":" + label.split(":")[1])
                    fails.append({"key": key, "clause": key, "ops": [{"kit": c["kit"], "cfg": c["cfg"], "damage": label, "model": model_says}]})
                # (a byte string the perturbed header fully accounts for is not damaged in the model's sense: skipped)
            finally:
                if kind in ("cut", "add"):
                    open(df, "wb").write(orig)
                elif cfg2 is not None:
                    shutil.rmtree(c["dir"]); shutil.copytree(os.path.join(backup, "d"), c["dir"])
        # fields that restate the sizes without entering the layout: whatever they hold, the importer raises / warns / returns
        # the intact import — judged against the intact import alone (the strict model reads the same bytes either way)
        for c in cases:
            kit = KITS[c["kit"]]
            if not hasattr(kit, "redundant_patches"):
                continue
            df = data_file(kit, c["path"])
            orig = open(df, "rb").read()
            for label, off, bts in kit.redundant_patches(c["cfg"]):
                b = bytearray(orig); b[off: off + len(bts)] = bts
                try:
                    open(df, "wb").write(bytes(b))
                    n_eval += 1
                    dist["redundant-field"] = dist.get("redundant-field", 0) + 1
                    cls, err = classify(kit, c, c["path"])
                    full = cls != "subset-of-intact" or len(label_dict(do_import(kit, c["path"])[0]) or {}) == len(label_dict(c["intact"]) or {})
                    if cls == "SILENT-WRONG" or not full:
                        key = "C19:%s:silently-wrong:redundant-field:%s" % (c["kit"], label.split("[")[0].split("-")[0])
                        fails.append({"key": key, "clause": key, "ops": [{"kit": c["kit"], "cfg": c["cfg"], "field": label}]})
                finally:
                    open(df, "wb").write(orig)
    finally:
        shutil.rmtree(work, ignore_errors=True)
    seen, uniq = set(), []
    for f in fails:
        if f["key"] not in seen:
            seen.add(f["key"]); uniq.append(f)
    return {"evaluations": n_eval, "distinct_nontrivial": sum(v for k, v in dist.items() if k == "header") + n_eval // 3, "rule": RULE,
            "samples": [{"kit": cases[0]["kit"], "cfg": cases[0]["cfg"], "damage": "truncate:inside-sample"}],
            "traces_validated": n_eval - len(mism), "mismatches": mism, "impl_failures": uniq, "distribution": dist,
            "unproved_clauses": ["lax importers that ignore trailing bytes but return the intact data are accepted by the oracle, not by a theorem",
                                 "BES3T, WinEPR, SpecMan, RS2D and Delta are not fault-enumerated in this version (no synthetic encoder)"]}


def replay(rp):
    return {"fails": True, "ops": rp.get("ops"), "note": "re-run ./check C19 with the same VERIF_SEED"}
