"""C04 — arithmetic aligns operands by dimension name, not by axis position."""
import random, itertools
from gen import *
from oracles import ArithOracle, ConsistencyOracle
from propbase import StreamProperty

RULE = ("ordered pairs of dimension lists drawn as permutations of non-empty subsets of the names {a,b,c,d} with "
        "per-name extents (2,3,4,5) (pairwise distinct) a name of extent 1 (equal and differing single coordinate) and three names of EQUAL extent, all four operators, real and complex data, plus scalar / "
        "plain-array operands on either side and coordinate-mismatch pairs that must raise; quick = all pairs over 3 names "
        "+ a seeded sample over 4 names, thorough = all 64x64 pairs; non-trivial = the two operands differ in dims or "
        "axis order; distinct by canonical stream")
EXT = {"a": 2, "b": 3, "c": 4, "d": 5, "e": 1, "p": 3, "q": 3}
COORD = {"a": ["0", "1"], "b": ["3", "2", "1"], "c": ["0", "1/2", "1", "3/2"], "d": ["-2", "-1", "0", "1", "2"], "e": ["7"],
         "p": ["1", "2", "3"], "q": ["10", "20", "30"]}


def obj(oid, dims, cplx, salt):
    shape = [EXT[d] for d in dims]
    return {"op": "new", "id": oid, "dims": list(dims), "shape": shape, "coords": [list(COORD[d]) for d in dims],
            "values": selfdesc_values(shape, cplx, salt)}


def dimlists(names):
    out = []
    for k in range(1, len(names) + 1):
        for sub in itertools.combinations(names, k):
            out += [list(p) for p in itertools.permutations(sub)]
    return out


def streams(tier, seed):
    rng = random.Random(seed * 7919 + 4)
    out = []
    ops4 = ["add", "sub", "mul", "truediv"]
    l3 = dimlists(["a", "b", "c"])
    for da in l3:
        for db in l3:
            f = rng.choice(ops4)
            out.append([obj(0, da, False, 0), obj(1, db, rng.random() < 0.3, 5),
                        {"op": "binop", "f": f, "lhs": 0, "rhs": 1, "out": 2}])
    l4 = dimlists(["a", "b", "c", "d"])
    if tier == "thorough":
        pairs = [(x, y) for x in l4 for y in l4]
    else:
        pairs = [(rng.choice(l4), rng.choice(l4)) for _ in range(150)]
    for da, db in pairs:
        for f in (ops4 if tier == "thorough" else [rng.choice(ops4)]):
            out.append([obj(0, da, rng.random() < 0.3, 0), obj(1, db, False, 5),
                        {"op": "binop", "f": f, "lhs": 0, "rhs": 1, "out": 2}])
    # coordinate mismatch on a shared dim must raise
    for da in l3:
        b = obj(1, list(reversed(da)), False, 5)
        k = rng.randrange(len(da))
        b["coords"][k] = [str(Fraction(x) + 1) for x in b["coords"][k]]
        out.append([obj(0, da, False, 0), b, {"op": "binop", "f": rng.choice(ops4), "lhs": 0, "rhs": 1, "out": 2}])
        b2 = obj(1, da, False, 5)
        b2["shape"][0] += 1; b2["coords"][0] = b2["coords"][0] + ["99"]; b2["values"] = selfdesc_values(b2["shape"], False, 5)
        out.append([obj(0, da, False, 0), b2, {"op": "binop", "f": "add", "lhs": 0, "rhs": 1, "out": 2}])
    # a dimension of extent one (an 'Average' axis, say) is a dimension like any other: aligned by name when both have it,
    # broadcast when one lacks it, and refused when the two single coordinates differ
    l1 = dimlists(["a", "b", "e"])
    pairs1 = [(x, y) for x in l1 for y in l1 if "e" in x or "e" in y]
    if tier != "thorough":
        pairs1 = rng.sample(pairs1, 60)
    for da, db in pairs1:
        out.append([obj(0, da, False, 0), obj(1, db, rng.random() < 0.3, 5),
                    {"op": "binop", "f": rng.choice(ops4), "lhs": 0, "rhs": 1, "out": 2}])
    for da, db in [(x, y) for x in l1 for y in l1 if "e" in x and "e" in y][:: (1 if tier == "thorough" else 7)]:
        b = obj(1, db, False, 5)
        b["coords"][db.index("e")] = ["5"]
        for f in (ops4 if tier == "thorough" else [rng.choice(ops4)]):
            out.append([obj(0, da, False, 0), b, {"op": "binop", "f": f, "lhs": 0, "rhs": 1, "out": 2}])
    # … also when only INTERIOR coordinates differ (same length, same first and last value: a linear against a
    # logarithmic delay list, say)
    for da in [x for x in l3 if "c" in x] + [["d"], ["a", "d"], ["d", "b"]]:
        name = "c" if "c" in da else "d"
        b = obj(1, list(reversed(da)), False, 5)
        k = list(reversed(da)).index(name)
        cc = [Fraction(x) for x in b["coords"][k]]
        mid = len(cc) // 2
        cc[mid] = cc[mid] + (cc[mid + 1] - cc[mid]) / 3 if mid + 1 < len(cc) else cc[mid] - Fraction(1, 3)
        b["coords"][k] = [str(x) for x in cc]
        out.append([obj(0, da, False, 0), b, {"op": "binop", "f": rng.choice(ops4), "lhs": 0, "rhs": 1, "out": 2}])
    # … and when the shared axis holds the SAME coordinate values in another stored order (reversed, rotated): position by
    # position the labels differ, so the data must not be combined
    for da in [x for x in l3 if len(x) >= 1][:: (1 if tier == "thorough" else 3)]:
        for how in ("reversed", "rotated"):
            b = obj(1, list(reversed(da)), False, 5)
            k = rng.randrange(len(da))
            cc = list(b["coords"][k])
            if len(cc) < 2:
                continue
            b["coords"][k] = list(reversed(cc)) if how == "reversed" else cc[1:] + cc[:1]
            out.append([obj(0, da, False, 0), b, {"op": "binop", "f": rng.choice(ops4), "lhs": 0, "rhs": 1, "out": 2}])
            out.append([b, obj(0, da, False, 0), {"op": "binop", "f": rng.choice(ops4), "lhs": 1, "rhs": 0, "out": 2}])
    # dimensions of EQUAL extent (b, p, q all have 3 points): a mis-alignment keeps every shape, only labels can tell
    l2 = dimlists(["b", "p", "q"])
    pairs2 = [(x, y) for x in l2 for y in l2 if len(x) >= 2 or len(y) >= 2]
    if tier != "thorough":
        pairs2 = rng.sample(pairs2, 80)
    for da, db in pairs2:
        out.append([obj(0, da, False, 0), obj(1, db, rng.random() < 0.3, 5),
                    {"op": "binop", "f": rng.choice(ops4), "lhs": 0, "rhs": 1, "out": 2}])
    # scalars and plain arrays on both sides
    for da in l3:
        for f in ops4:
            for refl in (False, True):
                sc = rng.choice(["2", "-3", "1/2", "1,2", "4"])
                out.append([obj(0, da, rng.random() < 0.3, 0),
                            dict({"op": "scalarop", "f": f, "obj": 0, "scalar": sc, "out": 1}, **({"refl": True} if refl else {}))])
                shape = [EXT[d] for d in da]
                out.append([obj(0, da, False, 0),
                            dict({"op": "arrayop", "f": f, "obj": 0, "shape": shape,
                                  "values": selfdesc_values(shape, False, 7), "out": 1}, **({"refl": True} if refl else {}))])
    return out


P = StreamProperty("C04", [ArithOracle, ConsistencyOracle], streams, RULE, ("C04",),
                   lambda ops: len(ops) == 3 and ops[0]["dims"] != ops[1]["dims"])
run, replay = P.run, P.replay


def narrow_dtype_scalars(seed):
    """'with scalars … (on either side) the values equal NumPy's result': data stored as float32 / float16 / complex64 / int16 / uint8
    with Python and NumPy scalars on the left and on the right of every operator — values AND dtype are NumPy's for the same
    expression on the plain values, labels unchanged"""
    import warnings, operator
    import numpy as np
    from common import dnp
    fails, n_eval = [], 0
    base = np.array([[1, 2, 3, 4], [5, 6, 7, 9], [10, 12, 15, 20]], dtype=float)
    ops = {"add": operator.add, "sub": operator.sub, "mul": operator.mul, "truediv": operator.truediv}
    for dtn in ("float32", "float16", "complex64", "int16", "uint8", "float64"):
        vals = base.astype(dtn)
        for sc_name, sc in (("int", 7), ("float", 2.5), ("complex", 1.5 - 2.0j), ("np.float32", np.float32(2.5)), ("np.int8", np.int8(3))):
            for oname, op in ops.items():
                for side in ("right", "left"):
                    d = dnp.DNPData(vals.copy(), ["x", "y"], [np.arange(3.0), np.arange(4.0)])
                    n_eval += 1
                    with warnings.catch_warnings():
                        warnings.simplefilter("ignore")
                        with np.errstate(all="ignore"):
                            try:
                                want = op(vals, sc) if side == "right" else op(sc, vals)
                            except Exception:  # noqa: BLE001
                                continue
                            try:
                                got = op(d, sc) if side == "right" else op(sc, d)
                            except Exception:  # noqa: BLE001  (an operand the object refuses is not a wrong value)
                                continue
                    gv = np.asarray(got.values) if isinstance(got, dnp.DNPData) else None
                    if gv is None or gv.dtype != np.asarray(want).dtype or not np.array_equal(gv, want, equal_nan=True) or list(got.dims) != ["x", "y"]:
                        key = "C04:scalar-operand-differs-from-numpy:%s:%s:%s" % (oname, side, dtn)
                        fails.append({"key": key, "clause": key, "ops": [{"operator": oname, "scalar": sc_name, "side": side, "dtype": dtn,
                                                                          "got_dtype": None if gv is None else str(gv.dtype), "want_dtype": str(np.asarray(want).dtype)}]})
    seen, uniq = set(), []
    for f in fails:
        if f["key"] not in seen:
            seen.add(f["key"]); uniq.append(f)
    return uniq, n_eval


_run_before_narrow = run


def run(tier, seed, escalate=False):
    res = _run_before_narrow(tier, seed, escalate)
    f, n = narrow_dtype_scalars(seed)
    res["impl_failures"] += [x for x in f if x["key"] not in {g["key"] for g in res["impl_failures"]}]
    res["evaluations"] += n
    res.setdefault("distribution", {})["narrow_dtype_scalar_cases"] = n
    return res
