"""C12 — integrals are trapezoidal and linear; enhancements are gain-invariant."""
import random
from gen import *
from gen_proc import *
from oracles import IntegralOracle, ConsistencyOracle
from propbase import StreamProperty

RULE = ("1-3-D real and complex objects, uniform and non-uniform ascending axes, the integrated dimension in every "
        "position, whole-axis integrals, region lists of 1-4 intervals (list of tuples or a bare pair), "
        "cumulative_integrate, calculate_enhancement for every reference index (positive and negative); exact comparison "
        "with the Lean model over Q / Q[i] and, on the real code, a hand-written trapezoid sum, linearity, the "
        "cumulative/definite relation and gain invariance under real and complex constants; non-trivial = >=2 dims or regions")


def streams(tier, seed):
    rng = random.Random(seed * 7919 + 12)
    out = []
    reps = 2 if tier == "quick" else 12
    for _ in range(reps):
        for dims, shape, dim in shapes_with_dim_everywhere(rng, (1, 2, 3), lo=2, hi=6):
            k = dims.index(dim)
            n = shape[k]
            a = new_op(rng, 0, dims=dims, shape=shape, cplx=rng.random() < 0.4,
                       kinds=["asc" if j != k else rng.choice(["asc", "nonuni"]) for j in range(len(dims))], hist=rng.randint(0, 2))
            c = [Fraction(x) for x in a["coords"][k]]
            out.append([a, op_integrate(a, dim)])
            out.append([a, op_simple("cumulative_integrate", a, dim=dim)])
            pool = [c[0] - 1, c[0], c[n // 2], c[-1], c[-1] + 2, (c[0] + c[-1]) / 2]
            regs = [tuple(sorted(rng.sample(pool, 2))) for _ in range(rng.randint(1, 4))]
            out.append([a, op_integrate(a, dim, regs)])
            out.append([a, op_integrate(a, dim, [regs[0]], bare=["tuple", "list"][len(out) % 2])])
        # enumerated non-uniform ascending axes: every increment pattern over {1,2,3} (quick: length 4; thorough: 3-5)
        if _ == 0:
            import itertools as _it
            for L in ((4,) if tier == "quick" else (3, 4, 5)):
                for ni, inc in enumerate(_it.product((1, 2, 3), repeat=L - 1)):
                    # the unit of the axis is the caller's business: seconds with ns steps, Hz with MHz steps
                    scale = [Fraction(1), Fraction(1, 10 ** 9), Fraction(10 ** 6)][ni % 3]
                    xs = [Fraction(0)]
                    for q in inc:
                        xs.append(xs[-1] + Fraction(q, 2) * scale)
                    a = new_op(rng, 0, dims=["f2", "x"], shape=[L, 2], cplx=False)
                    a["coords"][0] = [str(v) for v in xs]
                    out.append([a, op_integrate(a, "f2")])
                    out.append([a, op_simple("cumulative_integrate", a, dim="f2")])
        # enhancement: Power first, every reference index
        for nd in (1, 2, 3):
            dims = ["Power"] + rng.sample([d for d in DIM_POOL if d != "Power"], nd - 1)
            shape = distinct_shape(rng, nd, 2, 5)
            e = new_op(rng, 0, dims=dims, shape=shape, cplx=rng.random() < 0.5)
            e["attrs"] = {"experiment_type": "'integrals'"}
            for idx in range(-shape[0], shape[0]):
                out.append([e, op_simple("calculate_enhancement", e, idx=idx)])
        # reference integrals for which x * (1/x) does not round to 1 (49, 98, -24.5, 3, 0.1 …): the reference entry is x / x
        e = {"op": "new", "id": 0, "dims": ["Power", "k"], "shape": [5, 2], "coords": [["0", "1", "2", "3", "4"], ["0", "1"]],
             "values": ["49", "98", "-49/2", "3", "1/10", "7", "41", "-13", "1/3", "1000003"], "attrs": {"experiment_type": "'integrals'"}}
        for idx in range(5):
            out.append([e, op_simple("calculate_enhancement", e, idx=idx)])
    return out


P = StreamProperty("C12", [IntegralOracle, ConsistencyOracle], streams, RULE, ("C12",),
                   lambda ops: len(ops[0]["dims"]) >= 2 or "regions" in ops[-1]["kw"])
run, replay = P.run, P.replay


# ------------------------------------------------------------------ the same numbers stored in another dtype
from oracles import dtype_independence, merge_oracle, history_independence
from common import np, dnp
DTYPE_CASES = [("integrate", lambda d, dim: dnp.integrate(d, dim), "t2"),
    ("integrate-regions", lambda d, dim: dnp.integrate(d, dim, regions=[(1.0, 7.0), (4.0, 12.0)]), "t2"),
    ("cumulative_integrate", lambda d, dim: dnp.cumulative_integrate(d, dim), "t2"),
    ("enhancement", lambda d, dim: dnp.calculate_enhancement(_power_first(dnp.integrate(d, "y3"))), "Power")]
_run_before_dtype = run


def _power_first(x):
    x.reorder(["Power"])
    return x


def run(tier, seed, escalate=False):
    """… plus: integer / single-precision / complex storage of the values and integer / unsigned / single-precision storage of
    the processed axis give the result of the float64 object (a dtype the function refuses is not judged)"""
    res = _run_before_dtype(tier, seed, escalate)
    f, n = dtype_independence("C12", DTYPE_CASES, seed, dim_positions=(1,) if tier == "quick" and not escalate else (0, 1, 2))
    res = merge_oracle(res, f, n, "storage_dtype_variants")
    f, n = history_independence("C12", DTYPE_CASES, seed)
    return merge_oracle(res, f, n, "call_history_cases")


# ------------------------------------------------------------------ the same axis in another unit
from oracles import axis_scale_independence
SCALE_CASES = [("integrate", lambda d, dim, s: dnp.integrate(d, dim), "t2", lambda s: s, None),
    ("integrate-regions", lambda d, dim, s: dnp.integrate(d, dim, regions=[(0.7 * s, 4.2 * s), (2.9 * s, 8.8 * s)]), "t2", lambda s: s, None),
    ("cumulative_integrate", lambda d, dim, s: dnp.cumulative_integrate(d, dim), "t2", lambda s: s, lambda s: s)]
_run_before_scale = run


def run(tier, seed, escalate=False):
    """… plus: the processed axis expressed at scales 1e-9 … 1e6 (coordinate-valued arguments scaled alike)"""
    res = _run_before_scale(tier, seed, escalate)
    f, n = axis_scale_independence("C12", SCALE_CASES, seed)
    return merge_oracle(res, f, n, "axis_scale_variants")


# ------------------------------------------------------------------ the same argument values in another container / number type
from oracles import argform_independence
ARGFORM_CASES = [("integrate-regions", "t2", [(lab, (lambda r: lambda d, dim: dnp.integrate(d, dim, regions=r))(r)) for lab, r in (
        ("list-of-tuples", [(1.0, 7.0), (4.0, 12.0)]), ("list-of-lists", [[1.0, 7.0], [4.0, 12.0]]), ("tuple-of-tuples", ((1.0, 7.0), (4.0, 12.0))),
        ("ints", [(1, 7), (4, 12)]), ("numpy-floats", [(np.float64(1.0), np.float64(7.0)), (np.float64(4.0), np.float64(12.0))]),
        ("rows-of-array", list(np.array([[1.0, 7.0], [4.0, 12.0]]))))]),
    ("integrate-one-region", "t2", [(lab, (lambda r: lambda d, dim: dnp.integrate(d, dim, regions=r))(r)) for lab, r in (
        ("list-of-one-tuple", [(3.0, 11.0)]), ("bare-tuple", (3.0, 11.0)), ("bare-list", [3.0, 11.0]), ("ints", [(3, 11)]))]),
    ("enhancement-index", "Power", [(lab, (lambda k: lambda d, dim: dnp.calculate_enhancement(_power_first(dnp.integrate(d, "y3")), off_spectrum_index=k))(k))
        for lab, k in (("int", 2), ("numpy-int", np.int64(2)), ("negative", -6), ("numpy-int32", np.int32(2)))])]
_run_before_argform = run


def run(tier, seed, escalate=False):
    """… plus: sequence arguments as tuple / list / ndarray, numbers as Python / NumPy scalars, flags as bool / numpy.bool_ / 0-1"""
    res = _run_before_argform(tier, seed, escalate)
    f, n = argform_independence("C12", ARGFORM_CASES, seed)
    return merge_oracle(res, f, n, "argument_form_variants")
