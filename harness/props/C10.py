"""C10 — NumPy functions on data objects agree with NumPy and keep the labels."""
import random, itertools
from gen import *
from oracles import NumpyOracle, ConsistencyOracle
from propbase import StreamProperty

RULE = ("every ufunc / reduction of the registry x operand arrangement (data, data+scalar, scalar+data, data+data with "
        "distinct values) x every axis name, every positional axis (positive and negative), None, and tuple-valued axes (every "
        "ordered subset of the dimensions, entries by name / position / negative position, duplicate and unknown entries) of 1-4-D objects "
        "with pairwise distinct extents, real and complex; non-trivial = >=2 dims; distinct by canonical stream")
RED = ["sum", "mean", "max", "min", "prod", "var", "median", "any", "all", "ptp"]
UN = ["negative", "conj", "square", "positive"]
BINS = ["add", "subtract", "multiply", "divide"]


def streams(tier, seed):
    rng = random.Random(seed * 7919 + 10)
    out = []
    for nd in (1, 2, 3, 4):
        reps = 1 if tier == "quick" else 4
        for _ in range(reps):
            for f in RED:
                cplx = f in ("sum", "mean", "prod") and rng.random() < 0.4
                a = new_op(rng, 0, ndim=nd, cplx=cplx, hi=4) if False else new_op(rng, 0, ndim=nd, cplx=cplx)
                dims = a["dims"]
                axes = [None] + list(dims) + list(range(nd)) + [-1 - k for k in range(nd)]
                if tier == "quick" and nd >= 3:
                    axes = rng.sample(axes, 5)
                for ax in axes:
                    out.append([a, {"op": "np_reduce", "f": f, "obj": 0, "axis": ax, "out": 1}])
                # tuple-valued axis: names, positions (positive / negative), mixed, every order, incl. all dims, duplicates
                # and unknown entries
                if nd >= 2:
                    tuples = []
                    for r in range(1, nd + 1):
                        for combo in itertools.permutations(range(nd), r):
                            tuples.append([rng.choice([dims[k], k, k - nd]) for k in combo])
                    tuples.append([dims[0], 0]); tuples.append(["nope", dims[0]]); tuples.append([dims[0], nd + 2])
                    if tier == "quick":
                        tuples = rng.sample(tuples, min(len(tuples), 4 if nd < 4 else 3)) + [tuples[-3]]
                    for ax in tuples:
                        out.append([a, {"op": "np_reduce", "f": f, "obj": 0, "axis": ax, "out": 1}])
            # the SAME operand used by two successive calls: the second must see it as it was
            if nd >= 2:
                a = new_op(rng, 0, ndim=nd, cplx=False)
                dims = a["dims"]
                k1, k2 = rng.sample(range(nd), 2)
                out.append([a, {"op": "np_reduce", "f": "sum", "obj": 0, "axis": dims[k1], "out": 1},
                            {"op": "np_reduce", "f": "max", "obj": 0, "axis": dims[k2], "out": 2},
                            {"op": "np_reduce", "f": "mean", "obj": 0, "axis": k1, "out": 3},
                            {"op": "np_unary", "f": "negative", "obj": 0, "out": 4}])
            for f in UN:
                a = new_op(rng, 0, ndim=nd, cplx=rng.random() < 0.5)
                out.append([a, {"op": "np_unary", "f": f, "obj": 0, "out": 1}])
            for f in BINS:
                a = new_op(rng, 0, ndim=nd, cplx=rng.random() < 0.3)
                b = dict(a, id=1, values=selfdesc_values(a["shape"], False, salt=5))
                out.append([a, b, {"op": "np_binary", "f": f, "lhs": 0, "rhs": 1, "out": 2}])
                out.append([a, b, {"op": "np_binary", "f": f, "lhs": 1, "rhs": 0, "out": 2}])
                for refl in (False, True):
                    out.append([a, dict({"op": "np_scalar", "f": f, "obj": 0, "scalar": rng.choice(["2", "-3", "1/2"]), "out": 1},
                                        **({"refl": True} if refl else {}))])
    return out


P = StreamProperty("C10", [NumpyOracle, ConsistencyOracle], streams, RULE, ("C10",),
                   lambda ops: len(ops[0]["dims"]) >= 2)
run, replay = P.run, P.replay
