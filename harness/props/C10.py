"""C10 — NumPy functions on data objects agree with NumPy and keep the labels."""
import random, itertools
from gen import *
from oracles import NumpyOracle, ConsistencyOracle
from propbase import StreamProperty

RULE = ("every ufunc / reduction of the registry x operand arrangement (data, data+scalar, scalar+data, data+data with "
        "distinct values) x every axis name, every positional axis (positive and negative), None, and tuple-valued axes (every "
        "ordered subset of the dimensions, entries by name / position / negative position, duplicate and unknown entries) of 1-4-D objects "
        "with pairwise distinct extents, real and complex; reductions with further keywords (ddof, initial, dtype, where, keepdims) next to every form of axis, judged against NumPy on the plain values; non-trivial = >=2 dims; distinct by canonical stream")
RED = ["sum", "mean", "max", "min", "prod", "var", "median", "any", "all", "ptp"]
UN = ["negative", "conj", "square", "positive"]
BINS = ["add", "subtract", "multiply", "divide"]


def streams(tier, seed):
    rng = random.Random(seed * 7919 + 10)
    out = []
    for nd in (1, 2, 3, 4):
        reps = 1 if tier == "quick" else 4
        for _ in range(reps):
            for f in RED:
                cplx = f in ("sum", "mean", "prod") and rng.random() < 0.4
                a = new_op(rng, 0, ndim=nd, cplx=cplx, hi=4) if False else new_op(rng, 0, ndim=nd, cplx=cplx)
                dims = a["dims"]
                axes = [None] + list(dims) + list(range(nd)) + [-1 - k for k in range(nd)]
                if tier == "quick" and nd >= 3:
                    axes = rng.sample(axes, 5)
                for ax in axes:
                    out.append([a, {"op": "np_reduce", "f": f, "obj": 0, "axis": ax, "out": 1}])
                # tuple-valued axis: names, positions (positive / negative), mixed, every order, incl. all dims, duplicates
                # and unknown entries
                if nd >= 2:
                    tuples = []
                    for r in range(1, nd + 1):
                        for combo in itertools.permutations(range(nd), r):
                            tuples.append([rng.choice([dims[k], k, k - nd]) for k in combo])
                    tuples.append([dims[0], 0]); tuples.append(["nope", dims[0]]); tuples.append([dims[0], nd + 2])
                    if tier == "quick":
                        tuples = rng.sample(tuples, min(len(tuples), 4 if nd < 4 else 3)) + [tuples[-3]]
                    for ax in tuples:
                        out.append([a, {"op": "np_reduce", "f": f, "obj": 0, "axis": ax, "out": 1}])
            # the SAME operand used by two successive calls: the second must see it as it was
            if nd >= 2:
                a = new_op(rng, 0, ndim=nd, cplx=False)
                dims = a["dims"]
                k1, k2 = rng.sample(range(nd), 2)
                out.append([a, {"op": "np_reduce", "f": "sum", "obj": 0, "axis": dims[k1], "out": 1},
                            {"op": "np_reduce", "f": "max", "obj": 0, "axis": dims[k2], "out": 2},
                            {"op": "np_reduce", "f": "mean", "obj": 0, "axis": k1, "out": 3},
                            {"op": "np_unary", "f": "negative", "obj": 0, "out": 4}])
            for f in UN:
                a = new_op(rng, 0, ndim=nd, cplx=rng.random() < 0.5)
                out.append([a, {"op": "np_unary", "f": f, "obj": 0, "out": 1}])
            for f in BINS:
                a = new_op(rng, 0, ndim=nd, cplx=rng.random() < 0.3)
                b = dict(a, id=1, values=selfdesc_values(a["shape"], False, salt=5))
                out.append([a, b, {"op": "np_binary", "f": f, "lhs": 0, "rhs": 1, "out": 2}])
                out.append([a, b, {"op": "np_binary", "f": f, "lhs": 1, "rhs": 0, "out": 2}])
                for refl in (False, True):
                    out.append([a, dict({"op": "np_scalar", "f": f, "obj": 0, "scalar": rng.choice(["2", "-3", "1/2"]), "out": 1},
                                        **({"refl": True} if refl else {}))])
    return out


P = StreamProperty("C10", [NumpyOracle, ConsistencyOracle], streams, RULE, ("C10",),
                   lambda ops: len(ops[0]["dims"]) >= 2)


def keyword_oracle(tier, seed):
    """reductions called with FURTHER keywords (ddof, initial, dtype, where, keepdims) next to every form of `axis`: the
    call forms the Lean alphabet does not carry, judged on the real code alone — values and dtype are NumPy's for the
    same call on the plain values, exactly the named / positioned dimensions disappear, the result is consistent"""
    import warnings
    from common import np, dnp
    rng = random.Random(seed * 7919 + 110)
    fails, n_eval = [], 0
    calls = [("std", {"ddof": 1}), ("var", {"ddof": 1}), ("std", {}), ("sum", {"initial": 10.0}), ("prod", {"initial": 2.0}),
             ("max", {"initial": 1e6}), ("min", {"initial": -1e6}), ("mean", {"dtype": "complex64"}), ("sum", {"dtype": "float32"}),
             ("sum", {"where": True}), ("sum", {"keepdims": True}), ("mean", {"keepdims": True}), ("max", {"keepdims": True}),
             ("median", {"keepdims": True}), ("ptp", {"keepdims": True}), ("any", {"keepdims": True}), ("var", {"keepdims": True, "ddof": 1})]
    # extents of one included: there NumPy's keepdims result has the operand's own shape
    shapes = [(2, 3, 4), (3, 2), (3, 1, 4), (1, 1)] + ([(2, 3, 4, 5), (4, 1, 3), (1, 5)] if tier == "thorough" else [])
    for shape in shapes:
        nd = len(shape)
        names = rng.sample(["x", "y", "z", "t2", "t10"], nd)
        vals = np.arange(float(np.prod(shape))).reshape(shape) * 1.5 - 7.0
        if rng.random() < 0.5:
            vals = vals + 1j * np.arange(float(np.prod(shape))).reshape(shape)[::-1]
        d = dnp.DNPData(vals.copy(), list(names), [np.arange(s) * 0.5 + k for k, s in enumerate(shape)])
        forms = [names[k] for k in range(nd)] + list(range(nd)) + [-1 - k for k in range(nd)]
        for r in range(2, nd + 1):
            for combo in itertools.permutations(range(nd), r):
                forms.append(tuple(rng.choice([names[k], k, k - nd]) for k in combo))
        forms.append(None)
        if tier == "quick":
            forms = forms[: 3 * nd] + rng.sample(forms[3 * nd:-1], min(6, len(forms) - 3 * nd - 1)) + [None]
        for fname, kw in calls:
            if np.iscomplexobj(vals) and fname in ("max", "min", "median", "ptp", "any"):
                continue
            f = getattr(np, fname)
            for ax in forms:
                kw2 = dict(kw)
                if "dtype" in kw2:
                    kw2["dtype"] = getattr(np, kw2["dtype"])
                if "where" in kw2:
                    kw2["where"] = (np.arange(vals.size).reshape(shape) % 3 != 0)
                pos = None if ax is None else tuple((names.index(a) if isinstance(a, str) else a) % nd for a in (ax if isinstance(ax, tuple) else (ax,)))
                n_eval += 1
                sig = "%s:%s:%s" % (fname, "+".join(sorted(kw)), "none" if ax is None else ("tuple" if isinstance(ax, tuple) else type(ax).__name__))
                with warnings.catch_warnings():
                    warnings.simplefilter("ignore")
                    try:
                        want = f(vals, axis=(pos if isinstance(ax, tuple) or ax is None else pos[0]), **{k: v for k, v in kw2.items() if k != "keepdims"})
                    except Exception:  # noqa: BLE001  (NumPy itself refuses the call)
                        continue
                    try:
                        got = f(d, axis=ax, **kw2)
                    except Exception as e:  # noqa: BLE001
                        key = "C10:reduction-with-keyword-raises:" + sig
                        fails.append({"key": key, "clause": key, "ops": [{"f": fname, "kw": sorted(kw), "axis": str(ax), "shape": list(shape), "error": type(e).__name__}]}); continue
                gv = np.asarray(got.values if isinstance(got, dnp.DNPData) else got)
                wv = np.asarray(want)
                if gv.shape != wv.shape or gv.dtype != wv.dtype or not np.allclose(gv, wv, rtol=1e-12, atol=0, equal_nan=True):
                    key = "C10:reduction-with-keyword-differs-from-numpy:" + sig
                    fails.append({"key": key, "clause": key, "ops": [{"f": fname, "kw": sorted(kw), "axis": str(ax), "shape": list(shape)}]}); continue
                if isinstance(got, dnp.DNPData):
                    left = [n for k, n in enumerate(names) if pos is not None and k not in pos]
                    okc = list(got.dims) == left and all(np.array_equal(got.coords[n], d.coords[n]) for n in left) and \
                        tuple(len(got.coords[n]) for n in got.dims) == gv.shape
                    if not okc:
                        key = "C10:reduction-with-keyword-labels:" + sig
                        fails.append({"key": key, "clause": key, "ops": [{"f": fname, "kw": sorted(kw), "axis": str(ax), "dims": list(got.dims), "shape": list(gv.shape)}]})
    # a second data object handed over BY KEYWORD: the answer is NumPy's for the actual operands, whichever way they arrive
    base = np.arange(12.0).reshape(3, 4)
    a = dnp.DNPData(base.copy(), ["x", "y"], [np.arange(3.0), np.arange(4.0)])
    b = dnp.DNPData(base[::-1].copy() * 2.0 + 1.0, ["x", "y"], [np.arange(3.0), np.arange(4.0)])
    p1 = dnp.DNPData(np.array([1.0, 2.0, 3.0]), ["x"], [np.arange(3.0)])
    q1 = dnp.DNPData(np.array([-1.0, 0.5, 4.0]), ["x"], [np.arange(3.0)])
    probes = [("allclose-b", lambda: np.allclose(a, b=b), lambda: np.allclose(a.values, b.values)),
              ("allclose-a-b", lambda: np.allclose(a=b, b=a), lambda: np.allclose(b.values, a.values)),
              ("array_equal-a2", lambda: np.array_equal(a, a2=b), lambda: np.array_equal(a.values, b.values)),
              ("array_equal-same", lambda: np.array_equal(a, a2=a.copy()), lambda: True),
              ("dot-b", lambda: np.dot(p1, b=q1), lambda: np.dot(p1.values, q1.values)),
              ("dot-a-b", lambda: np.dot(a=q1, b=p1), lambda: np.dot(q1.values, p1.values)),
              ("add-x2", lambda: np.add(a, x2=b), lambda: a.values + b.values),
              ("subtract-x1-x2", lambda: np.subtract(x1=b, x2=a), lambda: b.values - a.values),
              ("where-mask", lambda: np.sum(a, axis="x", where=(b.values > 5)), lambda: np.sum(a.values, axis=0, where=(b.values > 5))),
              ("isclose-b", lambda: np.isclose(a, b=b), lambda: np.isclose(a.values, b.values))]
    cz = dnp.DNPData(base + 1j * base[::-1], ["x", "y"], [np.arange(3.0), np.arange(4.0)])
    probes += [("average-complex-x", lambda: dnp.average(cz, axis="x"), lambda: np.mean(cz.values, axis=0)),
               ("average-complex-y", lambda: dnp.average(cz, axis="y"), lambda: np.mean(cz.values, axis=1)),
               ("mean-complex-name", lambda: np.mean(cz, axis="y"), lambda: np.mean(cz.values, axis=1)),
               ("average-float32", lambda: dnp.average(dnp.DNPData(base.astype(np.float32), ["x", "y"], [np.arange(3.0), np.arange(4.0)]), axis="x"),
                lambda: np.mean(base.astype(np.float32), axis=0))]
    for nm, got_f, want_f in probes:
        n_eval += 1
        with warnings.catch_warnings():
            warnings.simplefilter("ignore")
            try:
                want = want_f()
            except Exception:  # noqa: BLE001
                continue
            try:
                got = got_f()
            except Exception:  # noqa: BLE001   (a call form the protocol hooks refuse is not a wrong answer)
                continue
        gv = np.asarray(got.values if isinstance(got, dnp.DNPData) else got)
        if gv.shape != np.shape(want) or not np.array_equal(gv, np.asarray(want)):
            key = "C10:operand-passed-by-keyword:" + nm
            fails.append({"key": key, "clause": key, "ops": [{"call": nm, "got": gv.tolist() if gv.size < 20 else "…", "want": np.asarray(want).tolist() if np.size(want) < 20 else "…"}]})
    return fails, n_eval


def run(tier, seed, escalate=False):
    res = P.run(tier, seed, escalate)
    fails, n_eval = keyword_oracle("thorough" if escalate else tier, seed)
    seen = {f["key"] for f in res["impl_failures"]}
    for f in fails:
        if f["key"] not in seen:
            seen.add(f["key"]); res["impl_failures"].append(f)
    res["evaluations"] += n_eval
    res["distribution"]["keyword_calls"] = n_eval
    return res


replay = P.replay
