"""C03 — calls never modify their arguments; objects never share state."""
import random
from gen import *
from oracles import FrameOracle
from propbase import StreamProperty

RULE = ("random histories over the core alphabet with up to 4 live objects; after every op every object in the store is "
        "deep-compared with its snapshot from before the op (only the receiver of an in-place method may change, and not "
        "when the call raises) and every pair of objects is checked for shared attrs/dnplab_attrs/proc_attrs/coords/"
        "values memory; probes (set_attr, set_value, set_coord, add_hist) write through one object; a malformed stream "
        "provokes raises; non-trivial = >=2 live objects and >=3 ops; distinct by canonical stream")


def malformed(rng):
    ops = [new_op(rng, 0, ndim=rng.randint(2, 3), attrs=True, hist=1), new_op(rng, 1, ndim=2)]
    d0 = ops[0]["dims"]
    bad = [
        {"op": "reorder", "obj": 0, "dims": [d0[0], "nope"]},
        {"op": "reorder", "obj": 0, "dims": [d0[0], d0[0]]},
        {"op": "rename", "obj": 0, "dim": "nope", "new": "x9"},
        {"op": "sort", "obj": 0, "dim": "nope"},
        {"op": "new_dim", "obj": 0, "dim": d0[0], "coord": "1"},
        {"op": "concatenate", "obj": 0, "other": 1, "dim": d0[0]},
        {"op": "unfold", "obj": 0, "dim": "nope"},
        {"op": "getitem", "obj": 0, "sel": [["nope", {"int": 0}]], "out": 5},
        {"op": "setitem", "obj": 0, "sel": [["nope", {"int": 0}]], "value": "5"},
        {"op": "binop", "f": "add", "lhs": 0, "rhs": 1, "out": 6},
        {"op": "method", "f": "sum", "obj": 0, "dim": "nope", "out": 7},
        {"op": "np_reduce", "f": "sum", "obj": 0, "axis": "nope", "out": 8},
        {"op": "np_reduce", "f": "sum", "obj": 0, "axis": 7, "out": 8},
        {"op": "split", "obj": 0, "dim": "nope", "new": "sp", "coord": ["0", "1"]},
        {"op": "concat", "objs": [0, 1], "dim": "n", "coord": None, "out": 9},
        {"op": "fold", "obj": 0},
    ]
    rng.shuffle(bad)
    return ops + bad[: rng.randint(2, 6)] + [{"op": "set_attr", "obj": 0, "key": "k", "value": "1"}]


def streams(tier, seed):
    rng = random.Random(seed * 7919 + 3)
    out = []
    # independently constructed objects, then write through one of them
    for with_attrs in (False, True):
        for probe in ({"op": "set_attr", "key": "k", "value": "5"}, {"op": "set_dattr", "key": "k", "value": "5"},
                      {"op": "add_hist", "name": "s", "keys": ["p"]}, {"op": "set_value", "flat": 0, "value": "424242"},
                      {"op": "set_coord", "dim": None, "k": 0, "value": "-99"}):
            a = new_op(rng, 0, ndim=2, attrs=with_attrs); b = new_op(rng, 1, ndim=2, attrs=with_attrs)
            p = dict(probe, obj=0)
            if p.get("dim", 0) is None:
                p["dim"] = a["dims"][0]
            out.append([a, b, {"op": "copy", "obj": 0, "out": 2}, p, dict(p, obj=2) if "dim" not in p else dict(p, obj=2)])
    n = 80 if tier == "quick" else 1200
    for _ in range(n):
        out.append(history(rng, rng.randint(3, 12)))
    for _ in range(20 if tier == "quick" else 300):
        out.append(malformed(rng))
    return out


P = StreamProperty("C03", [FrameOracle], streams, RULE, ("C03",),
                   lambda ops: len(ops) >= 4 and sum(1 for o in ops if o["op"] == "new") >= 2)
run, replay = P.run, P.replay
