"""C03 — calls never modify their arguments; objects never share state."""
import random
import numpy as np
from gen import *
from oracles import FrameOracle, deep_snap, snap_diff
from propbase import StreamProperty

RULE = ("random histories over the core alphabet with up to 4 live objects; after every op every object in the store is "
        "deep-compared with its snapshot from before the op (only the receiver of an in-place method may change, and not "
        "when the call raises) and every pair of objects is checked for shared attrs/dnplab_attrs/proc_attrs/coords/"
        "values memory; probes (set_attr, set_value, set_coord, add_hist) write through one object; a malformed stream "
        "provokes raises; non-trivial = >=2 live objects and >=3 ops; distinct by canonical stream")


def malformed(rng):
    ops = [new_op(rng, 0, ndim=rng.randint(2, 3), attrs=True, hist=1), new_op(rng, 1, ndim=2)]
    d0 = ops[0]["dims"]
    bad = [
        {"op": "reorder", "obj": 0, "dims": [d0[0], "nope"]},
        {"op": "reorder", "obj": 0, "dims": [d0[0], d0[0]]},
        {"op": "rename", "obj": 0, "dim": "nope", "new": "x9"},
        {"op": "sort", "obj": 0, "dim": "nope"},
        {"op": "new_dim", "obj": 0, "dim": d0[0], "coord": "1"},
        {"op": "concatenate", "obj": 0, "other": 1, "dim": d0[0]},
        {"op": "unfold", "obj": 0, "dim": "nope"},
        {"op": "getitem", "obj": 0, "sel": [["nope", {"int": 0}]], "out": 5},
        {"op": "setitem", "obj": 0, "sel": [["nope", {"int": 0}]], "value": "5"},
        {"op": "binop", "f": "add", "lhs": 0, "rhs": 1, "out": 6},
        {"op": "method", "f": "sum", "obj": 0, "dim": "nope", "out": 7},
        {"op": "np_reduce", "f": "sum", "obj": 0, "axis": "nope", "out": 8},
        {"op": "np_reduce", "f": "sum", "obj": 0, "axis": 7, "out": 8},
        {"op": "split", "obj": 0, "dim": "nope", "new": "sp", "coord": ["0", "1"]},
        {"op": "concat", "objs": [0, 1], "dim": "n", "coord": None, "out": 9},
        {"op": "fold", "obj": 0},
    ]
    rng.shuffle(bad)
    return ops + bad[: rng.randint(2, 6)] + [{"op": "set_attr", "obj": 0, "key": "k", "value": "1"}]


def streams(tier, seed):
    rng = random.Random(seed * 7919 + 3)
    out = []
    # independently constructed objects, then write through one of them
    for with_attrs in (False, True):
        for probe in ({"op": "set_attr", "key": "k", "value": "5"}, {"op": "set_dattr", "key": "k", "value": "5"},
                      {"op": "add_hist", "name": "s", "keys": ["p"]}, {"op": "set_value", "flat": 0, "value": "424242"},
                      {"op": "set_coord", "dim": None, "k": 0, "value": "-99"}):
            a = new_op(rng, 0, ndim=2, attrs=with_attrs); b = new_op(rng, 1, ndim=2, attrs=with_attrs)
            p = dict(probe, obj=0)
            if p.get("dim", 0) is None:
                p["dim"] = a["dims"][0]
            out.append([a, b, {"op": "copy", "obj": 0, "out": 2}, p, dict(p, obj=2) if "dim" not in p else dict(p, obj=2)])
    # concatenate whose operand is stored in ANOTHER axis order and does not fit in a dimension that is not joined: the call
    # raises part-way (after aligning), and leaves receiver and operand as they were
    for dims_a, shape_a, dims_b, shape_b, dm in ((["x", "y"], [3, 4], ["y", "x"], [5, 2], "x"), (["x", "y", "z"], [2, 3, 4], ["z", "x", "y"], [4, 2, 5], "x"),
                                                (["x", "y"], [3, 4], ["y", "x"], [4, 2], "nope")):
        a = new_op(rng, 0, dims=dims_a, shape=shape_a, cplx=False, kinds=["asc"] * 4)
        b = new_op(rng, 1, dims=dims_b, shape=shape_b, cplx=False, kinds=["asc"] * 4, salt=77)
        out.append([a, b, {"op": "concatenate", "obj": 0, "other": 1, "dim": dm}, {"op": "set_attr", "obj": 1, "key": "k", "value": "1"}])
    n = 80 if tier == "quick" else 1200
    for _ in range(n):
        out.append(history(rng, rng.randint(3, 12)))
    for _ in range(20 if tier == "quick" else 300):
        out.append(malformed(rng))
    return out


P = StreamProperty("C03", [FrameOracle], streams, RULE, ("C03",),
                   lambda ops: len(ops) >= 4 and sum(1 for o in ops if o["op"] == "new") >= 2)
run, replay = P.run, P.replay


# ------------------------------------------------------------------ the public registry, on the real code only
class _Args:
    """plain (non-data) mutable arguments handed to the call under test, kept so that aliasing can be checked afterwards"""
    def __init__(self):
        self.kept = []

    def keep(self, x):
        import copy as _c
        self.kept.append((x, _c.deepcopy(x)))
        return x

    def check_plain(self, fn, x):
        """call fn on a plain array / list and remember whether the result is, or shares memory with, the argument"""
        r = fn(x)
        import numpy as _np
        if r is x or (isinstance(r, _np.ndarray) and isinstance(x, _np.ndarray) and _np.shares_memory(r, x)):
            self.shared_plain = True
        return None


ARGS = _Args()


def _mutable_members(x, depth=0):
    """every list / dict / array reachable INSIDE a container (not the container itself)"""
    out = []
    if depth > 4:
        return out
    it = x.values() if isinstance(x, dict) else (x if isinstance(x, (list, tuple)) else [])
    for v in it:
        if isinstance(v, (list, dict, np.ndarray)):
            out.append(v)
        out += _mutable_members(v, depth + 1)
    return out


def _nested_shared(arg, params):
    """a mutable member of the caller's argument (an inner [lo, hi] list of a region list, say) is reachable from the recorded
    parameters: editing one then rewrites the other"""
    mine = _mutable_members(arg)
    theirs = []
    for p_ in params:
        theirs += [p_] if isinstance(p_, (list, dict, np.ndarray)) else []
        theirs += _mutable_members(p_)
    return any(a is b for a in mine for b in theirs)


def _registry(rng):
    """(name, callable(data) -> result) for every public function taking a data object"""
    import numpy as np, dnplab as dnp, warnings
    from dnplab.math import relaxation
    lin = lambda x, a, b: a * x + b

    def reg(name, fn, need=None):
        return (name, fn, need)

    R = [
        reg("apodize", lambda d, dim: dnp.apodize(d, dim, "exponential", lw=1.0)),
        reg("apodize-bad-kind", lambda d, dim: dnp.apodize(d, dim, "nope")),
        reg("fourier_transform", lambda d, dim: dnp.fourier_transform(d, dim)),
        reg("inverse_fourier_transform", lambda d, dim: dnp.inverse_fourier_transform(d, dim)),
        reg("phase", lambda d, dim: dnp.phase(d, dim, 30.0, -10.0)),
        reg("phase_cycle", lambda d, dim: dnp.phase_cycle(d, dim, [0, 1])),
        reg("phase_cycle-bad", lambda d, dim: dnp.phase_cycle(d, dim, [0, 1, 2, 3, 0, 1, 2])),
        reg("autophase", lambda d, dim: dnp.autophase(d, dim)),
        reg("integrate", lambda d, dim: dnp.integrate(d, dim)),
        reg("integrate-regions", lambda d, dim: dnp.integrate(d, dim, [(0.0, 1.0), (0.5, 9.0)])),
        reg("integrate-bad-region", lambda d, dim: dnp.integrate(d, dim, [[0.0, 1.0]])),
        reg("cumulative_integrate", lambda d, dim: dnp.cumulative_integrate(d, dim)),
        reg("remove_background", lambda d, dim: dnp.remove_background(d, dim, 1)),
        reg("remove_background-regions", lambda d, dim: dnp.remove_background(d, dim, 1, [(0.0, 1.0)])),
        reg("remove_background-func", lambda d, dim: dnp.remove_background(d, dim, func=lin, p0=(1.0, 0.0))),
        reg("background-func", lambda d, dim: dnp.background(d, dim, func=lin, p0=(1.0, 0.0))),
        reg("left_shift", lambda d, dim: dnp.left_shift(d, dim, 1)),
        reg("normalize", lambda d, dim: dnp.normalize(d)),
        reg("normalize-dim", lambda d, dim: dnp.normalize(d, dim=dim)),
        reg("smooth", lambda d, dim: dnp.smooth(d, dim, 5, 2)),
        reg("smooth-bad", lambda d, dim: dnp.smooth(d, dim, 4, 7)),
        reg("interp", lambda d, dim: dnp.interp(d, dim, ARGS.keep(np.linspace(0.0, 1.0, 7)))),
        reg("interp-list", lambda d, dim: dnp.interp(d, dim, ARGS.keep([0.0, 0.25, 0.5, 1.0]))),
        reg("remove_background-nested-regions", lambda d, dim: dnp.remove_background(d, dim, 1, ARGS.keep([[0.0, 0.6], [1.4, 2.0]]))),
        reg("background-nested-regions", lambda d, dim: dnp.background(d, dim, 1, ARGS.keep([[0.0, 0.6], [1.4, 2.0]]))),
        reg("integrate-nested-regions", lambda d, dim: dnp.integrate(d, dim, ARGS.keep([[0.0, 1.0], [0.5, 9.0]]))),
        reg("signal_to_noise-nested-regions", lambda d, dim: dnp.signal_to_noise(d, (0.0, 1.0), ARGS.keep([[1.25, 1.6], [1.6, 2.0]]), dim=dim)),
        reg("integrate-regions-kept", lambda d, dim: dnp.integrate(d, dim, ARGS.keep([(0.0, 1.0), (0.5, 9.0)]))),
        reg("phase_cycle-array", lambda d, dim: dnp.phase_cycle(d, dim, ARGS.keep(np.array([0, 1])))),
        reg("phase-array-p1", lambda d, dim: dnp.phase(d, dim, 10.0, ARGS.keep(np.linspace(0.0, 5.0, d.shape[d.dims.index(dim)])))),
        reg("create_complex-kept", lambda d, dim: dnp.create_complex(d, ARGS.keep(np.real(d.values[..., 0]).copy()), ARGS.keep(np.imag(d.values[..., 0]).copy()))),
        reg("interp-bad", lambda d, dim: dnp.interp(d, dim, np.zeros((2, 2)))),
        reg("ndalign", lambda d, dim: dnp.ndalign(d, dim)),
        reg("ndalign-bad", lambda d, dim: dnp.ndalign(d, dim, center=1.0)),
        reg("average", lambda d, dim: dnp.average(d, axis=dim)),
        reg("signal_to_noise", lambda d, dim: dnp.signal_to_noise(d, (0.0, 1.0), [(1.25, 2.0)], dim=dim)),
        reg("signal_to_noise-regions", lambda d, dim: dnp.signal_to_noise(d, [(0.0, 0.8), (1.0, 2.0)], [(0.0, 0.5)], dim=dim)),
        reg("signal_to_noise-noise-regions", lambda d, dim: dnp.signal_to_noise(d, (0.0, 1.0), [(1.25, 1.6), (1.6, 2.0)], dim=dim)),
        reg("signal_to_noise-bad", lambda d, dim: dnp.signal_to_noise(d, (0.0, 1.0), [("a", "b")], dim=dim)),
        reg("reference", lambda d, dim: dnp.reference(d, dim, 1.0, 0.0)),
        reg("pseudo_modulation", lambda d, dim: dnp.pseudo_modulation(d, 0.5, dim=dim)),
        reg("fit", lambda d, dim: dnp.fit(lin, d.real, dim, (1.0, 0.0))["popt"]),
        reg("fit-bad", lambda d, dim: dnp.fit(lin, d.real, dim, (1.0, 0.0, 2.0))["popt"]),
        # calls that raise PART-WAY (inside the per-trace loop, after the input has been rearranged): the optimiser gives up
        reg("fit-bad-maxfev", lambda d, dim: dnp.fit(lambda x, a, b, c: a * np.exp(-b * x) + c, d.real, dim, (1.0, 1.0, 0.0), maxfev=1)["popt"]),
        reg("fit-bad-complex", lambda d, dim: dnp.fit(lin, d, dim, (1.0, 0.0), maxfev=1)["popt"]),
        reg("remove_background-func-bad", lambda d, dim: dnp.remove_background(d, dim, func=lambda x, a, b, c: a * np.exp(-b * x) + c, p0=(1.0, 1.0, 0.0), maxfev=1)),
        reg("create_complex-arrays", lambda d, dim: dnp.create_complex(d, np.real(d.values[..., 0]), np.imag(d.values[..., -1]))),
        reg("update_axis", lambda d, dim: dnp.update_axis(d, (0.0, 1.0), dim=d.dims.index(dim), new_dims="q")),
        reg("update_axis-log", lambda d, dim: dnp.update_axis(d, (0.0, 2.0), dim=d.dims.index(dim), new_dims="q", spacing="log")),
        reg("get_slice", lambda d, dim: dnp.get_slice(d, dim, 0)),
        reg("np.abs", lambda d, dim: np.abs(d)),
        reg("np.real", lambda d, dim: np.real(d)),
        reg("np.imag", lambda d, dim: np.imag(d)),
        reg("np.conj", lambda d, dim: np.conj(d)),
        reg("np.angle", lambda d, dim: np.angle(d)),
        reg("np.cumsum-axis", lambda d, dim: np.cumsum(d, axis=dim)),
        reg("update_axis-vector", lambda d, dim: dnp.update_axis(d, ARGS.keep(np.linspace(0.0, 1.0, d.shape[d.dims.index(dim)])), dim=d.dims.index(dim), new_dims="q")),
        reg("reorder-kept-list", lambda d, dim: (lambda c, o: (c.reorder(o), c)[1])(d.copy(), ARGS.keep([d.dims[-1]]))),
        reg("rename-then-reorder-kept", lambda d, dim: (lambda c, o: (c.reorder(o), c)[1])(d.copy(), ARGS.keep(list(reversed(d.dims))))),
        reg("np.max-axis", lambda d, dim: np.max(d, axis=dim)),
        # several axes at once, named (the partner is chosen by NAME so that the call means the same for every axis order)
        reg("np.sum-tuple", lambda d, dim: np.sum(d, axis=(dim, sorted(x for x in d.dims if x != dim)[0]))),
        reg("np.mean-tuple-rev", lambda d, dim: np.mean(d, axis=(sorted(x for x in d.dims if x != dim)[-1], dim))),
        reg("copy", lambda d, dim: d.copy()),
        reg("real", lambda d, dim: d.real),
        reg("getitem", lambda d, dim: d[dim, (0.25, 1.0)]),
        reg("pow", lambda d, dim: d ** 2),
        reg("plot", lambda d, dim: (dnp.plot(d, dim=dim), None)[1]),
        reg("plot-bad", lambda d, dim: (dnp.plot(d, "not-a-format", dim=dim), None)[1]),
        reg("fancy_plot", lambda d, dim: (dnp.fancy_plot(d, dim=dim), None)[1]),
        reg("fancy_plot-bad", lambda d, dim: (dnp.fancy_plot(d, [], "t", False, "not-a-format", dim=dim), None)[1]),
        reg("unknown-dim", lambda d, dim: dnp.integrate(d, "no_such_dim")),
        # functions that also accept plain arrays / lists / scalars: the argument must come back untouched and unshared
        reg("dBm2w-float-array", lambda d, dim: ARGS.check_plain(dnp.dBm2w, ARGS.keep(np.array([-20.0, 0.0, 13.5, 30.0])))),
        reg("dBm2w-int-array", lambda d, dim: ARGS.check_plain(dnp.dBm2w, ARGS.keep(np.array([-20, 0, 10, 30])))),
        reg("dBm2w-list", lambda d, dim: ARGS.check_plain(dnp.dBm2w, ARGS.keep([-20.0, 0.0, 30.0]))),
        reg("w2dBm-float-array", lambda d, dim: ARGS.check_plain(dnp.w2dBm, ARGS.keep(np.array([1e-5, 1e-3, 0.5, 2.0])))),
        reg("w2dBm-list", lambda d, dim: ARGS.check_plain(dnp.w2dBm, ARGS.keep([1e-5, 1e-3, 2.0]))),
        reg("convert_power-array", lambda d, dim: ARGS.check_plain(lambda a: dnp.convert_power(a, mode="dBm2W"), ARGS.keep(np.array([-10.0, 0.0, 20.0])))),
        reg("convert_power-array-back", lambda d, dim: ARGS.check_plain(lambda a: dnp.convert_power(a, mode="W2dBm"), ARGS.keep(np.array([1e-4, 1e-3, 0.1])))),
        reg("unknown-dim-s2n", lambda d, dim: dnp.signal_to_noise(d, dim="no_such_dim")),
    ]
    return R


def registry_oracle(tier, seed):
    import numpy as np, dnplab as dnp, warnings, io, contextlib, copy
    import matplotlib
    matplotlib.use("Agg")
    import matplotlib.pyplot as plt
    from oracles import deep_snap, snap_diff, shares_state
    rng = random.Random(seed * 7919 + 103)
    fails, n_eval, outcomes = [], 0, {}
    shapes = [([8], 0), ([3, 8], 1), ([8, 2], 0)] + ([([2, 8, 3], 1)] if tier == "thorough" else [])
    for shape, k in shapes:
        for cplx in (False, True):
            for with_attrs, view in ((False, False), (True, False), (True, True)):
                for name, fn, _ in _registry(rng):
                    dims = ["t2" if i == k else ("Average" if i == 0 else "x%d" % i) for i in range(len(shape))]
                    if name.startswith("inverse"):
                        dims = [("f2" if d == "t2" else d) for d in dims]
                    dim = dims[k]
                    vals = np.arange(1, int(np.prod(shape)) + 1, dtype=float).reshape(shape) ** 1.5
                    vals = vals + 0.3 * np.sin(vals)
                    if cplx:
                        vals = vals * np.exp(0.3j)
                    coords = [np.linspace(0.0, 2.0, s) if i == k else np.arange(s, dtype=float) for i, s in enumerate(shape)]
                    kw = {}
                    if with_attrs:
                        kw = {"attrs": {"nmr_frequency": 4e8, "experiment_type": "nmr_spectrum", "lst": [1, 2]},
                              "dnplab_attrs": {"frequency": 4e8}, "proc_attrs": [("step", {"p": [1, 2]})]}
                    if view:
                        # the object's values are a NON-OWNING view (as after reorder, a fold, or construction from a slice)
                        buf = np.concatenate([vals.ravel(), vals.ravel()[:1]])
                        vals_arg = buf[:-1].reshape(shape)
                    else:
                        vals_arg = vals.copy()
                    d = dnp.DNPData(vals_arg, list(dims), [c.copy() for c in coords], **kw)
                    before = deep_snap(d)
                    ARGS.kept = []
                    ARGS.shared_plain = False
                    res, err = None, None
                    with warnings.catch_warnings():
                        warnings.simplefilter("ignore")
                        with contextlib.redirect_stdout(io.StringIO()):
                            try:
                                res = fn(d, dim)
                            except Exception as e:  # noqa: BLE001
                                err = type(e).__name__
                    plt.close("all")
                    n_eval += 1
                    outcomes["raise" if err else "ok"] = outcomes.get("raise" if err else "ok", 0) + 1
                    diff = snap_diff(before, deep_snap(d))
                    if diff:
                        key = "C03:argument-modified:%s:%s:%s" % (name, "raise" if err else "return", "+".join(diff))
                        fails.append({"key": key, "clause": key, "ops": [{"function": name, "shape": shape, "dim_pos": k,
                                                                         "complex": cplx, "attrs": with_attrs, "error": err}]})
                    from oracles import hist_arrays, history_aliases_live, _eq
                    if ARGS.shared_plain:
                        key = "C03:shared-state:%s:result-is-the-argument" % name
                        fails.append({"key": key, "clause": key, "ops": [{"function": name}]})
                    for x, x0 in ARGS.kept:
                        if not _eq(x, x0):
                            key = "C03:argument-modified:%s:plain-argument" % name
                            fails.append({"key": key, "clause": key, "ops": [{"function": name, "shape": shape, "dim_pos": k}]})
                        if isinstance(res, dnp.DNPData):
                            live = [np.asarray(res.values)] + [np.asarray(c) for c in res.coords.coords]
                            hist = hist_arrays(res)
                            params = [v for ent in res.proc_attrs for v in (ent[1].values() if isinstance(ent[1], dict) else [])]
                            if isinstance(x, np.ndarray) and any(np.shares_memory(x, l) for l in live if l.size):
                                key = "C03:shared-state:%s:argument-array" % name
                                fails.append({"key": key, "clause": key, "ops": [{"function": name, "shape": shape, "dim_pos": k}]})
                            if (isinstance(x, np.ndarray) and any(np.shares_memory(x, h) for h in hist if h.size)) or \
                                    (isinstance(x, (list, dict)) and (any(v is x for v in params) or _nested_shared(x, params))):
                                key = "C03:shared-state:%s:argument-in-history" % name
                                fails.append({"key": key, "clause": key, "ops": [{"function": name, "shape": shape, "dim_pos": k}]})
                    if isinstance(res, dnp.DNPData) and history_aliases_live(res):
                        key = "C03:shared-state:%s:history-aliases-live-array" % name
                        fails.append({"key": key, "clause": key, "ops": [{"function": name, "shape": shape, "dim_pos": k}]})
                    if isinstance(res, dnp.DNPData):
                        sh = shares_state(res, d)
                        if sh:
                            key = "C03:shared-state:%s:%s" % (name, "+".join(sh))
                            fails.append({"key": key, "clause": key, "ops": [{"function": name, "shape": shape, "dim_pos": k}]})
    # objects built from ONE caller-owned dims list / coords list / coordinate arrays, empty objects built with no arguments,
    # and the objects one call returns together: an in-place change of one (rename, new_dim, squeeze, a written coordinate,
    # sort) never shows in the other, in the caller's lists, or in objects constructed afterwards
    def _two():
        dl = ["x", "y", "z"]; cl = [np.arange(2.0), np.array([5.0, 3.0, 4.0]), np.array([7.0])]
        return dl, cl, dnp.DNPData(np.arange(6.0).reshape(2, 3, 1), dl, cl), dnp.DNPData(-np.arange(6.0).reshape(2, 3, 1), dl, cl)
    inplace = {"rename": lambda o: o.rename("x", "t2"), "new_dim": lambda o: o.new_dim("n", 5.0), "squeeze": lambda o: o.squeeze(),
               "coord-write": lambda o: o.coords["y"].__setitem__(0, -99.0), "sort": lambda o: o.sort("y"),
               "reorder": lambda o: o.reorder(["y"]), "coords-pop": lambda o: o.coords.pop("z")}
    for nm, act in inplace.items():
        dl, cl, a, b = _two()
        dl0, cl0, b0 = list(dl), [c.copy() for c in cl], deep_snap(b)
        with warnings.catch_warnings():
            warnings.simplefilter("ignore")
            try:
                act(a)
            except Exception:  # noqa: BLE001
                pass
        n_eval += 1
        changed = snap_diff(b0, deep_snap(b))
        if changed or dl != dl0 or len(cl) != len(cl0) or any(not np.array_equal(x, y) for x, y in zip(cl, cl0)):
            key = "C03:shared-state:constructor-arguments:%s" % nm
            fails.append({"key": key, "clause": key, "ops": [{"action": nm, "other_object_changed": changed, "callers_dims": dl}]})
    with warnings.catch_warnings():
        warnings.simplefilter("ignore")
        e1, e2 = dnp.DNPData(), dnp.DNPData()
        try:
            e1.new_dim("x", 1.0); e1.attrs["k"] = 1; e1.add_proc_attrs("s", {"p": 1})
        except Exception:  # noqa: BLE001
            pass
        e3 = dnp.DNPData()
    n_eval += 1
    for o in (e2, e3):
        if list(o.dims) or o.attrs or o.proc_attrs or len(o.coords.coords):
            key = "C03:shared-state:default-constructed-objects"
            fails.append({"key": key, "clause": key, "ops": [{"dims": list(o.dims), "attrs": dict(o.attrs)}]}); break
    try:
        xs = np.linspace(0.0, 2.0, 12)
        fd = dnp.DNPData(np.stack([2.0 * xs + 1.0, -xs + 3.0], axis=1), ["t", "k"], [xs, np.arange(2.0)])
        with warnings.catch_warnings():
            warnings.simplefilter("ignore")
            fo = dnp.fit(lambda x, p, q: p * x + q, fd, "t", (1.0, 0.0))
        parts = {k: v for k, v in fo.items() if isinstance(v, dnp.DNPData)}
        for k1 in parts:
            before = {k2: deep_snap(v) for k2, v in parts.items() if k2 != k1}
            try:
                parts[k1].rename(parts[k1].dims[0], "renamed_" + k1)
                parts[k1].attrs["probe"] = k1
            except Exception:  # noqa: BLE001
                pass
            n_eval += 1
            for k2, sn in before.items():
                ch = snap_diff(sn, deep_snap(parts[k2]))
                if ch:
                    key = "C03:shared-state:fit-results:%s-%s" % (k1, k2)
                    fails.append({"key": key, "clause": key, "ops": [{"changed_through": k1, "visible_in": k2, "parts": ch}]})
    except Exception:  # noqa: BLE001
        pass
    # dictionaries handed to hydration
    hd = {"E_array": np.linspace(1, -20, 8), "E_powers": np.linspace(0.001, 0.5, 8), "T1_array": np.linspace(2.0, 2.4, 5),
          "T1_powers": np.linspace(0.001, 0.5, 5), "T10": 2.0, "T100": 2.5, "spin_C": 100.0, "field": 350.0, "smax_model": "tethered",
          "interpolate_method": "linear"}
    hc = {"tcorr_bulk": 54.0, "macro_C": 100.0}
    b1, b2 = copy.deepcopy(hd), copy.deepcopy(hc)
    with warnings.catch_warnings():
        warnings.simplefilter("ignore")
        try:
            dnp.hydration(hd, hc)
        except Exception:
            pass
    n_eval += 1
    same = lambda a, b: list(a.keys()) == list(b.keys()) and all(np.array_equal(np.asarray(a[k]), np.asarray(b[k])) for k in a)
    if not same(b1, hd) or not same(b2, hc):
        key = "C03:argument-modified:hydration:dictionaries"
        fails.append({"key": key, "clause": key, "ops": [{"function": "hydration"}]})
    # fancy_plot for every experiment type the configuration knows (and nmr_spectrum), in calls that return AND in calls that raise
    # part-way (a keyword matplotlib does not know, an xlim with one entry, showPar with a non-numeric parameter): the argument
    # is what it was
    try:
        from dnplab.config.config import DNPLAB_CONFIG as _cfg
        etypes = ["nmr_spectrum"] + [k.split(":", 1)[1] for k in _cfg.sections() if k.startswith("FANCY_PLOT:")]
    except Exception:  # noqa: BLE001
        etypes = ["nmr_spectrum", "epr_spectrum", "inversion_recovery", "enhancements_P"]
    import io as _io, contextlib as _ctx
    for et in etypes:
        for label, kw in (("ok", {}), ("bad-keyword", {"no_such_matplotlib_keyword": 1}), ("bad-xlim", {"xlim": [0.5]}),
                          ("bad-showpar", {"showPar": True})):
            dd = dnp.DNPData(np.arange(24.0).reshape(2, 4, 3) + 0.5j, ["a", "t2", "b"], [np.arange(2.0), np.arange(4.0) * 0.5, np.arange(3.0)],
                             attrs={"experiment_type": et, "center_field": "3480 G", "nmr_frequency": "400 MHz", "frequency": "9.4 GHz"})
            before = deep_snap(dd)
            with warnings.catch_warnings(), _ctx.redirect_stdout(_io.StringIO()):
                warnings.simplefilter("ignore")
                try:
                    dnp.fancy_plot(dd, **kw)
                except Exception:  # noqa: BLE001
                    pass
                try:
                    import matplotlib.pyplot as _plt
                    _plt.close("all")
                except Exception:  # noqa: BLE001
                    pass
            n_eval += 1
            ch = snap_diff(before, deep_snap(dd))
            if ch:
                key = "C03:argument-modified:fancy_plot:%s:%s" % (et, label)
                fails.append({"key": key, "clause": key, "ops": [{"function": "fancy_plot", "experiment_type": et, "call": label, "parts": ch}]})
    # what hydration RETURNS shares nothing with what it was given — also when the T1 series is already on the enhancement
    # powers (no T1_powers key), so that no interpolation builds a new array
    try:
        from props.C20 import synth
        rs = random.Random(seed * 7919 + 303)
        data, extra, _truth = synth(rs, "linear", "tethered", field=0.35)
        for no_t1_powers in (False, True):
            dd = copy.deepcopy(data)
            if no_t1_powers:
                dd["T1_array"] = np.array(_truth["T1E"], dtype=float); dd.pop("T1_powers")
            with warnings.catch_warnings():
                warnings.simplefilter("ignore")
                res = dnp.hydration(dd, dict(extra))
            n_eval += 1
            ins = {k: v for k, v in dd.items() if isinstance(v, np.ndarray)}
            for rk, rv in res.items():
                if isinstance(rv, np.ndarray) and rv.size:
                    for ik, iv in ins.items():
                        if rv is iv or np.shares_memory(rv, iv):
                            key = "C03:shared-state:hydration:result-%s-is-argument-%s" % (rk, ik)
                            fails.append({"key": key, "clause": key, "ops": [{"function": "hydration", "T1_powers_given": not no_t1_powers}]})
    except ImportError:
        pass
    # autophase_dep(method="manual", order="first", phase=<array>): the recorded phase must not be the caller's array
    try:
        from dnplab.processing.phase import autophase_dep
        xx = np.linspace(-5.0, 5.0, 16)
        dd = dnp.DNPData(np.exp(-xx ** 2) + 0j, ["f2"], [xx])
        ph = np.linspace(0.0, 1.0, 16); ph0 = ph.copy()
        with warnings.catch_warnings():
            warnings.simplefilter("ignore")
            oo = autophase_dep(dd, dim="f2", method="manual", order="first", phase=ph)
        n_eval += 1
        shared = [k for k, v in oo.attrs.items() if isinstance(v, np.ndarray) and (v is ph or np.shares_memory(v, ph))]
        if shared or not np.array_equal(ph, ph0):
            key = "C03:shared-state:autophase_dep:attrs-hold-argument-array"
            fails.append({"key": key, "clause": key, "ops": [{"function": "autophase_dep", "attrs": shared}]})
    except Exception:  # noqa: BLE001
        pass
    # the deprecated workspace form of the same call (one container holding both dictionaries), with and without constants
    for with_c in (True, False):
        ws = {"hydration_inputs": copy.deepcopy(b1)}
        if with_c:
            ws["hydration_constants"] = copy.deepcopy(b2)
        before = copy.deepcopy(ws)
        with warnings.catch_warnings():
            warnings.simplefilter("ignore")
            try:
                dnp.hydration(ws)
            except Exception:
                pass
        n_eval += 1
        if list(ws.keys()) != list(before.keys()) or any(not same(before[k], ws[k]) for k in before):
            key = "C03:argument-modified:hydration:workspace-container"
            fails.append({"key": key, "clause": key, "ops": [{"function": "hydration", "form": "workspace", "constants": with_c}]})
    return fails, n_eval, outcomes


_base_run = P.run


def run(tier, seed, escalate=False):
    res = _base_run(tier, seed, escalate)
    fails, n_eval, outcomes = registry_oracle("thorough" if escalate else tier, seed)
    seen = {f["key"] for f in res["impl_failures"]}
    for f in fails:
        if f["key"] not in seen:
            seen.add(f["key"]); res["impl_failures"].append(f)
    res["evaluations"] += n_eval
    res["distribution"]["registry_calls"] = n_eval
    res["distribution"]["registry_outcomes"] = outcomes
    return res
