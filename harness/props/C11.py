"""C11 — processing history only grows by appending (core part: NumPy calls; processing functions are added by the proc layer)."""
import random
from gen import *
from fractions import Fraction
from oracles import HistoryOracle
from propbase import StreamProperty

RULE = ("pipelines of 1-5 history-stamping steps (NumPy ufuncs and reductions, processing functions) on objects whose "
        "pre-existing history has 0-12 entries; after every step the output history must start with the input's "
        "(deep-equal, in order), add >=1 well-formed entry, and leave the input's untouched; non-trivial = pre-existing "
        "history non-empty and pipeline length >=2; distinct by canonical stream; plus every processing function of the registry on "
        "its own (1-D, 2-D with the dimension first / last, 3-D; empty and 2-entry history)")


def proc_step(rng, cur, o, dims, a):
    """a processing step whose parameters do not depend on the data"""
    d = rng.choice(dims)
    lo = min(Fraction(x) for x in a["coords"][a["dims"].index(d)])
    hi = max(Fraction(x) for x in a["coords"][a["dims"].index(d)])
    choices = ["cumulative_integrate", "left_shift", "normalize", "reference", "interp"]
    if len(dims) > 1:
        choices += ["integrate", "integrate_regions", "average"]
    f = rng.choice(choices)
    mk = lambda f, **kw: {"op": "proc", "f": f, "obj": cur, "out": o, "kw": kw}
    if f == "integrate":
        dims.remove(d); return mk("integrate", dim=d)
    if f == "integrate_regions":
        dims.remove(d)
        return mk("integrate", dim=d, regions=[[str(lo - 1), str(hi + 1)], [str(lo), str((lo + hi) / 2)]])
    if f == "average":
        dims.remove(d); return mk("average", axis=d)
    if f == "left_shift":
        return mk("left_shift", dim=d, n=0)
    if f == "normalize":
        return mk("normalize", dim=rng.choice([None, d]))
    if f == "reference":
        return mk("reference", dim=d, old_ref="1", new_ref="0", shift="1")
    if f == "interp":
        return mk("interp", dim=d, new_coord=[str(lo + (hi - lo) * Fraction(t, 4)) for t in range(5)])
    return mk("cumulative_integrate", dim=d)


def streams(tier, seed):
    rng = random.Random(seed * 7919 + 11)
    out = []
    n = 120 if tier == "quick" else 1500
    for _ in range(n):
        a = new_op(rng, 0, ndim=rng.randint(2, 3), hist=rng.randint(0, 12), attrs=rng.random() < 0.5, cplx=False,
                   kinds=["asc"] * 4)
        ops = [a]
        cur, dims = 0, list(a["dims"])
        for k in range(rng.randint(1, 5)):
            c = rng.random()
            o = k + 1
            if c < 0.35:
                ops.append({"op": "np_unary", "f": rng.choice(["negative", "square", "conj"]), "obj": cur, "out": o})
            elif c < 0.6:
                ops.append({"op": "np_scalar", "f": rng.choice(["add", "multiply"]), "obj": cur, "scalar": "2", "out": o})
            elif c < 0.8 and len(dims) > 1:
                d = rng.choice(dims); dims.remove(d)
                ops.append({"op": "np_reduce", "f": rng.choice(["sum", "max", "mean"]), "obj": cur, "axis": d, "out": o})
            elif c < 0.85:
                ops.append({"op": "np_unary", "f": "positive", "obj": cur, "out": o})
            else:
                ops.append(proc_step(rng, cur, o, dims, a))
            cur = o
        out.append(ops)
    # the SAME step applied two and three times in a row (same function, same axis argument): every application appends
    for nd in (3, 4):
        for f in ("sum", "max", "mean"):
            for ax in (0, -1):
                a = new_op(rng, 0, ndim=nd, hist=rng.choice([0, 2]), cplx=False, kinds=["asc"] * 4)
                out.append([a] + [{"op": "np_reduce", "f": f, "obj": k, "axis": ax, "out": k + 1} for k in range(nd - 1)])
        for f in ("negative", "square", "conj", "positive"):
            a = new_op(rng, 0, ndim=2, hist=rng.choice([0, 3]), cplx=False, kinds=["asc"] * 4)
            out.append([a] + [{"op": "np_unary", "f": f, "obj": k, "out": k + 1} for k in range(3)])
        a = new_op(rng, 0, ndim=2, hist=1, cplx=False, kinds=["asc"] * 4)
        out.append([a] + [{"op": "np_scalar", "f": "multiply", "obj": k, "scalar": "2", "out": k + 1} for k in range(3)])
    for d_steps in (("left_shift", {"n": 1}), ("normalize", {"dim": None}), ("cumulative_integrate", {})):
        a = new_op(rng, 0, ndim=2, hist=rng.choice([0, 2]), cplx=False, kinds=["asc"] * 4)
        kw = dict(d_steps[1])
        if "dim" not in kw:
            kw["dim"] = a["dims"][0]
        out.append([a] + [dict({"op": "proc", "f": d_steps[0], "obj": k, "out": k + 1}, kw=dict(kw)) for k in range(3)])
    return out


P = StreamProperty("C11", [HistoryOracle], streams, RULE, ("C11",),
                   lambda ops: len(ops[0].get("hist", [])) >= 1 and len(ops) >= 3)
replay = P.replay

# every function of dnplab.processing (and the NumPy entry points) that returns a data object, by registry name of C03
PROCESSING = {"apodize", "fourier_transform", "inverse_fourier_transform", "phase", "phase_cycle", "phase_cycle-array", "phase-array-p1",
              "autophase", "integrate", "integrate-regions", "integrate-regions-kept", "cumulative_integrate", "remove_background",
              "remove_background-regions", "remove_background-func", "background-func", "left_shift", "normalize", "normalize-dim", "smooth", "interp", "interp-list", "ndalign",
              "average", "signal_to_noise", "signal_to_noise-regions", "signal_to_noise-noise-regions", "reference", "pseudo_modulation", "create_complex-arrays", "create_complex-kept",
              "np.abs", "np.max-axis"}


def registry_history(tier, seed):
    """each processing function on its own: 1-D, 2-D (dimension first / last) and 3-D inputs, empty and non-empty history"""
    import numpy as np, dnplab as dnp, warnings, io, contextlib, copy
    from props.C03 import _registry
    from oracles import _eq
    rng = random.Random(seed * 7919 + 111)
    fails, n_eval, seen_fn = [], 0, set()
    shapes = [([8], 0), ([3, 8], 1), ([8, 2], 0)] + ([([2, 8, 3], 1)] if tier == "thorough" else [([2, 8, 3], 1)])
    for shape, k in shapes:
        for nh in (0, 2, 3):
            for name, fn, _ in _registry(rng):
                if name not in PROCESSING:
                    continue
                dims = ["t2" if i == k else ("Average" if i == 0 else "x%d" % i) for i in range(len(shape))]
                if name.startswith("inverse"):
                    dims = [("f2" if d == "t2" else d) for d in dims]
                vals = (np.arange(1, int(np.prod(shape)) + 1, dtype=float).reshape(shape) ** 1.5) * np.exp(0.3j)
                coords = [np.linspace(0.0, 2.0, s) if i == k else np.arange(s, dtype=float) for i, s in enumerate(shape)]
                real = ["numpy.mean", "autophase", "average", "integrate", "window", "numpy.sum", "normalized"]
                hist = [((real[(j + len(name)) % len(real)] if j % 2 == 0 else "step%d" % j), {"p": [1, j], "q": np.arange(3.0)})
                        for j in range(nh)]
                # an input with no history is built the way a user builds it: without the proc_attrs argument
                d = dnp.DNPData(vals, list(dims), coords, proc_attrs=copy.deepcopy(hist)) if nh else dnp.DNPData(vals, list(dims), coords)
                res = None
                with warnings.catch_warnings():
                    warnings.simplefilter("ignore")
                    with contextlib.redirect_stdout(io.StringIO()):
                        try:
                            res = fn(d, dims[k])
                        except Exception:  # noqa: BLE001
                            res = None
                n_eval += 1
                # whatever the step did, an object constructed afterwards starts with an EMPTY history
                if list(dnp.DNPData(np.zeros(2), ["x"], [np.arange(2.0)]).proc_attrs):
                    key = "C11:fresh-object-history-not-empty:" + name
                    fails.append({"key": key, "clause": key, "ops": [{"function": name, "shape": shape, "dim_pos": k}]})
                    break
                if not isinstance(res, dnp.DNPData):
                    continue
                seen_fn.add(name)
                h = list(res.proc_attrs)
                key = None
                if not _eq(list(d.proc_attrs), hist):
                    key = "C11:input-history-altered:" + name
                elif not _eq(h[:nh], hist):
                    key = "C11:prefix-lost:" + name
                elif len(h) <= nh:
                    key = "C11:no-new-entry:" + name
                else:
                    ent = h[nh]
                    if not (isinstance(ent, tuple) and len(ent) == 2 and isinstance(ent[0], str) and ent[0] and isinstance(ent[1], dict)):
                        key = "C11:malformed-entry:" + name
                if key:
                    fails.append({"key": key, "clause": key, "ops": [{"function": name, "shape": shape, "dim_pos": k, "history_entries": nh}]})
                    continue
                # the same step once more on its own output (its name is now already in the history), directly and after
                # another step in between: the log must still only grow at the end
                if dims[k] not in res.dims or nh == 0:
                    continue
                for between in (False, True):
                    cur = res
                    try:
                        with warnings.catch_warnings():
                            warnings.simplefilter("ignore")
                            with contextlib.redirect_stdout(io.StringIO()):
                                if between:
                                    cur = dnp.left_shift(cur, dims[k], 0)
                                before = copy.deepcopy(list(cur.proc_attrs))
                                res2 = fn(cur, dims[k])
                    except Exception:  # noqa: BLE001
                        continue
                    n_eval += 1
                    if not isinstance(res2, dnp.DNPData):
                        continue
                    h2 = list(res2.proc_attrs)
                    key2 = None
                    if not _eq(list(cur.proc_attrs), before):
                        key2 = "C11:input-history-altered:repeated:" + name
                    elif not _eq(h2[: len(before)], before):
                        key2 = "C11:prefix-lost:repeated:" + name
                    elif len(h2) <= len(before):
                        key2 = "C11:no-new-entry:repeated:" + name
                    if key2:
                        fails.append({"key": key2, "clause": key2, "ops": [{"function": name, "shape": shape, "dim_pos": k, "step_between": between}]})
                        break
    return fails, n_eval, sorted(seen_fn)


def caller_reuse(tier, seed):
    """a step's recorded parameters are the step's own: the caller goes on using (and changing in place) the objects it passed —
    a grid array, a list of regions, a nested list, a phase array — and the result's live arrays are changed in place too;
    the recorded history of the result must stay exactly what it was when the step returned"""
    import numpy as np, dnplab as dnp, warnings, io, contextlib, copy
    from oracles import _eq
    rng = random.Random(seed * 7919 + 1111)
    fails, n_eval = [], 0
    x = np.linspace(-10.0, 10.0, 41)

    def base(nh):
        d = dnp.DNPData(np.exp(-(x ** 2))[:, None] * (1.0 + 0.5j) * np.arange(1.0, 4.0)[None, :], ["f2", "n"], [x.copy(), np.arange(3.0)])
        for j in range(nh):
            d = dnp.left_shift(d, "f2", 0)
        return d

    def bump_array(a):
        a += 2.0

    def bump_list(l):
        l.append((3.0, 6.0))

    def bump_nested(l):
        l[0][0] = -9.0

    cases = [
        ("interp:grid-array", lambda d, a: dnp.interp(d, "f2", a), lambda: np.linspace(-5.0, 5.0, 11), bump_array),
        ("integrate:regions-list", lambda d, a: dnp.integrate(d, dim="f2", regions=a), lambda: [(-2.0, 2.0)], bump_list),
        ("integrate:regions-nested-list", lambda d, a: dnp.integrate(d, dim="f2", regions=a), lambda: [[-2.0, 2.0], [3.0, 4.0]], bump_nested),
        ("remove_background:regions-list", lambda d, a: dnp.remove_background(d, dim="f2", deg=1, regions=a), lambda: [(-10.0, -6.0)], bump_list),
        ("remove_background:regions-nested-list", lambda d, a: dnp.remove_background(d, dim="f2", deg=0, regions=a), lambda: [[-10.0, -6.0], [6.0, 10.0]], bump_nested),
        ("phase:array", lambda d, a: dnp.phase(d, dim="n", p0=a), lambda: np.array([10.0, 20.0, 30.0]), bump_array),
        ("left_shift:plain", lambda d, a: dnp.left_shift(d, "f2", a[0]), lambda: [2], bump_nested if False else (lambda l: l.__setitem__(0, 5))),
    ]
    for nh in (0, 1, 3):
        for name, call, mk, bump in cases:
            d = base(nh)
            arg = mk()
            n_eval += 1
            try:
                with warnings.catch_warnings():
                    warnings.simplefilter("ignore")
                    with contextlib.redirect_stdout(io.StringIO()):
                        r1 = call(d, arg)
            except Exception:  # noqa: BLE001
                continue
            if not isinstance(r1, dnp.DNPData):
                continue
            log1 = copy.deepcopy(list(r1.proc_attrs))
            key = None
            bump(arg)                                   # the caller changes what it passed …
            if not _eq(list(r1.proc_attrs), log1):
                key = "C11:recorded-parameters-follow-the-callers-object:" + name
            if key is None:
                try:
                    with warnings.catch_warnings():
                        warnings.simplefilter("ignore")
                        with contextlib.redirect_stdout(io.StringIO()):
                            r2 = call(r1 if "f2" in r1.dims and name.split(":")[0] != "integrate" else d, arg)   # … and uses it for the next step
                    if not _eq(list(r1.proc_attrs), log1):
                        key = "C11:earlier-result-history-changed-by-next-step:" + name
                    elif r2 is not None and "f2" in r1.dims and name.split(":")[0] != "integrate" and not _eq(list(r2.proc_attrs)[: len(log1)], log1):
                        key = "C11:prefix-lost:after-caller-reuse:" + name
                except Exception:  # noqa: BLE001
                    pass
            if key is None:
                # the result's own arrays change in place (a later in-place step, a user edit): the log does not follow
                try:
                    r1.values[...] = 0
                    for c in r1.coords.coords:
                        np.asarray(c)[...] = -1
                except Exception:  # noqa: BLE001
                    pass
                if not _eq(list(r1.proc_attrs), log1):
                    key = "C11:recorded-parameters-follow-the-results-arrays:" + name
            if key:
                fails.append({"key": key, "clause": key, "ops": [{"function": name, "history_entries": nh}]})
    seen, uniq = set(), []
    for f in fails:
        if f["key"] not in seen:
            seen.add(f["key"]); uniq.append(f)
    return uniq, n_eval


def run(tier, seed, escalate=False):
    res = P.run(tier, seed, escalate)
    fails, n_eval, fns = registry_history("thorough" if escalate else tier, seed)
    seen = {f["key"] for f in res["impl_failures"]}
    for f in fails:
        if f["key"] not in seen:
            seen.add(f["key"]); res["impl_failures"].append(f)
    fails2, n2 = caller_reuse(tier, seed)
    for f in fails2:
        if f["key"] not in seen:
            seen.add(f["key"]); res["impl_failures"].append(f)
    res["evaluations"] += n_eval + n2
    res["distribution"]["caller_reuse_cases"] = n2
    res["distribution"]["registry_calls"] = n_eval
    res["distribution"]["registry_functions_returning_objects"] = fns
    return res
