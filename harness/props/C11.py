"""C11 — processing history only grows by appending (core part: NumPy calls; processing functions are added by the proc layer)."""
import random
from gen import *
from fractions import Fraction
from oracles import HistoryOracle
from propbase import StreamProperty

RULE = ("pipelines of 1-5 history-stamping steps (NumPy ufuncs and reductions, processing functions) on objects whose "
        "pre-existing history has 0-12 entries; after every step the output history must start with the input's "
        "(deep-equal, in order), add >=1 well-formed entry, and leave the input's untouched; non-trivial = pre-existing "
        "history non-empty and pipeline length >=2; distinct by canonical stream")


def proc_step(rng, cur, o, dims, a):
    """a processing step whose parameters do not depend on the data"""
    d = rng.choice(dims)
    lo = min(Fraction(x) for x in a["coords"][a["dims"].index(d)])
    hi = max(Fraction(x) for x in a["coords"][a["dims"].index(d)])
    choices = ["cumulative_integrate", "left_shift", "normalize", "reference", "interp"]
    if len(dims) > 1:
        choices += ["integrate", "integrate_regions", "average"]
    f = rng.choice(choices)
    mk = lambda f, **kw: {"op": "proc", "f": f, "obj": cur, "out": o, "kw": kw}
    if f == "integrate":
        dims.remove(d); return mk("integrate", dim=d)
    if f == "integrate_regions":
        dims.remove(d)
        return mk("integrate", dim=d, regions=[[str(lo - 1), str(hi + 1)], [str(lo), str((lo + hi) / 2)]])
    if f == "average":
        dims.remove(d); return mk("average", axis=d)
    if f == "left_shift":
        return mk("left_shift", dim=d, n=0)
    if f == "normalize":
        return mk("normalize", dim=rng.choice([None, d]))
    if f == "reference":
        return mk("reference", dim=d, old_ref="1", new_ref="0", shift="1")
    if f == "interp":
        return mk("interp", dim=d, new_coord=[str(lo + (hi - lo) * Fraction(t, 4)) for t in range(5)])
    return mk("cumulative_integrate", dim=d)


def streams(tier, seed):
    rng = random.Random(seed * 7919 + 11)
    out = []
    n = 120 if tier == "quick" else 1500
    for _ in range(n):
        a = new_op(rng, 0, ndim=rng.randint(2, 3), hist=rng.randint(0, 12), attrs=rng.random() < 0.5, cplx=False,
                   kinds=["asc"] * 4)
        ops = [a]
        cur, dims = 0, list(a["dims"])
        for k in range(rng.randint(1, 5)):
            c = rng.random()
            o = k + 1
            if c < 0.35:
                ops.append({"op": "np_unary", "f": rng.choice(["negative", "square", "conj"]), "obj": cur, "out": o})
            elif c < 0.6:
                ops.append({"op": "np_scalar", "f": rng.choice(["add", "multiply"]), "obj": cur, "scalar": "2", "out": o})
            elif c < 0.8 and len(dims) > 1:
                d = rng.choice(dims); dims.remove(d)
                ops.append({"op": "np_reduce", "f": rng.choice(["sum", "max", "mean"]), "obj": cur, "axis": d, "out": o})
            elif c < 0.85:
                ops.append({"op": "np_unary", "f": "positive", "obj": cur, "out": o})
            else:
                ops.append(proc_step(rng, cur, o, dims, a))
            cur = o
        out.append(ops)
    return out


P = StreamProperty("C11", [HistoryOracle], streams, RULE, ("C11",),
                   lambda ops: len(ops[0].get("hist", [])) >= 1 and len(ops) >= 3)
run, replay = P.run, P.replay
