"""C17 — a failed or refused save never damages what is on disk."""
import random, tempfile, shutil, os, copy
from h5harness import *

RULE = ("fault enumeration: an unstorable value (a sequence containing None, which h5py refuses) injected at every position "
        "— each key of attrs, each key of dnplab_attrs, each parameter of each history step, each entry of a workspace "
        "(data object or plain dictionary) — x {no previous file, previously saved file, existing non-HDF5 file (text / empty)} x {overwrite on, off; given as keyword (True/False, 1/0, numpy.bool_, None), positionally, or left to its default}, plus the "
        "fault-free saves, the destination named in other spellings (trailing separator, ./ and ../ segments, doubled separator), and workspace entries that are neither data objects nor dictionaries (array, list, number; first / middle / last); the destination's outcome class (absent / loads equal to the previous content / does not load / "
        "loads something else) and whether save raised are compared with the Lean model of save_h5 and checked against the "
        "property directly; non-trivial = a fault with a previous file present")
BAD = {"t": "seq", "v": [{"t": "num", "v": "1"}, {"t": "none"}]}
BIG = {"t": "big", "n": 20000}          # a 160 kB array as a history parameter: too large for an HDF5 attribute


def base_obj(rng):
    o = rand_obj(rng, nd=2, hist=3, dtype="f8")
    o["attrs"] = [["a1", {"t": "num", "v": "5"}], ["a2", {"t": "str", "v": "x"}], ["a3", {"t": "ndarr", "v": [{"t": "num", "v": "2"}]}]]
    o["dattrs"] = [["d1", {"t": "num", "v": "7"}], ["d2", {"t": "bool", "v": True}]]
    o["hist"] = [["s1", [["p", {"t": "num", "v": "1"}], ["q", {"t": "none"}]]], ["s2", []], ["s3", [["r", {"t": "str", "v": "z"}]]]]
    return o


def fault_positions(o):
    """every place an unstorable value can sit in one object: (label, mutated copy)"""
    out = []
    for fld in ("attrs", "dattrs"):
        for i in range(len(o[fld])):
            m = copy.deepcopy(o); m[fld][i][1] = BAD
            out.append(("%s[%s]" % (fld, o[fld][i][0]), m))
        m = copy.deepcopy(o); m[fld].append(["zz_new", BAD])
        out.append(("%s[+new-last]" % fld, m))
        m = copy.deepcopy(o); m[fld].insert(0, ["aa_new", BAD])
        out.append(("%s[+new-first]" % fld, m))
    for s in range(len(o["hist"])):
        for i in range(len(o["hist"][s][1])):
            m = copy.deepcopy(o); m["hist"][s][1][i][1] = BAD
            out.append(("hist[%d].%s" % (s, o["hist"][s][1][i][0]), m))
        m = copy.deepcopy(o); m["hist"][s][1].append(["bad", BAD])
        out.append(("hist[%d].+new" % s, m))
        m = copy.deepcopy(o); m["hist"][s][1].append(["bad", BIG])     # refused by HDF5 itself (OSError), not by h5py's type check
        out.append(("hist[%d].oversize" % s, m))
    return out


def cases(tier, seed):
    rng = random.Random(seed * 7919 + 17)
    o = base_obj(rng)
    prev_single = {"single": rand_obj(rng, nd=1, hist=1, dtype="f8")}
    prev_ws = {"ws": [["old", {"kind": "data", "obj": rand_obj(rng, nd=1, hist=0, dtype="i8")}]]}
    out = []
    faults = [("none", o)] + fault_positions(o)
    nform = {True: 0, False: 0}
    for label, m in faults:
        for prev in (None, prev_single, prev_ws, {"other": 1}, {"other": 2}):
            for ow in (True, False):
                # the option is given as a keyword, positionally, or (for "do not overwrite") left out — in rotation, so that
                # calls that name it and calls that rely on the default follow one another in one process
                # (separate rotations for "overwrite" and "do not overwrite": every form meets both values, and the forms that
                # exist only for "do not overwrite" — left out, None — are really used)
                nform[ow] += 1
                form = (("kw", "omitted", "positional", "kw-int", "kw-npbool", "kw-none")[nform[ow] % 6] if not ow
                        else ("kw", "positional", "kw-int", "kw-npbool")[nform[ow] % 4])
                out.append(dict({"single": m, "prev": prev, "overwrite": ow, "label": "obj:" + label},
                                **({} if form == "kw" else {"owform": form})))
    # the fault-free object with EVERY form of the option against every previous state (a refused save must be refused however
    # the caller spells "do not overwrite", a requested one carried out however "overwrite" is spelled)
    for prev in (None, prev_single, prev_ws, {"other": 1}, {"other": 2}):
        for ow, forms in ((False, ("kw", "omitted", "positional", "kw-int", "kw-npbool", "kw-none", "direct-omitted", "direct-kw", "direct-positional")),
                          (True, ("kw", "positional", "kw-int", "kw-npbool", "direct-kw", "direct-positional"))):
            for form in forms:
                out.append(dict({"single": o, "prev": prev, "overwrite": ow, "label": "obj:none"}, **({} if form == "kw" else {"owform": form})))
    # workspace entries: fault in the k-th entry (data object or plain dict)
    for k in range(3):
        for kind in ("data", "dict"):
            ws = [["e%d" % j, {"kind": "data", "obj": rand_obj(rng, nd=1, hist=1, dtype="f8")}] for j in range(3)]
            if kind == "data":
                ws[k][1]["obj"]["attrs"].append(["bad", BAD])
            else:
                ws[k] = ["e%d" % k, {"kind": "dict", "kv": [["ok", {"t": "num", "v": "1"}], ["bad", BAD]]}]
            for prev in (None, prev_single):
                for ow in (True, False):
                    out.append({"ws": ws, "prev": prev, "overwrite": ow, "label": "ws[%d]:%s" % (k, kind)})
    # an ENTRY that cannot be stored at all (neither a data object nor a dictionary), first / middle / last
    for k in range(3):
        for py in ("array", "list", "number"):
            ws = [["e%d" % j, {"kind": "data", "obj": rand_obj(rng, nd=1, hist=1, dtype="f8")}] for j in range(3)]
            ws[k] = ["e%d" % k, {"kind": "raw", "py": py}]
            for prev in (None, prev_single, {"other": 1}):
                for ow in (True, False):
                    out.append({"ws": ws, "prev": prev, "overwrite": ow, "label": "ws-entry[%d]:%s" % (k, py)})
    return out


PATH_FORMS = ("trailing-sep", "dot-segment", "double-sep", "parent-segment")


def path_form_cases(tier, seed):
    """the destination named in other spellings: judged by the property alone (the Lean model has no notion of file names)"""
    rng = random.Random(seed * 7919 + 171)
    o = base_obj(rng)
    bad = copy.deepcopy(o); bad["attrs"][1][1] = BAD
    prev_single = {"single": rand_obj(rng, nd=1, hist=1, dtype="f8")}
    out = []
    for form in PATH_FORMS:
        for label, m in (("none", o), ("attrs[a2]", bad)):
            for prev in (None, prev_single, {"other": 1}):
                for ow in (True, False):
                    out.append({"single": m, "prev": prev, "overwrite": ow, "label": "obj:" + label, "pathform": form})
    return out


def value_kind_cases(tier, seed):
    """unstorable values of OTHER kinds (dictionary, set, arbitrary object, function) at every kind of position — judged by the
    property alone (the Lean value grammar does not carry them)"""
    rng = random.Random(seed * 7919 + 172)
    o = base_obj(rng)
    prev_single = {"single": rand_obj(rng, nd=1, hist=1, dtype="f8")}
    out = []
    for kind in ("dict", "set", "object", "function"):
        bad = {"t": "pyobj", "v": kind}
        for pos in ("attrs", "dattrs", "hist"):
            m = copy.deepcopy(o)
            if pos == "hist":
                m["hist"][1][1].append(["bad", bad])
            else:
                m[pos].insert(1, ["bad_" + kind, bad])
            for prev in (None, prev_single):
                out.append({"single": m, "prev": prev, "overwrite": True, "label": "obj:%s[%s]" % (pos, kind)})
    return out


def judge(c, i, fails):
    """the property evaluated directly on what the real save did"""
    icls = outcome_class(i)
    pos = c["label"].split("[")[0].split(".")[0] + (":" + c["pathform"] if c.get("pathform") else "")
    had_prev = c.get("prev") is not None
    if had_prev and not c.get("overwrite"):
        if not i["raised"] or icls != "previous":
            key = "C17:existing-file-replaced-or-no-raise:" + pos
            fails.append({"key": key, "clause": key, "ops": [c]})
    elif i["raised"]:
        ok = (icls == "previous") if had_prev else (icls in ("absent", "does-not-load"))
        if had_prev and icls == "does-not-load":
            ok = True
        if not ok:
            key = "C17:failed-save-left-loadable-partial-file:%s:%s" % (pos, "prev" if had_prev else "noprev")
            fails.append({"key": key, "clause": key, "ops": [c]})
    elif "none" not in c["label"] and not (had_prev and not c.get("overwrite")):
        # an unstorable value was handed over and the call did NOT raise: whatever now loads cannot hold it, i.e. a file
        # that loads successfully with part of the attributes / history missing
        if icls != "absent" and i["loads"]:
            key = "C17:unstorable-value-silently-dropped:" + pos
            fails.append({"key": key, "clause": key, "ops": [c]})
        else:
            # "… the call raises": a save that could not store everything and says nothing
            key = "C17:failed-save-did-not-raise:" + pos
            fails.append({"key": key, "clause": key, "ops": [c]})
    if i.get("leftover_tmp"):
        key = "C17:temporary-file-left-behind:" + pos
        fails.append({"key": key, "clause": key, "ops": [c]})
    if "none" in c["label"] and not (had_prev and not c.get("overwrite")) and i["raised"] and not c.get("pathform"):
        fails.append({"key": "C17:valid-save-raised", "clause": "C17:valid-save-raised", "ops": [c]})


def outcome_class(state):
    if not state["exists"]:
        return "absent"
    if state.get("bytes_same"):
        return "previous"          # the non-HDF5 file that was there is still there, byte for byte
    if not state["loads"]:
        return "does-not-load"
    if state["prev_loaded"] is not None and num_eq(state["loaded"], state["prev_loaded"]):
        return "previous"
    return "other"


def run(tier, seed, escalate=False):
    cs = cases(tier, seed)
    work = tempfile.mkdtemp(prefix="verif_c17_")
    mism, fails = [], []
    try:
        impl = [impl_case(c, work) for c in cs]
        model = model_cases([{k: v for k, v in c.items() if k not in ("label", "owform", "pathform")} for c in cs])
        for c, i, m in zip(cs, impl, model):
            if m.get("outcome") != "ok":
                mism.append({"diffs": [m.get("outcome")], "ops": [c], "stream": -1, "explained_by_known": False}); continue
            prev_model = None
            # model's outcome class
            if m["disk"] is None:
                mcls = "absent"
            else:
                # equal to previous?  ask the model what the previous file loads to
                mcls = "other"
            icls = outcome_class(i)
            diffs = []
            if bool(m["raised"]) != bool(i["raised"]):
                diffs.append("raised:%s!=%s" % (m["raised"], i["raised"]))
            if m["disk"] is not None and "other" in m["disk"]:
                if icls != "previous":
                    diffs.append("non-hdf5-destination-not-kept:impl-%s" % icls)
            elif (m["disk"] is None) != (icls == "absent"):
                diffs.append("existence:model-%s-impl-%s" % ("absent" if m["disk"] is None else "present", icls))
            elif m["disk"] is not None and i["loads"] and not num_eq(m["disk"]["loaded"], i["loaded"]):
                diffs.append("content")
            elif m["disk"] is not None and not i["loads"]:
                diffs.append("impl-does-not-load")
            if diffs:
                mism.append({"diffs": diffs, "ops": [c], "model": m, "impl": {"class": icls, "raised": i["raised"]},
                             "stream": -1, "explained_by_known": False})
            # the property directly
            judge(c, i, fails)
        pcs = path_form_cases(tier, seed) + value_kind_cases(tier, seed)
        for c in pcs:
            judge(c, impl_case(c, work), fails)
    finally:
        shutil.rmtree(work, ignore_errors=True)
    seen, uniq = set(), []
    for f in fails:
        if f["key"] not in seen:
            seen.add(f["key"]); uniq.append(f)
    return {"evaluations": len(cs) + len(pcs), "distinct_nontrivial": sum(1 for c in cs if c.get("prev") is not None and "none" not in c["label"]),
            "rule": RULE, "samples": [{"label": cs[3]["label"], "overwrite": cs[3]["overwrite"], "prev": cs[3]["prev"] is not None},
                                      {"label": cs[-1]["label"], "overwrite": cs[-1]["overwrite"], "prev": cs[-1]["prev"] is not None}],
            "traces_validated": len(cs) - len(mism), "mismatches": mism, "impl_failures": uniq, "exhaustive": True,
            "distribution": {"cases": len(cs), "path_form_cases": len(pcs), "path_forms": list(PATH_FORMS), "positions": sorted({c["label"] for c in cs})},
            "trusted_extra": ["atomicity of os.replace and h5py's file handling are L0 (outside the theorem)"]}


def replay(rp):
    c = rp["ops"][0]
    work = tempfile.mkdtemp(prefix="verif_c17_")
    try:
        i = impl_case(c, work)
    finally:
        shutil.rmtree(work, ignore_errors=True)
    fl = []
    judge(c, i, fl)
    if not fl and rp.get("key"):
        # the case alone passes: it may need the calls that came before it in the run (state left behind by an earlier save) —
        # run the whole enumeration again with the replay's tier and seed and look for the same clause
        res = run(rp.get("tier", "quick"), int(rp.get("seed", 0)))
        hit = [f for f in res["impl_failures"] if f["key"] == rp["key"]]
        return {"fails": bool(hit), "clauses": [f["key"] for f in hit], "needs_preceding_calls": True}
    return {"fails": bool(fl), "clauses": [f["key"] for f in fl], "impl": {k: i[k] for k in ("raised", "exists", "loads")}}
