"""C02 — relabelling operations keep each value attached to its coordinates."""
import random, itertools, json
from gen import *
from corr import correspond
from oracles import LabelOracle, ConsistencyOracle
from propbase import finish

RULE = ("op streams over 1-4-D objects with pairwise distinct extents and self-describing values; "
        "all permutations of <=3 dims enumerated for reorder/sort_dims, every dim for unfold/sort; "
        "non-trivial = >=2 dims with distinct extents and a non-identity relabelling; distinct by canonical op stream")


def streams(tier, seed):
    import itertools as _it
    rng = random.Random(seed * 7919 + 2)
    out = []
    # enumerated: every naming order x every reorder argument on 3-D distinct extents
    names3 = ["c", "a", "b"]
    for dims in perms(names3):
        for k in (1, 2, 3):
            for arg in itertools.permutations(dims, k):
                out.append([new_op(rng, 0, dims=dims, shape=[2, 3, 4], cplx=False),
                            {"op": "reorder", "obj": 0, "dims": list(arg)}])
        out.append([new_op(rng, 0, dims=dims, shape=[3, 1, 2]), {"op": "sort_dims", "obj": 0}])
        for dm in dims:
            out.append([new_op(rng, 0, dims=dims, shape=[2, 3, 4]),
                        {"op": "unfold", "obj": 0, "dim": dm}, {"op": "fold", "obj": 0}])
    # dimension names that CONTAIN one another (t inside t2 and t10, x inside xy, f inside f2): an operation that names one
    # dimension touches that dimension only
    for dims, old_, new_ in ((["t2", "B0", "t"], "t", "tau"), (["t", "t10", "t2"], "t", "f"), (["xy", "x", "y"], "x", "z"),
                             (["f2", "f", "f22"], "f2", "g"), (["Power", "Pow", "P"], "P", "Q"), (["ab", "b", "a"], "a", "b2")):
        a = new_op(rng, 0, dims=dims, shape=[2, 3, 4], cplx=False)
        out.append([a, {"op": "rename", "obj": 0, "dim": old_, "new": new_}])
        out.append([a, {"op": "reorder", "obj": 0, "dims": [old_]}, {"op": "rename", "obj": 0, "dim": old_, "new": new_}])
        out.append([a, {"op": "unfold", "obj": 0, "dim": old_}, {"op": "fold", "obj": 0}])
        out.append([a, {"op": "sort", "obj": 0, "dim": old_}])
    # unfold ... fold on objects whose storage is NOT C-contiguous: after reorder to every permutation (a transposed view;
    # the full reversal is Fortran-contiguous) and every dim, for 3-D; reversed 4-D
    for perm in _it.permutations(range(3)):
        for k in range(3):
            dims = rng.sample(DIM_POOL, 3)
            a = new_op(rng, 0, dims=dims, shape=distinct_shape(rng, 3, 2, 5), cplx=False)
            out.append([a, {"op": "reorder", "obj": 0, "dims": [dims[i] for i in perm]},
                        {"op": "unfold", "obj": 0, "dim": dims[k]}, {"op": "fold", "obj": 0}])
    for k in range(4):
        dims = rng.sample(DIM_POOL + ["q1"], 4)
        a = new_op(rng, 0, dims=dims, shape=[2, 3, 4, 5], cplx=False)
        out.append([a, {"op": "reorder", "obj": 0, "dims": list(reversed(dims))},
                    {"op": "unfold", "obj": 0, "dim": dims[k]}, {"op": "fold", "obj": 0}])
    # sort, systematically: every dim of 2-D and 3-D objects (so the sorted axis is first, middle, last) with ascending,
    # strictly descending and shuffled coordinates; distinct and equal extents
    for nd in (2, 3):
        for equal in (False, True):
            for k in range(nd):
                for kind in ("asc", "desc", "shuffled"):
                    dims = rng.sample(DIM_POOL, nd)
                    shape = [3] * nd if equal else distinct_shape(rng, nd, 2, 5)
                    kinds = ["asc"] * nd; kinds[k] = kind
                    out.append([new_op(rng, 0, dims=dims, shape=shape, cplx=False, kinds=kinds),
                                {"op": "sort", "obj": 0, "dim": dims[k]}])
    n = 60 if tier == "quick" else 600
    for t in range(n):
        ops = [new_op(rng, 0, attrs=rng.random() < 0.5, hist=rng.randint(0, 2))]
        dims = list(ops[0]["dims"])
        cur = list(dims)
        for _ in range(rng.randint(1, 6)):
            c = rng.random()
            if c < 0.2:
                ops.append({"op": "reorder", "obj": 0, "dims": partial_orders(rng, cur)})
            elif c < 0.35:
                ops.append({"op": "sort_dims", "obj": 0})
            elif c < 0.45:
                ops.append({"op": "sort", "obj": 0, "dim": rng.choice(cur)})
            elif c < 0.6:
                dm = rng.choice(cur)
                ops.append({"op": "unfold", "obj": 0, "dim": dm}); ops.append({"op": "fold", "obj": 0})
            elif c < 0.7:
                new = rng.choice([x for x in DIM_POOL + ["q1", "q2"] if x not in cur])
                old = rng.choice(cur)
                ops.append({"op": "rename", "obj": 0, "dim": old, "new": new})
                cur[cur.index(old)] = new
            elif c < 0.8 and len(cur) < 4:
                new = rng.choice([x for x in DIM_POOL + ["q1", "q2"] if x not in cur])
                ops.append({"op": "new_dim", "obj": 0, "dim": new, "coord": str(rng.randint(-3, 9))})
                cur.append(new)
            elif c < 0.9:
                ops.append({"op": "copy", "obj": 0, "out": 1})
            else:
                ops.append({"op": "squeeze", "obj": 0})
                break
        out.append(ops)
    # concatenate: b given in a different axis order than a
    for t in range(20 if tier == "quick" else 200):
        a = new_op(rng, 0, ndim=rng.randint(1, 3), cplx=False, kinds=["asc"] * 4)
        dims = a["dims"]; dm = rng.choice(dims); k = dims.index(dm)
        shape_b = list(a["shape"]); shape_b[k] = rng.randint(1, 3)
        b = new_op(rng, 1, dims=dims, shape=shape_b, cplx=False, kinds=["asc"] * 4, salt=5000)
        b["coords"] = [list(c) for c in a["coords"]]
        last = Fraction(a["coords"][k][-1])
        b["coords"][k] = [str(last + 1 + i) for i in range(shape_b[k])]
        ops = [a, b, {"op": "reorder", "obj": 1, "dims": partial_orders(rng, dims)},
               {"op": "concatenate", "obj": 0, "other": 1, "dim": dm}]
        out.append(ops)
    # concatenate, systematically: 2-D and 3-D receivers, every concatenation dim, EVERY axis order of the operand,
    # with pairwise distinct extents and with equal extents off the axis (where a mis-alignment keeps the shape)
    import itertools as _it
    for nd in (2, 3):
        for equal in (False, True):
            dims = rng.sample(DIM_POOL, nd)
            shape = [3] * nd if equal else distinct_shape(rng, nd, 2, 5)
            for k, dm in enumerate(dims):
                for perm in _it.permutations(dims):
                    a = new_op(rng, 0, dims=dims, shape=shape, cplx=False, kinds=["asc"] * 4)
                    shape_b = list(shape); shape_b[k] = 2
                    b = new_op(rng, 1, dims=dims, shape=shape_b, cplx=False, kinds=["asc"] * 4, salt=5000)
                    b["coords"] = [list(c) for c in a["coords"]]
                    last = Fraction(a["coords"][k][-1])
                    b["coords"][k] = [str(last + 1 + i) for i in range(shape_b[k])]
                    out.append([a, b, {"op": "reorder", "obj": 1, "dims": list(perm)},
                                {"op": "concatenate", "obj": 0, "other": 1, "dim": dm}])
    # concat of objects of DIFFERENT value kinds (real first, complex later, and the other way round): stacking must not
    # cast later objects to the first one's dtype
    for nd in (1, 2, 3):
        for first_cplx in (False, True):
            dims = rng.sample(DIM_POOL, nd)
            shape = distinct_shape(rng, nd, 2, 4)
            a = new_op(rng, 0, dims=dims, shape=shape, cplx=first_cplx)
            b = new_op(rng, 1, dims=dims, shape=shape, cplx=not first_cplx, salt=77)
            b["coords"] = [list(c) for c in a["coords"]]
            c3 = new_op(rng, 2, dims=dims, shape=shape, cplx=True, salt=99)
            c3["coords"] = [list(c) for c in a["coords"]]
            out.append([a, b, c3, {"op": "concat", "objs": [0, 1, 2], "dim": "cc", "coord": None, "out": 3}])
    # split: dim in every position
    for t in range(12 if tier == "quick" else 120):
        nd = rng.randint(1, 3)
        dims = rng.sample(DIM_POOL, nd)
        shape = distinct_shape(rng, nd, 1, 4)
        k = rng.randrange(nd)
        m = rng.choice([2, 3]); shape[k] = m * rng.choice([1, 2, 3])
        a = new_op(rng, 0, dims=dims, shape=shape, cplx=False)
        out.append([a, {"op": "split", "obj": 0, "dim": dims[k], "new": "sp", "coord": [str(i) for i in range(m)]}])
    return out


def run(tier, seed, escalate=False):
    if escalate:
        tier = "thorough"
    ss = streams(tier, seed)
    r = correspond(ss, hooks=[LabelOracle(), ConsistencyOracle()])
    res = finish("C02", r, ss, RULE, clause_prefix=("C02",),
                 nontrivial=lambda ops: len(ops[0]["dims"]) >= 2 and len(ops) >= 2)
    f2, n2 = sort_with_repeated_coordinates(seed)
    res["impl_failures"] += [f for f in f2 if f["key"] not in {g["key"] for g in res["impl_failures"]}]
    res["evaluations"] += n2
    f3, n3 = relabelling_with_shared_axis_arrays(seed)
    res["impl_failures"] += [f for f in f3 if f["key"] not in {g["key"] for g in res["impl_failures"]}]
    res["evaluations"] += n3
    return res


def relabelling_with_shared_axis_arrays(seed):
    """ONE coordinate array handed over for two dimensions of an object (a square grid built from a single vector), or assigned
    to two objects: an in-place relabelling of one dimension (sort, rename, reorder, squeeze of another dim, a written
    coordinate through `update`-style assignment) leaves every other (dimension, coordinate) -> value attachment as it was"""
    import numpy as np, warnings
    from common import dnp
    from oracles import label_dict, dict_close
    fails, n_eval = [], 0
    axis = np.array([3.0, 1.0, 4.0, 2.0])

    def labels(o):
        return label_dict(o)

    acts = {"sort-x": lambda o: o.sort("x"), "sort-y": lambda o: o.sort("y"), "reorder": lambda o: o.reorder(["y"]),
            "rename": lambda o: o.rename("x", "t2"), "sort-then-reorder": lambda o: (o.sort("x"), o.reorder(["y"]))}
    for nm, act in acts.items():
        shared = axis.copy()
        d = dnp.DNPData(np.arange(16.0).reshape(4, 4), ["x", "y"], [shared, shared])
        before = labels(d)
        with warnings.catch_warnings():
            warnings.simplefilter("ignore")
            try:
                act(d)
            except Exception:  # noqa: BLE001
                continue
        n_eval += 1
        after = labels(d)
        if "rename" in nm and after is not None:
            after = {frozenset((("x" if k == "t2" else k), v) for k, v in key): val for key, val in after.items()}
        if before is None or after is None or not dict_close(before, after):
            key = "C02:value-moved-to-other-labels:%s:one-array-for-two-dimensions" % nm
            fails.append({"key": key, "clause": key, "ops": [{"action": nm, "axis": axis.tolist()}]})
    # the same array object as the axis of TWO objects
    shared = axis.copy()
    a = dnp.DNPData(np.arange(8.0).reshape(4, 2), ["x", "k"], [axis.copy(), np.arange(2.0)])
    b = dnp.DNPData(-np.arange(12.0).reshape(4, 3), ["x", "m"], [axis.copy(), np.arange(3.0)])
    a.coords["x"] = shared; b.coords["x"] = shared
    lb = labels(b)
    with warnings.catch_warnings():
        warnings.simplefilter("ignore")
        a.sort("x")
    n_eval += 1
    if not dict_close(lb, labels(b)):
        key = "C02:value-moved-to-other-labels:sort:one-array-for-two-objects"
        fails.append({"key": key, "clause": key, "ops": [{"action": "sort", "axis": axis.tolist()}]})
    # concatenate: an INTEGER-typed axis (np.arange) joined with fractional coordinates — the operand's labels arrive unchanged
    for a_dt, b_coords in ((np.int64, [1.25, 1.75, 2.5]), (np.int32, [2.5, 3.25]), (np.uint8, [1.5, 7.25]), (np.float32, [1.1, 2.2])):
        a = dnp.DNPData(np.arange(4.0).reshape(2, 2), ["x", "k"], [np.arange(2).astype(a_dt), np.arange(2.0)])
        b = dnp.DNPData(10.0 + np.arange(2.0 * len(b_coords)).reshape(len(b_coords), 2), ["x", "k"], [np.array(b_coords), np.arange(2.0)])
        want = {**labels(a), **labels(b)}
        with warnings.catch_warnings():
            warnings.simplefilter("ignore")
            try:
                a.concatenate(b, "x")
            except Exception:  # noqa: BLE001
                continue
        n_eval += 1
        got = labels(a)
        if got is None or not dict_close(want, got):
            key = "C02:value-moved-to-other-labels:concatenate:axis-dtype-%s" % np.dtype(a_dt).name
            fails.append({"key": key, "clause": key, "ops": [{"receiver_axis_dtype": np.dtype(a_dt).name, "operand_coords": b_coords,
                                                              "joined_axis": np.asarray(a.coords["x"]).tolist()}]})
    return fails, n_eval


def sort_with_repeated_coordinates(seed):
    """sort(dim) on an axis whose coordinate holds REPEATED values (two concatenated scans sharing points): labels are not
    unique there, so the clause is stated on slices — the result's coordinate is the sorted input coordinate (same length)
    and the multiset of (coordinate, slice) pairs is unchanged: nothing dropped, nothing duplicated"""
    import numpy as np, warnings
    from common import dnp
    rng = random.Random(seed * 7919 + 202)
    fails, n_eval = [], 0
    for nd in (1, 2, 3):
        for k in range(nd):
            for _ in range(3):
                shape = [rng.randint(2, 4) for _ in range(nd)]
                shape[k] = rng.randint(4, 7)
                c = [float(rng.randint(0, 3)) for _ in range(shape[k])]
                c[rng.randrange(1, shape[k])] = c[0]            # at least one repeated value
                vals = np.arange(1.0, float(np.prod(shape)) + 1).reshape(shape)
                dims = ["d%d" % i for i in range(nd)]
                coords = [np.array(c) if i == k else np.arange(float(s_)) for i, s_ in enumerate(shape)]
                d = dnp.DNPData(vals.copy(), list(dims), [x.copy() for x in coords])
                with warnings.catch_warnings():
                    warnings.simplefilter("ignore")
                    try:
                        d.sort(dims[k])
                    except Exception:  # noqa: BLE001
                        continue
                n_eval += 1
                got_c = np.asarray(d.coords[dims[k]], dtype=float)
                got = np.moveaxis(np.asarray(d.values), list(d.dims).index(dims[k]), 0)
                src = np.moveaxis(vals, k, 0)
                pairs = lambda cc, vv: sorted((float(a), tuple(np.ravel(b).tolist())) for a, b in zip(cc, vv))
                ok = got_c.shape == (shape[k],) and np.array_equal(got_c, np.sort(np.array(c))) and \
                    got.shape == src.shape and pairs(got_c, got) == pairs(c, src)
                if not ok and not fails:
                    key = "C02:elements-dropped-or-duplicated:sort:repeated-coordinates"
                    fails.append({"key": key, "clause": key, "ops": [{"shape": shape, "dim_pos": k, "coord": c}]})
    return fails, n_eval


def replay(rp):
    ops = rp.get("ops") or rp["theorem_or_stream"][0]["ops"]
    r = correspond([ops], hooks=[LabelOracle(), ConsistencyOracle()])
    return {"fails": bool(r["mismatches"] or [f for f in r["findings"] if f["clause"].startswith("C02")]),
            "mismatches": [m["diffs"] for m in r["mismatches"]], "findings": [f["clause"] for f in r["findings"]]}
