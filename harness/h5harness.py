"""C07 / C17: real h5 files written and read by DNPLab vs the Lean persistence model."""
import os, tempfile, shutil, json, warnings, random
from fractions import Fraction
from common import np, dnp, rstr, gstr, run_model
import h5py

DTYPES = {"f8": np.float64, "f4": np.float32, "i8": np.int64, "i4": np.int32, "c16": np.complex128, "c8": np.complex64}
DTNAME = {np.dtype(v).str: k for k, v in DTYPES.items()}


# ------------------------------------------------------------------ protocol values <-> python
def sc_to_py(j):
    t = j["t"]
    if t == "none":
        return None
    if t == "bool":
        return bool(j["v"])
    if t == "str":
        return j["v"]
    f = Fraction(j["v"])
    return int(f) if j.get("int") else float(f)


def pv_to_py(j):
    if j["t"] == "seq":
        xs = [sc_to_py(x) for x in j["v"]]
        return tuple(xs) if j.get("tuple") else xs
    if j["t"] == "big":
        return np.zeros(int(j["n"]))
    if j["t"] == "pyobj":
        # values no HDF5 attribute can hold: a dictionary, a set, an arbitrary object, a function
        return {"dict": {"a": 1}, "set": {1, 2}, "object": object(), "function": len}[j["v"]]
    if j["t"] == "ndarr":
        return np.array([sc_to_py(x) for x in j["v"]])
    return sc_to_py(j)


def py_to_sc(v):
    if v is None:
        return {"t": "none"}
    if isinstance(v, (bool, np.bool_)):
        return {"t": "bool", "v": bool(v)}
    if isinstance(v, (bytes, np.bytes_)):
        return {"t": "bytes", "v": v.decode("utf-8", "replace")}      # a byte string is NOT the string that was saved
    if isinstance(v, (str, np.str_)):
        return {"t": "str", "v": str(v)}
    if isinstance(v, (int, float, np.integer, np.floating)):
        return {"t": "num", "v": rstr(v)}
    return {"t": "str", "v": "<%s>" % type(v).__name__}


def py_to_pv(v):
    """canonical (round-trip) class of a python value: containers are one class"""
    if isinstance(v, np.ndarray):
        return {"t": "seq", "v": [py_to_sc(x) for x in v.reshape(-1).tolist()]} if v.ndim else py_to_sc(v.item())
    if isinstance(v, (list, tuple)):
        return {"t": "seq", "v": [py_to_sc(x) for x in v]}
    return py_to_sc(v)


def strip_flags(j):
    """drop the construction-only flags (int / tuple) before comparing or sending to the model"""
    if isinstance(j, dict):
        return {k: strip_flags(v) for k, v in j.items() if k not in ("int", "tuple", "assembly")}
    if isinstance(j, list):
        return [strip_flags(x) for x in j]
    return j


def build_obj(o):
    vals = np.array([complex(*[float(Fraction(p)) for p in s.split(",")]) if "," in s else float(Fraction(s)) for s in o["data"]])
    dt = DTYPES[o["dtype"]]
    if np.dtype(dt).kind != "c":
        vals = vals.real
    vals = vals.astype(dt).reshape(o["shape"])
    attrs = {k: pv_to_py(v) for k, v in o["attrs"]}
    dattrs = {k: pv_to_py(v) for k, v in o["dattrs"]}
    hist = [(n, {k: pv_to_py(v) for k, v in ps}) for n, ps in o["hist"]]
    coords = [np.array([float(Fraction(x)) for x in c]) for c in o["coords"]]
    how = o.get("assembly", "ctor")
    if how == "ctor":
        return dnp.DNPData(vals, list(o["dims"]), coords, attrs=attrs, dnplab_attrs=dattrs, proc_attrs=hist)
    # the same object reached another way: built with OTHER attributes / history, which are then replaced as a whole through
    # the public setters (directly, or on a copy of the first object)
    d = dnp.DNPData(vals, list(o["dims"]), coords, attrs={"stale_key": "stale", "nmr_frequency": -1.0},
                    dnplab_attrs={"stale_d": 1}, proc_attrs=[("stale_step", {"p": 0})])
    if how == "copy-then-setters":
        d = d.copy()
    d.attrs = attrs
    d.dnplab_attrs = dattrs
    d.proc_attrs = hist
    if how == "copy-after-setters":
        d = d.copy()
    return d


def build_ws(w):
    out = {}
    for k, e in w:
        if e["kind"] == "raw":
            # neither a data object nor a dictionary: a bare array, a list or a number
            out[k] = {"array": np.arange(5.0), "list": [1.0, 2.0], "number": 3.5}[e.get("py", "array")]
        else:
            out[k] = build_obj(e["obj"]) if e["kind"] == "data" else {kk: pv_to_py(v) for kk, v in e["kv"]}
    return out


def canon_loaded_obj(d):
    vals = np.asarray(d.values)
    return {"dtype": DTNAME.get(vals.dtype.str, vals.dtype.str), "shape": list(vals.shape),
            "data": [gstr(x) for x in vals.reshape(-1).tolist()], "dims": list(d.dims),
            "coords": [[rstr(x) for x in np.asarray(c).tolist()] for c in d.coords.coords],
            "attrs": {k: py_to_pv(v) for k, v in d.attrs.items()},
            "dattrs": {k: py_to_pv(v) for k, v in d.dnplab_attrs.items()},
            "hist": [[n, {k: py_to_pv(v) for k, v in ps.items()}] for n, ps in d.proc_attrs]}


def canon_loaded(x):
    if isinstance(x, dnp.DNPData):
        return {"single": canon_loaded_obj(x)}
    out = {}
    for k, v in x.items():
        out[k] = {"kind": "data", "obj": canon_loaded_obj(v)} if isinstance(v, dnp.DNPData) else \
                 {"kind": "dict", "kv": {kk: py_to_pv(vv) for kk, vv in v.items()}}
    return {"ws": out}


def stored(v):
    """canonical form of an attribute as h5py returns it"""
    if isinstance(v, np.ndarray) and v.ndim:
        return {"a": [py_to_sc(x) for x in v.reshape(-1).tolist()]}
    if isinstance(v, np.ndarray):
        v = v.item()
    return {"s": py_to_sc(v)}


def dump_tree(path):
    """the real file, in the shape of the model's tree"""
    out = {}
    with h5py.File(path, "r") as f:
        for key in f.keys():
            g = f[key]
            typ = g.attrs.get("dnplab_data_type")
            if typ == "dnpdata":
                vals = g["values"]
                scales = []
                for i in range(vals.ndim):
                    nm = vals.dims[i].keys()[0]
                    scales.append([nm, [rstr(x) for x in vals.dims[i][nm][:].tolist()]])
                node = {"type": "dnpdata", "dtype": DTNAME.get(vals.dtype.str, vals.dtype.str), "shape": list(vals.shape),
                        "data": [gstr(x) for x in vals[()].reshape(-1).tolist()], "scales": scales,
                        "attrs": {k: stored(v) for k, v in g["attrs"].attrs.items()},
                        "attrs_ds": {k: [py_to_sc(x) for x in g["attrs"][k][()].reshape(-1).tolist()] for k in g["attrs"].keys()},
                        "dattrs": {k: stored(v) for k, v in g["dnplab_attrs"].attrs.items()} if "dnplab_attrs" in g else {},
                        "dattrs_ds": {k: [py_to_sc(x) for x in g["dnplab_attrs"][k][()].reshape(-1).tolist()]
                                      for k in g["dnplab_attrs"].keys()} if "dnplab_attrs" in g else {},
                        "proc": [[k, {kk: stored(vv) for kk, vv in g["proc_attrs"][k].attrs.items()}]
                                 for k in g["proc_attrs"].keys()] if "proc_attrs" in g else []}
            elif typ == "dict":
                node = {"type": "dict", "attrs": {k: stored(v) for k, v in g["attrs"].attrs.items()}}
            else:
                node = {"type": "unknown"}
            out[key] = node
    return out


def num_eq(a, b):
    """structural equality with numbers compared numerically (1 == 1.0) and float32 rounding tolerated"""
    if isinstance(a, dict) and isinstance(b, dict):
        if a.get("t") == "num" and b.get("t") == "num":
            fa, fb = float(Fraction(a["v"])), float(Fraction(b["v"]))
            return fa == fb or abs(fa - fb) <= 1e-6 * max(abs(fa), abs(fb))
        return set(a) == set(b) and all(num_eq(a[k], b[k]) for k in a)
    if isinstance(a, list) and isinstance(b, list):
        return len(a) == len(b) and all(num_eq(x, y) for x, y in zip(a, b))
    if isinstance(a, str) and isinstance(b, str) and a != b:
        try:
            from common import vals_close
            return vals_close([a], [b], rtol=1e-6)
        except Exception:
            return False
    return a == b


# ------------------------------------------------------------------ generators
KEYS = ["nmr_frequency", "name", "a b", "ünï", "k1", "k2", "list", "tup", "flag", "nothing", "arr"]


def rand_sc(rng, kinds=("num", "int", "str", "bool", "none")):
    k = rng.choice(kinds)
    if k == "num":
        return {"t": "num", "v": str(Fraction(rng.randint(-999, 999), rng.choice([1, 2, 4, 8])))}
    if k == "int":
        return {"t": "num", "v": str(rng.randint(-10 ** 6, 10 ** 6)), "int": True}
    if k == "str":
        return {"t": "str", "v": rng.choice(["", "abc", "with space", "µs", "1D", "__x__", "a:b"])}
    if k == "bool":
        return {"t": "bool", "v": rng.random() < 0.5}
    return {"t": "none"}


def rand_pv(rng, allow_none=True, allow_ndarr=True):
    c = rng.random()
    kinds = ("num", "int", "str", "bool") + (("none",) if allow_none else ())
    if c < 0.55:
        return rand_sc(rng, kinds)
    ek = rng.choice(["num", "int", "str"])
    xs = [rand_sc(rng, (ek,)) for _ in range(rng.randint(1, 4))]
    if c < 0.8 or not allow_ndarr or ek == "str":
        return dict({"t": "seq", "v": xs}, **({"tuple": True} if rng.random() < 0.5 else {}))
    return {"t": "ndarr", "v": xs}


def rand_kv(rng, n, **kw):
    ks = rng.sample(KEYS, min(n, len(KEYS)))
    return [[k, rand_pv(rng, **kw)] for k in ks]


def rand_obj(rng, nd=None, hist=None, dtype=None):
    nd = nd or rng.randint(1, 4)
    shape = [rng.randint(1, 3) for _ in range(nd)]
    dtype = dtype or rng.choice(list(DTYPES))
    n = int(np.prod(shape))
    cplx = dtype.startswith("c")
    data = [("%d,%d" % (rng.randint(-9, 9), rng.randint(-9, 9))) if cplx else
            (str(rng.randint(-99, 99)) if dtype.startswith("i") else str(Fraction(rng.randint(-99, 99), rng.choice([1, 2, 4]))))
            for _ in range(n)]
    names = rng.sample(["t2", "f 2", "Average", "x", "ünï", "B0", "t10", "Power", "a.b"], nd)
    hist = rng.randint(0, 5) if hist is None else hist
    return {"dtype": dtype, "shape": shape, "data": data, "dims": names,
            "coords": [[str(Fraction(k, 2) + rng.randint(-2, 2)) for k in range(s)] for s in shape],
            "attrs": rand_kv(rng, rng.randint(0, 5)), "dattrs": rand_kv(rng, rng.randint(0, 3), allow_ndarr=True),
            "hist": [[rng.choice(["fourier_transform", "window", "integrate", "a:b", "numpy.sum"]),
                      rand_kv(rng, rng.randint(0, 3), allow_ndarr=False)] for _ in range(hist)]}


def rand_ws(rng):
    keys = rng.sample(["raw", "proc", "__DNPDATA__", "ws 2", "consts", "other"], rng.randint(1, 4))
    out = []
    for k in keys:
        if rng.random() < 0.7:
            out.append([k, {"kind": "data", "obj": rand_obj(rng, nd=rng.randint(1, 2), hist=rng.randint(0, 2))}])
        else:
            out.append([k, {"kind": "dict", "kv": rand_kv(rng, rng.choice([0, 1, 2, 4]), allow_none=False, allow_ndarr=True)}])   # also {}
    return out


# ------------------------------------------------------------------ one case through the real code
def impl_case(case, workdir):
    """returns dict(raised, tree, loaded, prev_state) observed on the real code"""
    path = os.path.join(workdir, "dest.h5")
    for p in (path, path + ".tmp~"):
        if os.path.exists(p):
            os.remove(p)
    # the SAME destination named in another way (the property speaks of the file, not of the spelling of its name)
    form = case.get("pathform", "plain")
    given = {"plain": path, "trailing-sep": path + os.sep, "dot-segment": os.path.join(workdir, ".", "dest.h5"),
             "double-sep": workdir + os.sep + os.sep + "dest.h5",
             "parent-segment": os.path.join(workdir, "sub", "..", "dest.h5")}[form]
    if form == "parent-segment":
        os.makedirs(os.path.join(workdir, "sub"), exist_ok=True)
    prev_loaded = None
    with warnings.catch_warnings():
        warnings.simplefilter("ignore")
        prev_bytes = None
        if case.get("prev") is not None and "other" in case["prev"]:
            # an existing file that is not an HDF5 file: text, or an empty stub
            prev_bytes = b"" if case["prev"]["other"] == 2 else b"this is not an hdf5 file\n" * 12
            with open(path, "wb") as fh:
                fh.write(prev_bytes)
        elif case.get("prev") is not None:
            pv = case["prev"]
            dnp.save(build_obj(pv["single"]) if "single" in pv else build_ws(pv["ws"]), path, overwrite=True)
            try:
                prev_loaded = canon_loaded(dnp.load(path))
            except Exception:  # noqa: BLE001
                prev_loaded = {"unloadable": True}
        obj = build_obj(case["single"]) if "single" in case else build_ws(case["ws"])
        raised = None
        try:
            # the ways a caller states the overwrite option: keyword, positional (after save_type), or — for "no" — not at all
            ow, form = bool(case.get("overwrite")), case.get("owform", "kw")
            if form == "omitted" and not ow:
                dnp.save(obj, given)
            elif form == "positional":
                dnp.save(obj, given, None, ow)
            elif form == "kw-int":
                dnp.save(obj, given, overwrite=int(ow))                # 0 / 1
            elif form == "kw-npbool":
                dnp.save(obj, given, overwrite=np.bool_(ow))           # the result of a NumPy comparison
            elif form == "kw-none" and not ow:
                dnp.save(obj, given, overwrite=None)
            elif form in ("direct-omitted", "direct-kw", "direct-positional"):
                # the h5 writer itself (dnplab.io.h5.save_h5 is public): same guard, same default
                from dnplab.io.h5 import save_h5 as _save_h5
                ws_ = obj if isinstance(obj, dict) else {"__DNPDATA__": obj}
                if form == "direct-omitted" and not ow:
                    _save_h5(ws_, given)
                elif form == "direct-positional":
                    _save_h5(ws_, given, ow)
                else:
                    _save_h5(ws_, given, overwrite=ow)
            else:
                dnp.save(obj, given, overwrite=ow)
        except BaseException as e:  # noqa: BLE001  (save raises Warning, a BaseException subclass of Exception)
            raised = type(e).__name__
        state = {"raised": raised is not None, "exists": os.path.exists(path), "tree": None, "loaded": None,
                 "loads": False, "prev_loaded": prev_loaded,
                 "leftover_tmp": any(n != "dest.h5" and n != "sub" for n in os.listdir(workdir)),
                 "bytes_same": (prev_bytes is not None and os.path.exists(path) and open(path, "rb").read() == prev_bytes)}
        if state["exists"]:
            try:
                state["loaded"] = canon_loaded(dnp.load(path))
                state["loads"] = True
                state["tree"] = dump_tree(path)
            except Exception as e:  # noqa: BLE001
                state["load_error"] = type(e).__name__
    return state


def model_cases(cases):
    ops = [dict(strip_flags(c), op="h5", **({"overwrite": True} if c.get("overwrite") else {})) for c in cases]
    for o in ops:
        if not o.get("overwrite"):
            o.pop("overwrite", None)
    outs, _ = run_model(ops)
    return outs
