"""Generators for the processing layer.  The transcendental / external numerics a step needs
(window values, phase factors, DFT twiddles, Savitzky-Golay outputs, ...) are computed HERE by
calling the library routine on the 1-D trace or coordinate directly, and shipped to the Lean model
as tables; the model then places them by its own index logic."""
import itertools, math
from fractions import Fraction
import numpy as np
from common import dnp, rstr, gstr
from gen import *


def values_array(op):
    from implstore import to_arr
    return to_arr(op["values"], op["shape"])


def traces_of(op, dim):
    """the 1-D traces along `dim`, in the column order unfold(dim) produces"""
    a = values_array(op)
    k = op["dims"].index(dim)
    m = np.moveaxis(a, k, 0).reshape(a.shape[k], -1)
    return [m[:, j] for j in range(m.shape[1])]


def coord_of(op, dim):
    return np.array([float(Fraction(x)) for x in op["coords"][op["dims"].index(dim)]])


def glist(arr):
    return [gstr(x) for x in np.asarray(arr).tolist()]


def uniform_new(rng, oid, dims, shape, dim, x0=Fraction(0), dt=Fraction(1, 4), cplx=False, attrs=None, dattrs=None,
                hist=0, rand_values=False):
    """object whose `dim` axis is uniform (x0 + k dt); other axes arbitrary"""
    op = new_op(rng, oid, dims=dims, shape=shape, cplx=cplx, hist=hist)
    k = dims.index(dim)
    op["coords"][k] = [str(x0 + dt * i) for i in range(shape[k])]
    if rand_values:
        n = 1
        for s in shape:
            n *= s
        op["values"] = [("%d,%d" % (rng.randint(-9, 9), rng.randint(-9, 9))) if cplx else str(Fraction(rng.randint(-40, 40), rng.choice([1, 2, 4])))
                        for _ in range(n)]
    if attrs is not None:
        op["attrs"] = attrs
    if dattrs is not None:
        op["dattrs"] = dattrs
    return op


def shapes_with_dim_everywhere(rng, nd_choices=(1, 2, 3), n_dim=None, lo=2, hi=5, repeats=True):
    """(dims, shape, dim) with the processed dimension in every position; pairwise distinct extents and,
    with repeats, also shapes in which another axis has the SAME extent as the processed one"""
    out = []
    if repeats:
        for nd in nd_choices:
            if nd < 2:
                continue
            for pos in range(nd):
                dims = rng.sample(DIM_POOL, nd)
                n = rng.randint(max(lo, 3), hi)
                shape = [n] * nd
                if nd == 3:
                    other = rng.choice([j for j in range(nd) if j != pos])
                    shape[other] = rng.choice([e for e in range(lo, hi + 1) if e != n])
                out.append((dims, shape, dims[pos]))
    for nd in nd_choices:
        for pos in range(nd):
            dims = rng.sample(DIM_POOL, nd)
            shape = distinct_shape(rng, nd, lo, hi)
            if n_dim is not None:
                others = [e for e in range(1, 7) if e != n_dim]
                shape = rng.sample(others, nd)
                shape[pos] = n_dim
            out.append((dims, shape, dims[pos]))
    return out


# ------------------------------------------------------------------------------- single steps
def op_integrate(a, dim, regions=None, bare=False, out=1):
    kw = {"dim": dim}
    if regions is not None:
        kw["regions"] = [[str(x), str(y)] for x, y in regions]
        if bare:
            kw["bare_pair"] = bare if isinstance(bare, str) else "tuple"     # container of the bare pair (ImplStore only)
    return {"op": "proc", "f": "integrate", "obj": a["id"], "out": out, "kw": kw}


def op_simple(f, a, out=1, **kw):
    return {"op": "proc", "f": f, "obj": a["id"], "out": out, "kw": kw}


WINDOW_KINDS = None


def window_kinds():
    global WINDOW_KINDS
    if WINDOW_KINDS is None:
        from dnplab.processing import apodization
        WINDOW_KINDS = sorted(apodization._windows.keys())
    return WINDOW_KINDS


def op_apodize(a, dim, kind, kwargs, out=1):
    from dnplab.math import window as W
    c = coord_of(a, dim)
    try:
        with np.errstate(all="ignore"):
            w = getattr(W, str(kind).lower())(c, **{k: float(Fraction(v)) for k, v in kwargs.items()})
        if not np.all(np.isfinite(w)):
            return None     # overflow / 0/0 in the window itself: outside the exact model
        w = glist(w)
    except Exception:
        w = []
    return {"op": "proc", "f": "apodize", "obj": a["id"], "out": out,
            "kw": {"dim": dim, "kind": kind, "kwargs": kwargs, "kwkeys": sorted(["kind"] + list(kwargs.keys())), "w": w,
                   "valid": window_kinds()}}


def op_phase(a, dim, p0, p1, out=1):
    """p0, p1: Fraction or list of Fractions (one per trace)"""
    n = a["shape"][a["dims"].index(dim)]
    m = 1
    for d, s in zip(a["dims"], a["shape"]):
        if d != dim:
            m *= s
    p0l = [p0] * m if not isinstance(p0, list) else p0
    p1l = [p1] * m if not isinstance(p1, list) else p1
    cis = []
    for j in range(m):
        ang = [math.radians(float(p0l[j]) + float(p1l[j]) * k / n) for k in range(n)]
        cis.append([gstr(complex(math.cos(t), math.sin(t))) for t in ang])
    kw = {"dim": dim, "p0": [str(x) for x in p0] if isinstance(p0, list) else str(p0),
          "p1": [str(x) for x in p1] if isinstance(p1, list) else str(p1), "cis": cis}
    return {"op": "proc", "f": "phase", "obj": a["id"], "out": out, "kw": kw}


def op_autophase(a, dim, out=1):
    """autophase without a reference slice: the entropy minimiser (dnplab's own `_autophase`, external numerics) is run HERE
    per trace; its angles go through the normalisation of `phase` (degrees, sign * (|p| mod 360)) into the factor table"""
    from common import parse_g
    from dnplab.processing.phase import _autophase
    k = a["dims"].index(dim)
    n = a["shape"][k]
    vals = np.array([parse_g(v) for v in a["values"]]).reshape(a["shape"])
    cols = np.moveaxis(vals, k, 0).reshape(n, -1)
    coord = np.array(coord_of(a, dim), dtype=float)
    cis = []
    import warnings as _w
    for j in range(cols.shape[1]):
        with _w.catch_warnings():
            _w.simplefilter("ignore")
            ph0, ph1 = _autophase(cols[:, j].copy(), coord, dim, 1, 5e-3)
        p0, p1 = ph0 / math.pi * 180.0, ph1 / math.pi * 180.0
        wrap = lambda p: math.copysign(math.fmod(abs(p), 360.0), p) if p != 0 else 0.0
        r0, r1 = math.radians(wrap(p0)), math.radians(wrap(p1))
        cis.append([gstr(complex(np.exp(1j * (r0 + r1 * i / n)))) for i in range(n)])
    return {"op": "proc", "f": "autophase", "obj": a["id"], "out": out, "kw": {"dim": dim, "cis": cis}}


def op_ft(a, dim, zff=1, shift=True, convert=False, inverse=False, ppm=None, out=1, n_in=None, style=None):
    n_in = n_in or a["shape"][a["dims"].index(dim)]
    n = max(1, zff) * n_in
    sign = 1 if inverse else -1
    tw = [gstr(complex(math.cos(2 * math.pi * m / n), sign * math.sin(2 * math.pi * m / n))) for m in range(n)]
    kw = {"dim": dim, "zff": zff, "tw": tw}
    if shift:
        kw["shift"] = True
    if convert:
        kw["convert"] = True
    if ppm is not None:
        kw["ppm"] = str(ppm)
    if style:
        kw["flag_style"] = style      # how the implementation receives its boolean flags (read by ImplStore only)
    return {"op": "proc", "f": "inverse_fourier_transform" if inverse else "fourier_transform", "obj": a["id"], "out": out, "kw": kw}


def op_trace_local(a, dim, func, params, fn, histname, keys, n_out=None, new_coord=None, out=1):
    """fn: 1-D numpy trace -> 1-D numpy output (the library routine applied directly)"""
    table = []
    for tr in traces_of(a, dim):
        try:
            table.append([glist(tr), glist(fn(tr))])
        except Exception:
            table.append([glist(tr), []])
    n = a["shape"][a["dims"].index(dim)]
    kw = dict(params, dim=dim, func=func, table=table, n_out=n if n_out is None else n_out, histname=histname, keys=keys)
    if new_coord is not None:
        kw["new_coord"] = [str(x) for x in new_coord]
    return {"op": "proc", "f": "trace_local", "obj": a["id"], "out": out, "kw": kw}
