"""Shared machinery of the correspondence check: canonical forms, the real-code store,
the Lean driver pipe, and the comparison.  Runs under /venv/bin/python with PYTHONPATH=/repo."""
import json, os, subprocess, sys, warnings, math, time, hashlib
from fractions import Fraction

VERIF = os.path.dirname(os.path.dirname(os.path.abspath(__file__)))
REPO = os.environ.get("VERIF_REPO", "/repo")
LEAN_DIR = os.path.join(VERIF, "lean")

os.environ.setdefault("MPLBACKEND", "Agg")
if REPO not in sys.path:
    sys.path.insert(0, REPO)
warnings.filterwarnings("ignore", category=SyntaxWarning)
import numpy as np  # noqa: E402
import dnplab as dnp  # noqa: E402

np.seterr(all="ignore")        # overflow / invalid in deliberately extreme parameter ranges is classified, not printed
warnings.filterwarnings("ignore", category=RuntimeWarning)

assert os.path.abspath(dnp.__file__).startswith(os.path.abspath(REPO) + os.sep), dnp.__file__


# ----------------------------------------------------------------------------- rationals
def frac(x):
    """exact rational of a Python/NumPy real scalar"""
    if isinstance(x, Fraction):
        return x
    if isinstance(x, (bool, np.bool_)):
        return Fraction(int(x))
    if isinstance(x, (int, np.integer)):
        return Fraction(int(x))
    return Fraction(float(x))


def rstr(x):
    try:
        return str(frac(x))
    except (OverflowError, ValueError):
        return "nonfinite"     # inf / nan: outside the exact model (division by zero, overflow)


def gstr(z):
    """canonical string of a real or complex scalar (exact)"""
    if isinstance(z, (complex, np.complexfloating)):
        if z.imag == 0:
            return rstr(z.real)
        return rstr(z.real) + "," + rstr(z.imag)
    return rstr(z)


def parse_r(s):
    return Fraction(s)


def parse_g(s):
    if "," in s:
        a, b = s.split(",")
        return complex(float(Fraction(a)), float(Fraction(b)))
    return complex(float(Fraction(s)), 0.0)


def canon_val(v):
    """canonical string of an attribute / parameter value"""
    if v is None:
        return "None"
    if isinstance(v, (bool, np.bool_)):
        return "True" if v else "False"
    if isinstance(v, str):
        return "'" + v + "'"
    if isinstance(v, (int, float, np.integer, np.floating)):
        if isinstance(v, (float, np.floating)) and not math.isfinite(v):
            return repr(float(v))
        return rstr(v)
    if isinstance(v, (complex, np.complexfloating)):
        return gstr(v)
    if isinstance(v, np.ndarray):
        return "[" + ",".join(canon_val(x) for x in v.tolist()) + "]"
    if isinstance(v, (list, tuple)):
        return "[" + ",".join(canon_val(x) for x in v) + "]"
    if isinstance(v, dict):
        return "{" + ",".join(k + ":" + canon_val(v[k]) for k in sorted(v)) + "}"
    return "<" + type(v).__name__ + ">"


EXC = [
    (getattr(np, "exceptions", np).AxisError, "index"),
    (IndexError, "index"),
    (KeyError, "key"),
    (ValueError, "value"),
    (TypeError, "type"),
    (OSError, "io"),
]


def exc_class(e):
    for cls, name in EXC:
        if isinstance(e, cls):
            return name
    return "other"


def canon_obj(d):
    """canonical JSON-able form of a real DNPData object"""
    vals = np.asarray(d.values)
    flat = vals.reshape(-1).tolist() if vals.size else []
    hist = []
    for ent in getattr(d, "proc_attrs", []) or []:
        try:
            name, params = ent
            hist.append([str(name), sorted(str(k) for k in params.keys())])
        except Exception:
            hist.append(["<malformed>", []])
    return {
        "dims": list(d.dims),
        "coords": [[rstr(x) for x in np.asarray(c).reshape(-1).tolist()] for c in d.coords.coords],
        "shape": list(vals.shape),
        "values": [gstr(x) for x in flat],
        "attrs": {str(k): canon_val(v) for k, v in d.attrs.items()},
        "dattrs": {str(k): canon_val(v) for k, v in getattr(d, "dnplab_attrs", {}).items()},
        "hist": hist,
        "folded": bool(d._is_folded),
    }


def consistent(d):
    """property C01's definition, evaluated directly on a real object"""
    dims = list(d.dims)
    if not all(isinstance(x, str) for x in dims) or len(set(dims)) != len(dims):
        return False
    coords = d.coords.coords
    if len(coords) != len(dims) or len(dims) != np.asarray(d.values).ndim:
        return False
    for c, n in zip(coords, np.asarray(d.values).shape):
        c = np.asarray(c)
        if c.ndim != 1 or len(c) != n:
            return False
    return True


# ----------------------------------------------------------------------------- comparison
def vals_close(model_vals, impl_vals, rtol=1e-9, atol=1e-12):
    if len(model_vals) != len(impl_vals):
        return False
    for m, i in zip(model_vals, impl_vals):
        if m == i:
            continue
        try:
            a, b = parse_g(m), parse_g(i)
        except Exception:
            return False
        if abs(a - b) > atol + rtol * max(abs(a), abs(b)):
            return False
    return True


def coords_close(mc, ic):
    """coordinate lists: exact where possible, else to 1e-9 of the scale of the axis (the model is exact over the
    rationals, the implementation rounds to double)"""
    if mc == ic:
        return True
    if mc is None or ic is None or len(mc) != len(ic):
        return False
    for a, b in zip(mc, ic):
        if len(a) != len(b):
            return False
        try:
            fa, fb = [float(Fraction(x)) for x in a], [float(Fraction(y)) for y in b]
        except Exception:
            return False
        # rounding is relative to the scale of the AXIS (start + k*step leaves ~1e-16 * |start| at a point near zero)
        scale = max([1.0] + [abs(v) for v in fa] + [abs(v) for v in fb])
        for x, y, fx, fy in zip(a, b, fa, fb):
            if x == y:
                continue
            if abs(fx - fy) > 1e-9 * scale:
                return False
    return True


def diff_obj(m, i):
    """list of field names in which the model object and the implementation object differ"""
    out = []
    for k in ("dims", "shape", "attrs", "dattrs", "hist", "folded"):
        if m.get(k) != i.get(k):
            out.append(k)
    if not coords_close(m.get("coords"), i.get("coords")):
        out.append("coords")
    if not vals_close(m.get("values", []), i.get("values", [])):
        out.append("values")
    return out


def diff_line(m, i):
    """compare one model output line with one implementation output line"""
    diffs = []
    if m.get("outcome") != i.get("outcome"):
        diffs.append("outcome:%s!=%s" % (m.get("outcome"), i.get("outcome")))
    if ("ret" in m) != ("ret" in i):
        diffs.append("ret-presence")
    elif "ret" in m and not vals_close([m["ret"]], [i["ret"]]):
        diffs.append("ret")
    ms, is_ = m.get("store", {}), i.get("store", {})
    if set(ms) != set(is_):
        diffs.append("store-keys:%s!=%s" % (sorted(ms), sorted(is_)))
    for k in sorted(set(ms) & set(is_)):
        for f in diff_obj(ms[k], is_[k]):
            diffs.append("o%s.%s" % (k, f))
    return diffs


# ----------------------------------------------------------------------------- the Lean driver
_DRIVER_READY = False


def run_model(lines, timeout=900):
    """pipe JSON lines through the Lean driver, return parsed output lines"""
    payload = "\n".join(json.dumps(l) for l in lines) + "\n"
    t0 = time.time()
    p = subprocess.run(
        ["lake", "env", "lean", "--run", "Driver.lean"],
        cwd=LEAN_DIR, input=payload, capture_output=True, text=True, timeout=timeout,
    )
    outs = []
    for ln in p.stdout.splitlines():
        ln = ln.strip()
        if ln.startswith("{"):
            outs.append(json.loads(ln))
    if len(outs) != len(lines):
        raise RuntimeError(
            "driver produced %d lines for %d ops (rc=%s): %s"
            % (len(outs), len(lines), p.returncode, (p.stderr or p.stdout)[-2000:])
        )
    return outs, time.time() - t0


def stable_hash(obj):
    return hashlib.sha256(json.dumps(obj, sort_keys=True).encode()).hexdigest()[:16]
