"""Shared driver for C06 (intact files) and C19 (damaged files)."""
import os, tempfile, shutil, warnings, io, contextlib, random, json
import numpy as np
from common import dnp, run_model, consistent
from formats import KITS, points_bytes, np_dtype, rand_scalars, logical_shape, DATA
from oracles import label_dict, dict_close


def make_case(kit, rng, cfg=None):
    c = kit.draw(rng) if cfg is None else cfg
    L = kit.layout(c)
    kind, width, big, cplx = kit.sample(c)
    shape = logical_shape(L)
    n = int(np.prod(shape)) if shape else 1
    raw = rand_scalars(rng, n * (2 if cplx else 1), kind, width).reshape(shape + ([2] if cplx else [1]))
    dt = np_dtype(kind, width, big)
    pts = points_bytes(raw, cplx, dt)
    return {"kit": kit.name, "cfg": c, "L": L, "raw": raw, "points": pts, "shape": shape}


def encode_all(cases):
    ops = [{"op": "layout", "q": "encode", "L": c["L"], "shape": c["shape"], "points": c["points"], "fill": 0} for c in cases]
    outs, _ = run_model(ops)
    for c, o in zip(cases, outs):
        c["bytes"] = o.get("bytes"); c["total"] = o.get("total"); c["model_outcome"] = o.get("outcome")
    return cases


def do_import(kit, path):
    w_incons = False
    with warnings.catch_warnings(record=True) as ws, contextlib.redirect_stdout(io.StringIO()):
        warnings.simplefilter("always")
        try:
            d = dnp.load(path, data_format=kit.fmt)
            err = None
        except BaseException as e:  # noqa: BLE001
            d, err = None, type(e).__name__
        for w in ws:
            if "not consistent" in str(w.message) or "Check Failed" in str(w.message):
                w_incons = True
    return d, err, w_incons


def intact_check(case, work):
    """write, import with the real importer, compare with the array the encoder was given"""
    kit = KITS[case["kit"]]
    d0 = tempfile.mkdtemp(dir=work)
    path = kit.write(case["cfg"], d0, case["bytes"])
    case["path"], case["dir"] = path, d0
    d, err, winc = do_import(kit, path)
    if err is not None:
        return ["import-raises:" + err]
    want, dims, coords = kit.expect(case["cfg"], case["raw"][..., 0:2] if case["raw"].shape[-1] == 2 else case["raw"][..., 0])
    diffs = []
    got = np.asarray(d.values)
    if got.shape != want.shape:
        diffs.append("shape:%s!=%s" % (got.shape, want.shape))
    elif not np.array_equal(got, want):
        diffs.append("values")
    if dims is not None and list(d.dims) != dims:
        diffs.append("dims:%s!=%s" % (list(d.dims), dims))
    if coords is not None and len(coords) == len(d.coords.coords):
        for k, (a, b) in enumerate(zip(d.coords.coords, coords)):
            if np.asarray(a).shape != np.asarray(b).shape or not np.allclose(a, b, rtol=1e-12, atol=0):
                diffs.append("coord%d" % k)
    if winc or not consistent(d):
        diffs.append("inconsistent")
    case["intact"] = d
    return diffs
