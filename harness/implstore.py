"""Runs the protocol's operations on the real DNPLab code, in-process."""
import warnings, operator, copy, contextlib, io
from fractions import Fraction
from common import np, dnp, frac, gstr, canon_obj, exc_class, parse_g, consistent


def to_float(s):
    return float(Fraction(s))


def to_val(s):
    """protocol scalar -> Python number (float or complex)"""
    if "," in s:
        a, b = s.split(",")
        return complex(to_float(a), to_float(b))
    return to_float(s)


def to_arr(strs, shape):
    vals = [to_val(s) for s in strs]
    if any(isinstance(v, complex) for v in vals):
        return np.array(vals, dtype=complex).reshape(shape)
    return np.array(vals, dtype=float).reshape(shape)


def to_attr(s):
    """canonical attr string -> Python value (only what the generators produce)"""
    if s == "None":
        return None
    if s in ("True", "False"):
        return s == "True"
    if s.startswith("'"):
        return s[1:-1]
    if s.startswith("["):
        inner = s[1:-1]
        return [to_attr(x) for x in inner.split(",")] if inner else []
    f = Fraction(s)
    return int(f) if f.denominator == 1 else float(f)


def to_sel(j):
    if "int" in j:
        return int(j["int"])
    if "flt" in j:
        return to_float(j["flt"])
    if "tup1" in j:
        return (to_float(j["tup1"]),)
    if "range" in j:
        return (to_float(j["range"][0]), to_float(j["range"][1]))
    if "slice" in j:
        return slice(*j["slice"])
    raise ValueError("bad selector")


BIN = {
    "add": operator.add, "sub": operator.sub, "mul": operator.mul, "truediv": operator.truediv,
}
NPBIN = {"add": np.add, "subtract": np.subtract, "multiply": np.multiply, "divide": np.divide,
         "true_divide": np.true_divide}
NPUN = {
    "negative": np.negative, "conj": np.conj, "conjugate": np.conjugate, "square": np.square,
    "positive": np.positive, "reciprocal": np.reciprocal,
}
NPRED = {
    "sum": np.sum, "mean": np.mean, "max": np.max, "amax": np.amax, "min": np.min, "amin": np.amin,
    "prod": np.prod, "var": np.var, "median": np.median, "ptp": np.ptp, "any": np.any, "all": np.all,
    "std": np.std,
}


class _ArgList(list):
    """the plain arrays handed to a call, each remembered as it was when handed over"""
    def __init__(self):
        super().__init__()
        self.before = []

    def append(self, arr):
        super().append(arr)
        self.before.append(np.array(arr, copy=True))

    def __iadd__(self, arrs):
        for a in arrs:
            self.append(a)
        return self

    def modified(self):
        return any(a.shape != b.shape or not np.array_equal(a, b, equal_nan=True) for a, b in zip(self, self.before))


class ImplStore:
    def __init__(self):
        self.objs = {}
        self.hooks = []  # callables(op, store, outcome) run after every op (oracles)
        self.warned_inconsistent = False

    def snapshot(self):
        return {str(k): canon_obj(v) for k, v in sorted(self.objs.items())}

    def apply(self, op):
        """returns the output line (same shape as the driver's)"""
        ret = None
        outcome = "ok"
        self.warned_inconsistent = False
        self.last_args = _ArgList()      # plain arrays handed to the call (checked for aliasing / modification)
        with warnings.catch_warnings(record=True) as w:
            warnings.simplefilter("always")
            try:
                with contextlib.redirect_stdout(io.StringIO()):
                    ret = self._apply(op)
            except Exception as e:  # noqa: BLE001
                outcome = "raise:" + exc_class(e)
                self.last_exc = e
            for x in w:
                if "not consistent" in str(x.message):
                    self.warned_inconsistent = True
        line = {"outcome": outcome, "store": self.snapshot()}
        if ret is not None:
            line["ret"] = ret
        return line

    def _apply(self, j):
        op = j["op"]
        O = self.objs
        if op == "new":
            kw = {}
            if j.get("attrs") is not None:
                kw["attrs"] = {k: to_attr(v) for k, v in j["attrs"].items()}
            if j.get("dattrs") is not None:
                kw["dnplab_attrs"] = {k: to_attr(v) for k, v in j["dattrs"].items()}
            if j.get("hist") is not None:
                kw["proc_attrs"] = [(n, {k: 0 for k in ks}) for n, ks in j["hist"]]
            O[j["id"]] = dnp.DNPData(
                to_arr(j["values"], j["shape"]), list(j["dims"]),
                [np.array([to_float(x) for x in c]) for c in j["coords"]], **kw)
            return None
        if op == "copy":
            O[j["out"]] = O[j["obj"]].copy(); return None
        if op == "reorder":
            O[j["obj"]].reorder(list(j["dims"])); return None
        if op == "sort_dims":
            O[j["obj"]].sort_dims(); return None
        if op == "rename":
            O[j["obj"]].rename(j["dim"], j["new"]); return None
        if op == "sort":
            O[j["obj"]].sort(j["dim"]); return None
        if op == "new_dim":
            O[j["obj"]].new_dim(j["dim"], to_float(j["coord"])); return None
        if op == "squeeze":
            O[j["obj"]].squeeze(); return None
        if op == "split":
            O[j["obj"]].split(j["dim"], j["new"], np.array([to_float(x) for x in j["coord"]])); return None
        if op == "concatenate":
            O[j["obj"]].concatenate(O[j["other"]], j["dim"]); return None
        if op == "unfold":
            O[j["obj"]].unfold(j["dim"]); return None
        if op == "fold":
            O[j["obj"]].fold(); return None
        if op == "getitem":
            args = []
            for d, s in j["sel"]:
                args += [d, to_sel(s)]
            O[j["out"]] = O[j["obj"]][tuple(args)]; return None
        if op == "setitem":
            args = []
            for d, s in j["sel"]:
                args += [d, to_sel(s)]
            O[j["obj"]][tuple(args)] = to_val(j["value"]); return None
        if op == "binop":
            O[j["out"]] = BIN[j["f"]](O[j["lhs"]], O[j["rhs"]]); return None
        if op == "scalarop":
            c = to_val(j["scalar"])
            f = BIN[j["f"]]
            O[j["out"]] = f(c, O[j["obj"]]) if j.get("refl") else f(O[j["obj"]], c); return None
        if op == "arrayop":
            arr = to_arr(j["values"], j["shape"])
            self.last_args.append(arr)
            f = BIN[j["f"]]
            O[j["out"]] = f(arr, O[j["obj"]]) if j.get("refl") else f(O[j["obj"]], arr); return None
        if op == "method":
            O[j["out"]] = getattr(O[j["obj"]], j["f"])(j["dim"]); return None
        if op == "np_reduce":
            f = NPRED[j["f"]]
            ax = j.get("axis")
            if isinstance(ax, list):
                ax = tuple(ax)
            r = f(O[j["obj"]]) if ax is None else f(O[j["obj"]], axis=ax)
            if isinstance(r, dnp.DNPData):
                O[j["out"]] = r; return None
            return gstr(np.asarray(r).reshape(-1)[0].item() if np.asarray(r).size == 1 else None)
        if op == "np_unary":
            O[j["out"]] = NPUN[j["f"]](O[j["obj"]]); return None
        if op == "np_binary":
            O[j["out"]] = NPBIN[j["f"]](O[j["lhs"]], O[j["rhs"]]); return None
        if op == "np_scalar":
            c = to_val(j["scalar"])
            f = NPBIN[j["f"]]
            O[j["out"]] = f(c, O[j["obj"]]) if j.get("refl") else f(O[j["obj"]], c); return None
        if op == "concat":
            coord = None if j.get("coord") is None else np.array([to_float(x) for x in j["coord"]])
            if coord is not None:
                self.last_args.append(coord)
            O[j["out"]] = dnp.concat([O[i] for i in j["objs"]], j["dim"], coord); return None
        if op == "proc":
            O[j["out"]] = self._proc(j["f"], O[j["obj"]], j["kw"]); return None
        if op == "set_attr":
            O[j["obj"]].attrs[j["key"]] = to_attr(j["value"]); return None
        if op == "set_dattr":
            O[j["obj"]].dnplab_attrs[j["key"]] = to_attr(j["value"]); return None
        if op == "add_hist":
            O[j["obj"]].add_proc_attrs(j["name"], {k: 0 for k in j["keys"]}); return None
        if op == "set_value":
            v = O[j["obj"]].values
            v[np.unravel_index(j["flat"], v.shape)] = to_val(j["value"]); return None
        if op == "set_coord":
            O[j["obj"]].coords[j["dim"]][j["k"]] = to_float(j["value"]); return None
        if op == "del":
            O.pop(j["obj"], None); return None
        if op == "reset":
            O.clear(); return None
        raise RuntimeError("harness: unknown op " + op)


    # ------------------------------------------------------------------ processing functions
    def _proc(self, f, d, kw):
        if f == "integrate":
            regs = kw.get("regions")
            if regs is not None:
                regs = [(to_float(a), to_float(b)) for a, b in regs]
                if kw.get("bare_pair"):
                    # one bare (lo, hi) pair, in any of the containers a caller may write it in
                    regs = {"list": list, "array": np.array}.get(kw["bare_pair"], tuple)(regs[0])
            return dnp.integrate(d, kw["dim"], regs)
        if f == "cumulative_integrate":
            return dnp.cumulative_integrate(d, kw["dim"])
        if f == "left_shift":
            return dnp.left_shift(d, kw["dim"], kw["n"])
        if f == "reference":
            return dnp.reference(d, kw["dim"], to_float(kw["old_ref"]), to_float(kw["new_ref"]))
        if f == "normalize":
            return dnp.normalize(d, dim=kw.get("dim"))
        if f == "interp":
            nc = np.array([to_float(x) for x in kw["new_coord"]])
            self.last_args.append(nc)
            return dnp.interp(d, kw["dim"], nc)
        if f == "average":
            return dnp.average(d, axis=kw["axis"])
        if f == "calculate_enhancement":
            return dnp.calculate_enhancement(d, off_spectrum_index=kw["idx"])
        if f == "apodize":
            return dnp.apodize(d, kw["dim"], kw["kind"], **{k: to_float(v) for k, v in kw.get("kwargs", {}).items()})
        if f == "autophase":
            return dnp.autophase(d, dim=kw["dim"])
        if f == "phase":
            p0 = np.array([to_float(x) for x in kw["p0"]]) if isinstance(kw["p0"], list) else to_float(kw["p0"])
            p1 = np.array([to_float(x) for x in kw["p1"]]) if isinstance(kw["p1"], list) else to_float(kw["p1"])
            self.last_args += [x for x in (p0, p1) if isinstance(x, np.ndarray)]
            return dnp.phase(d, kw["dim"], p0, p1)
        if f == "phase_cycle":
            return dnp.phase_cycle(d, kw["dim"], list(kw["rp"]))
        if f in ("fourier_transform", "inverse_fourier_transform"):
            # a flag is a truth value: a caller may hand over the builtin, the result of a NumPy comparison, or 0/1
            flag = {"np": np.bool_, "int": int}.get(kw.get("flag_style"), bool)
            fn = dnp.fourier_transform if f == "fourier_transform" else dnp.inverse_fourier_transform
            return fn(d, kw["dim"], kw["zff"], flag(bool(kw.get("shift"))), flag(bool(kw.get("convert"))))
        if f == "ndalign":
            return dnp.ndalign(d, kw["dim"])
        if f == "trace_local":
            g = kw["func"]
            if g == "smooth":
                return dnp.smooth(d, kw["dim"], kw["window_length"], kw["polyorder"])
            if g == "remove_background":
                regs = kw.get("regions")
                if regs is not None:
                    regs = [(to_float(a), to_float(b)) for a, b in regs]
                return dnp.remove_background(d, kw["dim"], kw["deg"], regs)
            if g == "pseudo_modulation":
                return dnp.pseudo_modulation(d, to_float(kw["amp"]), dim=kw["dim"])
            if g == "ndalign":
                return dnp.ndalign(d, kw["dim"])
            if g == "autophase":
                return dnp.autophase(d, kw["dim"])
            raise RuntimeError("harness: unknown trace_local func " + g)
        raise RuntimeError("harness: unknown proc " + f)
