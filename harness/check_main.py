"""Entry point of every check:  ./check <ID> [--tier quick|thorough] [--replay FILE]

Order of work (DESIGN.md section 4):
  1. regenerate the source-derived Lean tables          (tools/extract_tables.py)
  2. lake build of the model and the property's theorems (proof obligations)
  3. axiom / forbidden-token audit of those theorems
  4. correspondence run (real code vs Lean model on the same operation streams)
     and the model-independent oracles on the real code
  5. classification -> VIOLATION / KNOWN-FINDING lines, replay files, evidence file
Exit codes: 0 held, 1 violation, 2 infrastructure failure / timeout.
"""
import argparse, importlib, json, os, re, subprocess, sys, time, traceback

HERE = os.path.dirname(os.path.abspath(__file__))
VERIF = os.path.dirname(HERE)
sys.path.insert(0, HERE)
LEAN_DIR = os.path.join(VERIF, "lean")
ALLOWED_AXIOMS = {"propext", "Classical.choice", "Quot.sound"}
FORBIDDEN = re.compile(r"\b(sorry|admit|native_decide|bv_decide|implemented_by)\b|^\s*axiom\s|\bunsafe\s|maxHeartbeats\s+0")


def sh(cmd, cwd=None, timeout=3600):
    p = subprocess.run(cmd, cwd=cwd, capture_output=True, text=True, timeout=timeout)
    return p.returncode, p.stdout + p.stderr


def strip_comments(src):
    src = re.sub(r"/-.*?-/", "", src, flags=re.S)
    return "\n".join(l.split("--")[0] for l in src.splitlines())


def theorems_of(pid):
    """names of the theorems stated in DnpProofs/Props/<pid>.lean (the obligations)"""
    path = os.path.join(LEAN_DIR, "DnpProofs", "Props", pid + ".lean")
    if not os.path.exists(path):
        return [], path
    src = strip_comments(open(path).read())
    names = []
    ns = []
    for line in src.splitlines():
        m = re.match(r"\s*namespace\s+(\S+)", line)
        if m:
            ns.append(m.group(1))
        m = re.match(r"\s*end\s+(\S+)", line)
        if m and ns and ns[-1] == m.group(1):
            ns.pop()
        m = re.match(r"\s*(?:protected\s+|private\s+)?theorem\s+(\S+)", line)
        if m:
            names.append(".".join(ns + [m.group(1)]))
    return names, path


def lean_stage(pid, thorough):
    """build + audit.  returns dict(ok, obligations, discharged, log, broken=[names])"""
    res = {"ok": True, "obligations": 0, "discharged": 0, "log": "", "broken": [], "axioms": {}}
    # VERIF_SKIP_EXTRACT=1 (sanity sweeps over many modified trees running next to regular checks): leave the generated tables as
    # the last regular run wrote them, so that the sweep cannot disturb a check that runs at the same time
    if os.environ.get("VERIF_SKIP_EXTRACT") == "1":
        rc, out = 0, ""
    else:
        rc, out = sh([sys.executable, os.path.join(VERIF, "tools", "extract_tables.py")], cwd=VERIF)
    if rc != 0:
        res["ok"] = False
        res["broken"].append("table-extraction")
        res["log"] += out[-3000:]
        return res
    thms, path = theorems_of(pid)
    res["obligations"] = len(thms)
    if not thms:
        res["ok"] = False
        res["broken"].append("no theorems found in " + path)
        return res
    rc, out = sh(["lake", "build", "DnpModel", "DnpProofs.Props." + pid], cwd=LEAN_DIR)
    res["log"] += out[-4000:]
    if rc != 0:
        res["ok"] = False
        bad = re.findall(r"error: (\S+\.lean):(\d+)", out)
        res["broken"] += ["build:%s:%s" % b for b in bad[:5]] or ["build"]
        return res
    # forbidden tokens anywhere in the Lean sources
    for root, _, files in os.walk(LEAN_DIR):
        if ".lake" in root:
            continue
        for f in files:
            if f.endswith(".lean"):
                src = strip_comments(open(os.path.join(root, f)).read())
                for ln in src.splitlines():
                    if FORBIDDEN.search(ln):
                        res["ok"] = False
                        res["broken"].append("forbidden-token:%s:%s" % (f, ln.strip()[:60]))
    # axiom audit
    audit = os.path.join(LEAN_DIR, ".lake", "audit_%s.lean" % pid)
    os.makedirs(os.path.dirname(audit), exist_ok=True)
    with open(audit, "w") as fh:
        fh.write("import DnpProofs.Props.%s\n" % pid)
        for t in thms:
            fh.write("#print axioms %s\n" % t)
    rc, out = sh(["lake", "env", "lean", audit], cwd=LEAN_DIR)
    if rc != 0:
        res["ok"] = False
        res["broken"].append("audit-failed")
        res["log"] += out[-2000:]
        return res
    # parse "'name' depends on axioms: [a, b]"  /  "'name' does not depend on any axioms"
    txt = out.replace("\n ", " ")
    for t in thms:
        m = re.search(r"'%s' depends on axioms: \[([^\]]*)\]" % re.escape(t), txt)
        if m:
            ax = {a.strip() for a in m.group(1).replace("\n", " ").split(",") if a.strip()}
        elif re.search(r"'%s' does not depend on any axioms" % re.escape(t), txt):
            ax = set()
        else:
            res["ok"] = False
            res["broken"].append("audit-missing:" + t)
            continue
        res["axioms"][t] = sorted(ax)
        if ax <= ALLOWED_AXIOMS:
            res["discharged"] += 1
        else:
            res["ok"] = False
            res["broken"].append("axioms:%s:%s" % (t, sorted(ax - ALLOWED_AXIOMS)))
    if thorough:
        rc, out = sh(["lake", "env", "leanchecker", "DnpProofs.Props." + pid], cwd=LEAN_DIR, timeout=1800)
        res["leanchecker_rc"] = rc
        if rc != 0:
            res["ok"] = False
            res["broken"].append("leanchecker")
            res["log"] += out[-2000:]
    return res


def load_known():
    p = os.path.join(VERIF, "known_findings.json")
    if not os.path.exists(p):
        return {"findings": [], "fixed": []}
    return json.load(open(p))


def write_replay(pid, seed, n, payload):
    # VERIF_REPLAY_DIR: sanity runs against deliberately modified trees keep their replays out of /verif/replays
    d = os.environ.get("VERIF_REPLAY_DIR") or os.path.join(VERIF, "replays")
    os.makedirs(d, exist_ok=True)
    path = os.path.join(d, "%s-%s-%d.json" % (pid, seed, n))
    with open(path, "w") as fh:
        json.dump(payload, fh, indent=1, default=str)
    return path


def main():
    ap = argparse.ArgumentParser()
    ap.add_argument("pid")
    ap.add_argument("--tier", default=os.environ.get("VERIF_TIER") or "quick")
    ap.add_argument("--replay")
    a = ap.parse_args()
    pid = a.pid
    tier = os.environ.get("VERIF_TIER") or a.tier
    if tier not in ("quick", "thorough"):
        tier = "quick"
    seed = int(os.environ.get("VERIF_SEED", "0") or 0)
    t0 = time.time()
    try:
        mod = importlib.import_module("props." + pid)
    except Exception:
        traceback.print_exc()
        print("check: cannot load property module for", pid)
        return 2

    if a.replay:
        rp = json.load(open(a.replay))
        ops = rp.get("ops") or []
        stream_replay = getattr(getattr(mod, "P", None), "replay", None)
        if (rp.get("kind") == "impl-violation" and ops and isinstance(ops[0], dict) and "op" not in ops[0]
                and stream_replay is not None and getattr(mod.replay, "__func__", None) is getattr(stream_replay, "__func__", 0)):
            # a failure found by a model-independent oracle of a stream property (no operation stream to re-run): run the
            # property's exploration again with the tier and seed of the replay and look for the same clause
            res = mod.run(rp.get("tier", "quick"), int(rp.get("seed", 0)))
            hit = [f for f in res.get("impl_failures", []) if f.get("key") == rp.get("key")]
            out = {"fails": bool(hit), "clause": rp.get("key"), "recurs_with": [f.get("ops") for f in hit][:1]}
        else:
            out = mod.replay(rp)
        print(json.dumps(out, indent=1, default=str)[:6000])
        return 1 if out.get("fails") else 0

    try:
        lean = lean_stage(pid, tier == "thorough")
    except subprocess.TimeoutExpired:
        print("check: lean stage timed out")
        return 2
    escalate = not lean["ok"]
    # source fingerprints: the anchored files differ from the text the model was last validated against -> explore with
    # the thorough budget (never a violation by itself)
    changed_files = []
    try:
        sys.path.insert(0, os.path.join(VERIF, "tools"))
        import pin_fingerprints as _pf
        pinned = json.load(open(os.path.join(VERIF, "fingerprints.json"))).get(pid, {})
        cur = _pf.fingerprints(os.environ.get("VERIF_REPO", "/repo"), pid).get(pid, {})
        changed_files = sorted(f for f in set(pinned) | set(cur) if pinned.get(f) != cur.get(f))
    except Exception as e:  # noqa: BLE001
        changed_files = ["<fingerprints unavailable: %s>" % type(e).__name__]
    if changed_files and os.environ.get("VERIF_NO_FINGERPRINT_ESCALATION") != "1":
        escalate = True
    try:
        res = mod.run(tier=tier, seed=seed, escalate=escalate)
    except subprocess.TimeoutExpired:
        print("check: timeout in correspondence run")
        return 2
    except Exception:
        traceback.print_exc()
        print("check: infrastructure failure in property module")
        return 2

    # ------------------------------------------------------------------ classification
    known = load_known()
    known_keys = {(f["property"], f["key"]): f for f in known.get("findings", [])}
    violations, known_hits = [], {}
    n = 0
    impl_fail = res.get("impl_failures", [])      # oracle failures on the real code (genuine)
    mism = res.get("mismatches", [])              # model vs implementation disagreements
    for f in impl_fail:
        k = (pid, f["key"])
        if k in known_keys:
            known_hits.setdefault(f["key"], f)
            continue
        n += 1
        path = write_replay(pid, seed, n, {"property": pid, "tier": tier, "seed": seed,
                                           "kind": "impl-violation", **f})
        violations.append("VIOLATION property=%s replay=%s" % (pid, path))
        if n >= 5:
            break
    if not violations and (mism or not lean["ok"]):
        # a proof obligation or the correspondence no longer checks and no oracle found a
        # failing input on the implementation (the module already widened its search)
        unexplained = [m for m in mism if not m.get("explained_by_known")]
        if unexplained or not lean["ok"]:
            n += 1
            payload = {"property": pid, "tier": tier, "seed": seed,
                       "kind": "proof-broken" if not lean["ok"] else "correspondence-broken",
                       "theorem_or_stream": lean["broken"] if not lean["ok"] else
                       [{"diffs": m["diffs"], "ops": m["ops"]} for m in unexplained[:3]],
                       "lean_log": lean["log"][-3000:] if not lean["ok"] else "",
                       "model_output": [m.get("model") for m in unexplained[:1]],
                       "impl_output": [m.get("impl") for m in unexplained[:1]]}
            path = write_replay(pid, seed, n, payload)
            violations.append("VIOLATION property=%s replay=%s no-failing-input-found" % (pid, path))

    for key, f in known_hits.items():
        print("KNOWN-FINDING: property=%s %s" % (pid, known_keys[(pid, key)]["what"]))
    for v in violations:
        print(v)

    # ------------------------------------------------------------------ evidence
    cov = {
        "obligations": lean["obligations"], "discharged": lean["discharged"],
        "checker_cmd": "cd lean && lake build DnpModel DnpProofs.Props.%s && lake env lean .lake/audit_%s.lean  (#print axioms)%s"
                       % (pid, pid, " && lake env leanchecker DnpProofs.Props.%s" % pid if tier == "thorough" else ""),
        "trusted_base": [
            "Lean 4.33.0 kernel; axioms used per theorem: " + json.dumps(lean["axioms"]),
            "Mathlib v4.33.0 (single-module imports in DnpProofs only)",
            "L0 specifications of NumPy/h5py/struct primitives (DnpModel/Np, validated by conformance runs, not proved)",
            "hand-written L1 model tied to /repo by the correspondence run of this check (harness/, Driver.lean)",
        ] + res.get("trusted_extra", []),
        "evaluations": res.get("evaluations", 0),
        "distinct_nontrivial": res.get("distinct_nontrivial", 0),
        "rule": res.get("rule", ""),
        "samples": res.get("samples", [])[:5],
        "traces_validated_against_impl": res.get("traces_validated", 0),
        "exhaustive": bool(res.get("exhaustive", False)),
        "theorems": sorted(lean["axioms"].keys()),
        "lean_broken": lean["broken"],
        "mismatches": len(mism), "impl_failures": len(impl_fail),
        "known_findings_hit": sorted(known_hits.keys()),
        "unproved_clauses": res.get("unproved_clauses", []),
        "distribution": res.get("distribution", {}),
        "escalated": escalate,
        "source_fingerprint_changed": changed_files,
    }
    ev = {"property_id": pid, "tier": tier, "seed": seed, "level": "proof", "coverage": cov,
          "assumptions": res.get("assumptions", []), "wall_s": round(time.time() - t0, 2),
          "violations": len(violations)}
    # VERIF_EVIDENCE_DIR: where sanity runs against deliberately modified trees (tools/run_seeded.sh) put their evidence,
    # so that evidence/ always describes the last run against /repo as it is
    evdir = os.environ.get("VERIF_EVIDENCE_DIR") or os.path.join(VERIF, "evidence")
    os.makedirs(evdir, exist_ok=True)
    with open(os.path.join(evdir, pid + ".json"), "w") as fh:
        json.dump(ev, fh, indent=1, default=str)
    print("check %s tier=%s seed=%s: obligations %d/%d, evaluations %d, mismatches %d, impl failures %d (known %d), %.1fs"
          % (pid, tier, seed, lean["discharged"], lean["obligations"], cov["evaluations"], len(mism),
             len(impl_fail), len(known_hits), time.time() - t0))
    return 1 if violations else 0


if __name__ == "__main__":
    sys.exit(main())
