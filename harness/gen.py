"""Generators shared by the property modules.  Every random choice comes from the one
random.Random instance handed in, so a seed replays exactly."""
import itertools
from fractions import Fraction

DIM_POOL = ["t2", "t10", "a", "B", "f1", "x", "Power", "zz", "b", "t1"]


def distinct_shape(rng, ndim, lo=1, hi=5):
    """pairwise distinct extents, 1 allowed"""
    return rng.sample(range(lo, hi + 1), ndim)


def coord_axis(rng, n, kind=None):
    kind = kind or rng.choice(["asc", "desc", "nonuni", "asc", "neg"])
    if kind == "asc":
        st = Fraction(rng.choice([1, 1, 2, 1]), rng.choice([1, 2, 4]))
        x0 = Fraction(rng.randint(-4, 4), 2)
        c = [x0 + st * k for k in range(n)]
    elif kind == "desc":
        st = Fraction(rng.choice([1, 2, 3]), rng.choice([1, 2]))
        x0 = Fraction(rng.randint(0, 8), 1)
        c = [x0 - st * k for k in range(n)]
    elif kind == "neg":
        c = [Fraction(-n + k) for k in range(n)]
    else:
        c, x = [], Fraction(rng.randint(-3, 3))
        for _ in range(n):
            c.append(x)
            x += Fraction(rng.choice([1, 2, 3, 5]), rng.choice([1, 2, 4]))
    return [str(x) for x in c]


def selfdesc_values(shape, cplx=False, salt=0):
    """value = sum (idx_k + 1) * 10^k (+ salt): any misplacement changes the printed data"""
    vals = []
    for idx in itertools.product(*[range(n) for n in shape]):
        v = salt + sum((i + 1) * 10 ** k for k, i in enumerate(idx))
        if cplx:
            vals.append("%d,%d" % (v, -(v % 7) - 1))
        else:
            vals.append(str(v))
    return vals


def new_op(rng, oid, ndim=None, dims=None, shape=None, cplx=None, attrs=False, hist=0, kinds=None, salt=0):
    ndim = ndim or rng.randint(1, 4)
    dims = dims or rng.sample(DIM_POOL, ndim)
    shape = shape or distinct_shape(rng, len(dims))
    cplx = rng.random() < 0.3 if cplx is None else cplx
    op = {
        "op": "new", "id": oid, "dims": list(dims), "shape": list(shape),
        "coords": [coord_axis(rng, n, None if kinds is None else kinds[k]) for k, n in enumerate(shape)],
        "values": selfdesc_values(shape, cplx, salt),
    }
    if attrs:
        op["attrs"] = {"nmr_frequency": "400000000", "name": "'s%d'" % oid, "lst": "[1,2,3]"}
        op["dattrs"] = {"experiment_type": "'nmr_spectrum'"}
    if hist:
        op["hist"] = [["step%d" % k, sorted(rng.sample(["dim", "lw", "p0", "regions"], rng.randint(0, 3)))]
                      for k in range(hist)]
    return op


def perms(xs):
    return [list(p) for p in itertools.permutations(xs)]


def partial_orders(rng, dims, k=None):
    """a duplicate-free sublist of dims in random order"""
    k = rng.randint(1, len(dims)) if k is None else k
    return rng.sample(dims, k)
